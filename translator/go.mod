module translator

go 1.22
