#!/bin/sh
# build_race.sh VERIF REPO BUILD
# Builds the race-detector variant of harness/cmd/vhsrv against the crewjam/saml
# tree REPO (pre hook of property C20).  Uses its own module file so that it
# never touches harness/go.mod or harness/go.sum.  Failure is not fatal for the
# check: the harness then reports the race detector as unavailable.
VERIF=$1; REPO=$2; BUILD=$3
TAG=""
if [ "$REPO" != "/repo" ]; then TAG=$(printf %s "$REPO" | sha1sum | cut -c1-8); fi
mkdir -p "$BUILD"
MOD="$BUILD/race_go_$TAG"
(
  flock 9
  sed "s#=> /repo#=> $REPO#" "$VERIF/harness/go.mod" > "$MOD.mod"
  cat "$REPO/go.sum" > "$MOD.sum"
  [ -f "$VERIF/harness/go.sum.extra" ] && cat "$VERIF/harness/go.sum.extra" >> "$MOD.sum"
  cd "$VERIF/harness" && \
  CGO_ENABLED=1 GOFLAGS="-mod=mod -modfile=$MOD.mod" GOPROXY=off GOSUMDB=off GOTOOLCHAIN=local \
    go build -race -tags verif -o "$BUILD/vhsrv_race$TAG" ./cmd/vhsrv
) 9> "$BUILD/.racelock$TAG"
rc=$?
if [ $rc -ne 0 ]; then
  echo "build_race.sh: race-detector build failed (rc=$rc); continuing without it" >&2
  rm -f "$BUILD/vhsrv_race$TAG"
fi
exit 0
