// translator — regenerates the lock/access abstraction of the bundled IdP
// server from the Go source on every check run (property C20).
//
// It reads $REPO/samlidp/*.go (non-test) and $REPO/identity_provider.go with
// go/parser and writes coq/gen/SamlidpLocks.v: one list of actions
// (Acq/Rel/Rd/Wr/Call/Unsupported) per function, the list of entry points,
// and the obligation  discipline_ok samlidp_program entry_points = true
// (Concurrency.v), which a change to the locking of the code breaks.
//
// Rules (deliberately simple; everything else that touches a mutex becomes
// Unsupported, which fails the obligation):
//   - x.Lock()/x.RLock() ... x.Unlock()/x.RUnlock() in the same block   => Acq ... Rel
//   - x.Lock()/x.RLock() followed by defer x.Unlock()/x.RUnlock() in the
//     function's top-level block                                          => Acq, Rel at function end
//   - return / break / continue / goto / panic while a lock taken without
//     defer is held, a lock still held at the end of its block            => Unsupported
//   - any syntactic use of the guarded fields MemoryStore.data and
//     Server.serviceProviders is Rd; it is Wr when it is an assignment
//     target, the map of an index assignment, a delete() argument, an
//     inc/dec operand or has its address taken
//   - calls of functions and methods of the translated files (also through
//     the interfaces declared there, bound to every implementing type of the
//     translated files) are Call; method values passed to HandleFunc and
//     function literals passed to HandleFunc are entry points
//   - both branches of conditionals, loop bodies and all switch clauses are
//     concatenated (an over-approximation: the discipline must hold on every path)
//   - go statements, deferred or stored function literals with effects,
//     mutexes other than the two known ones, mutexes used as values, Try*Lock => Unsupported
//
// Standard library only.
package main

import (
	"crypto/sha256"
	"flag"
	"fmt"
	"go/ast"
	"go/parser"
	"go/token"
	"os"
	"path/filepath"
	"sort"
	"strings"
)

// ---------------------------------------------------------------------------
// what is guarded by what (the abstraction's vocabulary; Concurrency.v has the
// same two mutexes and two locations)

type fieldKey struct{ typ, field string }

var knownMutex = map[fieldKey]string{
	{"Server", "idpConfigMu"}: "IdpConfigMu",
	{"MemoryStore", "mu"}:     "Mu",
}
var guarded = map[fieldKey]string{
	{"Server", "serviceProviders"}: "ServiceProviders",
	{"MemoryStore", "data"}:        "Data",
}
var lockMethods = map[string]bool{"Lock": true, "RLock": true, "Unlock": true, "RUnlock": true,
	"TryLock": true, "TryRLock": true, "RLocker": true}

// types whose exported methods are entry points (callable concurrently by the embedding program)
var apiTypes = map[string]bool{"Server": true, "MemoryStore": true}

// set-up methods: run before the server is shared (New calls InitializeHTTP), not entry points
var setupMethods = map[string]bool{"Server.InitializeHTTP": true}

// shared objects: any other field of these types that a function reachable from
// an entry point assigns is a location guarded by the owner's mutex (fields are
// immutable after New unless a handler writes them); reads of such a field are Rd
var ownerLoc = map[string]struct{ ctor, prefix, mutex string }{
	"Server":           {"ServerField", "", "idpConfigMu"},
	"IdentityProvider": {"ServerField", "IDP.", "idpConfigMu"},
	"MemoryStore":      {"StoreField", "", "mu"},
}

const maybeRd = "RdMaybe " // placeholder resolved once the set of written fields is known

const ext = "<ext>" // a type that is known to be outside the translated files

// ---------------------------------------------------------------------------

type funcInfo struct {
	key  string // "Type.Method" or "func" ("saml.func" for package saml)
	pkg  string
	recv string // receiver type name or ""
	decl *ast.FuncDecl
	lit  *ast.FuncLit
	env  map[string]string // for literals: the enclosing environment
	note string
}

type world struct {
	fset               *token.FileSet
	structs            map[string]map[string]ast.Expr // type -> field -> type expr
	structPk           map[string]string
	ifaces             map[string][]string // interface -> method names
	funcs              map[string]*funcInfo
	order              []string
	imports            map[string]map[string]bool // pkg -> imported package identifiers
	entries            []string
	entrySet           map[string]bool
	out                map[string][]string // translated bodies
	diag               []string
	unknownMutexFields map[fieldKey]bool
	fieldWrites        map[string]map[string]string // function -> loc term -> source position
	pendingLits        []pendingLit                 // literals that call other functions: judged once everything is translated
}

// pendingLit is a function literal (not a registered handler) whose own body only reads shared fields
// and calls functions; whether those functions are themselves free of lock operations and writes is
// known only after the whole program has been translated.
type pendingLit struct {
	key, msg string
}

// resolvePendingLits: a literal that transitively reaches a lock operation, a write or an unsupported
// construct is outside the abstraction (its effects happen where it is CALLED, which the translation
// does not track); one that only reaches reads is accounted for at the place it is written.
func (w *world) resolvePendingLits() {
	for _, pl := range w.pendingLits {
		seen := map[string]bool{}
		bad := false
		var visit func(k string)
		visit = func(k string) {
			if seen[k] || bad {
				return
			}
			seen[k] = true
			for _, a := range w.out[k] {
				switch {
				case strings.HasPrefix(a, maybeRd):
				case strings.HasPrefix(a, "Call "):
					visit(strings.ReplaceAll(strings.Trim(strings.TrimPrefix(a, "Call "), `"`), `""`, `"`))
				default:
					bad = true
				}
			}
		}
		visit(pl.key)
		if bad {
			w.out[pl.key] = append([]string{"Unsupported " + coqStr(pl.msg)}, w.out[pl.key]...)
			w.diag = append(w.diag, pl.key+": "+pl.msg)
		}
	}
}

func (w *world) addEntry(k string) {
	if !w.entrySet[k] {
		w.entrySet[k] = true
		w.entries = append(w.entries, k)
	}
}

func fatal(f string, a ...any) {
	fmt.Fprintf(os.Stderr, "translator: "+f+"\n", a...)
	os.Exit(1)
}

func main() {
	repo := flag.String("repo", "/repo", "crewjam/saml source tree")
	out := flag.String("out", "", "output .v file")
	verbose := flag.Bool("v", false, "print the translation")
	flag.Parse()
	if *out == "" {
		fatal("-out required")
	}
	files, _ := filepath.Glob(filepath.Join(*repo, "samlidp", "*.go"))
	var srcs []string
	for _, f := range files {
		if !strings.HasSuffix(f, "_test.go") {
			srcs = append(srcs, f)
		}
	}
	sort.Strings(srcs)
	srcs = append(srcs, filepath.Join(*repo, "identity_provider.go"))

	w := &world{fset: token.NewFileSet(), structs: map[string]map[string]ast.Expr{}, structPk: map[string]string{},
		ifaces: map[string][]string{}, funcs: map[string]*funcInfo{}, imports: map[string]map[string]bool{},
		entrySet: map[string]bool{}, out: map[string][]string{}, unknownMutexFields: map[fieldKey]bool{},
		fieldWrites: map[string]map[string]string{}}
	h := sha256.New()
	var parsed []*ast.File
	for _, f := range srcs {
		b, err := os.ReadFile(f)
		if err != nil {
			fatal("%v", err)
		}
		h.Write(b)
		af, err := parser.ParseFile(w.fset, f, b, parser.SkipObjectResolution)
		if err != nil {
			fatal("parse %s: %v", f, err)
		}
		parsed = append(parsed, af)
	}
	for _, af := range parsed {
		w.collect(af)
	}
	// every mutex-typed field must be one of the two the abstraction knows
	for k := range w.unknownMutexFields {
		w.diag = append(w.diag, fmt.Sprintf("mutex field %s.%s is not part of the abstraction", k.typ, k.field))
	}
	// translate every function; literals are discovered on the way
	for i := 0; i < len(w.order); i++ {
		if _, done := w.out[w.order[i]]; !done {
			w.translate(w.funcs[w.order[i]])
		}
	}
	// entry points: exported methods of the API types + registered handlers
	for _, k := range w.order {
		fi := w.funcs[k]
		if fi.decl != nil && fi.recv != "" && apiTypes[fi.recv] && ast.IsExported(fi.decl.Name.Name) && !setupMethods[k] {
			w.addEntry(k)
		}
	}
	sort.Strings(w.entries)
	w.resolvePendingLits()
	w.resolveFieldReads()

	var sb strings.Builder
	sb.WriteString("(* generated by /verif/translator from the Go source; do not edit.\n")
	for _, f := range srcs {
		rel, _ := filepath.Rel(*repo, f)
		sb.WriteString("   source: " + rel + "\n")
	}
	sb.WriteString(fmt.Sprintf("   sha256 of the sources: %x *)\n", h.Sum(nil)))
	sb.WriteString("From Saml Require Import Base Concurrency ConcurrencyStore.\n\n")
	sb.WriteString("Definition samlidp_program : program := [\n")
	for i, k := range w.order {
		if i > 0 {
			sb.WriteString(";\n")
		}
		fi := w.funcs[k]
		if fi.note != "" {
			sb.WriteString("  (* " + strings.ReplaceAll(fi.note, "*)", "* )") + " *)\n")
		}
		sb.WriteString("  (" + coqStr(k) + ", [" + strings.Join(w.out[k], "; ") + "])")
	}
	sb.WriteString("\n].\n\n")
	items := make([]string, len(w.entries))
	for i, e := range w.entries {
		items[i] = coqStr(e)
	}
	sb.WriteString("Definition entry_points : list fname := [\n  " + strings.Join(items, ";\n  ") + "\n].\n\n")
	if len(w.unknownMutexFields) > 0 {
		sb.WriteString("(* a mutex outside the abstraction was found: the obligation is made to fail *)\n")
		sb.WriteString("Definition samlidp_program_checked : program := (\"<unknown mutex>\", [Unsupported \"mutex field outside the abstraction\"]) :: samlidp_program.\n")
		sb.WriteString("Definition entry_points_checked : list fname := \"<unknown mutex>\" :: entry_points.\n")
	} else {
		sb.WriteString("Definition samlidp_program_checked : program := samlidp_program.\n")
		sb.WriteString("Definition entry_points_checked : list fname := entry_points.\n")
	}
	sb.WriteString("\n(* rejected entry points with the first action that breaks the discipline (empty when the obligation holds) *)\n")
	sb.WriteString("Eval vm_compute in (discipline_report samlidp_program_checked entry_points_checked).\n")
	sb.WriteString("\n(* the obligation a change to the code's locking breaks *)\n")
	sb.WriteString("Theorem samlidp_discipline_ok : discipline_ok samlidp_program_checked entry_points_checked = true.\n")
	sb.WriteString("Proof. vm_compute. reflexivity. Qed.\n")
	// start-up points: the exported constructors of package samlidp that return a *Server, and the set-up methods
	var starts []string
	for _, k := range w.order {
		fi := w.funcs[k]
		if fi.decl == nil {
			continue
		}
		if setupMethods[k] {
			starts = append(starts, k)
		}
		if fi.recv == "" && fi.pkg == "samlidp" && ast.IsExported(fi.decl.Name.Name) && fi.decl.Type.Results != nil {
			for _, r := range fi.decl.Type.Results.List {
				if w.normalize(r.Type, fi.pkg) == "Server" {
					starts = append(starts, k)
					break
				}
			}
		}
	}
	sort.Strings(starts)
	sitems := make([]string, len(starts))
	for i, e := range starts {
		sitems[i] = coqStr(e)
	}
	sb.WriteString("\n(* start-up code: lock operations balanced, ordered and not re-entrant (accesses need no guard before the server is shared) *)\n")
	sb.WriteString("Definition startup_points : list fname := [" + strings.Join(sitems, "; ") + "].\n")
	sb.WriteString("Eval vm_compute in (discipline_report (strip_program samlidp_program_checked) startup_points).\n")
	sb.WriteString("Theorem samlidp_startup_ok : startup_ok samlidp_program_checked startup_points = true.\n")
	sb.WriteString("Proof. vm_compute. reflexivity. Qed.\n")
	sb.WriteString("\n(* the four store methods are, action for action, the lock/access projection of the\n   operations of ConcurrencyStore.v, whose linearizability is proved there *)\n")
	sb.WriteString("Theorem samlidp_store_projection_ok : store_projection_ok samlidp_program = true.\n")
	sb.WriteString("Proof. vm_compute. reflexivity. Qed.\n")
	if err := os.MkdirAll(filepath.Dir(*out), 0o755); err != nil {
		fatal("%v", err)
	}
	if err := os.WriteFile(*out, []byte(sb.String()), 0o644); err != nil {
		fatal("%v", err)
	}
	if *verbose {
		for _, k := range w.order {
			if len(w.out[k]) > 0 {
				fmt.Printf("%-45s %s\n", k, strings.Join(w.out[k], "; "))
			}
		}
		fmt.Println("entry points:", strings.Join(w.entries, ", "))
	}
	for _, d := range w.diag {
		fmt.Fprintln(os.Stderr, "translator: note:", d)
	}
}

// effects counts the actions other than read placeholders
func effects(acts []string) int {
	n := 0
	for _, a := range acts {
		if !strings.HasPrefix(a, maybeRd) {
			n++
		}
	}
	return n
}

// resolveFieldReads: the fields of the shared objects written by functions
// reachable from an entry point are guarded locations; reads of exactly those
// fields become Rd, reads of never-written (immutable) fields are dropped.
func (w *world) resolveFieldReads() {
	reach := map[string]bool{}
	var visit func(k string)
	visit = func(k string) {
		if reach[k] {
			return
		}
		reach[k] = true
		for _, a := range w.out[k] {
			if strings.HasPrefix(a, "Call ") {
				visit(strings.ReplaceAll(strings.Trim(strings.TrimPrefix(a, "Call "), `"`), `""`, `"`))
			}
		}
	}
	for _, e := range w.entries {
		visit(e)
	}
	written := map[string]bool{}
	var fns []string
	for fn := range w.fieldWrites {
		fns = append(fns, fn)
	}
	sort.Strings(fns)
	for _, fn := range fns {
		if !reach[fn] {
			continue
		}
		for loc, pos := range w.fieldWrites[fn] {
			written[loc] = true
			w.diag = append(w.diag, fmt.Sprintf("%s: %s: shared field %s is assigned in a function reachable from an entry point; it is treated as a location guarded by its owner's mutex", fn, pos, loc))
		}
	}
	for k, acts := range w.out {
		var keep []string
		for _, a := range acts {
			if strings.HasPrefix(a, maybeRd) {
				loc := strings.TrimPrefix(a, maybeRd)
				if written[loc] {
					keep = append(keep, "Rd "+loc)
				}
				continue
			}
			keep = append(keep, a)
		}
		w.out[k] = keep
	}
}

// sharedField recognises  <expr of a shared object type>.<field>  (other than the
// mutexes and the two maps, which have their own rules) and returns its location term
func (t *tr) sharedField(e ast.Expr) string {
	x, ok := e.(*ast.SelectorExpr)
	if !ok {
		if p, ok := e.(*ast.ParenExpr); ok {
			return t.sharedField(p.X)
		}
		return ""
	}
	owner := t.typeOf(x.X)
	o, ok := ownerLoc[owner]
	if !ok {
		return ""
	}
	if _, isField := t.w.structs[owner][x.Sel.Name]; !isField {
		return "" // a method value or a promoted member
	}
	if _, isMu := knownMutex[fieldKey{owner, x.Sel.Name}]; isMu || t.w.unknownMutexFields[fieldKey{owner, x.Sel.Name}] {
		return ""
	}
	if _, isG := guarded[fieldKey{owner, x.Sel.Name}]; isG {
		return ""
	}
	return "(" + o.ctor + " " + coqStr(o.prefix+x.Sel.Name) + ")"
}

func (t *tr) fieldWrite(pos token.Pos, loc string) {
	t.emit("Wr " + loc)
	if t.w.fieldWrites[t.fi.key] == nil {
		t.w.fieldWrites[t.fi.key] = map[string]string{}
	}
	p := t.w.fset.Position(pos)
	t.w.fieldWrites[t.fi.key][loc] = fmt.Sprintf("%s:%d", filepath.Base(p.Filename), p.Line)
}

func coqStr(s string) string { return `"` + strings.ReplaceAll(s, `"`, `""`) + `"` }

// ---------------------------------------------------------------------------
// declarations

func (w *world) collect(af *ast.File) {
	pkg := af.Name.Name
	if w.imports[pkg] == nil {
		w.imports[pkg] = map[string]bool{}
	}
	for _, im := range af.Imports {
		path := strings.Trim(im.Path.Value, `"`)
		name := path[strings.LastIndex(path, "/")+1:]
		if im.Name != nil {
			name = im.Name.Name
		}
		w.imports[pkg][name] = true
	}
	for _, d := range af.Decls {
		switch d := d.(type) {
		case *ast.GenDecl:
			for _, sp := range d.Specs {
				switch sp := sp.(type) {
				case *ast.TypeSpec:
					switch t := sp.Type.(type) {
					case *ast.StructType:
						if _, dup := w.structs[sp.Name.Name]; dup {
							fatal("type name %s declared in both packages", sp.Name.Name)
						}
						fields := map[string]ast.Expr{}
						for _, f := range t.Fields.List {
							if isMutexType(f.Type) {
								if len(f.Names) == 0 {
									w.unknownMutexFields[fieldKey{sp.Name.Name, "<embedded>"}] = true
								}
								for _, n := range f.Names {
									if _, ok := knownMutex[fieldKey{sp.Name.Name, n.Name}]; !ok {
										w.unknownMutexFields[fieldKey{sp.Name.Name, n.Name}] = true
									}
								}
							}
							for _, n := range f.Names {
								fields[n.Name] = f.Type
							}
						}
						w.structs[sp.Name.Name] = fields
						w.structPk[sp.Name.Name] = pkg
					case *ast.InterfaceType:
						var ms []string
						for _, m := range t.Methods.List {
							for _, n := range m.Names {
								ms = append(ms, n.Name)
							}
						}
						w.ifaces[sp.Name.Name] = ms
					}
				case *ast.ValueSpec:
					if sp.Type != nil && isMutexType(sp.Type) {
						for _, n := range sp.Names {
							w.unknownMutexFields[fieldKey{"<package " + pkg + ">", n.Name}] = true
						}
					}
				}
			}
		case *ast.FuncDecl:
			fi := &funcInfo{pkg: pkg, decl: d}
			if d.Recv != nil && len(d.Recv.List) == 1 {
				fi.recv = baseTypeName(d.Recv.List[0].Type)
				fi.key = fi.recv + "." + d.Name.Name
			} else if pkg == "saml" {
				fi.key = "saml." + d.Name.Name
			} else {
				fi.key = d.Name.Name
			}
			if _, dup := w.funcs[fi.key]; dup {
				fatal("duplicate function %s", fi.key)
			}
			w.funcs[fi.key] = fi
			w.order = append(w.order, fi.key)
		}
	}
}

func isMutexType(e ast.Expr) bool {
	switch t := e.(type) {
	case *ast.StarExpr:
		return isMutexType(t.X)
	case *ast.SelectorExpr:
		if x, ok := t.X.(*ast.Ident); ok && x.Name == "sync" {
			return t.Sel.Name == "Mutex" || t.Sel.Name == "RWMutex"
		}
	}
	return false
}

func baseTypeName(e ast.Expr) string {
	switch t := e.(type) {
	case *ast.StarExpr:
		return baseTypeName(t.X)
	case *ast.Ident:
		return t.Name
	case *ast.IndexExpr:
		return baseTypeName(t.X)
	}
	return ""
}

// normalize maps a type expression to the name of a struct/interface of the
// translated files, to ext for a type known to be outside, or "" if unknown.
func (w *world) normalize(e ast.Expr, pkg string) string {
	switch t := e.(type) {
	case nil:
		return ""
	case *ast.StarExpr:
		return w.normalize(t.X, pkg)
	case *ast.ParenExpr:
		return w.normalize(t.X, pkg)
	case *ast.Ident:
		if _, ok := w.structs[t.Name]; ok {
			return t.Name
		}
		if _, ok := w.ifaces[t.Name]; ok {
			return t.Name
		}
		switch t.Name {
		case "string", "bool", "int", "int64", "int32", "uint", "uint64", "byte", "rune", "error", "float64", "any", "uint8", "uint32", "int8", "int16", "uint16", "float32":
			return ext
		}
		return "" // a named type declared in a file that is not translated
	case *ast.SelectorExpr:
		if x, ok := t.X.(*ast.Ident); ok {
			if x.Name == "saml" || x.Name == "samlidp" {
				if _, ok := w.structs[t.Sel.Name]; ok {
					return t.Sel.Name
				}
				if _, ok := w.ifaces[t.Sel.Name]; ok {
					return t.Sel.Name
				}
				return "" // declared in package saml outside identity_provider.go
			}
			return ext
		}
	case *ast.ArrayType, *ast.MapType, *ast.ChanType, *ast.FuncType, *ast.InterfaceType, *ast.StructType:
		return ext
	}
	return ""
}

// ---------------------------------------------------------------------------
// translation of one function body

type heldRec struct {
	m        string
	w        bool
	deferred bool
	block    int
}

type tr struct {
	w       *world
	fi      *funcInfo
	env     map[string]string
	acts    []string
	held    []heldRec
	defers  []string // actions to emit at function end, in registration order
	blockID int
	nextBlk int
	nlit    int
}

func (t *tr) emit(a string) { t.acts = append(t.acts, a) }
func (t *tr) unsupported(pos token.Pos, why string) {
	p := t.w.fset.Position(pos)
	msg := fmt.Sprintf("%s:%d: %s", filepath.Base(p.Filename), p.Line, why)
	t.emit("Unsupported " + coqStr(msg))
	t.w.diag = append(t.w.diag, t.fi.key+": "+msg)
}

func (w *world) translate(fi *funcInfo) {
	t := &tr{w: w, fi: fi, env: map[string]string{}}
	var typ *ast.FuncType
	var body *ast.BlockStmt
	if fi.decl != nil {
		typ, body = fi.decl.Type, fi.decl.Body
		if fi.decl.Recv != nil {
			for _, f := range fi.decl.Recv.List {
				for _, n := range f.Names {
					t.env[n.Name] = w.normalize(f.Type, fi.pkg)
				}
			}
		}
	} else {
		typ, body = fi.lit.Type, fi.lit.Body
		for k, v := range fi.env {
			t.env[k] = v
		}
	}
	if typ.Params != nil {
		for _, f := range typ.Params.List {
			for _, n := range f.Names {
				t.env[n.Name] = w.normalize(f.Type, fi.pkg)
			}
		}
	}
	if typ.Results != nil {
		for _, f := range typ.Results.List {
			for _, n := range f.Names {
				t.env[n.Name] = w.normalize(f.Type, fi.pkg)
			}
		}
	}
	if body != nil {
		t.block(body.List, body.End())
	}
	for i := len(t.defers) - 1; i >= 0; i-- {
		t.emit(t.defers[i])
	}
	w.out[fi.key] = t.acts
}

// block walks a statement list; locks taken in it without defer must be released in it
func (t *tr) block(list []ast.Stmt, end token.Pos) {
	saved := t.blockID
	t.nextBlk++
	t.blockID = t.nextBlk
	me := t.blockID
	for _, s := range list {
		t.stmt(s)
	}
	var keep []heldRec
	for _, h := range t.held {
		if h.block == me && !h.deferred {
			t.unsupported(end, "lock on "+h.m+" is not released in the block that took it")
			continue
		}
		keep = append(keep, h)
	}
	t.held = keep
	t.blockID = saved
}

func (t *tr) leavesPath(pos token.Pos, what string) {
	for _, h := range t.held {
		if !h.deferred {
			t.unsupported(pos, what+" while "+h.m+" is held without a deferred unlock")
			return
		}
	}
}

// mutexOf recognises  <expr>.<mutex field>  and returns the abstraction's mutex
// name, "?" for a mutex outside the abstraction, "" if e is not a mutex.
func (t *tr) mutexOf(e ast.Expr) string {
	switch x := e.(type) {
	case *ast.ParenExpr:
		return t.mutexOf(x.X)
	case *ast.UnaryExpr:
		if x.Op == token.AND {
			return t.mutexOf(x.X)
		}
	case *ast.StarExpr:
		return t.mutexOf(x.X)
	case *ast.SelectorExpr:
		owner := t.typeOf(x.X)
		if owner != "" && owner != ext {
			if m, ok := knownMutex[fieldKey{owner, x.Sel.Name}]; ok {
				return m
			}
			if t.w.unknownMutexFields[fieldKey{owner, x.Sel.Name}] {
				return "?"
			}
			return ""
		}
		if owner == "" { // unresolved receiver: go by the field name
			for k, m := range knownMutex {
				if k.field == x.Sel.Name {
					return m
				}
			}
			for k := range t.w.unknownMutexFields {
				if k.field == x.Sel.Name {
					return "?"
				}
			}
		}
	case *ast.Ident:
		for k := range t.w.unknownMutexFields {
			if strings.HasPrefix(k.typ, "<package") && k.field == x.Name {
				return "?"
			}
		}
	}
	return ""
}

// guardedLoc recognises a use of a guarded field
func (t *tr) guardedLoc(e ast.Expr) string {
	x, ok := e.(*ast.SelectorExpr)
	if !ok {
		if p, ok := e.(*ast.ParenExpr); ok {
			return t.guardedLoc(p.X)
		}
		return ""
	}
	owner := t.typeOf(x.X)
	for k, l := range guarded {
		if k.field == x.Sel.Name && (owner == k.typ || owner == "") {
			return l
		}
	}
	return ""
}

// lockCall recognises x.Lock() etc. on a mutex; returns (mutex, method)
func (t *tr) lockCall(e ast.Expr) (string, string, bool) {
	c, ok := e.(*ast.CallExpr)
	if !ok {
		return "", "", false
	}
	s, ok := c.Fun.(*ast.SelectorExpr)
	if !ok || !lockMethods[s.Sel.Name] {
		return "", "", false
	}
	m := t.mutexOf(s.X)
	if m == "" {
		// Lock() on something that is not a recognised mutex field: only a
		// problem if the receiver could be (or embed) a mutex
		ty := t.typeOf(s.X)
		if ty == ext {
			return "", "", false
		}
		if ty != "" {
			if _, isMethod := t.w.funcs[ty+"."+s.Sel.Name]; isMethod {
				return "", "", false // an ordinary method that happens to be called Lock
			}
		}
		return "?", s.Sel.Name, true
	}
	return m, s.Sel.Name, true
}

func (t *tr) doLock(pos token.Pos, m, method string) {
	if m == "?" {
		t.unsupported(pos, method+" on a mutex outside the abstraction")
		return
	}
	switch method {
	case "Lock", "RLock":
		w := method == "Lock"
		t.emit(fmt.Sprintf("Acq %s %v", m, w))
		t.held = append(t.held, heldRec{m: m, w: w, block: t.blockID})
	case "Unlock", "RUnlock":
		w := method == "Unlock"
		for i := len(t.held) - 1; i >= 0; i-- {
			h := t.held[i]
			if h.m == m && h.w == w && !h.deferred {
				if h.block != t.blockID {
					t.unsupported(pos, method+" in a different block than the matching lock")
				}
				t.held = append(t.held[:i], t.held[i+1:]...)
				t.emit(fmt.Sprintf("Rel %s %v", m, w))
				return
			}
		}
		// no matching lock in this function: emit the release (the checker rejects it unless a caller holds the lock) and flag it
		t.unsupported(pos, method+" without a matching lock in this function")
	default:
		t.unsupported(pos, method+" is outside the supported lock operations")
	}
}

func (t *tr) stmt(s ast.Stmt) {
	switch s := s.(type) {
	case nil:
	case *ast.ExprStmt:
		if m, method, ok := t.lockCall(s.X); ok {
			t.doLock(s.Pos(), m, method)
			return
		}
		t.expr(s.X)
	case *ast.AssignStmt:
		for _, r := range s.Rhs {
			t.expr(r)
		}
		for _, l := range s.Lhs {
			t.target(l)
		}
		if s.Tok == token.DEFINE || s.Tok == token.ASSIGN {
			t.bind(s.Lhs, s.Rhs)
		}
	case *ast.IncDecStmt:
		t.target(s.X)
	case *ast.DeclStmt:
		if g, ok := s.Decl.(*ast.GenDecl); ok {
			for _, sp := range g.Specs {
				if v, ok := sp.(*ast.ValueSpec); ok {
					for _, e := range v.Values {
						t.expr(e)
					}
					if v.Type != nil {
						if isMutexType(v.Type) {
							t.unsupported(v.Pos(), "local mutex variable")
						}
						for _, n := range v.Names {
							t.env[n.Name] = t.w.normalize(v.Type, t.fi.pkg)
						}
					} else {
						lhs := make([]ast.Expr, len(v.Names))
						for i, n := range v.Names {
							lhs[i] = n
						}
						t.bind(lhs, v.Values)
					}
				}
			}
		}
	case *ast.ReturnStmt:
		for _, r := range s.Results {
			t.expr(r)
		}
		t.leavesPath(s.Pos(), "return")
	case *ast.BranchStmt:
		t.leavesPath(s.Pos(), s.Tok.String())
	case *ast.BlockStmt:
		t.block(s.List, s.End())
	case *ast.IfStmt:
		t.stmt(s.Init)
		t.expr(s.Cond)
		t.block(s.Body.List, s.Body.End())
		if s.Else != nil {
			switch e := s.Else.(type) {
			case *ast.BlockStmt:
				t.block(e.List, e.End())
			default:
				t.stmt(e)
			}
		}
	case *ast.ForStmt:
		t.stmt(s.Init)
		t.expr(s.Cond)
		t.block(s.Body.List, s.Body.End())
		t.stmt(s.Post)
	case *ast.RangeStmt:
		t.expr(s.X)
		if s.Key != nil {
			t.target(s.Key)
		}
		if s.Value != nil {
			t.target(s.Value)
		}
		t.block(s.Body.List, s.Body.End())
	case *ast.SwitchStmt:
		t.stmt(s.Init)
		t.expr(s.Tag)
		for _, c := range s.Body.List {
			cc := c.(*ast.CaseClause)
			for _, e := range cc.List {
				t.expr(e)
			}
			t.block(cc.Body, cc.End())
		}
	case *ast.TypeSwitchStmt:
		t.stmt(s.Init)
		t.stmt(s.Assign)
		for _, c := range s.Body.List {
			cc := c.(*ast.CaseClause)
			t.block(cc.Body, cc.End())
		}
	case *ast.SelectStmt:
		for _, c := range s.Body.List {
			cc := c.(*ast.CommClause)
			t.stmt(cc.Comm)
			t.block(cc.Body, cc.End())
		}
	case *ast.LabeledStmt:
		t.stmt(s.Stmt)
	case *ast.SendStmt:
		t.expr(s.Chan)
		t.expr(s.Value)
	case *ast.DeferStmt:
		t.deferStmt(s)
	case *ast.GoStmt:
		n := len(t.acts)
		t.expr(s.Call)
		if effects(t.acts[n:]) > 0 {
			t.acts = t.acts[:n]
			t.unsupported(s.Pos(), "go statement whose body takes locks, touches guarded state or calls translated code")
		}
	case *ast.EmptyStmt:
	default:
		t.unsupported(s.Pos(), fmt.Sprintf("statement %T", s))
	}
}

func (t *tr) deferStmt(s *ast.DeferStmt) {
	if m, method, ok := t.lockCall(s.Call); ok {
		if m == "?" {
			t.unsupported(s.Pos(), "deferred "+method+" on a mutex outside the abstraction")
			return
		}
		if method != "Unlock" && method != "RUnlock" {
			t.unsupported(s.Pos(), "deferred "+method)
			return
		}
		w := method == "Unlock"
		if t.blockID != 1 {
			t.unsupported(s.Pos(), "deferred unlock outside the function's top-level block")
			return
		}
		for i := len(t.held) - 1; i >= 0; i-- {
			h := &t.held[i]
			if h.m == m && h.w == w && !h.deferred && h.block == 1 {
				h.deferred = true
				t.defers = append(t.defers, fmt.Sprintf("Rel %s %v", m, w))
				return
			}
		}
		t.unsupported(s.Pos(), "deferred "+method+" without a preceding matching lock")
		return
	}
	// any other deferred call: arguments are evaluated now, the call runs at function end
	n := len(t.acts)
	t.expr(s.Call)
	if effects(t.acts[n:]) > 0 {
		if _, isLit := s.Call.Fun.(*ast.FuncLit); isLit {
			t.acts = t.acts[:n]
			t.unsupported(s.Pos(), "deferred function literal with effects")
			return
		}
		late := append([]string{}, t.acts[n:]...)
		t.acts = t.acts[:n]
		// registration order is reversed at function end; keep each deferred call's own order
		for i := len(late) - 1; i >= 0; i-- {
			t.defers = append(t.defers, late[i])
		}
	}
}

// target handles an assignment target / inc-dec operand
func (t *tr) target(e ast.Expr) {
	switch x := e.(type) {
	case *ast.Ident:
		return
	case *ast.ParenExpr:
		t.target(x.X)
	case *ast.IndexExpr:
		if l := t.guardedLoc(x.X); l != "" {
			t.expr(x.Index)
			if sel, ok := x.X.(*ast.SelectorExpr); ok {
				t.expr(sel.X)
			}
			t.emit("Wr " + l)
			return
		}
		if l := t.sharedField(x.X); l != "" { // element of a map/slice field of a shared object
			t.expr(x.Index)
			if sel, ok := x.X.(*ast.SelectorExpr); ok {
				t.expr(sel.X)
			}
			t.fieldWrite(x.Pos(), l)
			return
		}
		t.expr(x.X)
		t.expr(x.Index)
	case *ast.SelectorExpr:
		if l := t.guardedLoc(x); l != "" {
			t.expr(x.X)
			t.emit("Wr " + l)
			return
		}
		if l := t.sharedField(x); l != "" {
			t.expr(x.X)
			t.fieldWrite(x.Pos(), l)
			return
		}
		if t.mutexOf(x) != "" {
			t.unsupported(x.Pos(), "assignment to a mutex")
			return
		}
		t.expr(x.X)
	case *ast.StarExpr:
		t.expr(x.X)
	default:
		t.expr(e)
	}
}

// bind records the types of newly assigned identifiers
func (t *tr) bind(lhs, rhs []ast.Expr) {
	if len(lhs) == len(rhs) {
		for i, l := range lhs {
			if id, ok := l.(*ast.Ident); ok && id.Name != "_" {
				if ty := t.typeOf(rhs[i]); ty != "" || t.env[id.Name] == "" {
					t.env[id.Name] = ty
				}
			}
		}
		return
	}
	if len(rhs) == 1 {
		tys := t.resultTypes(rhs[0])
		for i, l := range lhs {
			if id, ok := l.(*ast.Ident); ok && id.Name != "_" {
				ty := ""
				if i < len(tys) {
					ty = tys[i]
				}
				if ty != "" || t.env[id.Name] == "" {
					t.env[id.Name] = ty
				}
			}
		}
	}
}

// callee resolves a call to the translated functions it may reach
func (t *tr) callee(c *ast.CallExpr) (keys []string, resolved bool) {
	switch f := c.Fun.(type) {
	case *ast.Ident:
		if _, isVar := t.env[f.Name]; isVar {
			return nil, false // a function-typed variable
		}
		k := f.Name
		if t.fi.pkg == "saml" {
			k = "saml." + f.Name
		}
		if _, ok := t.w.funcs[k]; ok {
			return []string{k}, true
		}
		return nil, true // builtin, conversion, or a function of a file that is not translated
	case *ast.SelectorExpr:
		if x, ok := f.X.(*ast.Ident); ok {
			if _, isVar := t.env[x.Name]; !isVar && t.w.imports[t.fi.pkg][x.Name] {
				if x.Name == "saml" {
					if _, ok := t.w.funcs["saml."+f.Sel.Name]; ok {
						return []string{"saml." + f.Sel.Name}, true
					}
				}
				return nil, true // another package
			}
		}
		ty := t.typeOf(f.X)
		switch {
		case ty == ext:
			return nil, true
		case ty != "":
			if _, ok := t.w.structs[ty]; ok {
				if _, ok := t.w.funcs[ty+"."+f.Sel.Name]; ok {
					return []string{ty + "." + f.Sel.Name}, true
				}
				return nil, true // promoted method of an embedded external type, or a function-typed field
			}
			if ms, ok := t.w.ifaces[ty]; ok {
				// every type of the translated files that implements the interface
				for _, name := range t.w.sortedStructs() {
					all := true
					for _, m := range ms {
						if _, ok := t.w.funcs[name+"."+m]; !ok {
							all = false
						}
					}
					if all && len(ms) > 0 {
						keys = append(keys, name+"."+f.Sel.Name)
					}
				}
				return keys, true
			}
			return nil, true
		default:
			// unresolved receiver: every translated method of that name (over-approximation)
			for _, name := range t.w.sortedStructs() {
				if _, ok := t.w.funcs[name+"."+f.Sel.Name]; ok {
					keys = append(keys, name+"."+f.Sel.Name)
				}
			}
			if len(keys) > 0 {
				p := t.w.fset.Position(c.Pos())
				t.w.diag = append(t.w.diag, fmt.Sprintf("%s: %s:%d: receiver of .%s() unresolved; bound to %s",
					t.fi.key, filepath.Base(p.Filename), p.Line, f.Sel.Name, strings.Join(keys, ", ")))
			}
			return keys, false
		}
	}
	return nil, false
}

func (w *world) sortedStructs() []string {
	var names []string
	for n := range w.structs {
		names = append(names, n)
	}
	sort.Strings(names)
	return names
}

func (t *tr) resultTypes(e ast.Expr) []string {
	c, ok := e.(*ast.CallExpr)
	if !ok {
		if ta, ok := e.(*ast.TypeAssertExpr); ok && ta.Type != nil {
			return []string{t.w.normalize(ta.Type, t.fi.pkg), ext}
		}
		return nil
	}
	keys, _ := t.callee(c)
	if len(keys) != 1 {
		return nil
	}
	fi := t.w.funcs[keys[0]]
	if fi.decl == nil || fi.decl.Type.Results == nil {
		return nil
	}
	var out []string
	for _, f := range fi.decl.Type.Results.List {
		n := len(f.Names)
		if n == 0 {
			n = 1
		}
		for i := 0; i < n; i++ {
			out = append(out, t.w.normalize(f.Type, fi.pkg))
		}
	}
	return out
}

func (t *tr) typeOf(e ast.Expr) string {
	switch x := e.(type) {
	case *ast.Ident:
		if ty, ok := t.env[x.Name]; ok {
			return ty
		}
		return ""
	case *ast.ParenExpr:
		return t.typeOf(x.X)
	case *ast.StarExpr:
		return t.typeOf(x.X)
	case *ast.UnaryExpr:
		if x.Op == token.AND {
			return t.typeOf(x.X)
		}
		return ext
	case *ast.CompositeLit:
		return t.w.normalize(x.Type, t.fi.pkg)
	case *ast.SelectorExpr:
		if id, ok := x.X.(*ast.Ident); ok {
			if _, isVar := t.env[id.Name]; !isVar && t.w.imports[t.fi.pkg][id.Name] {
				return "" // package-level variable of another package
			}
		}
		owner := t.typeOf(x.X)
		if owner == ext {
			return ext
		}
		if fs, ok := t.w.structs[owner]; ok {
			if ft, ok := fs[x.Sel.Name]; ok {
				return t.w.normalize(ft, t.w.structPk[owner])
			}
			return ""
		}
		return ""
	case *ast.CallExpr:
		tys := t.resultTypes(x)
		if len(tys) > 0 {
			return tys[0]
		}
		// a call into another package yields a value of that package (or a builtin)
		if keys, resolved := t.callee(x); resolved && len(keys) == 0 {
			return ext
		}
		return ""
	case *ast.TypeAssertExpr:
		return t.w.normalize(x.Type, t.fi.pkg)
	case *ast.BasicLit, *ast.BinaryExpr, *ast.FuncLit:
		return ext
	case *ast.IndexExpr, *ast.SliceExpr:
		return "" // element types are not tracked
	}
	return ""
}

func (t *tr) expr(e ast.Expr) {
	switch x := e.(type) {
	case nil:
	case *ast.Ident, *ast.BasicLit:
	case *ast.ParenExpr:
		t.expr(x.X)
	case *ast.SelectorExpr:
		if l := t.guardedLoc(x); l != "" {
			t.expr(x.X)
			t.emit("Rd " + l)
			return
		}
		if m := t.mutexOf(x); m != "" {
			t.unsupported(x.Pos(), "mutex used as a value")
			return
		}
		t.expr(x.X)
		if l := t.sharedField(x); l != "" {
			t.emit(maybeRd + l)
		}
	case *ast.StarExpr:
		t.expr(x.X)
	case *ast.UnaryExpr:
		if x.Op == token.AND {
			if l := t.guardedLoc(x.X); l != "" {
				t.emit("Wr " + l) // address taken: may be written through the pointer
				return
			}
			if t.mutexOf(x.X) != "" {
				t.unsupported(x.Pos(), "address of a mutex taken")
				return
			}
		}
		t.expr(x.X)
	case *ast.BinaryExpr:
		t.expr(x.X)
		t.expr(x.Y)
	case *ast.IndexExpr:
		t.expr(x.X)
		t.expr(x.Index)
	case *ast.IndexListExpr:
		t.expr(x.X)
	case *ast.SliceExpr:
		t.expr(x.X)
		t.expr(x.Low)
		t.expr(x.High)
		t.expr(x.Max)
	case *ast.TypeAssertExpr:
		t.expr(x.X)
	case *ast.KeyValueExpr:
		t.expr(x.Key)
		t.expr(x.Value)
	case *ast.CompositeLit:
		for _, el := range x.Elts {
			if kv, ok := el.(*ast.KeyValueExpr); ok {
				t.expr(kv.Value) // keys of struct literals are field names
				if _, isIdent := kv.Key.(*ast.Ident); !isIdent {
					t.expr(kv.Key)
				}
				continue
			}
			t.expr(el)
		}
	case *ast.FuncLit:
		// a function literal that is not a registered handler: allowed only if it has no effects
		k := t.literal(x, "")
		onlyCalls := true
		for _, a := range t.w.out[k] {
			if !strings.HasPrefix(a, maybeRd) && !strings.HasPrefix(a, "Call ") {
				onlyCalls = false
			}
		}
		if effects(t.w.out[k]) > 0 && onlyCalls {
			// reads and calls only: decided by resolvePendingLits once the callees are translated
			p := t.w.fset.Position(x.Pos())
			t.w.pendingLits = append(t.w.pendingLits, pendingLit{k, fmt.Sprintf("%s:%d: function literal with effects outside HandleFunc", filepath.Base(p.Filename), p.Line)})
			t.emit("Call " + coqStr(k))
		} else if effects(t.w.out[k]) > 0 {
			t.unsupported(x.Pos(), "function literal with effects outside HandleFunc")
		} else if len(t.w.out[k]) > 0 {
			t.emit("Call " + coqStr(k)) // only reads of shared fields: counted where the literal is written
		}
	case *ast.CallExpr:
		t.call(x)
	case *ast.ArrayType, *ast.MapType, *ast.ChanType, *ast.FuncType, *ast.InterfaceType, *ast.StructType, *ast.Ellipsis:
	default:
		t.unsupported(e.Pos(), fmt.Sprintf("expression %T", e))
	}
}

// literal translates a function literal as a function of its own
func (t *tr) literal(x *ast.FuncLit, note string) string {
	t.nlit++
	base := t.fi.key
	k := fmt.Sprintf("%s$%d", base, t.nlit)
	env := map[string]string{}
	for a, b := range t.env {
		env[a] = b
	}
	fi := &funcInfo{key: k, pkg: t.fi.pkg, lit: x, env: env, note: note}
	t.w.funcs[k] = fi
	t.w.order = append(t.w.order, k)
	t.w.translate(fi)
	// move it to the end of the order only once (translate is also driven by the main loop)
	return k
}

func (t *tr) call(c *ast.CallExpr) {
	// lock operations in expression position
	if m, method, ok := t.lockCall(c); ok {
		if method == "Lock" || method == "RLock" || method == "Unlock" || method == "RUnlock" {
			t.doLock(c.Pos(), m, method)
		} else {
			t.unsupported(c.Pos(), method+" is outside the supported lock operations")
		}
		return
	}
	// builtins with special meaning
	if id, ok := c.Fun.(*ast.Ident); ok {
		if _, shadow := t.env[id.Name]; !shadow {
			switch id.Name {
			case "delete":
				if len(c.Args) == 2 {
					if l := t.guardedLoc(c.Args[0]); l != "" {
						t.expr(c.Args[1])
						t.emit("Wr " + l)
						return
					}
				}
				if len(c.Args) == 2 {
					if l := t.sharedField(c.Args[0]); l != "" {
						t.expr(c.Args[1])
						t.fieldWrite(c.Pos(), l)
						return
					}
				}
			case "clear":
				if len(c.Args) == 1 {
					if l := t.guardedLoc(c.Args[0]); l != "" {
						t.emit("Wr " + l)
						return
					}
				}
			case "panic":
				for _, a := range c.Args {
					t.expr(a)
				}
				t.leavesPath(c.Pos(), "panic")
				return
			}
		}
	}
	// handler registration: mux.HandleFunc(pattern, h) / mux.Handle(pattern, h)
	if s, ok := c.Fun.(*ast.SelectorExpr); ok && (s.Sel.Name == "HandleFunc" || s.Sel.Name == "Handle") && len(c.Args) == 2 {
		pattern := "?"
		if bl, ok := c.Args[0].(*ast.BasicLit); ok {
			pattern = strings.Trim(bl.Value, "\"`")
		}
		switch h := c.Args[1].(type) {
		case *ast.FuncLit:
			k := t.literal(h, "handler registered for "+pattern)
			t.w.addEntry(k)
			return
		case *ast.SelectorExpr:
			ty := t.typeOf(h.X)
			if _, ok := t.w.funcs[ty+"."+h.Sel.Name]; ok {
				t.w.addEntry(ty + "." + h.Sel.Name)
				return
			}
		case *ast.CallExpr: // http.HandlerFunc(x) and the like
			t.expr(h)
			return
		}
		t.unsupported(c.Pos(), "handler for "+pattern+" cannot be resolved to a translated function")
		return
	}
	// an immediately invoked function literal runs in place
	if lit, ok := c.Fun.(*ast.FuncLit); ok {
		for _, a := range c.Args {
			t.expr(a)
		}
		k := t.literal(lit, "invoked in place")
		if len(t.w.out[k]) > 0 {
			t.emit("Call " + coqStr(k))
		}
		return
	}
	// receiver and arguments first (source order), then the call
	if s, ok := c.Fun.(*ast.SelectorExpr); ok {
		isPkg := false
		if x, ok := s.X.(*ast.Ident); ok {
			if _, isVar := t.env[x.Name]; !isVar && t.w.imports[t.fi.pkg][x.Name] {
				isPkg = true
			}
		}
		if !isPkg {
			t.expr(s.X)
		}
	} else if _, ok := c.Fun.(*ast.Ident); !ok {
		t.expr(c.Fun)
	}
	for _, a := range c.Args {
		// a method value passed as an argument may be called by the callee
		if sel, ok := a.(*ast.SelectorExpr); ok {
			ty := t.typeOf(sel.X)
			if _, isMethod := t.w.funcs[ty+"."+sel.Sel.Name]; isMethod && ty != "" {
				t.emit("Call " + coqStr(ty+"."+sel.Sel.Name))
				continue
			}
		}
		t.expr(a)
	}
	keys, _ := t.callee(c)
	for _, k := range keys {
		t.emit("Call " + coqStr(k))
	}
}
