(* OutboundIdPFormProofs.v — the action of the IdP's response form is a registered location *)
From Saml Require Import IdPModel IdPModelProofs.
From Saml Require Import Base BaseProofs UrlEnc UrlEncProofs HtmlEsc HtmlEscProofs OutboundIdPForm.

(* For every set of registered endpoints and every request (any
   AssertionConsumerServiceURL, any AssertionConsumerServiceIndex, any relay
   state): if the flow emits a form, it is the response form rendered with the
   location of an endpoint REGISTERED with the HTTP-POST binding as its action
   (filtered and normalised like every action), and it has exactly the intended
   structure; no string of the request reaches the action slot. *)
Theorem idp_flow_action_registered acs url idx msg relay html :
  idp_flow_form acs url idx msg relay = (0, html) ->
  exists loc i d,
    In (IdPModel.post_binding, loc, i, d) acs /\
    let data := {| fd_url := loc; fd_msg := msg; fd_relay := relay; fd_toast := EmptyString |} in
    html = render_form FIdpResponse data /\
    tokenize_form html = Some (intended_of FIdpResponse data).
Proof.
  unfold idp_flow_form.
  destruct (IdPModel.get_acs_endpoint (md_of_acs acs) (req_of url idx)) as [[[[di ei] ds] e]|] eqn:E; [|discriminate].
  destruct (seqb (IdPModel.ep_binding e) IdPModel.post_binding) eqn:B; [|discriminate].
  intros H. inversion H; subst; clear H.
  destruct (IdPModelProofs.get_acs_endpoint_registered _ _ _ _ _ _ E) as (_ & _ & Hd & He).
  cbn [md_of_acs IdPModel.descriptors] in Hd. destruct Hd as [<-|[]].
  cbn [IdPModel.acs] in He. apply in_map_iff in He as ([[[b loc] i] d] & <- & Hin).
  cbn in B. apply String.eqb_eq in B. subst b.
  exists loc, i, d. split; [exact Hin|]. cbv zeta. cbn [IdPModel.ep_location]. split; [reflexivity|].
  exact (form_structure_fixed FIdpResponse {| fd_url := loc; fd_msg := msg; fd_relay := relay; fd_toast := EmptyString |}).
Qed.

(* a request is answered with a form only if some endpoint is registered with the POST binding *)
Corollary idp_flow_needs_post_endpoint acs url idx msg relay html :
  idp_flow_form acs url idx msg relay = (0, html) ->
  exists loc i d, In (IdPModel.post_binding, loc, i, d) acs.
Proof. intros H. destruct (idp_flow_action_registered _ _ _ _ _ _ H) as (loc & i & d & Hin & _). eauto. Qed.

Example idp_flow_example :
  fst (idp_flow_form [(IdPModel.post_binding, "https://sp.example.com/acs", 1, None)]
                     "https://collector.example.net/acs" "1" "TVNH" "rs") = 0
  /\ fst (idp_flow_form [(IdPModel.post_binding, "https://sp.example.com/acs", 1, None)]
                        "https://collector.example.net/acs" "" "TVNH" "rs") = 1.
Proof. vm_compute. split; reflexivity. Qed.

(* ---------- IdP-initiated: the FIRST HTTP-POST endpoint ---------- *)
Lemma find_index_post_first : forall (l : list acs_entry) i,
  match find_index IdPModel.p_post
          (map (fun e : acs_entry => let '(b, loc, ix, df) := e in
                  {| IdPModel.ep_binding := b; IdPModel.ep_location := loc; IdPModel.ep_index := ix; IdPModel.ep_default := df |}) l) i with
  | Some (_, e) => first_post_location l = Some (IdPModel.ep_location e)
  | None => first_post_location l = None
  end.
Proof.
  induction l as [|[[[b loc] ix] df] l IH]; intros i; [reflexivity|].
  cbn [map find_index first_post_location]. unfold IdPModel.p_post at 1. cbn [IdPModel.ep_binding].
  destruct (seqb b IdPModel.post_binding); [reflexivity|apply IH].
Qed.

Lemma first_post_app a b :
  first_post_location (a ++ b) =
  match first_post_location a with Some x => Some x | None => first_post_location b end.
Proof.
  induction a as [|[[[bb loc] ix] df] a IH]; [reflexivity|]. cbn.
  destruct (seqb bb IdPModel.post_binding); [reflexivity|apply IH].
Qed.

Lemma find_acs_first_post : forall (descs : list (list acs_entry)) di,
  match IdPModel.find_acs IdPModel.p_post (IdPModel.descriptors (md_of_descs descs)) di with
  | Some (_, _, _, e) => first_post_location (List.concat descs) = Some (IdPModel.ep_location e)
  | None => first_post_location (List.concat descs) = None
  end.
Proof.
  cbn [md_of_descs IdPModel.descriptors].
  induction descs as [|d descs IH]; intros di; [reflexivity|].
  cbn [map IdPModel.find_acs IdPModel.acs List.concat]. rewrite first_post_app.
  pose proof (find_index_post_first d 0) as H.
  destruct (find_index IdPModel.p_post _ 0) as [[ei e]|].
  - now rewrite H.
  - rewrite H. apply IH.
Qed.

(* for every list of descriptors (any number of endpoints of any bindings): the
   form is emitted iff there is an HTTP-POST endpoint, and then its action is
   the first one in document order, with the intended structure *)
Theorem idp_initiated_first_post descs msg relay :
  match first_post_location (List.concat descs) with
  | Some loc =>
      let data := {| fd_url := loc; fd_msg := msg; fd_relay := relay; fd_toast := EmptyString |} in
      idp_initiated_form descs msg relay = (0, render_form FIdpResponse data)
      /\ tokenize_form (render_form FIdpResponse data) = Some (intended_of FIdpResponse data)
  | None => idp_initiated_form descs msg relay = (2, EmptyString)
  end.
Proof.
  unfold idp_initiated_form, IdPModel.idp_initiated_route.
  pose proof (find_acs_first_post descs 0) as H.
  destruct (IdPModel.find_acs IdPModel.p_post (IdPModel.descriptors (md_of_descs descs)) 0) as [[[[a b] c] e]|].
  - rewrite H. cbv zeta. split; [reflexivity|].
    exact (form_structure_fixed FIdpResponse {| fd_url := IdPModel.ep_location e; fd_msg := msg; fd_relay := relay; fd_toast := EmptyString |}).
  - now rewrite H.
Qed.
