(* OutboundIdPFormProofs.v — the action of the IdP's response form is a registered location *)
From Saml Require Import IdPModel IdPModelProofs.
From Saml Require Import Base BaseProofs UrlEnc UrlEncProofs HtmlEsc HtmlEscProofs OutboundIdPForm.

(* For every set of registered endpoints and every request (any
   AssertionConsumerServiceURL, any AssertionConsumerServiceIndex, any relay
   state): if the flow emits a form, it is the response form rendered with the
   location of an endpoint REGISTERED with the HTTP-POST binding as its action
   (filtered and normalised like every action), and it has exactly the intended
   structure; no string of the request reaches the action slot. *)
Theorem idp_flow_action_registered acs url idx msg relay html :
  idp_flow_form acs url idx msg relay = (0, html) ->
  exists loc i d,
    In (IdPModel.post_binding, loc, i, d) acs /\
    let data := {| fd_url := loc; fd_msg := msg; fd_relay := relay; fd_toast := EmptyString |} in
    html = render_form FIdpResponse data /\
    tokenize_form html = Some (intended_of FIdpResponse data).
Proof.
  unfold idp_flow_form.
  destruct (IdPModel.get_acs_endpoint (md_of_acs acs) (req_of url idx)) as [[[[di ei] ds] e]|] eqn:E; [|discriminate].
  destruct (seqb (IdPModel.ep_binding e) IdPModel.post_binding) eqn:B; [|discriminate].
  intros H. inversion H; subst; clear H.
  destruct (IdPModelProofs.get_acs_endpoint_registered _ _ _ _ _ _ E) as (_ & _ & Hd & He).
  cbn [md_of_acs IdPModel.descriptors] in Hd. destruct Hd as [<-|[]].
  cbn [IdPModel.acs] in He. apply in_map_iff in He as ([[[b loc] i] d] & <- & Hin).
  cbn in B. apply String.eqb_eq in B. subst b.
  exists loc, i, d. split; [exact Hin|]. cbv zeta. cbn [IdPModel.ep_location]. split; [reflexivity|].
  exact (form_structure_fixed FIdpResponse {| fd_url := loc; fd_msg := msg; fd_relay := relay; fd_toast := EmptyString |}).
Qed.

(* a request is answered with a form only if some endpoint is registered with the POST binding *)
Corollary idp_flow_needs_post_endpoint acs url idx msg relay html :
  idp_flow_form acs url idx msg relay = (0, html) ->
  exists loc i d, In (IdPModel.post_binding, loc, i, d) acs.
Proof. intros H. destruct (idp_flow_action_registered _ _ _ _ _ _ H) as (loc & i & d & Hin & _). eauto. Qed.

Example idp_flow_example :
  fst (idp_flow_form [(IdPModel.post_binding, "https://sp.example.com/acs", 1, None)]
                     "https://collector.example.net/acs" "1" "TVNH" "rs") = 0
  /\ fst (idp_flow_form [(IdPModel.post_binding, "https://sp.example.com/acs", 1, None)]
                        "https://collector.example.net/acs" "" "TVNH" "rs") = 1.
Proof. vm_compute. split; reflexivity. Qed.
