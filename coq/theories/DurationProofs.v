(* DurationProofs.v — the duration text codec round-trips for every int64 *)
From Saml Require Import Base BaseProofs DurationModel.
From Coq Require Import ZifyBool.
Ltac Zify.zify_post_hook ::= Z.div_mod_to_equations.

(* ---- groups ---- *)
Lemma span_nondigit s : starts_not is_digit s -> span is_digit s = (EmptyString, s).
Proof. destruct s as [|c s]; cbn; intros H; [reflexivity|]. rewrite H. reflexivity. Qed.

Lemma opt_group_skip L s : starts_not is_digit s -> opt_group L s = (None, s).
Proof. intros H. unfold opt_group. rewrite span_nondigit by exact H. reflexivity. Qed.

Lemma opt_group_hit L n r :
  is_digit L = false -> opt_group L (dec n +++ String L r) = (Some (dec n), r).
Proof.
  intros HL. unfold opt_group. rewrite span_dec by exact HL.
  rewrite nonempty_dec, Ascii.eqb_refl. reflexivity.
Qed.

Lemma opt_group_other L L' n r :
  is_digit L' = false -> Ascii.eqb L' L = false ->
  opt_group L (dec n +++ String L' r) = (None, dec n +++ String L' r).
Proof.
  intros HL HN. unfold opt_group. rewrite span_dec by exact HL.
  rewrite nonempty_dec, HN. reflexivity.
Qed.

Lemma sec_group_other L n r :
  is_digit L = false -> Ascii.eqb L "S" = false -> Ascii.eqb L "." = false ->
  sec_group (dec n +++ String L r) = (None, dec n +++ String L r).
Proof.
  intros HL H1 H2. unfold sec_group. rewrite span_dec by exact HL. rewrite nonempty_dec.
  destruct L as [b0 b1 b2 b3 b4 b5 b6 b7].
  destruct b0, b1, b2, b3, b4, b5, b6, b7; try reflexivity; cbn in H1, H2; discriminate.
Qed.

Lemma sec_group_whole n : sec_group (dec n +++ "S") = (Some (dec n, EmptyString), EmptyString).
Proof.
  unfold sec_group. rewrite span_dec by reflexivity. rewrite nonempty_dec. reflexivity.
Qed.

Lemma sec_group_frac n f :
  nonempty f = true -> all_chars is_digit f = true ->
  sec_group (dec n +++ String "." (f +++ "S")) = (Some (dec n, f), EmptyString).
Proof.
  intros NE AD. unfold sec_group. rewrite span_dec by reflexivity. rewrite nonempty_dec.
  rewrite span_app by (first [exact AD | reflexivity]). rewrite NE. reflexivity.
Qed.

(* ---- the fraction ---- *)
Lemma frac_nonempty ns : 0 < ns < 10 ^ 9 -> nonempty (trim0r (fixw 9 ns)) = true.
Proof.
  intros H. destruct (trim0r (fixw 9 ns)) eqn:E; [|reflexivity]. exfalso.
  pose proof (trim0r_pad (fixw 9 ns)) as P. rewrite E in P. cbn [String.append String.length] in P.
  rewrite Nat.sub_0_r in P.
  pose proof (dval_fixw 9 ns) as V. rewrite <- P in V. rewrite dval_zeros in V.
  change (Z.of_nat 9) with 9 in V. lia.
Qed.

Lemma frac_value ns :
  0 <= ns < 10 ^ 9 ->
  atoi (pad9r (take 9 (trim0r (fixw 9 ns)))) = Ok ns.
Proof.
  intros H. pose proof (trim0r_length (fixw 9 ns)) as L. rewrite fixw_length in L.
  rewrite take_all by exact L. unfold pad9r.
  pose proof (trim0r_pad (fixw 9 ns)) as P. rewrite fixw_length in P. rewrite P.
  unfold atoi. rewrite fixw_digits.
  assert (NE : nonempty (fixw 9 ns) = true).
  { apply nonempty_true. intros E. pose proof (fixw_length 9 ns) as F. rewrite E in F. discriminate F. }
  rewrite NE. cbn [andb]. rewrite dval_fixw by (change (Z.of_nat 9) with 9; exact H).
  destruct (ns <=? int64_max) eqn:C; [reflexivity|]. unfold int64_max in C. lia.
Qed.

(* ---- the seconds part ---- *)
Definition sec_text (s ns : Z) : string :=
  dec s +++ (if 0 <? ns then trim0r ("." +++ fixw 9 ns) else "") +++ "S".

Lemma sec_group_text s ns :
  0 <= ns < 10 ^ 9 ->
  sec_group (sec_text s ns) =
    (Some (dec s, if 0 <? ns then trim0r (fixw 9 ns) else EmptyString), EmptyString).
Proof.
  intros H. unfold sec_text. destruct (0 <? ns) eqn:E.
  - change ("." +++ fixw 9 ns) with (String "." (fixw 9 ns)). rewrite trim0r_dot.
    change (String "." (trim0r (fixw 9 ns)) +++ "S") with (String "." (trim0r (fixw 9 ns) +++ "S")).
    apply sec_group_frac; [apply frac_nonempty; lia | apply trim0r_digits, fixw_digits].
  - cbn [String.append]. apply sec_group_whole.
Qed.

Lemma acc_seconds_text s ns out :
  0 <= s <= int64_max -> 0 <= ns < 10 ^ 9 ->
  acc_seconds (Some (dec s, if 0 <? ns then trim0r (fixw 9 ns) else EmptyString)) out
  = Ok (add64 (add64 out (mul64 s ns_sec)) ns).
Proof.
  intros Hs Hn. unfold acc_seconds. rewrite atoi_dec by exact Hs. cbn [bind].
  destruct (0 <? ns) eqn:E.
  - pose proof (trim0r_length (fixw 9 ns)) as L. rewrite fixw_length in L.
    assert (T : take 9 (trim0r (fixw 9 ns)) = trim0r (fixw 9 ns)) by (apply take_all; exact L).
    rewrite T at 1. rewrite frac_nonempty by lia. rewrite frac_value by exact Hn. reflexivity.
  - cbn. assert (ns = 0) by lia. subst ns. unfold add64. f_equal.
    rewrite Z.add_0_r. symmetry. apply wrap64_id, wrap64_range.
Qed.

(* ---- the time part, by cases on which groups are printed ---- *)
Definition time_text (h m s ns : Z) : string :=
  (if 0 <? h then dec h +++ "H" else "")
  +++ (if 0 <? m then dec m +++ "M" else "")
  +++ (if (0 <? s) || (0 <? ns) then sec_text s ns else "").

Lemma app_nil_l_s (a : string) : "" +++ a = a. Proof. reflexivity. Qed.

Lemma time_part_text h m s ns :
  0 <= h <= int64_max -> 0 <= m <= int64_max -> 0 <= s <= int64_max -> 0 <= ns < 10 ^ 9 ->
  0 < h \/ 0 < m \/ 0 < s \/ 0 < ns ->
  nonempty (time_text h m s ns) = true /\
  dur_time_part (time_text h m s ns) 0 =
    Ok (wrap64 (h * ns_hour + m * ns_min + s * ns_sec + ns)).
Proof.
  intros Hh Hm Hs Hn NZ. unfold time_text.
  assert (WR : forall a b c d, add64 (add64 (add64 (add64 0 (mul64 a ns_hour)) (mul64 b ns_min)) (mul64 c ns_sec)) d
               = wrap64 (a * ns_hour + b * ns_min + c * ns_sec + d)).
  { intros. unfold add64, mul64, wrap64, ns_hour, ns_min, ns_sec, two64. lia. }
  assert (W0 : forall a, add64 0 (mul64 a ns_hour) = wrap64 (a * ns_hour)).
  { intros. unfold add64, mul64, wrap64, ns_hour, ns_min, ns_sec, two64. lia. }
  destruct (0 <? h) eqn:Eh; destruct (0 <? m) eqn:Em; destruct ((0 <? s) || (0 <? ns)) eqn:Es;
    try (exfalso; lia); rewrite ?app_nil_l_s, ?app_nil_r_s.
  - (* H M S *)
    split; [rewrite app_assoc_s; apply nonempty_app_l, nonempty_dec|].
    unfold dur_time_part.
    change ((dec h +++ "H") +++ (dec m +++ "M") +++ sec_text s ns)
      with ((dec h +++ "H") +++ ((dec m +++ "M") +++ sec_text s ns)).
    rewrite (app_assoc_s (dec h) "H"). cbn [String.append].
    rewrite opt_group_hit by reflexivity.
    rewrite (app_assoc_s (dec m) "M"). cbn [String.append].
    rewrite opt_group_hit by reflexivity.
    rewrite sec_group_text by exact Hn.
    unfold acc_group. rewrite !atoi_dec by assumption. cbn [bind].
    rewrite acc_seconds_text by assumption. f_equal. apply WR.
  - (* H M *)
    split; [rewrite app_assoc_s; apply nonempty_app_l, nonempty_dec|].
    unfold dur_time_part.
    rewrite (app_assoc_s (dec h) "H"). cbn [String.append].
    rewrite opt_group_hit by reflexivity.
    rewrite opt_group_hit by reflexivity.
    replace (sec_group "") with (@None (string * string), EmptyString) by reflexivity.
    unfold acc_group. rewrite !atoi_dec by assumption. cbn [bind acc_seconds].
    f_equal. assert (s = 0 /\ ns = 0) as [-> ->] by lia. rewrite <- WR.
    unfold add64, mul64, wrap64, ns_hour, ns_min, ns_sec, two64. lia.
  - (* H S *)
    split; [rewrite app_assoc_s; apply nonempty_app_l, nonempty_dec|].
    unfold dur_time_part.
    rewrite (app_assoc_s (dec h) "H"). cbn [String.append].
    rewrite opt_group_hit by reflexivity.
    assert (G : opt_group "M" (sec_text s ns) = (None, sec_text s ns)).
    { unfold sec_text. destruct (0 <? ns).
      - change ("." +++ fixw 9 ns) with (String "." (fixw 9 ns)). rewrite trim0r_dot.
        cbn [String.append]. apply opt_group_other; reflexivity.
      - cbn [String.append]. apply opt_group_other; reflexivity. }
    rewrite G. rewrite sec_group_text by exact Hn.
    unfold acc_group. rewrite !atoi_dec by assumption. cbn [bind].
    rewrite acc_seconds_text by assumption. f_equal. assert (m = 0) as -> by lia.
    rewrite <- WR. unfold add64, mul64, wrap64, ns_hour, ns_min, ns_sec, two64. lia.
  - (* H *)
    split; [apply nonempty_app_l, nonempty_dec|].
    unfold dur_time_part.
    rewrite opt_group_hit by reflexivity.
    replace (opt_group "M" "") with (@None string, EmptyString) by reflexivity.
    replace (sec_group "") with (@None (string * string), EmptyString) by reflexivity.
    unfold acc_group. rewrite !atoi_dec by assumption. cbn [bind acc_seconds].
    f_equal. assert (m = 0 /\ s = 0 /\ ns = 0) as (-> & -> & ->) by lia. rewrite <- WR.
    unfold add64, mul64, wrap64, ns_hour, ns_min, ns_sec, two64. lia.
  - (* M S *)
    split; [rewrite app_assoc_s; apply nonempty_app_l, nonempty_dec|].
    unfold dur_time_part.
    rewrite (app_assoc_s (dec m) "M"). cbn [String.append].
    rewrite opt_group_other by reflexivity.
    rewrite opt_group_hit by reflexivity.
    rewrite sec_group_text by exact Hn.
    unfold acc_group. rewrite !atoi_dec by assumption. cbn [bind].
    rewrite acc_seconds_text by assumption. f_equal. assert (h = 0) as -> by lia.
    rewrite <- WR. unfold add64, mul64, wrap64, ns_hour, ns_min, ns_sec, two64. lia.
  - (* M *)
    split; [apply nonempty_app_l, nonempty_dec|].
    unfold dur_time_part.
    rewrite opt_group_other by reflexivity.
    rewrite opt_group_hit by reflexivity.
    replace (sec_group "") with (@None (string * string), EmptyString) by reflexivity.
    unfold acc_group. rewrite !atoi_dec by assumption. cbn [bind acc_seconds].
    f_equal. assert (h = 0 /\ s = 0 /\ ns = 0) as (-> & -> & ->) by lia. rewrite <- WR.
    unfold add64, mul64, wrap64, ns_hour, ns_min, ns_sec, two64. lia.
  - (* S *)
    split; [unfold sec_text; apply nonempty_app_l, nonempty_dec|].
    unfold dur_time_part.
    assert (G : forall L, Ascii.eqb "." L = false -> Ascii.eqb "S" L = false ->
                          opt_group L (sec_text s ns) = (None, sec_text s ns)).
    { intros L H1 H2. unfold sec_text. destruct (0 <? ns).
      - change ("." +++ fixw 9 ns) with (String "." (fixw 9 ns)). rewrite trim0r_dot.
        cbn [String.append]. apply opt_group_other; [reflexivity|exact H1].
      - cbn [String.append]. apply opt_group_other; [reflexivity|exact H2]. }
    rewrite !G by reflexivity. rewrite sec_group_text by exact Hn.
    unfold acc_group. cbn [bind].
    rewrite acc_seconds_text by assumption. f_equal. assert (h = 0 /\ m = 0) as (-> & ->) by lia.
    rewrite <- WR. unfold add64, mul64, wrap64, ns_hour, ns_min, ns_sec, two64. lia.
Qed.

(* ---- main theorem ---- *)
Lemma dur_marshal_shape d :
  d <> 0 -> in_int64 d ->
  let u := Z.abs d in
  dur_marshal d =
    Some ((if d <? 0 then "-PT" else "PT")
          +++ time_text (u / ns_hour) (u mod ns_hour / ns_min) (u mod ns_min / ns_sec) (u mod ns_sec)).
Proof.
  intros NZ R u.
  assert (U : (if d <? 0 then - d else d) = u) by (unfold u; destruct (d <? 0) eqn:?; lia).
  unfold dur_marshal. apply Z.eqb_neq in NZ. rewrite NZ. rewrite U.
  reflexivity.
Qed.

Lemma fields_arith u :
  0 < u <= 9223372036854775808 ->
  let h := u / ns_hour in let m := u mod ns_hour / ns_min in
  let s := u mod ns_min / ns_sec in let ns := u mod ns_sec in
  (0 <= h <= int64_max) /\ (0 <= m <= int64_max) /\ (0 <= s <= int64_max) /\ (0 <= ns < 10 ^ 9) /\
  (h * ns_hour + m * ns_min + s * ns_sec + ns = u) /\ (0 < h \/ 0 < m \/ 0 < s \/ 0 < ns).
Proof.
  intros Hu. cbv zeta. unfold ns_hour, ns_min, ns_sec, int64_max.
  change (10 ^ 9) with 1000000000.
  repeat split; lia.
Qed.

Lemma sign_arith d u :
  in_int64 d -> u = Z.abs d ->
  mul64 (if d <? 0 then -1 else 1) (wrap64 u) = d.
Proof.
  intros R ->. unfold mul64, wrap64, two64, in_int64, int64_min, int64_max in *.
  destruct (d <? 0) eqn:E; lia.
Qed.

Lemma dur_unmarshal_T (neg : bool) t :
  nonempty t = true ->
  dur_unmarshal (Some ((if neg then "-PT" else "PT") +++ t))
  = (do out <- dur_time_part t 0; Ok (mul64 (if neg then -1 else 1) out)).
Proof.
  intros NE. destruct neg.
  - change ("-PT" +++ t) with (String "-" (String "P" (String "T" t))).
    unfold dur_unmarshal. rewrite !opt_group_skip by reflexivity. rewrite NE. reflexivity.
  - change ("PT" +++ t) with (String "P" (String "T" t)).
    unfold dur_unmarshal. rewrite !opt_group_skip by reflexivity. rewrite NE. reflexivity.
Qed.

Theorem dur_roundtrip : forall d, in_int64 d -> dur_unmarshal (dur_marshal d) = Ok d.
Proof.
  intros d R. destruct (Z.eq_dec d 0) as [->|NZ]; [reflexivity|].
  rewrite dur_marshal_shape by assumption. cbv zeta.
  pose proof (sign_arith d (Z.abs d) R eq_refl) as SG.
  assert (Hu : 0 < Z.abs d <= 9223372036854775808) by (unfold in_int64, int64_min, int64_max in *; lia).
  generalize dependent (Z.abs d). intros u SG Hu.
  destruct (fields_arith u Hu) as (Hh & Hm & Hs & Hn & SUM & NZ').
  set (h := u / ns_hour) in *. set (m := u mod ns_hour / ns_min) in *.
  set (s := u mod ns_min / ns_sec) in *. set (ns := u mod ns_sec) in *.
  destruct (time_part_text h m s ns Hh Hm Hs Hn NZ') as [NE TP].
  rewrite SUM in TP.
  rewrite dur_unmarshal_T by exact NE. rewrite TP. cbn [bind]. f_equal. exact SG.
Qed.

Lemma dur_unmarshal_nil_ok : dur_unmarshal None = Ok 0.
Proof. reflexivity. Qed.

Lemma dur_marshal_none_iff d : dur_marshal d = None <-> d = 0.
Proof.
  unfold dur_marshal. destruct (Z.eqb_spec d 0) as [E|E]; split; intros H.
  - exact E.
  - reflexivity.
  - discriminate H.
  - contradiction.
Qed.

(* the texts the pinned tree produced / mis-read, kept as regression examples *)
Example dur_example_fraction : dur_unmarshal (dur_marshal 263669287) = Ok 263669287.
Proof. vm_compute. reflexivity. Qed.
Example dur_example_minint : dur_marshal int64_min = Some "-PT2562047H47M16.854775808S"
                             /\ dur_unmarshal (dur_marshal int64_min) = Ok int64_min.
Proof. vm_compute. split; reflexivity. Qed.
