(* TimeProofs.v — every instant of years 1..9999 round-trips through the
   RelaxedTime text form to itself rounded to the millisecond. *)
From Saml Require Import Base BaseProofs TimeModel.
From Coq Require Import ZifyBool.
Ltac Zify.zify_post_hook ::= Z.div_mod_to_equations.

(* ---- finite sweep by binary splitting (a proof by reflection over a finite
        domain; the bound is explicit in the lemma) ---- *)
Fixpoint check_range (depth : nat) (lo : Z) (p : Z -> bool) : bool :=
  match depth with
  | O => p lo
  | S k => check_range k lo p && check_range k (lo + 2 ^ Z.of_nat k) p
  end.

Lemma check_range_sound depth : forall lo p,
  check_range depth lo p = true -> forall j, lo <= j < lo + 2 ^ Z.of_nat depth -> p j = true.
Proof.
  induction depth as [|k IH]; intros lo p H j Hj.
  - cbn in *. assert (j = lo) by lia. subst j. exact H.
  - cbn [check_range] in H. apply andb_true_iff in H as [H1 H2].
    rewrite Nat2Z.inj_succ, Z.pow_succ_r in Hj by lia.
    destruct (Z_lt_le_dec j (lo + 2 ^ Z.of_nat k)) as [L|L].
    + apply (IH lo p H1). lia.
    + apply (IH _ p H2). lia.
Qed.

(* what one day-of-era must satisfy *)
Definition doe_ok (doe : Z) : bool :=
  if 146097 <=? doe then true else
  let '(yoe, m, d) := of_doe doe in
  let yc := yoe + (if m <=? 2 then 1 else 0) in
  (0 <=? yoe) && (yoe <? 400) && (1 <=? m) && (m <=? 12) && (1 <=? d) && (d <=? days_in_month yc m)
  && (doe_of yoe m d =? doe)
  && ((doe <? 306) || (1 <=? yc)) && ((146037 <=? doe) || (yc <=? 399)).

Lemma era_sweep : check_range 18 0 doe_ok = true.
Proof. vm_compute. reflexivity. Qed.

Lemma doe_ok_all doe : 0 <= doe < 146097 -> doe_ok doe = true.
Proof.
  intros H. apply (check_range_sound 18 0 doe_ok era_sweep).
  change (2 ^ Z.of_nat 18) with 262144. lia.
Qed.

Lemma is_leap_shift y k : is_leap (y + k * 400) = is_leap y.
Proof.
  unfold is_leap.
  replace ((y + k * 400) mod 4) with (y mod 4) by (rewrite <- (Z.mod_add y (k * 100) 4) by lia; f_equal; lia).
  replace ((y + k * 400) mod 100) with (y mod 100) by (rewrite <- (Z.mod_add y (k * 4) 100) by lia; f_equal; lia).
  replace ((y + k * 400) mod 400) with (y mod 400) by (rewrite <- (Z.mod_add y k 400) by lia; reflexivity).
  reflexivity.
Qed.

Lemma dim_shift y k m : days_in_month (y + k * 400) m = days_in_month y m.
Proof. unfold days_in_month. rewrite is_leap_shift. reflexivity. Qed.

(* civil_of_days is a right inverse of days_of_civil and produces valid dates *)
Lemma civil_roundtrip z :
  let '(y, m, d) := civil_of_days z in
  days_of_civil y m d = z /\ 1 <= m <= 12 /\ 1 <= d <= days_in_month y m.
Proof.
  unfold civil_of_days.
  set (era := (z + 719468) / 146097). set (doe := z + 719468 - era * 146097).
  assert (Hd : 0 <= doe < 146097) by (unfold doe, era; lia).
  pose proof (doe_ok_all doe Hd) as OK. unfold doe_ok in OK.
  destruct (146097 <=? doe) eqn:E; [lia|]. clear E.
  destruct (of_doe doe) as [[yoe m] d].
  assert (Hz : z = era * 146097 + doe - 719468) by (unfold doe; lia).
  clearbody doe era.
  repeat (apply andb_true_iff in OK as [OK ?]).
  assert (Hyoe : 0 <= yoe < 400) by lia.
  assert (Hm : 1 <= m <= 12) by lia.
  assert (Hdoe : doe_of yoe m d = doe) by lia.
  destruct (m <=? 2) eqn:M.
  - split; [|split; [lia|]].
    + unfold days_of_civil. rewrite M.
      replace (yoe + era * 400 + 1 - 1) with (yoe + era * 400) by lia.
      replace ((yoe + era * 400) / 400) with era by lia.
      replace (yoe + era * 400 - era * 400) with yoe by lia. lia.
    + replace (yoe + era * 400 + 1) with (yoe + 1 + era * 400) by lia. rewrite dim_shift. lia.
  - split; [|split; [lia|]].
    + unfold days_of_civil. rewrite M.
      replace ((yoe + era * 400) / 400) with era by lia.
      replace (yoe + era * 400 - era * 400) with yoe by lia. lia.
    + rewrite dim_shift. replace (yoe + 0) with yoe in * by lia. lia.
Qed.

(* the year stays within 1..9999 for days of 0001-01-01 .. 9999-12-31 *)
Lemma civil_year_range z :
  -719162 <= z < 2932897 ->
  let '(y, m, d) := civil_of_days z in 1 <= y <= 9999.
Proof.
  intros Hz. unfold civil_of_days.
  set (era := (z + 719468) / 146097). set (doe := z + 719468 - era * 146097).
  assert (Hd : 0 <= doe < 146097) by (unfold doe, era; lia).
  assert (He : 0 <= era <= 24) by (unfold era; lia).
  assert (H0 : era = 0 -> 306 <= doe) by (unfold doe, era; lia).
  assert (H24 : era = 24 -> doe < 146037) by (unfold doe, era; lia).
  pose proof (doe_ok_all doe Hd) as OK. unfold doe_ok in OK.
  destruct (146097 <=? doe) eqn:E; [lia|]. clear E.
  destruct (of_doe doe) as [[yoe m] d]. clearbody doe era.
  repeat (apply andb_true_iff in OK as [OK ?]).
  destruct (m <=? 2) eqn:M; lia.
Qed.

(* ---- time of day ---- *)
Lemma tod_arith t :
  let days := t / ns_per_day in let rem := t mod ns_per_day in
  let hh := rem / (3600 * ns_per_s) in
  let mi := rem mod (3600 * ns_per_s) / (60 * ns_per_s) in
  let ss := rem mod (60 * ns_per_s) / ns_per_s in
  let ms := rem mod ns_per_s / ns_per_ms in
  t mod ns_per_ms = 0 ->
  0 <= hh <= 23 /\ 0 <= mi <= 59 /\ 0 <= ss <= 59 /\ 0 <= ms <= 999 /\
  days * ns_per_day + hh * (3600 * ns_per_s) + mi * (60 * ns_per_s) + ss * ns_per_s + ms * ns_per_ms - 0 * ns_per_s = t.
Proof.
  cbv zeta. unfold ns_per_day, ns_per_s, ns_per_ms. intros H. repeat split; lia.
Qed.

Lemma round_ms_mult t : round_ms t mod ns_per_ms = 0.
Proof. unfold round_ms, ns_per_ms. lia. Qed.

Lemma round_ms_idem t : round_ms (round_ms t) = round_ms t.
Proof. unfold round_ms, ns_per_ms. lia. Qed.

Lemma round_ms_days t :
  zero_time <= round_ms t < year10000 -> -719162 <= round_ms t / ns_per_day < 2932897.
Proof. unfold zero_time, year10000, ns_per_day, ns_per_s. lia. Qed.

(* ---- fixed-width fields ---- *)
Lemma fixw2_eq n : fixw 2 n = String (digit_chr (n / 10 mod 10)) (String (digit_chr (n mod 10)) EmptyString).
Proof. reflexivity. Qed.
Lemma fixw3_eq n : fixw 3 n = String (digit_chr (n / 10 / 10 mod 10)) (String (digit_chr (n / 10 mod 10)) (String (digit_chr (n mod 10)) EmptyString)).
Proof. reflexivity. Qed.
Lemma fixw4_eq n : fixw 4 n = String (digit_chr (n / 10 / 10 / 10 mod 10)) (String (digit_chr (n / 10 / 10 mod 10))
                                (String (digit_chr (n / 10 mod 10)) (String (digit_chr (n mod 10)) EmptyString))).
Proof. reflexivity. Qed.

Lemma get2_fixw n r : 0 <= n <= 99 -> get2 (fixw 2 n +++ r) = Ok (n, r).
Proof.
  intros H. rewrite fixw2_eq. cbn [String.append get2].
  rewrite !digit_chr_is_digit by lia. cbn [andb]. rewrite !digit_roundtrip by lia.
  f_equal. f_equal. lia.
Qed.

Lemma get12_fixw n r : 0 <= n <= 99 -> get12 (fixw 2 n +++ r) = Ok (n, r).
Proof.
  intros H. rewrite fixw2_eq. cbn [String.append get12].
  rewrite !digit_chr_is_digit by lia. rewrite !digit_roundtrip by lia.
  f_equal. f_equal. lia.
Qed.

Lemma get4_fixw n r : 0 <= n <= 9999 -> get4 (fixw 4 n +++ r) = Ok (n, r).
Proof.
  intros H. rewrite fixw4_eq. cbn [String.append get4].
  rewrite !digit_chr_is_digit by lia. cbn [andb]. rewrite !digit_roundtrip by lia.
  f_equal. f_equal. lia.
Qed.

(* ---- the fraction ---- *)
Lemma dval_trim0r x :
  dval x = dval (trim0r x) * 10 ^ Z.of_nat (String.length x - String.length (trim0r x)).
Proof.
  destruct (trim0r_pad_ex x) as (k & E & L).
  replace (String.length x - String.length (trim0r x))%nat with k by lia.
  rewrite <- E at 1. unfold dval. rewrite dval_acc_app. rewrite dval_acc_lin.
  fold (dval (srepeat "0" k)). rewrite dval_zeros.
  assert (SL : slen (srepeat "0" k) = Z.of_nat k).
  { unfold slen. f_equal. clear. induction k; cbn; [reflexivity|]. now rewrite IHk. }
  rewrite SL. lia.
Qed.

Lemma frac3_nonempty ms : 0 < ms <= 999 -> nonempty (trim0r (fixw 3 ms)) = true.
Proof.
  intros H. destruct (trim0r (fixw 3 ms)) eqn:E; [|reflexivity]. exfalso.
  pose proof (dval_trim0r (fixw 3 ms)) as V. rewrite E in V.
  rewrite dval_fixw in V by (change (Z.of_nat 3) with 3; lia). unfold dval in V. cbn [dval_acc] in V. lia.
Qed.

Lemma get_frac_text ms :
  0 <= ms <= 999 ->
  get_frac ((if 0 <? ms then "." +++ trim0r (fixw 3 ms) else "") +++ "Z") = (ms * ns_per_ms, "Z").
Proof.
  intros H. destruct (0 <? ms) eqn:E.
  - pose proof (frac3_nonempty ms ltac:(lia)) as NE.
    pose proof (trim0r_digits (fixw 3 ms) (fixw_digits 3 ms)) as AD.
    pose proof (trim0r_length (fixw 3 ms)) as LE. rewrite fixw_length in LE.
    pose proof (dval_trim0r (fixw 3 ms)) as V. rewrite fixw_length in V.
    rewrite dval_fixw in V by (change (Z.of_nat 3) with 3; lia).
    set (f := trim0r (fixw 3 ms)) in *.
    destruct f as [|c f'] eqn:F; [discriminate NE|].
    change (("." +++ String c f') +++ "Z") with (String "." (String c (f' +++ "Z"))).
    cbn [get_frac]. change (Ascii.eqb "." "." || Ascii.eqb "." ",") with true. cbn [andb].
    assert (Dc : is_digit c = true) by (cbn in AD; apply andb_true_iff in AD; tauto).
    rewrite Dc.
    change (String c (f' +++ "Z")) with (String c f' +++ "Z").
    rewrite span_app by (first [exact AD | reflexivity]).
    rewrite take_all by (cbn [String.length] in *; lia).
    f_equal. unfold pow10.
    assert (LEN : (String.length (String c f') <= 3)%nat) by exact LE.
    clear - V LEN H. unfold ns_per_ms.
    set (l := String.length (String c f')) in *. set (v := dval (String c f')) in *.
    assert (l = 1 \/ l = 2 \/ l = 3)%nat as [L|[L|L]].
    { unfold l. cbn [String.length] in *. lia. }
    all: rewrite L in *; cbn in V |- *; lia.
  - assert (ms = 0) by lia. subst ms. reflexivity.
Qed.

(* ---- the whole string ---- *)
Definition text_of_fields (y m d hh mi ss ms : Z) : string :=
  fixw 4 y +++ "-" +++ fixw 2 m +++ "-" +++ fixw 2 d +++ "T"
  +++ fixw 2 hh +++ ":" +++ fixw 2 mi +++ ":" +++ fixw 2 ss
  +++ (if 0 <? ms then "." +++ trim0r (fixw 3 ms) else "") +++ "Z".

Lemma parse_text_of_fields y m d hh mi ss ms :
  1 <= y <= 9999 -> 1 <= m <= 12 -> 1 <= d <= days_in_month y m ->
  0 <= hh <= 23 -> 0 <= mi <= 59 -> 0 <= ss <= 59 -> 0 <= ms <= 999 ->
  parse_layout true (text_of_fields y m d hh mi ss ms) =
  Ok (days_of_civil y m d * ns_per_day + hh * (3600 * ns_per_s) + mi * (60 * ns_per_s)
      + ss * ns_per_s + ms * ns_per_ms - 0 * ns_per_s).
Proof.
  intros Hy Hm Hd Hh Hmi Hs Hms.
  assert (Hd31 : d <= 31).
  { unfold days_in_month in Hd. destruct (m =? 2); [destruct (is_leap y)|destruct ((m =? 4) || (m =? 6) || (m =? 9) || (m =? 11))]; lia. }
  unfold text_of_fields, parse_layout.
  rewrite get4_fixw by lia. cbn [bind]. cbn [String.append expect]. rewrite Ascii.eqb_refl. cbn [bind].
  rewrite get2_fixw by lia. cbn [bind]. cbn [String.append expect]. rewrite Ascii.eqb_refl. cbn [bind].
  rewrite get2_fixw by lia. cbn [bind]. cbn [String.append expect]. rewrite Ascii.eqb_refl. cbn [bind].
  rewrite get12_fixw by lia. cbn [bind]. cbn [String.append expect]. rewrite Ascii.eqb_refl. cbn [bind].
  rewrite get2_fixw by lia. cbn [bind]. cbn [String.append expect]. rewrite Ascii.eqb_refl. cbn [bind].
  rewrite get2_fixw by lia. cbn [bind].
  rewrite get_frac_text by lia.
  cbn [get_zone bind nonempty].
  replace ((m <? 1) || (12 <? m) || (24 <=? hh) || (60 <=? mi) || (60 <=? ss)) with false by lia.
  replace ((d <? 1) || (days_in_month y m <? d)) with false by lia.
  reflexivity.
Qed.

Lemma format_is_text t :
  format_relaxed t =
  let t' := round_ms t in
  let days := t' / ns_per_day in let rem := t' mod ns_per_day in
  let '(y, m, d) := civil_of_days days in
  text_of_fields y m d (rem / (3600 * ns_per_s)) (rem mod (3600 * ns_per_s) / (60 * ns_per_s))
                 (rem mod (60 * ns_per_s) / ns_per_s) (rem mod ns_per_s / ns_per_ms).
Proof. reflexivity. Qed.

Lemma text_nonempty y m d hh mi ss ms : nonempty (text_of_fields y m d hh mi ss ms) = true.
Proof. unfold text_of_fields. rewrite fixw4_eq. reflexivity. Qed.

Theorem instant_roundtrip t :
  zero_time <= round_ms t < year10000 ->
  parse_relaxed (format_relaxed t) = Ok (round_ms t).
Proof.
  intros R. rewrite format_is_text. cbv zeta.
  pose proof (round_ms_days t R) as RD.
  pose proof (civil_roundtrip (round_ms t / ns_per_day)) as CR.
  pose proof (civil_year_range (round_ms t / ns_per_day) RD) as CY.
  pose proof (tod_arith (round_ms t)) as TA. cbv zeta in TA. specialize (TA (round_ms_mult t)).
  destruct (civil_of_days (round_ms t / ns_per_day)) as [[y m] d].
  destruct CR as (DC & Hm & Hd). destruct TA as (Hh & Hmi & Hs & Hms & SUM).
  unfold parse_relaxed. rewrite text_nonempty. cbn [negb].
  rewrite parse_text_of_fields by assumption.
  rewrite DC. rewrite SUM. rewrite round_ms_idem. reflexivity.
Qed.

(* every text the formatter produces for such an instant is in UTC, to the millisecond *)
Lemma parse_empty_is_zero : parse_relaxed "" = Ok zero_time.
Proof. reflexivity. Qed.

(* non-vacuity and regression examples *)
Example instant_example_1 : format_relaxed 1449799029123456789 = "2015-12-11T01:57:09.123Z".
Proof. vm_compute. reflexivity. Qed.
Example instant_example_round_up : parse_relaxed "2015-12-31T23:59:59.9995Z" = Ok 1451606400000000000.
Proof. vm_compute. reflexivity. Qed.
Example instant_example_zone : parse_relaxed "2015-12-01T01:57:09+01:00" = parse_relaxed "2015-12-01T00:57:09Z".
Proof. vm_compute. reflexivity. Qed.
Example instant_example_rejects : map (fun s => is_err (parse_relaxed s))
   ["2015-12-01T24:00:00Z"; "2015-12-01t01:57:09Z"; "2015-12-01T01:57:09+0100"; "12015-12-01T01:57:09Z"; "2015-02-29T00:00:00Z"; "2015-12-01T01:57:09."]
   = [true; true; true; true; true; true].
Proof. vm_compute. reflexivity. Qed.
