(* ConcurrencyStoreProofs.v — linearizability of the in-memory store (C20):
   for every number of threads, every assignment of store operations to them,
   every number of range-loop reads and every schedule, the operations take
   effect atomically at their linearization points, in an order that is a legal
   sequential history of the map specification and respects real time. *)
From Saml Require Import Base Concurrency ConcurrencyProofs ConcurrencyStore.
Local Open Scope list_scope.

(* ---------- per-thread invariant ---------- *)
Definition tinv_c (L : lockst) (mem : smap) (tr : list event) (t : nat) (th : sthread) : Prop :=
  match th_cur th with
  | None => holds L t = None /\ tst (tevs t tr) PIdle
  | Some ru =>
      let o := ru_op ru in
      validb o (ru_pc ru) = true /\
      holds L t = (if acquired (ru_pc ru) then Some (mode o) else None) /\
      (if pending (ru_pc ru) then tst (tevs t tr) (PInv o)
       else exists r, tst (tevs t tr) (PLin o r) /\ ru_res ru = Some r /\
                      (mode o = false -> r = snd (sm_apply o mem)))
  end.

Record SInv (st : sstate) : Prop := {
  si_mem : s_amap st = s_mem st;
  si_excl : forall t, writer (s_lock st) = Some t -> readers (s_lock st) = [];
  si_nodup : NoDup (readers (s_lock st));
  si_thr : forall t th, nth_error (s_thr st) t = Some th -> tinv_c (s_lock st) (s_mem st) (s_trace st) t th;
  si_legal : legal_rev (lins (s_trace st)) (s_amap st);
  si_dead : forall t, nth_error (s_thr st) t = None -> tevs t (s_trace st) = []
}.

(* whoever holds the lock shared is past its acquisition with a read operation *)
Lemma tinv_other L mem tr t th mem' :
  tinv_c L mem tr t th -> (holds L t = Some false -> mem' = mem) -> tinv_c L mem' tr t th.
Proof.
  unfold tinv_c. destruct (th_cur th) as [ru|]; [|auto]. intros (V & Hh & P) K. repeat split; auto.
  destruct (pending (ru_pc ru)) eqn:Pe; [exact P|]. destruct P as (r & T & R & M). exists r. repeat split; auto.
  intros Mo. rewrite K; [now apply M|]. rewrite Hh, Mo. destruct (ru_pc ru); cbn in *; congruence.
Qed.

Lemma tevs_app_other t evs tr :
  (forall e, In e evs -> match e with EInv t' _ | ELin t' _ _ | ERet t' _ _ => t' <> t end) -> tevs t (evs ++ tr) = tevs t tr.
Proof.
  induction evs as [|e r IH]; intros K; [reflexivity|]. cbn [app tevs].
  pose proof (K e (or_introl eq_refl)) as Ke.
  assert (tevs t (r ++ tr) = tevs t tr) as X by (apply IH; intros e' He; apply K; now right).
  destruct e; (destruct (Nat.eqb_spec t t0); [congruence|exact X]).
Qed.

(* generic re-establishment after a step of thread t *)
Lemma sinv_generic st t th L' mem' amap' th' evs :
  SInv st -> nth_error (s_thr st) t = Some th ->
  amap' = mem' ->
  (forall x, writer L' = Some x -> readers L' = []) -> NoDup (readers L') ->
  (forall t', t' <> t -> holds L' t' = holds (s_lock st) t') ->
  (forall t', t' <> t -> holds (s_lock st) t' = Some false -> mem' = s_mem st) ->
  (forall e, In e evs -> match e with EInv t' _ | ELin t' _ _ | ERet t' _ _ => t' = t end) ->
  legal_rev (lins (evs ++ s_trace st)) amap' ->
  tinv_c L' mem' (evs ++ s_trace st) t th' ->
  SInv {| s_lock := L'; s_mem := mem'; s_amap := amap'; s_thr := set_nth t th' (s_thr st); s_trace := evs ++ s_trace st |}.
Proof.
  intros I Hn Ea Ex Nd Ho Hm He Lg Ht.
  assert (Hlt : (t < List.length (s_thr st))%nat) by (apply nth_error_Some; congruence).
  assert (forall t', t' <> t -> tevs t' (evs ++ s_trace st) = tevs t' (s_trace st)) as Et.
  { intros t' D. apply tevs_app_other. intros e Hi. specialize (He e Hi). destruct e; congruence. }
  constructor; cbn [s_lock s_mem s_amap s_thr s_trace]; auto.
  - intros t' x Hx. destruct (Nat.eq_dec t t') as [<-|D].
    + rewrite nth_error_set_nth_same in Hx by exact Hlt. injection Hx as <-. exact Ht.
    + rewrite nth_error_set_nth_diff in Hx by exact D.
      pose proof (si_thr st I t' x Hx) as T.
      assert (tinv_c (s_lock st) mem' (s_trace st) t' x) as T'.
      { eapply tinv_other; [exact T|]. apply Hm. congruence. }
      unfold tinv_c in *. rewrite (Et t'), (Ho t') by congruence. exact T'.
  - intros t' Hx. apply nth_error_None in Hx. rewrite set_nth_length in Hx.
    rewrite Et by lia. apply (si_dead st I). now apply nth_error_None.
Qed.

Lemma sinv_generic' st t th L' mem' amap' th' evs tr' :
  SInv st -> nth_error (s_thr st) t = Some th ->
  tr' = evs ++ s_trace st ->
  amap' = mem' ->
  (forall x, writer L' = Some x -> readers L' = []) -> NoDup (readers L') ->
  (forall t', t' <> t -> holds L' t' = holds (s_lock st) t') ->
  (forall t', t' <> t -> holds (s_lock st) t' = Some false -> mem' = s_mem st) ->
  (forall e, In e evs -> match e with EInv t' _ | ELin t' _ _ | ERet t' _ _ => t' = t end) ->
  legal_rev (lins (evs ++ s_trace st)) amap' ->
  tinv_c L' mem' (evs ++ s_trace st) t th' ->
  SInv {| s_lock := L'; s_mem := mem'; s_amap := amap'; s_thr := set_nth t th' (s_thr st); s_trace := tr' |}.
Proof. intros I Hn ->. intros. eapply sinv_generic; eassumption. Qed.

(* ---------- lock updates ---------- *)
Lemma holds_other_w L t t' : writer L = Some t -> readers L = [] -> t' <> t -> holds L t' = None.
Proof. intros W R D. unfold holds. rewrite W. destruct (Nat.eqb_spec t' t); [congruence|reflexivity]. Qed.

Lemma valid_next extra o p p' : validb o p = true -> next extra o p = Some p' -> validb o p' = true.
Proof.
  destruct o, p; cbn; intros V E; try discriminate; injection E as <-; try reflexivity;
    try (destruct extra; reflexivity); try (destruct n; reflexivity).
Qed.

Lemma sm_apply_read o m : mode o = false -> fst (sm_apply o m) = m.
Proof. destruct o; cbn; congruence. Qed.

Lemma tevs_cons_inv t o tr : tevs t (EInv t o :: tr) = TInv o :: tevs t tr.
Proof. cbn. now rewrite Nat.eqb_refl. Qed.
Lemma tevs_cons_lin t o r tr : tevs t (ELin t o r :: tr) = TLin o r :: tevs t tr.
Proof. cbn. now rewrite Nat.eqb_refl. Qed.
Lemma tevs_cons_ret t o r tr : tevs t (ERet t o r :: tr) = TRet o r :: tevs t tr.
Proof. cbn. now rewrite Nat.eqb_refl. Qed.

(* ---------- one step preserves the invariant ---------- *)
Lemma lockst_eta L : {| writer := writer L; readers := readers L; waiting := waiting L |} = L.
Proof. destruct L; reflexivity. Qed.

Lemma sstep_inv extra st t st' : SInv st -> sstep extra st t = Some st' -> SInv st'.
Proof.
  intros I E. unfold sstep in E.
  destruct (nth_error (s_thr st) t) as [th|] eqn:Hn; [|discriminate].
  pose proof (si_thr st I t th Hn) as T. unfold tinv_c in T.
  pose proof (si_mem st I) as Em. pose proof (si_excl st I) as Ex. pose proof (si_nodup st I) as Nd.
  pose proof (si_legal st I) as Lg.
  (* the eight things to re-establish, always in this order:
     amap = mem | exclusive | NoDup | others' holdings | others' reads | events are t's | legal | t's invariant *)
  Ltac gen th0 evs0 I0 Hn0 :=
    apply sinv_generic' with (th := th0) (evs := evs0); [exact I0 | exact Hn0 | reflexivity | | | | | | | | ].
  destruct (th_cur th) as [ru|] eqn:Hc.
  2:{ (* invocation *)
    destruct (th_todo th) as [|o r]; [discriminate|]. injection E as <-. destruct T as [Hh Ti].
    gen th [EInv t o] I Hn.
    - exact Em.
    - exact Ex.
    - exact Nd.
    - reflexivity.
    - reflexivity.
    - intros e [<-|[]]. reflexivity.
    - exact Lg.
    - unfold tinv_c. cbn [th_cur ru_op ru_pc ru_res acquired pending validb app]. rewrite tevs_cons_inv.
      split; [reflexivity|]. split; [exact Hh|]. now constructor. }
  destruct T as (V & Hh & P). set (o := ru_op ru) in *.
  destruct (exec st t o (ru_res ru) (instr_of o (ru_pc ru))) as [[[[[[adv L'] mem'] amap'] res'] evs]|] eqn:X; [|discriminate].
  destruct (ru_pc ru) eqn:Pc; cbn [instr_of] in X; cbn [acquired pending] in Hh, P.
  - (* PcAcq *)
    unfold exec in X. destruct (mode o) eqn:Mo.
    + destruct (is_free (s_lock st)) eqn:Fr.
      * injection X as <- <- <- <- <- <-. cbn [next] in E. injection E as <-.
        unfold is_free in Fr. destruct (writer (s_lock st)) eqn:W; [discriminate|]. destruct (readers (s_lock st)) eqn:R; [|discriminate].
        gen th (@nil event) I Hn.
        -- exact Em.
        -- reflexivity.
        -- constructor.
        -- intros t' D. unfold holds; cbn. rewrite W, R. cbn. destruct (Nat.eqb_spec t' t); [congruence|reflexivity].
        -- reflexivity.
        -- intros e [].
        -- exact Lg.
        -- unfold tinv_c. cbn [th_cur ru_op ru_pc ru_res app]. fold o.
           assert (validb o (match o with SPut _ _ => PcPutRd | SDel _ => PcWrLin | _ => PcRdLin end) = true) as V'
             by (destruct o; cbn in *; congruence).
           split; [exact V'|]. split.
           ++ unfold holds; cbn. rewrite Nat.eqb_refl. destruct o; cbn in *; congruence.
           ++ destruct o; cbn in *; try discriminate; exact P.
      * destruct (memn t (waiting (s_lock st))); [discriminate|]. injection X as <- <- <- <- <- <-. injection E as <-.
        gen th (@nil event) I Hn.
        -- exact Em.
        -- exact Ex.
        -- exact Nd.
        -- reflexivity.
        -- reflexivity.
        -- intros e [].
        -- exact Lg.
        -- unfold tinv_c. cbn [th_cur app]. fold o. rewrite Pc. cbn [acquired pending].
           split; [exact V|]. split; [exact Hh|exact P].
    + destruct (writer (s_lock st)) eqn:W; [discriminate|]. destruct (waiting (s_lock st)) eqn:Wt; [|discriminate].
      injection X as <- <- <- <- <- <-. cbn [next] in E. injection E as <-.
      assert (memn t (readers (s_lock st)) = false) as Nr.
      { unfold holds in Hh. rewrite W in Hh. destruct (memn t (readers (s_lock st))); [discriminate|reflexivity]. }
      gen th (@nil event) I Hn.
      * exact Em.
      * cbn. discriminate.
      * cbn. constructor; [now apply memn_false|exact Nd].
      * intros t' D. unfold holds; cbn. rewrite W. destruct (Nat.eqb_spec t' t); [congruence|reflexivity].
      * reflexivity.
      * intros e [].
      * exact Lg.
      * unfold tinv_c. cbn [th_cur ru_op ru_pc ru_res app]. fold o.
        assert (validb o (match o with SPut _ _ => PcPutRd | SDel _ => PcWrLin | _ => PcRdLin end) = true) as V'
          by (destruct o; cbn in *; congruence).
        split; [exact V'|]. split.
        -- unfold holds; cbn. rewrite Nat.eqb_refl. destruct o; cbn in *; congruence.
        -- destruct o; cbn in *; try discriminate; exact P.
  - (* PcPutRd *)
    injection X as <- <- <- <- <- <-. cbn [next] in E. injection E as <-.
    gen th (@nil event) I Hn; try reflexivity; try assumption.
    + intros e [].
    + unfold tinv_c. cbn [th_cur ru_op ru_pc ru_res app acquired pending]. fold o. destruct o; cbn in V; try discriminate.
      split; [reflexivity|]. split; [exact Hh|exact P].
  - (* PcPutInit *)
    injection X as <- <- <- <- <- <-. cbn [next] in E. injection E as <-.
    gen th (@nil event) I Hn; try reflexivity; try assumption.
    + intros e [].
    + unfold tinv_c. cbn [th_cur ru_op ru_pc ru_res app acquired pending]. fold o. destruct o; cbn in V; try discriminate.
      split; [reflexivity|]. split; [exact Hh|exact P].
  - (* PcWrLin: the write takes effect; nobody else holds the mutex *)
    injection X as <- <- <- <- <- <-. cbn [next] in E. injection E as <-.
    assert (mode o = true) as Mo by (destruct o; cbn in V |- *; congruence).
    rewrite Mo in Hh.
    assert (writer (s_lock st) = Some t) as W.
    { unfold holds in Hh. destruct (writer (s_lock st)) as [t'|]; [destruct (Nat.eqb_spec t t'); congruence|].
      destruct (memn t (readers (s_lock st))); discriminate. }
    gen th [ELin t o (snd (sm_apply o (s_amap st)))] I Hn.
    + now rewrite Em.
    + exact Ex.
    + exact Nd.
    + reflexivity.
    + intros t' D Hf. rewrite (holds_other_w _ t t' W (Ex t W) D) in Hf. discriminate.
    + intros e [<-|[]]. reflexivity.
    + cbn [app lins legal_rev]. exists (s_amap st). split; [exact Lg|]. now destruct (sm_apply o (s_amap st)).
    + unfold tinv_c. cbn [th_cur ru_op ru_pc ru_res app acquired pending validb]. fold o. rewrite tevs_cons_lin, Mo.
      split; [reflexivity|]. split; [exact Hh|]. exists (snd (sm_apply o (s_amap st))).
      split; [now constructor|]. split; [now rewrite Em|discriminate].
  - (* PcRdLin: the read takes effect *)
    injection X as <- <- <- <- <- <-. cbn [next] in E. injection E as <-.
    assert (mode o = false) as Mo by (destruct o; cbn in V |- *; congruence).
    gen th [ELin t o (snd (sm_apply o (s_amap st)))] I Hn.
    + rewrite sm_apply_read by exact Mo. exact Em.
    + exact Ex.
    + exact Nd.
    + reflexivity.
    + reflexivity.
    + intros e [<-|[]]. reflexivity.
    + cbn [app lins legal_rev]. exists (s_amap st). split; [exact Lg|].
      rewrite (surjective_pairing (sm_apply o (s_amap st))). now rewrite sm_apply_read by exact Mo.
    + unfold tinv_c. cbn [th_cur ru_op ru_pc ru_res app]. fold o. rewrite tevs_cons_lin.
      assert (validb o (match o with SList _ => more extra | _ => PcRel end) = true /\
              acquired (match o with SList _ => more extra | _ => PcRel end) = true /\
              pending (match o with SList _ => more extra | _ => PcRel end) = false) as (A1 & A2 & A3)
        by (destruct o; cbn in *; try discriminate; destruct extra; auto).
      rewrite A2, A3. split; [exact A1|]. split; [exact Hh|].
      exists (snd (sm_apply o (s_amap st))). split; [now constructor|]. split; [now rewrite Em|]. intros _. now rewrite Em.
  - (* PcMore: the range loop reads the map again and sees what it saw *)
    injection X as <- <- <- <- <- <-. cbn [next] in E. injection E as <-.
    assert (mode o = false) as Mo by (destruct o; cbn in V |- *; congruence).
    destruct P as (r & Tr & Rr & Mr).
    gen th (@nil event) I Hn; try reflexivity; try assumption.
    + intros e [].
    + unfold tinv_c. cbn [th_cur ru_op ru_pc ru_res app]. fold o.
      assert (validb o (more n) = true /\ acquired (more n) = true /\ pending (more n) = false) as (A1 & A2 & A3)
        by (destruct o; cbn in *; try discriminate; destruct n; auto).
      rewrite A2, A3. split; [exact A1|]. split; [exact Hh|].
      exists r. split; [exact Tr|]. split; [now rewrite <- (Mr Mo)|exact Mr].
  - (* PcRel: release and return *)
    destruct P as (r & Tr & Rr & Mr). unfold exec in X. cbn [next] in E. destruct (mode o) eqn:Mo.
    + destruct (writer (s_lock st)) as [t'|] eqn:W; [|discriminate].
      destruct (Nat.eqb_spec t t') as [<-|]; [|discriminate]. injection X as <- <- <- <- <- <-. injection E as <-.
      pose proof (si_excl st I t W) as R.
      gen th [ERet t o (ru_res ru)] I Hn.
      * exact Em.
      * cbn. discriminate.
      * exact Nd.
      * intros x D. unfold holds; cbn. rewrite W, R. cbn. destruct (Nat.eqb_spec x t); [congruence|reflexivity].
      * reflexivity.
      * intros e [<-|[]]. reflexivity.
      * exact Lg.
      * unfold tinv_c. cbn [th_cur app]. rewrite tevs_cons_ret, Rr. split; [unfold holds; cbn; now rewrite R|now constructor].
    + destruct (memn t (readers (s_lock st))) eqn:Mr'; [|discriminate]. injection X as <- <- <- <- <- <-. injection E as <-.
      assert (writer (s_lock st) = None) as W.
      { unfold holds in Hh. destruct (writer (s_lock st)) as [t'|]; [|reflexivity]. destruct (Nat.eqb t t'); discriminate. }
      destruct (remove1_NoDup t _ Nd) as [Nd' Hnot].
      gen th [ERet t o (ru_res ru)] I Hn.
      * exact Em.
      * cbn. rewrite W. discriminate.
      * exact Nd'.
      * intros x D. unfold holds; cbn. rewrite W.
        destruct (memn x (remove1 t (readers (s_lock st)))) eqn:A, (memn x (readers (s_lock st))) eqn:B; try reflexivity.
        -- apply memn_In in A. apply remove1_In_other in A; [|exact D]. apply memn_In in A. congruence.
        -- apply memn_In in B. apply (remove1_In_other t x) in B; [|exact D]. apply memn_In in B. congruence.
      * reflexivity.
      * intros e [<-|[]]. reflexivity.
      * exact Lg.
      * unfold tinv_c. cbn [th_cur app]. rewrite tevs_cons_ret, Rr. split; [|now constructor].
        unfold holds; cbn. rewrite W. apply memn_false in Hnot. now rewrite Hnot.
Qed.

Lemma srun_inv extra st sched : SInv st -> SInv (srun extra st sched).
Proof.
  revert st; induction sched as [|t r IH]; intros st I; cbn; [exact I|].
  apply IH. destruct (sstep extra st t) eqn:E; [eapply sstep_inv; eassumption|exact I].
Qed.

Lemma sinit_inv ops : SInv (sinit ops).
Proof.
  constructor; cbn; auto; try discriminate; try constructor.
  intros t th Hn. apply nth_error_In in Hn. apply in_map_iff in Hn as (l & <- & _).
  unfold tinv_c; cbn. split; [reflexivity|constructor].
Qed.

(* ---------- from the invariant to the statement ---------- *)
Lemma sm_run_app a b m : sm_run (a ++ b) m = sm_run a m ++ sm_run b (sm_final a m).
Proof.
  revert m; induction a as [|o a IH]; intros m; [reflexivity|]. cbn [app sm_run sm_final].
  destruct (sm_apply o m) as [m' x]. cbn [fst]. now rewrite IH.
Qed.
Lemma sm_final_app a b m : sm_final (a ++ b) m = sm_final b (sm_final a m).
Proof. revert m; induction a as [|o a IH]; intros m; [reflexivity|]. cbn. apply IH. Qed.

Lemma legal_rev_run l m :
  legal_rev l m -> sm_run (map fst (rev l)) [] = map snd (rev l) /\ sm_final (map fst (rev l)) [] = m.
Proof.
  revert m; induction l as [|[o r] l IH]; intros m Hl; cbn in Hl.
  - subst m. split; reflexivity.
  - destruct Hl as (m' & Hl & Ea). destruct (IH _ Hl) as [R F]. cbn [rev]. rewrite !map_app. cbn [map fst snd].
    rewrite sm_run_app, sm_final_app, R, F. cbn [sm_run sm_final]. rewrite Ea. cbn. split; reflexivity.
Qed.

(* THE THEOREM: for every number of threads and every assignment of store
   operations to them, every number of range-loop reads in List and every
   schedule, starting from the zero-value store:
   (1) the operations, in the order of their linearization points, with the
       results recorded there, are a legal sequential history of the map
       specification [sm_apply] from the empty map;
   (2) for every thread the events are Inv o, Lin o r, Ret o (Some r) repeated:
       each operation's linearization point lies between its invocation and its
       return (so the order respects real time) and the value the code returns
       is the one of the sequential history;
   (3) the concrete map is the abstract map. *)
Theorem store_linearizable_l : forall extra ops sched,
  let st := srun extra (sinit ops) sched in
  let h := rev (lins (s_trace st)) in
  sm_run (map fst h) [] = map snd h /\
  (forall t, exists ph, tst (tevs t (s_trace st)) ph) /\
  s_mem st = sm_final (map fst h) [].
Proof.
  intros extra ops sched st h.
  assert (SInv st) as I by (apply srun_inv, sinit_inv).
  destruct (legal_rev_run _ _ (si_legal st I)) as [R F]. split; [exact R|]. split.
  - intros t. destruct (nth_error (s_thr st) t) as [th|] eqn:Hn.
    + pose proof (si_thr st I t th Hn) as T. unfold tinv_c in T. destruct (th_cur th) as [ru|].
      * destruct T as (_ & _ & P). destruct (pending (ru_pc ru)); [eauto|]. destruct P as (r & T & _). eauto.
      * destruct T as [_ T]. eauto.
    + exists PIdle. rewrite (si_dead st I t Hn). constructor.
  - fold h in F. now rewrite F, (si_mem st I).
Qed.

(* the projection of an operation's code does not depend on how often the range loop reads *)
Lemma op_acts_extra extra o : op_acts extra o = op_acts 0 o.
Proof.
  destruct o; try reflexivity. unfold op_acts, path. rewrite !flat_map_app. f_equal. f_equal.
  induction extra as [|k IH]; [reflexivity|]. cbn [countdown flat_map instr_of proj_instr app]. exact IH.
Qed.

(* the path is the one the step function follows *)
Fixpoint chain (extra : nat) (o : sop) (p : pc) (l : list pc) : Prop :=
  match l with
  | [] => next extra o p = None
  | q :: l' => next extra o p = Some q /\ chain extra o q l'
  end.
Lemma chain_more extra o n : forall p, next extra o p = Some (more n) -> chain extra o p (countdown n ++ [PcRel]).
Proof.
  induction n as [|k IH]; intros p Hp; cbn [countdown app chain].
  - split; [exact Hp|reflexivity].
  - split; [exact Hp|]. apply IH. reflexivity.
Qed.
Lemma path_follows_next extra o : exists rest, path extra o = PcAcq :: rest /\ chain extra o PcAcq rest.
Proof.
  destruct o; cbn [path app]; eexists; (split; [reflexivity|]); cbn [chain next]; auto 10.
  split; [reflexivity|]. apply chain_more. reflexivity.
Qed.

(* non-vacuity: two threads, a Put racing a Get and a List; one concrete schedule *)
Example store_run_example :
  let st := srun 2 (sinit [[SPut "k" "v"; SGet "k"]; [SList ""; SDel "k"]])
                 [0; 1; 0; 1; 0; 0; 0; 0; 1; 1; 1; 1; 1; 0; 0; 0; 0; 1; 1; 1; 1; 1]%nat in
  rev (lins (s_trace st)) = [(SPut "k" "v", RUnit); (SList "", RKeys ["k"]); (SGet "k", RVal (Some "v")); (SDel "k", RUnit)] /\
  s_mem st = [].
Proof. vm_compute. split; reflexivity. Qed.

(* ---------- the tie to the regenerated program ---------- *)
Lemma loc_eqb_eq a b : loc_eqb a b = true -> a = b.
Proof. destruct a, b; cbn; try discriminate; try reflexivity; intros E; apply String.eqb_eq in E; now subst. Qed.
Lemma act_eqb_eq a b : act_eqb a b = true -> a = b.
Proof.
  destruct a, b; cbn; try discriminate; intros E.
  - apply andb_true_iff in E as [E1 E2]. apply mutex_eqb_eq in E1. apply Bool.eqb_prop in E2. now subst.
  - apply andb_true_iff in E as [E1 E2]. apply mutex_eqb_eq in E1. apply Bool.eqb_prop in E2. now subst.
  - apply loc_eqb_eq in E. now subst.
  - apply loc_eqb_eq in E. now subst.
  - apply String.eqb_eq in E. now subst.
Qed.
Lemma list_eqb_eq {A} (e : A -> A -> bool) (He : forall x y, e x y = true -> x = y) a b : list_eqb e a b = true -> a = b.
Proof.
  revert b; induction a as [|x a IH]; intros [|y b]; cbn; try discriminate; [reflexivity|].
  intros E. apply andb_true_iff in E as [E1 E2]. apply He in E1. apply IH in E2. now subst.
Qed.
Lemma op_acts_key_get extra k : op_acts extra (SGet k) = op_acts 0 (SGet "").
Proof. reflexivity. Qed.

(* if the regenerated program passes [store_projection_ok], each MemoryStore
   method of the Go source is, action for action, the lock/access projection of
   the corresponding operation of this semantics (whatever key, value, prefix
   and number of range-loop reads) *)
Theorem store_projection_sound_l : forall p, store_projection_ok p = true ->
  forall extra k v pre,
    lookup_fn "MemoryStore.Get" p = Some (op_acts extra (SGet k)) /\
    lookup_fn "MemoryStore.Put" p = Some (op_acts extra (SPut k v)) /\
    lookup_fn "MemoryStore.Delete" p = Some (op_acts extra (SDel k)) /\
    lookup_fn "MemoryStore.List" p = Some (op_acts extra (SList pre)).
Proof.
  intros p E extra k v pre. unfold store_projection_ok in E. rewrite !andb_true_iff in E. destruct E as [[[E1 E2] E3] E4].
  assert (forall f o, acts_match f p o = true -> lookup_fn f p = Some (op_acts 0 o)) as K.
  { intros f o X. unfold acts_match in X. destruct (lookup_fn f p); [|discriminate].
    apply (list_eqb_eq _ act_eqb_eq) in X. now subst. }
  rewrite (K _ _ E1), (K _ _ E2), (K _ _ E3), (K _ _ E4).
  repeat split; f_equal; (etransitivity; [|symmetry; apply op_acts_extra]); reflexivity.
Qed.
