(* BaseProofs.v — lemmas about Base.v *)
From Saml Require Import Base.
From Coq Require Import ZifyBool.
Ltac Zify.zify_post_hook ::= Z.div_mod_to_equations.

Lemma digit_roundtrip d : 0 <= d <= 9 -> digit_val (digit_chr d) = d.
Proof.
  intros H.
  assert (d = 0 \/ d = 1 \/ d = 2 \/ d = 3 \/ d = 4 \/ d = 5 \/ d = 6 \/ d = 7 \/ d = 8 \/ d = 9) as Hd by lia.
  repeat (destruct Hd as [Hd | Hd]; [subst d; reflexivity|]). subst d; reflexivity.
Qed.

Lemma digit_chr_is_digit d : 0 <= d <= 9 -> is_digit (digit_chr d) = true.
Proof.
  intros H.
  assert (d = 0 \/ d = 1 \/ d = 2 \/ d = 3 \/ d = 4 \/ d = 5 \/ d = 6 \/ d = 7 \/ d = 8 \/ d = 9) as Hd by lia.
  repeat (destruct Hd as [Hd | Hd]; [subst d; reflexivity|]). subst d; reflexivity.
Qed.

Lemma is_digit_val c : is_digit c = true -> 0 <= digit_val c <= 9.
Proof. unfold is_digit, digit_val. lia. Qed.

Lemma dval_acc_app a b acc : dval_acc (a ++ b) acc = dval_acc b (dval_acc a acc).
Proof. revert acc; induction a as [|c a IH]; intros acc; cbn; [reflexivity|apply IH]. Qed.

Lemma dval_acc_lin s acc : dval_acc s acc = acc * 10 ^ slen s + dval_acc s 0.
Proof.
  revert acc; induction s as [|c s IH]; intros acc.
  - cbn. unfold slen; cbn. lia.
  - cbn [dval_acc]. rewrite IH. rewrite (IH (10 * 0 + digit_val c)).
    unfold slen; cbn [String.length]. rewrite Nat2Z.inj_succ, Z.pow_succ_r by lia. lia.
Qed.

Lemma all_chars_app p a b : all_chars p (a ++ b) = all_chars p a && all_chars p b.
Proof. induction a as [|c a IH]; cbn; [reflexivity|]. rewrite IH. apply andb_assoc. Qed.

Lemma length_app_s a b : String.length (a ++ b) = (String.length a + String.length b)%nat.
Proof. induction a as [|c a IH]; cbn; [reflexivity|]. now rewrite IH. Qed.

Lemma fixw_length k n : String.length (fixw k n) = k.
Proof. revert n; induction k as [|k IH]; intros n; cbn; [reflexivity|]. rewrite length_app_s, IH. cbn. lia. Qed.

Lemma fixw_digits k n : all_chars is_digit (fixw k n) = true.
Proof.
  revert n; induction k as [|k IH]; intros n; cbn; [reflexivity|].
  rewrite all_chars_app, IH. cbn. rewrite digit_chr_is_digit; [reflexivity|lia].
Qed.

Lemma dval_fixw k n : 0 <= n < 10 ^ Z.of_nat k -> dval (fixw k n) = n.
Proof.
  revert n; induction k as [|k IH]; intros n H.
  - cbn in *. unfold dval; cbn. lia.
  - cbn [fixw]. unfold dval. rewrite dval_acc_app. fold (dval (fixw k (n / 10))).
    rewrite Nat2Z.inj_succ, Z.pow_succ_r in H by lia.
    rewrite IH by (split; [apply Z.div_pos; lia | apply Z.div_lt_upper_bound; lia]).
    cbn [dval_acc]. rewrite digit_roundtrip by lia. lia.
Qed.

Lemma strip0_digits s : all_chars is_digit s = true -> all_chars is_digit (strip0 s) = true.
Proof.
  induction s as [|c s IH]; intros H; [exact H|].
  cbn [strip0]. destruct s as [|c' s']; [exact H|].
  destruct (Ascii.eqb c "0"); [|exact H]. apply IH.
  change (is_digit c && all_chars is_digit (String c' s') = true) in H.
  apply andb_true_iff in H as [_ H]. exact H.
Qed.

Lemma dval_strip0 s : dval (strip0 s) = dval s.
Proof.
  induction s as [|c s IH]; [reflexivity|].
  cbn [strip0]. destruct s as [|c' s']; [reflexivity|].
  destruct (Ascii.eqb c "0") eqn:E; [|reflexivity].
  apply Ascii.eqb_eq in E; subst c. rewrite IH. unfold dval. cbn. reflexivity.
Qed.

Lemma strip0_nonempty s : s <> EmptyString -> strip0 s <> EmptyString.
Proof.
  induction s as [|c s IH]; intros H; [congruence|].
  cbn [strip0]. destruct s as [|c' s']; [congruence|].
  destruct (Ascii.eqb c "0"); [apply IH|]; congruence.
Qed.

Lemma dec_val n : 0 <= n < 10 ^ 20 -> dval (dec n) = n.
Proof. intros H. unfold dec. rewrite dval_strip0. apply dval_fixw. exact H. Qed.

Lemma dec_digits n : all_chars is_digit (dec n) = true.
Proof. unfold dec. apply strip0_digits, fixw_digits. Qed.

Lemma dec_nonempty n : dec n <> EmptyString.
Proof.
  unfold dec. apply strip0_nonempty. intros E.
  pose proof (fixw_length 20 n) as L. rewrite E in L. discriminate L.
Qed.

Lemma dec_inj a b : 0 <= a < 10 ^ 20 -> 0 <= b < 10 ^ 20 -> dec a = dec b -> a = b.
Proof. intros Ha Hb E. rewrite <- (dec_val a Ha), <- (dec_val b Hb), E. reflexivity. Qed.

Lemma nonempty_true s : nonempty s = true <-> s <> EmptyString.
Proof. destruct s; cbn; split; congruence. Qed.

Lemma nonempty_dec n : nonempty (dec n) = true.
Proof. apply nonempty_true, dec_nonempty. Qed.

Lemma nonempty_app_l a b : nonempty a = true -> nonempty (a +++ b) = true.
Proof. destruct a; cbn; congruence. Qed.

Lemma atoi_dec n : 0 <= n <= int64_max -> atoi (dec n) = Ok n.
Proof.
  intros H. unfold atoi. rewrite nonempty_dec, dec_digits. cbn [andb].
  rewrite dec_val by (unfold int64_max in H; lia).
  destruct (n <=? int64_max) eqn:L; [reflexivity|lia].
Qed.

(* [span] on a block of p-characters followed by something that does not start
   with a p-character *)
Definition starts_not (p : ascii -> bool) (r : string) : Prop :=
  match r with EmptyString => True | String c _ => p c = false end.

Lemma span_app p a r : all_chars p a = true -> starts_not p r -> span p (a ++ r) = (a, r).
Proof.
  induction a as [|c a IH]; intros Ha Hr.
  - cbn. destruct r as [|c r]; [reflexivity|]. cbn in Hr |- *. rewrite Hr. reflexivity.
  - cbn in Ha. apply andb_true_iff in Ha as [Hc Ha]. cbn. rewrite Hc, (IH Ha Hr). reflexivity.
Qed.

Lemma span_dec n r : starts_not is_digit r -> span is_digit (dec n ++ r) = (dec n, r).
Proof. intros H. apply span_app; [apply dec_digits|exact H]. Qed.

Lemma wrap64_id z : in_int64 z -> wrap64 z = z.
Proof. unfold in_int64, wrap64, int64_min, int64_max, two64. lia. Qed.

Lemma wrap64_range z : in_int64 (wrap64 z).
Proof. unfold in_int64, wrap64, int64_min, int64_max, two64. lia. Qed.

Lemma app_assoc_s (a b c : string) : (a ++ b) ++ c = a ++ (b ++ c).
Proof. induction a as [|x a IH]; cbn; [reflexivity|]. now rewrite IH. Qed.

Lemma app_nil_r_s (a : string) : a ++ EmptyString = a.
Proof. induction a as [|x a IH]; cbn; [reflexivity|]. now rewrite IH. Qed.

(* ---- trimming and padding the fraction ---- *)
Lemma trim0r_digits x : all_chars is_digit x = true -> all_chars is_digit (trim0r x) = true.
Proof.
  induction x as [|c x IH]; intros H; [reflexivity|].
  cbn in H. apply andb_true_iff in H as [Hc Hx]. specialize (IH Hx).
  cbn [trim0r]. destruct (trim0r x) as [|c' x'] eqn:E.
  - destruct (Ascii.eqb c "0"); cbn; [reflexivity|]. rewrite Hc. reflexivity.
  - cbn [all_chars]. rewrite Hc. exact IH.
Qed.

Lemma trim0r_length x : (String.length (trim0r x) <= String.length x)%nat.
Proof.
  induction x as [|c x IH]; cbn [trim0r]; [cbn; lia|].
  destruct (trim0r x) as [|c' x'] eqn:E.
  - destruct (Ascii.eqb c "0"); cbn; lia.
  - cbn [String.length] in *. lia.
Qed.

Lemma trim0r_pad_ex x :
  exists k, trim0r x +++ srepeat "0" k = x /\ (k + String.length (trim0r x) = String.length x)%nat.
Proof.
  induction x as [|c x IH]; [exists 0%nat; split; reflexivity|].
  destruct IH as (k & E & L).
  cbn [trim0r]. destruct (trim0r x) as [|c' x'] eqn:T.
  - cbn [String.append String.length] in E, L.
    destruct (Ascii.eqb c "0") eqn:C.
    + apply Ascii.eqb_eq in C. subst c. exists (S k). cbn [String.append srepeat String.length].
      rewrite E. split; [reflexivity|lia].
    + exists k. cbn [String.append String.length]. rewrite E. split; [reflexivity|lia].
  - exists k. cbn [String.append String.length] in *. rewrite E. split; [reflexivity|lia].
Qed.

Lemma trim0r_pad x :
  trim0r x +++ srepeat "0" (String.length x - String.length (trim0r x)) = x.
Proof.
  destruct (trim0r_pad_ex x) as (k & E & L).
  replace (String.length x - String.length (trim0r x))%nat with k by lia. exact E.
Qed.

Lemma trim0r_dot x : trim0r (String "." x) = String "." (trim0r x).
Proof. cbn [trim0r]. destruct (trim0r x); reflexivity. Qed.

Lemma take_all n x : (String.length x <= n)%nat -> take n x = x.
Proof.
  revert x; induction n as [|n IH]; intros x H.
  - destruct x; [reflexivity|cbn in H; lia].
  - destruct x as [|c x]; [reflexivity|]. cbn in *. rewrite IH by lia. reflexivity.
Qed.

Lemma dval_zeros k : dval (srepeat "0" k) = 0.
Proof.
  unfold dval. induction k as [|k IH]; cbn; [reflexivity|]. exact IH.
Qed.

