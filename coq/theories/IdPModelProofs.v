(* IdPModelProofs.v — lemmas about IdPModel.v (C05, C06, C08 and the abstract part of C07) *)
From Saml Require Import Base BaseProofs TimeModel IdPModel.

Local Open Scope list_scope.
Local Open Scope Z_scope.

(* ---------- small facts ---------- *)
Lemma seqb_iff a b : seqb a b = true <-> a = b.
Proof. unfold seqb. apply String.eqb_eq. Qed.
Lemma seqb_false_iff a b : seqb a b = false <-> a <> b.
Proof. unfold seqb. apply String.eqb_neq. Qed.
Lemma seqb_refl a : seqb a a = true.
Proof. apply seqb_iff. reflexivity. Qed.
Lemma nonempty_false_iff s : nonempty s = false <-> s = "".
Proof. destruct s; simpl; split; intro H; try reflexivity; discriminate. Qed.
Lemma nonempty_true_iff s : nonempty s = true <-> s <> "".
Proof. destruct s; simpl; split; intro H; try discriminate; try congruence. Qed.

(* ---------- strconv.Itoa is injective: index equality is decimal-string equality ---------- *)
Lemma dec_first_not_minus n r : dec n <> String "-" r.
Proof.
  intro H. pose proof (dec_digits n) as D. rewrite H in D. simpl in D.
  vm_compute in D. discriminate.
Qed.

Lemma itoa_inj a b : -10 ^ 20 < a < 10 ^ 20 -> -10 ^ 20 < b < 10 ^ 20 -> itoa a = itoa b -> a = b.
Proof.
  unfold itoa. intros Ha Hb.
  destruct (a <? 0) eqn:Ea; destruct (b <? 0) eqn:Eb; intro H.
  - injection H as H. apply dec_inj in H; lia.
  - symmetry in H. apply dec_first_not_minus in H. contradiction.
  - apply dec_first_not_minus in H. contradiction.
  - apply dec_inj in H; lia.
Qed.

(* ---------- "first match in document order" ---------- *)
Definition none_match {A} (p : A -> bool) (l : list A) : bool := forallb (fun y => negb (p y)) l.

Lemma find_index_some {A} (p : A -> bool) l : forall i j x,
  find_index p l i = Some (j, x) ->
  exists pre post, l = pre ++ x :: post /\ none_match p pre = true /\ p x = true
                   /\ j = i + Z.of_nat (List.length pre).
Proof.
  induction l as [|y r IH]; intros i j x H; simpl in H; [discriminate|].
  destruct (p y) eqn:E.
  - injection H as <- <-. exists [], r. simpl. repeat split; auto. lia.
  - apply IH in H. destruct H as (pre & post & -> & Hn & Hp & ->).
    exists (y :: pre), post. simpl. rewrite E. simpl. repeat split; auto. lia.
Qed.

Lemma find_index_none {A} (p : A -> bool) l : forall i,
  find_index p l i = None <-> none_match p l = true.
Proof.
  induction l as [|y r IH]; intro i; simpl; [tauto|].
  destruct (p y); simpl; [split; discriminate | apply IH].
Qed.

Lemma find_index_complete {A} (p : A -> bool) pre x post i :
  none_match p pre = true -> p x = true ->
  find_index p (pre ++ x :: post) i = Some (i + Z.of_nat (List.length pre), x).
Proof.
  revert i. induction pre as [|y r IH]; intros i Hn Hp; simpl.
  - rewrite Hp. f_equal. f_equal. lia.
  - simpl in Hn. apply andb_true_iff in Hn. destruct Hn as [Hy Hr].
    apply negb_true_iff in Hy. rewrite Hy. rewrite IH by assumption. f_equal. f_equal. lia.
Qed.

Definition desc_none_match (p : endpoint -> bool) (ds : list spsso) : bool :=
  forallb (fun d => none_match p (acs d)) ds.

(* the result of the nested loop is the first endpoint, in document order,
   satisfying p; its positions are the lengths of the two prefixes *)
Definition first_match (p : endpoint -> bool) (ds : list spsso) (i : Z) (r : Z * Z * spsso * endpoint) : Prop :=
  let '(di, ei, d, e) := r in
  exists dpre dpost epre epost,
    ds = dpre ++ d :: dpost /\ acs d = epre ++ e :: epost /\
    desc_none_match p dpre = true /\ none_match p epre = true /\ p e = true /\
    di = i + Z.of_nat (List.length dpre) /\ ei = Z.of_nat (List.length epre).

Lemma find_acs_some p ds : forall i r, find_acs p ds i = Some r -> first_match p ds i r.
Proof.
  induction ds as [|d0 rest IH]; intros i r H; simpl in H; [discriminate|].
  destruct (find_index p (acs d0) 0) as [[ei e]|] eqn:E.
  - injection H as <-. apply find_index_some in E. destruct E as (epre & epost & He & Hn & Hp & ->).
    exists [], rest, epre, epost. simpl. repeat split; auto. lia.
  - apply IH in H. destruct r as [[[di ei] d] e].
    destruct H as (dpre & dpost & epre & epost & -> & He & Hd & Hn & Hp & -> & ->).
    exists (d0 :: dpre), dpost, epre, epost. simpl.
    apply find_index_none in E. rewrite E. simpl. repeat split; auto. lia.
Qed.

Lemma find_acs_none p ds : forall i, find_acs p ds i = None <-> desc_none_match p ds = true.
Proof.
  induction ds as [|d0 rest IH]; intro i; simpl; [tauto|].
  destruct (find_index p (acs d0) 0) as [[ei e]|] eqn:E.
  - split; [discriminate|]. intro H. apply andb_true_iff in H. destruct H as [H _].
    apply find_index_none with (i := 0) in H. congruence.
  - apply find_index_none in E. rewrite E. simpl. apply IH.
Qed.

Lemma find_acs_complete p ds i r : first_match p ds i r -> find_acs p ds i = Some r.
Proof.
  destruct r as [[[di ei] d] e].
  intros (dpre & dpost & epre & epost & -> & He & Hd & Hn & Hp & -> & ->).
  revert i. induction dpre as [|d0 rest IH]; intro i; simpl.
  - rewrite He. rewrite find_index_complete by assumption. f_equal. f_equal. f_equal. f_equal; lia.
  - simpl in Hd. apply andb_true_iff in Hd. destruct Hd as [H0 Hr].
    apply find_index_none with (i := 0) in H0. rewrite H0. rewrite IH by assumption.
    f_equal. f_equal. f_equal. f_equal. lia.
Qed.

Lemma find_acs_none_forall p ds :
  desc_none_match p ds = true <-> (forall d e, In d ds -> In e (acs d) -> p e = false).
Proof.
  unfold desc_none_match, none_match. rewrite forallb_forall. split.
  - intros H d e Hd He. specialize (H d Hd). rewrite forallb_forall in H.
    specialize (H e He). apply negb_true_iff in H. exact H.
  - intros H d Hd. rewrite forallb_forall. intros e He. apply negb_true_iff. eauto.
Qed.

Lemma nth_z_app {A} (pre : list A) x post : nth_z (pre ++ x :: post) (Z.of_nat (List.length pre)) = Some x.
Proof.
  induction pre as [|y r IH]; [reflexivity|].
  cbn [List.length app nth_z].
  destruct (Z.of_nat (S (List.length r)) =? 0) eqn:E; [lia|].
  destruct (Z.of_nat (S (List.length r)) <? 0) eqn:E2; [lia|].
  replace (Z.of_nat (S (List.length r)) - 1) with (Z.of_nat (List.length r)) by lia. exact IH.
Qed.

Lemma nth_z_in {A} (l : list A) : forall i x, nth_z l i = Some x -> In x l.
Proof.
  induction l as [|y r IH]; intros i x H; simpl in H; [discriminate|].
  destruct (i =? 0); [injection H as <-; left; reflexivity|].
  destruct (i <? 0); [discriminate|]. right. eauto.
Qed.

Lemma first_match_registered p ds r :
  first_match p ds 0 r ->
  let '(di, ei, d, e) := r in
  nth_z ds di = Some d /\ nth_z (acs d) ei = Some e /\ In d ds /\ In e (acs d) /\ p e = true.
Proof.
  destruct r as [[[di ei] d] e].
  intros (dpre & dpost & epre & epost & -> & He & Hd & Hn & Hp & -> & ->).
  rewrite He. simpl. rewrite !nth_z_app. repeat split; auto.
  - apply in_or_app. right. left. reflexivity.
  - apply in_or_app. right. left. reflexivity.
Qed.

(* ---------- getACSEndpoint: which stage produced the result ---------- *)
Inductive acs_stage (md : spmeta) (rq : authnreq) (r : Z * Z * spsso * endpoint) : Prop :=
| StageIndex :
    rq_acs_index rq <> "" -> first_match (p_index (rq_acs_index rq)) (descriptors md) 0 r -> acs_stage md rq r
| StageUrl :
    (rq_acs_index rq = "" \/ desc_none_match (p_index (rq_acs_index rq)) (descriptors md) = true) ->
    rq_acs_url rq <> "" -> first_match (p_url (rq_acs_url rq)) (descriptors md) 0 r -> acs_stage md rq r
| StageDefault :
    rq_acs_index rq = "" -> rq_acs_url rq = "" ->
    first_match p_default (descriptors md) 0 r -> acs_stage md rq r
| StageAny :
    rq_acs_index rq = "" -> rq_acs_url rq = "" ->
    desc_none_match p_default (descriptors md) = true ->
    first_match p_browser (descriptors md) 0 r -> acs_stage md rq r.

Lemma get_acs_endpoint_spec md rq r :
  get_acs_endpoint md rq = Some r <-> acs_stage md rq r.
Proof.
  unfold get_acs_endpoint. split.
  - intro H.
    destruct (nonempty (rq_acs_index rq)) eqn:Ei.
    + destruct (find_acs (p_index (rq_acs_index rq)) (descriptors md) 0) eqn:F1.
      * injection H as <-. apply StageIndex; [apply nonempty_true_iff; exact Ei | apply find_acs_some; exact F1].
      * apply find_acs_none in F1.
        destruct (nonempty (rq_acs_url rq)) eqn:Eu.
        -- destruct (find_acs (p_url (rq_acs_url rq)) (descriptors md) 0) eqn:F2.
           ++ injection H as <-. apply StageUrl; [right; exact F1 | apply nonempty_true_iff; exact Eu | apply find_acs_some; exact F2].
           ++ simpl in H. discriminate.
        -- simpl in H. discriminate.
    + apply nonempty_false_iff in Ei.
      destruct (nonempty (rq_acs_url rq)) eqn:Eu.
      * destruct (find_acs (p_url (rq_acs_url rq)) (descriptors md) 0) eqn:F2.
        -- injection H as <-. apply StageUrl; [left; exact Ei | apply nonempty_true_iff; exact Eu | apply find_acs_some; exact F2].
        -- simpl in H. discriminate.
      * apply nonempty_false_iff in Eu. simpl in H.
        destruct (find_acs p_default (descriptors md) 0) eqn:F3.
        -- injection H as <-. apply StageDefault; auto. apply find_acs_some; exact F3.
        -- apply find_acs_none in F3. apply StageAny; auto. apply find_acs_some; exact H.
  - intros [Hi Hm | Hi Hu Hm | Hi Hu Hm | Hi Hu Hn Hm].
    + apply nonempty_true_iff in Hi. rewrite Hi. rewrite (find_acs_complete _ _ _ _ Hm). reflexivity.
    + assert (X : (if nonempty (rq_acs_index rq) then find_acs (p_index (rq_acs_index rq)) (descriptors md) 0 else None) = None).
      { destruct Hi as [Hi | Hi]; [rewrite Hi; reflexivity|].
        destruct (nonempty (rq_acs_index rq)); [apply find_acs_none; exact Hi | reflexivity]. }
      rewrite X. apply nonempty_true_iff in Hu. rewrite Hu. rewrite (find_acs_complete _ _ _ _ Hm). reflexivity.
    + rewrite Hi, Hu. simpl. rewrite (find_acs_complete _ _ _ _ Hm). reflexivity.
    + rewrite Hi, Hu. simpl. apply (find_acs_none _ _ 0) in Hn. rewrite Hn. apply find_acs_complete. exact Hm.
Qed.

(* whatever the stage, the result is an element of the registered metadata *)
Lemma get_acs_endpoint_registered md rq di ei d e :
  get_acs_endpoint md rq = Some (di, ei, d, e) ->
  nth_z (descriptors md) di = Some d /\ nth_z (acs d) ei = Some e /\ In d (descriptors md) /\ In e (acs d).
Proof.
  intro H. apply get_acs_endpoint_spec in H.
  destruct H as [_ Hm | _ _ Hm | _ _ Hm | _ _ _ Hm];
    apply first_match_registered in Hm; tauto.
Qed.

(* no endpoint is selected when the request names an index or URL that matches nothing *)
Lemma get_acs_endpoint_no_match md rq :
  (rq_acs_index rq <> "" \/ rq_acs_url rq <> "") ->
  (rq_acs_index rq = "" \/ desc_none_match (p_index (rq_acs_index rq)) (descriptors md) = true) ->
  (rq_acs_url rq = "" \/ desc_none_match (p_url (rq_acs_url rq)) (descriptors md) = true) ->
  get_acs_endpoint md rq = None.
Proof.
  intros Hne Hi Hu.
  destruct (get_acs_endpoint md rq) as [r|] eqn:E; [|reflexivity]. exfalso.
  apply get_acs_endpoint_spec in E.
  destruct E as [Hi' Hm | _ Hu' Hm | Hi' Hu' _ | Hi' Hu' _ _].
  - destruct Hi as [Hi | Hi]; [contradiction|].
    apply find_acs_complete in Hm. apply (find_acs_none _ _ 0) in Hi. congruence.
  - destruct Hu as [Hu | Hu]; [contradiction|].
    apply find_acs_complete in Hm. apply (find_acs_none _ _ 0) in Hu. congruence.
  - destruct Hne; contradiction.
  - destruct Hne; contradiction.
Qed.

Lemma p_index_iff idx e : p_index idx e = true <-> itoa (ep_index e) = idx.
Proof. unfold p_index. apply seqb_iff. Qed.
Lemma p_url_iff url e : p_url url e = true <-> ep_location e = url.
Proof. unfold p_url. apply seqb_iff. Qed.
Lemma p_default_iff e :
  p_default e = true <-> ep_default e = Some true /\ (ep_binding e = post_binding \/ ep_binding e = redirect_binding).
Proof.
  unfold p_default, is_default, browser_binding. rewrite andb_true_iff, orb_true_iff, !seqb_iff.
  destruct (ep_default e) as [[|]|]; split; intros [H1 H2]; split; auto; discriminate.
Qed.
Lemma p_browser_iff e : p_browser e = true <-> (ep_binding e = post_binding \/ ep_binding e = redirect_binding).
Proof. unfold p_browser, browser_binding. rewrite orb_true_iff, !seqb_iff. tauto. Qed.
Lemma p_post_iff e : p_post e = true <-> ep_binding e = post_binding.
Proof. unfold p_post. apply seqb_iff. Qed.

(* ---------- Validate ---------- *)
Definition valid_request (cfg : idpcfg) (reg : registry) (now : Z) (rq : authnreq) (md : spmeta) : Prop :=
  now <= rq_issue rq + max_issue_delay cfg /\ rq_version rq = "2.0" /\
  (rq_destination rq <> "" -> rq_destination rq = sso_url cfg) /\
  exists iss, rq_issuer rq = Some iss /\ reg iss = Found md.

Theorem validate_iff cfg reg now rq rt :
  validate cfg reg now rq = Ok rt <->
  exists r, valid_request cfg reg now rq (rt_md rt) /\ get_acs_endpoint (rt_md rt) rq = Some r
            /\ rt = mk_routing (rt_md rt) r.
Proof.
  unfold validate, valid_request. split.
  - intro H.
    destruct (nonempty (rq_destination rq) && negb (seqb (rq_destination rq) (sso_url cfg))) eqn:Ed; [discriminate|].
    destruct (rq_issue rq + max_issue_delay cfg <? now) eqn:Ef; [discriminate|].
    destruct (negb (seqb (rq_version rq) "2.0")) eqn:Ev; [discriminate|].
    destruct (rq_issuer rq) as [iss|] eqn:Ei; [|discriminate].
    destruct (reg iss) as [md| |] eqn:Er; try discriminate.
    destruct (get_acs_endpoint md rq) as [r|] eqn:Ea; [|discriminate].
    injection H as <-. exists r.
    assert (Hmd : rt_md (mk_routing md r) = md) by (destruct r as [[[? ?] ?] ?]; reflexivity).
    rewrite Hmd. repeat split; auto.
    + lia.
    + apply negb_false_iff in Ev. apply seqb_iff in Ev. exact Ev.
    + intro Hne. apply andb_false_iff in Ed. destruct Ed as [Ed | Ed].
      * apply nonempty_false_iff in Ed. contradiction.
      * apply negb_false_iff in Ed. apply seqb_iff in Ed. exact Ed.
    + exists iss. auto.
  - intros (r & (Hf & Hv & Hd & iss & Hi & Hr) & Ha & Hrt).
    assert (Ed : nonempty (rq_destination rq) && negb (seqb (rq_destination rq) (sso_url cfg)) = false).
    { destruct (nonempty (rq_destination rq)) eqn:En; [|reflexivity]. simpl.
      apply negb_false_iff. apply seqb_iff. apply Hd. apply nonempty_true_iff. exact En. }
    rewrite Ed.
    assert (Ef : rq_issue rq + max_issue_delay cfg <? now = false) by lia. rewrite Ef.
    rewrite Hv. simpl. rewrite Hi, Hr, Ha. f_equal. symmetry. exact Hrt.
Qed.

Theorem validate_sound cfg reg now rq rt :
  validate cfg reg now rq = Ok rt ->
  now <= rq_issue rq + max_issue_delay cfg /\ rq_version rq = "2.0" /\
  (rq_destination rq <> "" -> rq_destination rq = sso_url cfg) /\
  exists iss md, rq_issuer rq = Some iss /\ reg iss = Found md /\ rt_md rt = md.
Proof.
  intro H. apply validate_iff in H. destruct H as (r & (Hf & Hv & Hd & iss & Hi & Hr) & _ & _).
  repeat split; auto. exists iss, (rt_md rt). auto.
Qed.

Theorem validate_complete cfg reg now rq iss md r :
  now <= rq_issue rq + max_issue_delay cfg -> rq_version rq = "2.0" ->
  (rq_destination rq <> "" -> rq_destination rq = sso_url cfg) ->
  rq_issuer rq = Some iss -> reg iss = Found md -> get_acs_endpoint md rq = Some r ->
  validate cfg reg now rq = Ok (mk_routing md r).
Proof.
  intros Hf Hv Hd Hi Hr Ha. apply validate_iff.
  assert (Hmd : rt_md (mk_routing md r) = md) by (destruct r as [[[? ?] ?] ?]; reflexivity).
  exists r. rewrite Hmd. unfold valid_request. repeat split; auto. exists iss. auto.
Qed.

Theorem validate_endpoint_registered cfg reg now rq rt :
  validate cfg reg now rq = Ok rt ->
  In (rt_desc rt) (descriptors (rt_md rt)) /\ In (rt_ep rt) (acs (rt_desc rt)) /\
  nth_z (descriptors (rt_md rt)) (rt_di rt) = Some (rt_desc rt) /\
  nth_z (acs (rt_desc rt)) (rt_ei rt) = Some (rt_ep rt) /\
  exists iss, rq_issuer rq = Some iss /\ reg iss = Found (rt_md rt).
Proof.
  intro H. apply validate_iff in H.
  destruct H as (r & (_ & _ & _ & iss & Hi & Hr) & Ha & Hrt).
  destruct r as [[[di ei] d] e]. apply get_acs_endpoint_registered in Ha.
  rewrite Hrt. simpl. destruct Ha as (H1 & H2 & H3 & H4). repeat split; auto.
  exists iss. auto.
Qed.

Theorem validate_no_issuer_is_error cfg reg now rq :
  rq_issuer rq = None -> exists c, validate cfg reg now rq = Err c.
Proof.
  intro H. unfold validate. rewrite H.
  destruct (nonempty (rq_destination rq) && negb (seqb (rq_destination rq) (sso_url cfg))); [eauto|].
  destruct (rq_issue rq + max_issue_delay cfg <? now); [eauto|].
  destruct (negb (seqb (rq_version rq) "2.0")); eauto.
Qed.

Lemma validate_not_panic cfg reg now rq : validate cfg reg now rq <> Panic.
Proof.
  unfold validate.
  repeat match goal with |- context [if ?b then _ else _] => destruct b; try discriminate end;
  repeat match goal with |- context [match ?x with _ => _ end] => destruct x; try discriminate end.
Qed.

Lemma decode_req_not_panic f : decode_req f <> Panic.
Proof.
  destruct f as [|w]; cbn [decode_req]; [discriminate|].
  destruct (w_issue w) as [s|]; cbn [bind]; [|discriminate].
  unfold parse_relaxed. destruct (negb (nonempty s)); cbn [bind]; [discriminate|].
  destruct (parse_layout true s); cbn [bind]; try discriminate;
  destruct (parse_layout false s); cbn [bind]; discriminate.
Qed.

Theorem validate_never_panics cfg reg now f : validate_framed cfg reg now f <> Panic.
Proof.
  unfold validate_framed. pose proof (decode_req_not_panic f) as D.
  destruct (decode_req f); cbn [bind]; [apply validate_not_panic | discriminate | contradiction].
Qed.

(* IdP-initiated routing: first HTTP-POST endpoint of the registered metadata *)
Theorem idp_initiated_registered md di ei d e :
  idp_initiated_route md = Some (di, ei, d, e) ->
  In d (descriptors md) /\ In e (acs d) /\ ep_binding e = post_binding /\
  first_match p_post (descriptors md) 0 (di, ei, d, e).
Proof.
  unfold idp_initiated_route. intro H. apply find_acs_some in H.
  pose proof (first_match_registered _ _ _ H) as R. simpl in R.
  destruct R as (_ & _ & Hd & He & Hp). apply p_post_iff in Hp. auto.
Qed.

(* the boolean request check used by the correspondence monitor is the proposition *)
Lemma valid_request_b_iff cfg reg now rq :
  valid_request_b cfg reg now rq = true <-> exists md, valid_request cfg reg now rq md.
Proof.
  unfold valid_request_b, valid_request. rewrite !andb_true_iff, orb_true_iff, negb_true_iff.
  rewrite nonempty_false_iff, !seqb_iff, Z.leb_le. split.
  - intros [[[Hf Hv] Hd] Hi]. destruct (rq_issuer rq) as [iss|]; [|discriminate].
    destruct (reg iss) as [md| |] eqn:Er; try discriminate.
    exists md. repeat split; auto.
    + intro Hne. destruct Hd; [contradiction | assumption].
    + exists iss. auto.
  - intros (md & Hf & Hv & Hd & iss & Hi & Hr). rewrite Hi, Hr. repeat split; auto.
    destruct (string_dec (rq_destination rq) ""); [left | right]; auto.
Qed.

(* ---------- the response path never panics; what a written form looks like ---------- *)
Lemma enc_loop_not_panic l : enc_loop l <> Panic.
Proof.
  induction l as [|k r IH]; simpl; [discriminate|].
  destruct (seqb (kd_use k) "encryption"); [|exact IH].
  destruct (first_cert k); discriminate.
Qed.

Lemma choose_cert_str_not_panic l : choose_cert_str l <> Panic.
Proof.
  unfold choose_cert_str. pose proof (enc_loop_not_panic l) as H.
  destruct (enc_loop l) as [c| |]; cbn [bind]; [|discriminate|contradiction].
  destruct (nonempty (if nonempty c then c else unspec_loop l)); discriminate.
Qed.

Lemma enc_decision_not_panic cp l : enc_decision cp l <> EncPanic.
Proof.
  unfold enc_decision. pose proof (choose_cert_str_not_panic l) as H.
  destruct (choose_cert_str l) as [[c|]| |]; try discriminate; [|contradiction].
  destruct (cp c); discriminate.
Qed.

Lemma make_assertion_el_not_panic cfg cp rt a rnd : make_assertion_el cfg cp rt a rnd <> Panic.
Proof.
  unfold make_assertion_el. destruct (signing_context cfg) as [ctx| |] eqn:E; cbn [bind]; try discriminate.
  - pose proof (enc_decision_not_panic cp (kds (rt_desc rt))) as H.
    destruct (enc_decision cp (kds (rt_desc rt))); try discriminate. contradiction.
  - unfold signing_context in E. destruct (mem_str _ _); discriminate.
Qed.

Lemma make_response_not_panic cfg rt rq now ael rand : make_response cfg rt rq now ael rand <> Panic.
Proof.
  unfold make_response. destruct (draw_id rand) as [id r].
  destruct (signing_context cfg) as [ctx| |] eqn:E; cbn [bind]; try discriminate.
  unfold signing_context in E. destruct (mem_str _ _); discriminate.
Qed.

Lemma post_form_ok rt resp relay x :
  post_form rt resp relay = Ok x ->
  x = (ep_location (rt_ep rt), resp, relay) /\ ep_binding (rt_ep rt) = post_binding.
Proof.
  unfold post_form. destruct (seqb (ep_binding (rt_ep rt)) post_binding) eqn:E; simpl; [|discriminate].
  intro H. injection H as <-. split; [reflexivity | apply seqb_iff; exact E].
Qed.

Lemma respond_not_panic cfg cp rt rq s now tnow addr relay rnd :
  respond cfg cp rt rq s now tnow addr relay rnd <> Panic.
Proof.
  unfold respond. destruct (make_assertion cfg rt rq s now tnow addr (rnd_saml rnd)) as [a rand'].
  pose proof (make_assertion_el_not_panic cfg cp rt a rnd) as H1.
  destruct (make_assertion_el cfg cp rt a rnd) as [ael| |]; cbn [bind]; [|discriminate|contradiction].
  pose proof (make_response_not_panic cfg rt rq now ael rand') as H2.
  destruct (make_response cfg rt rq now ael rand') as [resp| |]; cbn [bind]; [|discriminate|contradiction].
  unfold post_form. destruct (negb _); discriminate.
Qed.

Lemma respond_ok cfg cp rt rq s now tnow addr relay rnd action resp rl :
  respond cfg cp rt rq s now tnow addr relay rnd = Ok (action, resp, rl) ->
  action = ep_location (rt_ep rt) /\ rl = relay /\ ep_binding (rt_ep rt) = post_binding.
Proof.
  unfold respond. destruct (make_assertion cfg rt rq s now tnow addr (rnd_saml rnd)) as [a rand'].
  destruct (make_assertion_el cfg cp rt a rnd) as [ael| |]; cbn [bind]; try discriminate.
  destruct (make_response cfg rt rq now ael rand') as [resp'| |]; cbn [bind]; try discriminate.
  intro H. apply post_form_ok in H. destruct H as [H Hb]. injection H as -> -> ->. auto.
Qed.

(* the monitor [c05_spec] holds of the model's own output: the main theorems restated *)
Theorem c05_spec_of_model cfg regl now f s addr relay rnd :
  c05_spec {| c5_cfg := cfg; c5_reg := regl; c5_now := now; c5_req := f;
              c5_obs := vobs_of (validate_framed cfg (reg_of_list regl) now f);
              c5_http := serve_sso cfg (cp_of_list []) (reg_of_list regl) now f s addr relay rnd |} = true.
Proof.
  unfold c05_spec, validate_framed, serve_sso. simpl.
  destruct (decode_req f) as [rq| |] eqn:Ed; simpl; try reflexivity.
  2:{ exfalso. exact (decode_req_not_panic f Ed). }
  destruct (validate cfg (reg_of_list regl) now rq) as [rt| |] eqn:Ev; simpl; try reflexivity.
  2:{ exfalso. exact (validate_not_panic _ _ _ _ Ev). }
  pose proof (proj1 (validate_iff _ _ _ _ _) Ev) as (r & Hvr & Ha & Hrt).
  pose proof (validate_endpoint_registered _ _ _ _ _ Ev) as (_ & _ & Hn1 & Hn2 & iss & Hi & Hr).
  assert (Hb : valid_request_b cfg (reg_of_list regl) now rq = true) by (apply valid_request_b_iff; eauto).
  rewrite Hb. simpl. unfold registered_md. rewrite Hi, Hr. rewrite Ha.
  destruct r as [[[di ei] d] e]. rewrite Hrt. simpl. rewrite !Z.eqb_refl. simpl.
  unfold endpoint_at. rewrite Hrt in Hn1, Hn2. simpl in Hn1, Hn2. rewrite Hn1, Hn2.
  match goal with |- context [respond ?c ?cp ?r ?q ?ss ?n ?t ?ad ?rl ?rn] =>
    pose proof (respond_not_panic c cp r q ss n t ad rl rn) as Hnp;
    destruct (respond c cp r q ss n t ad rl rn) as [[[action resp] rl']| |] eqn:Eresp end;
    simpl; [| reflexivity | contradiction].
  apply respond_ok in Eresp. simpl in Eresp. destruct Eresp as (-> & _ & ->).
  rewrite !seqb_refl. reflexivity.
Qed.
