(* IdPModelProofs.v — lemmas about IdPModel.v (C05, C06, C08 and the abstract part of C07) *)
From Saml Require Import Base BaseProofs TimeModel IdPModel.

Local Open Scope list_scope.
Local Open Scope Z_scope.

(* ---------- small facts ---------- *)
Lemma seqb_iff a b : seqb a b = true <-> a = b.
Proof. unfold seqb. apply String.eqb_eq. Qed.
Lemma seqb_false_iff a b : seqb a b = false <-> a <> b.
Proof. unfold seqb. apply String.eqb_neq. Qed.
Lemma seqb_refl a : seqb a a = true.
Proof. apply seqb_iff. reflexivity. Qed.
Lemma nonempty_false_iff s : nonempty s = false <-> s = "".
Proof. destruct s; simpl; split; intro H; try reflexivity; discriminate. Qed.
Lemma nonempty_true_iff s : nonempty s = true <-> s <> "".
Proof. destruct s; simpl; split; intro H; try discriminate; try congruence. Qed.

(* ---------- strconv.Itoa is injective: index equality is decimal-string equality ---------- *)
Lemma dec_first_not_minus n r : dec n <> String "-" r.
Proof.
  intro H. pose proof (dec_digits n) as D. rewrite H in D. simpl in D.
  vm_compute in D. discriminate.
Qed.

Lemma itoa_inj a b : -10 ^ 20 < a < 10 ^ 20 -> -10 ^ 20 < b < 10 ^ 20 -> itoa a = itoa b -> a = b.
Proof.
  unfold itoa. intros Ha Hb.
  destruct (a <? 0) eqn:Ea; destruct (b <? 0) eqn:Eb; intro H.
  - injection H as H. apply dec_inj in H; lia.
  - symmetry in H. apply dec_first_not_minus in H. contradiction.
  - apply dec_first_not_minus in H. contradiction.
  - apply dec_inj in H; lia.
Qed.

(* ---------- "first match in document order" ---------- *)
Definition none_match {A} (p : A -> bool) (l : list A) : bool := forallb (fun y => negb (p y)) l.

Lemma find_index_some {A} (p : A -> bool) l : forall i j x,
  find_index p l i = Some (j, x) ->
  exists pre post, l = pre ++ x :: post /\ none_match p pre = true /\ p x = true
                   /\ j = i + Z.of_nat (List.length pre).
Proof.
  induction l as [|y r IH]; intros i j x H; simpl in H; [discriminate|].
  destruct (p y) eqn:E.
  - injection H as <- <-. exists [], r. simpl. repeat split; auto. lia.
  - apply IH in H. destruct H as (pre & post & -> & Hn & Hp & ->).
    exists (y :: pre), post. simpl. rewrite E. simpl. repeat split; auto. lia.
Qed.

Lemma find_index_none {A} (p : A -> bool) l : forall i,
  find_index p l i = None <-> none_match p l = true.
Proof.
  induction l as [|y r IH]; intro i; simpl; [tauto|].
  destruct (p y); simpl; [split; discriminate | apply IH].
Qed.

Lemma find_index_complete {A} (p : A -> bool) pre x post i :
  none_match p pre = true -> p x = true ->
  find_index p (pre ++ x :: post) i = Some (i + Z.of_nat (List.length pre), x).
Proof.
  revert i. induction pre as [|y r IH]; intros i Hn Hp; simpl.
  - rewrite Hp. f_equal. f_equal. lia.
  - simpl in Hn. apply andb_true_iff in Hn. destruct Hn as [Hy Hr].
    apply negb_true_iff in Hy. rewrite Hy. rewrite IH by assumption. f_equal. f_equal. lia.
Qed.

Definition desc_none_match (p : endpoint -> bool) (ds : list spsso) : bool :=
  forallb (fun d => none_match p (acs d)) ds.

(* the result of the nested loop is the first endpoint, in document order,
   satisfying p; its positions are the lengths of the two prefixes *)
Definition first_match (p : endpoint -> bool) (ds : list spsso) (i : Z) (r : Z * Z * spsso * endpoint) : Prop :=
  let '(di, ei, d, e) := r in
  exists dpre dpost epre epost,
    ds = dpre ++ d :: dpost /\ acs d = epre ++ e :: epost /\
    desc_none_match p dpre = true /\ none_match p epre = true /\ p e = true /\
    di = i + Z.of_nat (List.length dpre) /\ ei = Z.of_nat (List.length epre).

Lemma find_acs_some p ds : forall i r, find_acs p ds i = Some r -> first_match p ds i r.
Proof.
  induction ds as [|d0 rest IH]; intros i r H; simpl in H; [discriminate|].
  destruct (find_index p (acs d0) 0) as [[ei e]|] eqn:E.
  - injection H as <-. apply find_index_some in E. destruct E as (epre & epost & He & Hn & Hp & ->).
    exists [], rest, epre, epost. simpl. repeat split; auto. lia.
  - apply IH in H. destruct r as [[[di ei] d] e].
    destruct H as (dpre & dpost & epre & epost & -> & He & Hd & Hn & Hp & -> & ->).
    exists (d0 :: dpre), dpost, epre, epost. simpl.
    apply find_index_none in E. rewrite E. simpl. repeat split; auto. lia.
Qed.

Lemma find_acs_none p ds : forall i, find_acs p ds i = None <-> desc_none_match p ds = true.
Proof.
  induction ds as [|d0 rest IH]; intro i; simpl; [tauto|].
  destruct (find_index p (acs d0) 0) as [[ei e]|] eqn:E.
  - split; [discriminate|]. intro H. apply andb_true_iff in H. destruct H as [H _].
    apply find_index_none with (i := 0) in H. congruence.
  - apply find_index_none in E. rewrite E. simpl. apply IH.
Qed.

Lemma find_acs_complete p ds i r : first_match p ds i r -> find_acs p ds i = Some r.
Proof.
  destruct r as [[[di ei] d] e].
  intros (dpre & dpost & epre & epost & -> & He & Hd & Hn & Hp & -> & ->).
  revert i. induction dpre as [|d0 rest IH]; intro i; simpl.
  - rewrite He. rewrite find_index_complete by assumption. f_equal. f_equal. f_equal. f_equal; lia.
  - simpl in Hd. apply andb_true_iff in Hd. destruct Hd as [H0 Hr].
    apply find_index_none with (i := 0) in H0. rewrite H0. rewrite IH by assumption.
    f_equal. f_equal. f_equal. f_equal. lia.
Qed.

Lemma find_acs_none_forall p ds :
  desc_none_match p ds = true <-> (forall d e, In d ds -> In e (acs d) -> p e = false).
Proof.
  unfold desc_none_match, none_match. rewrite forallb_forall. split.
  - intros H d e Hd He. specialize (H d Hd). rewrite forallb_forall in H.
    specialize (H e He). apply negb_true_iff in H. exact H.
  - intros H d Hd. rewrite forallb_forall. intros e He. apply negb_true_iff. eauto.
Qed.

Lemma nth_z_app {A} (pre : list A) x post : nth_z (pre ++ x :: post) (Z.of_nat (List.length pre)) = Some x.
Proof.
  induction pre as [|y r IH]; [reflexivity|].
  cbn [List.length app nth_z].
  destruct (Z.of_nat (S (List.length r)) =? 0) eqn:E; [lia|].
  destruct (Z.of_nat (S (List.length r)) <? 0) eqn:E2; [lia|].
  replace (Z.of_nat (S (List.length r)) - 1) with (Z.of_nat (List.length r)) by lia. exact IH.
Qed.

Lemma nth_z_in {A} (l : list A) : forall i x, nth_z l i = Some x -> In x l.
Proof.
  induction l as [|y r IH]; intros i x H; simpl in H; [discriminate|].
  destruct (i =? 0); [injection H as <-; left; reflexivity|].
  destruct (i <? 0); [discriminate|]. right. eauto.
Qed.

Lemma first_match_registered p ds r :
  first_match p ds 0 r ->
  let '(di, ei, d, e) := r in
  nth_z ds di = Some d /\ nth_z (acs d) ei = Some e /\ In d ds /\ In e (acs d) /\ p e = true.
Proof.
  destruct r as [[[di ei] d] e].
  intros (dpre & dpost & epre & epost & -> & He & Hd & Hn & Hp & -> & ->).
  rewrite He. simpl. rewrite !nth_z_app. repeat split; auto.
  - apply in_or_app. right. left. reflexivity.
  - apply in_or_app. right. left. reflexivity.
Qed.

(* ---------- getACSEndpoint: which stage produced the result ---------- *)
Inductive acs_stage (md : spmeta) (rq : authnreq) (r : Z * Z * spsso * endpoint) : Prop :=
| StageIndex :
    rq_acs_index rq <> "" -> first_match (p_index (rq_acs_index rq)) (descriptors md) 0 r -> acs_stage md rq r
| StageUrl :
    (rq_acs_index rq = "" \/ desc_none_match (p_index (rq_acs_index rq)) (descriptors md) = true) ->
    rq_acs_url rq <> "" -> first_match (p_url (rq_acs_url rq)) (descriptors md) 0 r -> acs_stage md rq r
| StageDefault :
    rq_acs_index rq = "" -> rq_acs_url rq = "" ->
    first_match p_default (descriptors md) 0 r -> acs_stage md rq r
| StageAny :
    rq_acs_index rq = "" -> rq_acs_url rq = "" ->
    desc_none_match p_default (descriptors md) = true ->
    first_match p_browser (descriptors md) 0 r -> acs_stage md rq r.

Lemma get_acs_endpoint_spec md rq r :
  get_acs_endpoint md rq = Some r <-> acs_stage md rq r.
Proof.
  unfold get_acs_endpoint. split.
  - intro H.
    destruct (nonempty (rq_acs_index rq)) eqn:Ei.
    + destruct (find_acs (p_index (rq_acs_index rq)) (descriptors md) 0) eqn:F1.
      * injection H as <-. apply StageIndex; [apply nonempty_true_iff; exact Ei | apply find_acs_some; exact F1].
      * apply find_acs_none in F1.
        destruct (nonempty (rq_acs_url rq)) eqn:Eu.
        -- destruct (find_acs (p_url (rq_acs_url rq)) (descriptors md) 0) eqn:F2.
           ++ injection H as <-. apply StageUrl; [right; exact F1 | apply nonempty_true_iff; exact Eu | apply find_acs_some; exact F2].
           ++ simpl in H. discriminate.
        -- simpl in H. discriminate.
    + apply nonempty_false_iff in Ei.
      destruct (nonempty (rq_acs_url rq)) eqn:Eu.
      * destruct (find_acs (p_url (rq_acs_url rq)) (descriptors md) 0) eqn:F2.
        -- injection H as <-. apply StageUrl; [left; exact Ei | apply nonempty_true_iff; exact Eu | apply find_acs_some; exact F2].
        -- simpl in H. discriminate.
      * apply nonempty_false_iff in Eu. simpl in H.
        destruct (find_acs p_default (descriptors md) 0) eqn:F3.
        -- injection H as <-. apply StageDefault; auto. apply find_acs_some; exact F3.
        -- apply find_acs_none in F3. apply StageAny; auto. apply find_acs_some; exact H.
  - intros [Hi Hm | Hi Hu Hm | Hi Hu Hm | Hi Hu Hn Hm].
    + apply nonempty_true_iff in Hi. rewrite Hi. rewrite (find_acs_complete _ _ _ _ Hm). reflexivity.
    + assert (X : (if nonempty (rq_acs_index rq) then find_acs (p_index (rq_acs_index rq)) (descriptors md) 0 else None) = None).
      { destruct Hi as [Hi | Hi]; [rewrite Hi; reflexivity|].
        destruct (nonempty (rq_acs_index rq)); [apply find_acs_none; exact Hi | reflexivity]. }
      rewrite X. apply nonempty_true_iff in Hu. rewrite Hu. rewrite (find_acs_complete _ _ _ _ Hm). reflexivity.
    + rewrite Hi, Hu. simpl. rewrite (find_acs_complete _ _ _ _ Hm). reflexivity.
    + rewrite Hi, Hu. simpl. apply (find_acs_none _ _ 0) in Hn. rewrite Hn. apply find_acs_complete. exact Hm.
Qed.

(* whatever the stage, the result is an element of the registered metadata *)
Lemma get_acs_endpoint_registered md rq di ei d e :
  get_acs_endpoint md rq = Some (di, ei, d, e) ->
  nth_z (descriptors md) di = Some d /\ nth_z (acs d) ei = Some e /\ In d (descriptors md) /\ In e (acs d).
Proof.
  intro H. apply get_acs_endpoint_spec in H.
  destruct H as [_ Hm | _ _ Hm | _ _ Hm | _ _ _ Hm];
    apply first_match_registered in Hm; tauto.
Qed.

(* no endpoint is selected when the request names an index or URL that matches nothing *)
Lemma get_acs_endpoint_no_match md rq :
  (rq_acs_index rq <> "" \/ rq_acs_url rq <> "") ->
  (rq_acs_index rq = "" \/ desc_none_match (p_index (rq_acs_index rq)) (descriptors md) = true) ->
  (rq_acs_url rq = "" \/ desc_none_match (p_url (rq_acs_url rq)) (descriptors md) = true) ->
  get_acs_endpoint md rq = None.
Proof.
  intros Hne Hi Hu.
  destruct (get_acs_endpoint md rq) as [r|] eqn:E; [|reflexivity]. exfalso.
  apply get_acs_endpoint_spec in E.
  destruct E as [Hi' Hm | _ Hu' Hm | Hi' Hu' _ | Hi' Hu' _ _].
  - destruct Hi as [Hi | Hi]; [contradiction|].
    apply find_acs_complete in Hm. apply (find_acs_none _ _ 0) in Hi. congruence.
  - destruct Hu as [Hu | Hu]; [contradiction|].
    apply find_acs_complete in Hm. apply (find_acs_none _ _ 0) in Hu. congruence.
  - destruct Hne; contradiction.
  - destruct Hne; contradiction.
Qed.

Lemma p_index_iff idx e : p_index idx e = true <-> itoa (ep_index e) = idx.
Proof. unfold p_index. apply seqb_iff. Qed.
Lemma p_url_iff url e : p_url url e = true <-> ep_location e = url.
Proof. unfold p_url. apply seqb_iff. Qed.
Lemma p_default_iff e :
  p_default e = true <-> ep_default e = Some true /\ (ep_binding e = post_binding \/ ep_binding e = redirect_binding).
Proof.
  unfold p_default, is_default, browser_binding. rewrite andb_true_iff, orb_true_iff, !seqb_iff.
  destruct (ep_default e) as [[|]|]; split; intros [H1 H2]; split; auto; discriminate.
Qed.
Lemma p_browser_iff e : p_browser e = true <-> (ep_binding e = post_binding \/ ep_binding e = redirect_binding).
Proof. unfold p_browser, browser_binding. rewrite orb_true_iff, !seqb_iff. tauto. Qed.
Lemma p_post_iff e : p_post e = true <-> ep_binding e = post_binding.
Proof. unfold p_post. apply seqb_iff. Qed.

(* ---------- Validate ---------- *)
Definition valid_request (cfg : idpcfg) (reg : registry) (now : Z) (rq : authnreq) (md : spmeta) : Prop :=
  now <= rq_issue rq + max_issue_delay cfg /\ rq_version rq = "2.0" /\
  (rq_destination rq <> "" -> rq_destination rq = sso_url cfg) /\
  exists iss, rq_issuer rq = Some iss /\ reg iss = Found md.

Theorem validate_iff cfg reg now rq rt :
  validate cfg reg now rq = Ok rt <->
  exists r, valid_request cfg reg now rq (rt_md rt) /\ get_acs_endpoint (rt_md rt) rq = Some r
            /\ rt = mk_routing (rt_md rt) r.
Proof.
  unfold validate, valid_request. split.
  - intro H.
    destruct (nonempty (rq_destination rq) && negb (seqb (rq_destination rq) (sso_url cfg))) eqn:Ed; [discriminate|].
    destruct (rq_issue rq + max_issue_delay cfg <? now) eqn:Ef; [discriminate|].
    destruct (negb (seqb (rq_version rq) "2.0")) eqn:Ev; [discriminate|].
    destruct (rq_issuer rq) as [iss|] eqn:Ei; [|discriminate].
    destruct (reg iss) as [md| |] eqn:Er; try discriminate.
    destruct (get_acs_endpoint md rq) as [r|] eqn:Ea; [|discriminate].
    injection H as <-. exists r.
    assert (Hmd : rt_md (mk_routing md r) = md) by (destruct r as [[[? ?] ?] ?]; reflexivity).
    rewrite Hmd. repeat split; auto.
    + lia.
    + apply negb_false_iff in Ev. apply seqb_iff in Ev. exact Ev.
    + intro Hne. apply andb_false_iff in Ed. destruct Ed as [Ed | Ed].
      * apply nonempty_false_iff in Ed. contradiction.
      * apply negb_false_iff in Ed. apply seqb_iff in Ed. exact Ed.
    + exists iss. auto.
  - intros (r & (Hf & Hv & Hd & iss & Hi & Hr) & Ha & Hrt).
    assert (Ed : nonempty (rq_destination rq) && negb (seqb (rq_destination rq) (sso_url cfg)) = false).
    { destruct (nonempty (rq_destination rq)) eqn:En; [|reflexivity]. simpl.
      apply negb_false_iff. apply seqb_iff. apply Hd. apply nonempty_true_iff. exact En. }
    rewrite Ed.
    assert (Ef : rq_issue rq + max_issue_delay cfg <? now = false) by lia. rewrite Ef.
    rewrite Hv. simpl. rewrite Hi, Hr, Ha. f_equal. symmetry. exact Hrt.
Qed.

Theorem validate_sound cfg reg now rq rt :
  validate cfg reg now rq = Ok rt ->
  now <= rq_issue rq + max_issue_delay cfg /\ rq_version rq = "2.0" /\
  (rq_destination rq <> "" -> rq_destination rq = sso_url cfg) /\
  exists iss md, rq_issuer rq = Some iss /\ reg iss = Found md /\ rt_md rt = md.
Proof.
  intro H. apply validate_iff in H. destruct H as (r & (Hf & Hv & Hd & iss & Hi & Hr) & _ & _).
  repeat split; auto. exists iss, (rt_md rt). auto.
Qed.

Theorem validate_complete cfg reg now rq iss md r :
  now <= rq_issue rq + max_issue_delay cfg -> rq_version rq = "2.0" ->
  (rq_destination rq <> "" -> rq_destination rq = sso_url cfg) ->
  rq_issuer rq = Some iss -> reg iss = Found md -> get_acs_endpoint md rq = Some r ->
  validate cfg reg now rq = Ok (mk_routing md r).
Proof.
  intros Hf Hv Hd Hi Hr Ha. apply validate_iff.
  assert (Hmd : rt_md (mk_routing md r) = md) by (destruct r as [[[? ?] ?] ?]; reflexivity).
  exists r. rewrite Hmd. unfold valid_request. repeat split; auto. exists iss. auto.
Qed.

Theorem validate_endpoint_registered cfg reg now rq rt :
  validate cfg reg now rq = Ok rt ->
  In (rt_desc rt) (descriptors (rt_md rt)) /\ In (rt_ep rt) (acs (rt_desc rt)) /\
  nth_z (descriptors (rt_md rt)) (rt_di rt) = Some (rt_desc rt) /\
  nth_z (acs (rt_desc rt)) (rt_ei rt) = Some (rt_ep rt) /\
  exists iss, rq_issuer rq = Some iss /\ reg iss = Found (rt_md rt).
Proof.
  intro H. apply validate_iff in H.
  destruct H as (r & (_ & _ & _ & iss & Hi & Hr) & Ha & Hrt).
  destruct r as [[[di ei] d] e]. apply get_acs_endpoint_registered in Ha.
  rewrite Hrt. simpl. destruct Ha as (H1 & H2 & H3 & H4). repeat split; auto.
  exists iss. auto.
Qed.

Theorem validate_no_issuer_is_error cfg reg now rq :
  rq_issuer rq = None -> exists c, validate cfg reg now rq = Err c.
Proof.
  intro H. unfold validate. rewrite H.
  destruct (nonempty (rq_destination rq) && negb (seqb (rq_destination rq) (sso_url cfg))); [eauto|].
  destruct (rq_issue rq + max_issue_delay cfg <? now); [eauto|].
  destruct (negb (seqb (rq_version rq) "2.0")); eauto.
Qed.

Lemma validate_not_panic cfg reg now rq : validate cfg reg now rq <> Panic.
Proof.
  unfold validate.
  repeat match goal with |- context [if ?b then _ else _] => destruct b; try discriminate end;
  repeat match goal with |- context [match ?x with _ => _ end] => destruct x; try discriminate end.
Qed.

Lemma decode_req_not_panic f : decode_req f <> Panic.
Proof.
  destruct f as [|w]; cbn [decode_req]; [discriminate|].
  destruct (w_issue w) as [s|]; cbn [bind]; [|discriminate].
  unfold parse_relaxed. destruct (negb (nonempty s)); cbn [bind]; [discriminate|].
  destruct (parse_layout true s); cbn [bind]; try discriminate;
  destruct (parse_layout false s); cbn [bind]; discriminate.
Qed.

Theorem validate_never_panics cfg reg now f : validate_framed cfg reg now f <> Panic.
Proof.
  unfold validate_framed. pose proof (decode_req_not_panic f) as D.
  destruct (decode_req f); cbn [bind]; [apply validate_not_panic | discriminate | contradiction].
Qed.

(* IdP-initiated routing: first HTTP-POST endpoint of the registered metadata *)
Theorem idp_initiated_registered md di ei d e :
  idp_initiated_route md = Some (di, ei, d, e) ->
  In d (descriptors md) /\ In e (acs d) /\ ep_binding e = post_binding /\
  first_match p_post (descriptors md) 0 (di, ei, d, e).
Proof.
  unfold idp_initiated_route. intro H. apply find_acs_some in H.
  pose proof (first_match_registered _ _ _ H) as R. simpl in R.
  destruct R as (_ & _ & Hd & He & Hp). apply p_post_iff in Hp. auto.
Qed.

(* the boolean request check used by the correspondence monitor is the proposition *)
Lemma valid_request_b_iff cfg reg now rq :
  valid_request_b cfg reg now rq = true <-> exists md, valid_request cfg reg now rq md.
Proof.
  unfold valid_request_b, valid_request. rewrite !andb_true_iff, orb_true_iff, negb_true_iff.
  rewrite nonempty_false_iff, !seqb_iff, Z.leb_le. split.
  - intros [[[Hf Hv] Hd] Hi]. destruct (rq_issuer rq) as [iss|]; [|discriminate].
    destruct (reg iss) as [md| |] eqn:Er; try discriminate.
    exists md. repeat split; auto.
    + intro Hne. destruct Hd; [contradiction | assumption].
    + exists iss. auto.
  - intros (md & Hf & Hv & Hd & iss & Hi & Hr). rewrite Hi, Hr. repeat split; auto.
    destruct (string_dec (rq_destination rq) ""); [left | right]; auto.
Qed.

(* ---------- the response path never panics; what a written form looks like ---------- *)
Lemma enc_loop_not_panic l : enc_loop l <> Panic.
Proof.
  induction l as [|k r IH]; simpl; [discriminate|].
  destruct (seqb (kd_use k) "encryption"); [|exact IH].
  destruct (first_cert k) as [c|]; [destruct (nonempty c)|]; discriminate.
Qed.

Lemma choose_cert_str_not_panic l : choose_cert_str l <> Panic.
Proof.
  unfold choose_cert_str. pose proof (enc_loop_not_panic l) as H.
  destruct (enc_loop l) as [c| |]; cbn [bind]; [|discriminate|contradiction].
  destruct (nonempty (if nonempty c then c else unspec_loop l)); discriminate.
Qed.

Lemma enc_decision_not_panic cp l : enc_decision cp l <> EncPanic.
Proof.
  unfold enc_decision. pose proof (choose_cert_str_not_panic l) as H.
  destruct (choose_cert_str l) as [[c|]| |]; try discriminate; [|contradiction].
  destruct (cp (strip_ws c)); discriminate.
Qed.

Lemma make_assertion_el_not_panic cfg cp rt a rnd : make_assertion_el cfg cp rt a rnd <> Panic.
Proof.
  unfold make_assertion_el. destruct (signing_context cfg) as [ctx| |] eqn:E; cbn [bind]; try discriminate.
  - pose proof (enc_decision_not_panic cp (kds (rt_desc rt))) as H.
    destruct (enc_decision cp (kds (rt_desc rt))); try discriminate. contradiction.
  - unfold signing_context in E. destruct (mem_str _ _); discriminate.
Qed.

Lemma make_response_not_panic cfg rt rq now ael rand : make_response cfg rt rq now ael rand <> Panic.
Proof.
  unfold make_response. destruct (draw_id rand) as [id r].
  destruct (signing_context cfg) as [ctx| |] eqn:E; cbn [bind]; try discriminate.
  unfold signing_context in E. destruct (mem_str _ _); discriminate.
Qed.

Lemma post_form_ok rt resp relay x :
  post_form rt resp relay = Ok x ->
  x = (ep_location (rt_ep rt), resp, relay) /\ ep_binding (rt_ep rt) = post_binding.
Proof.
  unfold post_form. destruct (seqb (ep_binding (rt_ep rt)) post_binding) eqn:E; simpl; [|discriminate].
  intro H. injection H as <-. split; [reflexivity | apply seqb_iff; exact E].
Qed.

Lemma respond_not_panic cfg cp rt rq s now tnow addr relay rnd :
  respond cfg cp rt rq s now tnow addr relay rnd <> Panic.
Proof.
  unfold respond. destruct (make_assertion cfg rt rq s now tnow addr (rnd_saml rnd)) as [a rand'].
  pose proof (make_assertion_el_not_panic cfg cp rt a rnd) as H1.
  destruct (make_assertion_el cfg cp rt a rnd) as [ael| |]; cbn [bind]; [|discriminate|contradiction].
  pose proof (make_response_not_panic cfg rt rq now ael rand') as H2.
  destruct (make_response cfg rt rq now ael rand') as [resp| |]; cbn [bind]; [|discriminate|contradiction].
  unfold post_form. destruct (negb _); discriminate.
Qed.

Lemma respond_ok cfg cp rt rq s now tnow addr relay rnd action resp rl :
  respond cfg cp rt rq s now tnow addr relay rnd = Ok (action, resp, rl) ->
  action = ep_location (rt_ep rt) /\ rl = relay /\ ep_binding (rt_ep rt) = post_binding.
Proof.
  unfold respond. destruct (make_assertion cfg rt rq s now tnow addr (rnd_saml rnd)) as [a rand'].
  destruct (make_assertion_el cfg cp rt a rnd) as [ael| |]; cbn [bind]; try discriminate.
  destruct (make_response cfg rt rq now ael rand') as [resp'| |]; cbn [bind]; try discriminate.
  intro H. apply post_form_ok in H. destruct H as [H Hb]. injection H as -> -> ->. auto.
Qed.

(* the monitor [c05_spec] holds of the model's own output: the main theorems restated *)
Theorem c05_spec_of_model cfg regl now f s addr relay rnd :
  c05_spec {| c5_cfg := cfg; c5_reg := regl; c5_now := now; c5_req := f;
              c5_obs := vobs_of (validate_framed cfg (reg_of_list regl) now f);
              c5_http := serve_sso cfg (cp_of_list []) (reg_of_list regl) now f s addr relay rnd |} = true.
Proof.
  unfold c05_spec, validate_framed, serve_sso. simpl.
  destruct (decode_req f) as [rq| |] eqn:Ed; simpl; try reflexivity.
  2:{ exfalso. exact (decode_req_not_panic f Ed). }
  destruct (validate cfg (reg_of_list regl) now rq) as [rt| |] eqn:Ev; simpl; try reflexivity.
  2:{ exfalso. exact (validate_not_panic _ _ _ _ Ev). }
  pose proof (proj1 (validate_iff _ _ _ _ _) Ev) as (r & Hvr & Ha & Hrt).
  pose proof (validate_endpoint_registered _ _ _ _ _ Ev) as (_ & _ & Hn1 & Hn2 & iss & Hi & Hr).
  assert (Hb : valid_request_b cfg (reg_of_list regl) now rq = true) by (apply valid_request_b_iff; eauto).
  rewrite Hb. simpl. unfold registered_md. rewrite Hi, Hr. rewrite Ha.
  destruct r as [[[di ei] d] e]. rewrite Hrt. simpl. rewrite !Z.eqb_refl. simpl.
  unfold endpoint_at. rewrite Hrt in Hn1, Hn2. simpl in Hn1, Hn2. rewrite Hn1, Hn2.
  match goal with |- context [respond ?c ?cp ?r ?q ?ss ?n ?t ?ad ?rl ?rn] =>
    pose proof (respond_not_panic c cp r q ss n t ad rl rn) as Hnp;
    destruct (respond c cp r q ss n t ad rl rn) as [[[action resp] rl']| |] eqn:Eresp end;
    simpl; [| reflexivity | contradiction].
  apply respond_ok in Eresp. simpl in Eresp. destruct Eresp as (-> & _ & ->).
  rewrite !seqb_refl. reflexivity.
Qed.

(* ========================================================================= *)
(* C06: what an emitted response contains                                      *)

Lemma signing_context_ok cfg ctx :
  signing_context cfg = Ok ctx ->
  ctx = (signer_key cfg, effective_method cfg) /\ mem_str (effective_method cfg) (allowed_methods cfg) = true.
Proof.
  unfold signing_context. destruct (mem_str (effective_method cfg) (allowed_methods cfg)) eqn:E; [|discriminate].
  intro H. injection H as <-. auto.
Qed.

Lemma make_assertion_el_inv cfg cp rt a rnd ael :
  make_assertion_el cfg cp rt a rnd = Ok ael ->
  exists ctx, signing_context cfg = Ok ctx /\
    ((enc_decision cp (kds (rt_desc rt)) = Plain /\ ael = APlain a (sign ctx (a_id a) a)) \/
     (exists id, enc_decision cp (kds (rt_desc rt)) = EncryptTo id /\
                 ael = AEnc (fst (encrypt_assertion id (rnd_wrapn rnd) (rnd_enc rnd) (a, sign ctx (a_id a) a))))).
Proof.
  unfold make_assertion_el. destruct (signing_context cfg) as [ctx| |]; cbn [bind]; try discriminate.
  intro H. exists ctx. split; [reflexivity|].
  destruct (enc_decision cp (kds (rt_desc rt))) as [|id| |]; try discriminate; injection H as <-.
  - left. auto.
  - right. exists id. auto.
Qed.

Definition response_of (cfg : idpcfg) (rt : routing) (rq : authnreq) (now : Z) (ael : assertion_el)
           (rand : string) (ctx : Z * string) : response :=
  let id := fst (draw_id rand) in
  let body := {| rs_id := id; rs_in_response_to := rq_id rq; rs_issue_instant := now;
                 rs_destination := ep_location (rt_ep rt); rs_issuer := idp_entity cfg;
                 rs_issuer_format := fmt_entity; rs_status := status_success; rs_assertion := ael |} in
  {| rs_body := body; rs_sig := sign ctx id body |}.

Lemma make_response_inv cfg rt rq now ael rand resp :
  make_response cfg rt rq now ael rand = Ok resp ->
  exists ctx, signing_context cfg = Ok ctx /\ resp = response_of cfg rt rq now ael rand ctx.
Proof.
  unfold make_response, response_of. destruct (draw_id rand) as [id r] eqn:E.
  destruct (signing_context cfg) as [ctx| |]; cbn [bind]; try discriminate.
  intro H. injection H as <-. exists ctx. split; reflexivity.
Qed.

(* the structure of every successful [respond] *)
Lemma respond_inv cfg cp rt rq s now tnow addr relay rnd action resp rl :
  respond cfg cp rt rq s now tnow addr relay rnd = Ok (action, resp, rl) ->
  let a := fst (make_assertion cfg rt rq s now tnow addr (rnd_saml rnd)) in
  let rand' := snd (make_assertion cfg rt rq s now tnow addr (rnd_saml rnd)) in
  let ctx := (signer_key cfg, effective_method cfg) in
  exists ael,
    mem_str (effective_method cfg) (allowed_methods cfg) = true /\
    make_assertion_el cfg cp rt a rnd = Ok ael /\
    resp = response_of cfg rt rq now ael rand' ctx /\
    inner_assertion resp = (a, sign ctx (a_id a) a) /\
    action = ep_location (rt_ep rt) /\ rl = relay /\ ep_binding (rt_ep rt) = post_binding.
Proof.
  intro H. pose proof (respond_ok _ _ _ _ _ _ _ _ _ _ _ _ _ H) as (Ha & Hr & Hb).
  unfold respond in H.
  destruct (make_assertion cfg rt rq s now tnow addr (rnd_saml rnd)) as [a rand'] eqn:Ema. cbn [fst snd].
  destruct (make_assertion_el cfg cp rt a rnd) as [ael| |] eqn:Eel; cbn [bind] in H; try discriminate.
  destruct (make_response cfg rt rq now ael rand') as [resp'| |] eqn:Er; cbn [bind] in H; try discriminate.
  apply post_form_ok in H. destruct H as [H _]. injection H as _ <- _.
  apply make_response_inv in Er. destruct Er as (ctx & Hc & ->).
  apply signing_context_ok in Hc. destruct Hc as [-> Hm].
  exists ael. repeat split; auto.
  apply make_assertion_el_inv in Eel. destruct Eel as (ctx' & Hc' & Hcase).
  apply signing_context_ok in Hc'. destruct Hc' as [-> _].
  unfold inner_assertion, response_of. cbn [rs_body rs_assertion].
  destruct Hcase as [[_ ->] | (id & _ & ->)]; reflexivity.
Qed.

Lemma make_assertion_fields cfg rt rq s now tnow addr rand :
  let a := fst (make_assertion cfg rt rq s now tnow addr rand) in
  a_id a = fst (draw_id rand) /\ a_issue_instant a = tnow /\ a_issuer a = idp_entity cfg /\
  a_issuer_format a = fmt_entity /\
  ni_value (a_nameid a) = ss_nameid s /\ ni_name_qualifier (a_nameid a) = idp_entity cfg /\
  ni_sp_name_qualifier (a_nameid a) = md_entity (rt_md rt) /\
  a_conf_method a = cm_bearer /\ a_conf_address a = addr /\ a_conf_in_response_to a = rq_id rq /\
  a_conf_noa a = now + max_issue_delay cfg /\ a_conf_recipient a = ep_location (rt_ep rt) /\
  (a_not_before a, a_noa a) = cond_window cfg now (rq_issue rq) /\
  a_audiences a = [md_entity (rt_md rt)] /\ a_authn_instant a = ss_create s /\
  a_session_index a = ss_index s /\ a_locality a = addr /\
  a_attributes a = session_attributes (choose_attr_service (attr_services (rt_desc rt))) s.
Proof.
  unfold make_assertion. destruct (draw_id rand) as [id r]. destruct (cond_window cfg now (rq_issue rq)) as [nb noa].
  cbn. repeat split; reflexivity.
Qed.

Theorem respond_scoping cfg cp rt rq s now tnow addr relay rnd action resp rl :
  respond cfg cp rt rq s now tnow addr relay rnd = Ok (action, resp, rl) ->
  let a := fst (inner_assertion resp) in
  ep_binding (rt_ep rt) = post_binding /\
  action = ep_location (rt_ep rt) /\ rs_destination (rs_body resp) = ep_location (rt_ep rt) /\
  a_conf_recipient a = ep_location (rt_ep rt) /\
  a_audiences a = [md_entity (rt_md rt)] /\ ni_sp_name_qualifier (a_nameid a) = md_entity (rt_md rt) /\
  rs_in_response_to (rs_body resp) = rq_id rq /\ a_conf_in_response_to a = rq_id rq /\
  rs_issuer (rs_body resp) = idp_entity cfg /\ a_issuer a = idp_entity cfg /\
  a_conf_method a = cm_bearer /\ rs_status (rs_body resp) = status_success /\ rl = relay.
Proof.
  intro H. apply respond_inv in H. cbv zeta in H.
  destruct H as (ael & _ & _ & -> & Hin & -> & -> & Hb). cbv zeta. rewrite Hin. cbn [fst].
  pose proof (make_assertion_fields cfg rt rq s now tnow addr (rnd_saml rnd)) as F. cbv zeta in F.
  unfold response_of. cbn [rs_body rs_destination rs_in_response_to rs_issuer rs_status].
  intuition.
Qed.

Theorem respond_times cfg cp rt rq s now tnow addr relay rnd action resp rl :
  respond cfg cp rt rq s now tnow addr relay rnd = Ok (action, resp, rl) ->
  let a := fst (inner_assertion resp) in
  now - max_clock_skew cfg <= a_not_before a /\
  (now - max_clock_skew cfg < rq_issue rq ->
     a_not_before a = rq_issue rq /\ a_noa a = rq_issue rq + max_issue_delay cfg) /\
  (rq_issue rq <= now - max_clock_skew cfg ->
     a_not_before a = now - max_clock_skew cfg /\ a_noa a = now + max_issue_delay cfg) /\
  a_conf_noa a = now + max_issue_delay cfg /\
  rs_issue_instant (rs_body resp) = now /\ a_issue_instant a = tnow.
Proof.
  intro H. apply respond_inv in H. cbv zeta in H.
  destruct H as (ael & _ & _ & -> & Hin & _). cbv zeta. rewrite Hin. cbn [fst].
  pose proof (make_assertion_fields cfg rt rq s now tnow addr (rnd_saml rnd)) as F. cbv zeta in F.
  destruct F as (_ & Ft & _ & _ & _ & _ & _ & _ & _ & _ & Fc & _ & Fw & _).
  unfold cond_window in Fw.
  destruct (now - max_clock_skew cfg <? rq_issue rq) eqn:E; injection Fw as Fnb Fnoa;
    unfold response_of; cbn [rs_body rs_issue_instant]; repeat split; try assumption; try lia.
Qed.

(* attribute values come from the session *)
Lemma mem_str_In x l : mem_str x l = true <-> In x l.
Proof.
  induction l as [|y r IH]; simpl; [split; [discriminate | tauto]|].
  rewrite orb_true_iff, seqb_iff, IH. split; intros [H|H]; auto.
Qed.

(* every attribute value — its text and, when it has one, its NameID child's value — is a value of the session *)
Definition value_from (s : session) (v : attrvalue) : Prop :=
  In (av_value v) (session_values s) /\
  (forall n, av_nameid v = Some n -> In (ni_value n) (session_values s)).
Definition values_from (s : session) (l : list attribute) : Prop :=
  forall a v, In a l -> In v (at_values a) -> value_from s v.

Lemma values_from_app s l1 l2 : values_from s l1 -> values_from s l2 -> values_from s (l1 ++ l2).
Proof. intros H1 H2 a v Ha. apply in_app_or in Ha. destruct Ha; eauto. Qed.

Lemma values_from_opt s c a :
  (forall v, In v (at_values a) -> value_from s v) -> values_from s (opt_attr c a).
Proof. intros H a' v Ha. destruct c; simpl in Ha; [destruct Ha as [<-|[]]; auto | contradiction]. Qed.

Lemma in_session_values_head s x :
  In x [ss_email s; ss_common_name s; ss_given_name s; ss_surname s; ss_user_name s; ss_eppn s;
        ss_scoped_aff s; ss_subject_id s] -> In x (session_values s).
Proof. intro H. unfold session_values. apply in_or_app. left. exact H. Qed.

Lemma value_from_xs s x : In x (session_values s) -> value_from s (xs_val x).
Proof. intro H. split; [exact H | intros n Hn; discriminate]. Qed.

Lemma requested_value_in s n v : requested_value s n = Some v -> In v (session_values s).
Proof.
  unfold requested_value. intro H. apply in_session_values_head.
  repeat match type of H with (if ?b then _ else _) = _ => destruct b end;
    try discriminate; injection H as <-; simpl; tauto.
Qed.

Lemma requested_attrs_from s ras : values_from s (requested_attrs s ras).
Proof.
  induction ras as [|ra r IH]; simpl; [intros a v []|].
  apply values_from_app; [|exact IH].
  destruct (seqb (ra_format ra) fmt_basic || seqb (ra_format ra) fmt_unspecified); [|intros a v []].
  destruct (requested_value s (strip_non_alnum (ra_name ra))) as [x|] eqn:E; [|intros a v []].
  intros a v [<-|[]] Hv. simpl in Hv. destruct Hv as [<-|[]]. apply value_from_xs. eapply requested_value_in; eauto.
Qed.

Lemma session_attributes_from svc s : values_from s (session_attributes svc s).
Proof.
  unfold session_attributes.
  repeat apply values_from_app; try apply requested_attrs_from;
    try (apply values_from_opt; cbn [uri_attr at_values]; intros v [<-|[]]; apply value_from_xs;
         try (destruct (nonempty (ss_eppn s))); apply in_session_values_head; simpl; tauto).
  - intros a v Ha Hv. unfold value_from, session_values. split.
    + apply in_or_app. right. apply in_or_app. right.
      apply in_flat_map. exists a. split; [exact Ha|]. apply in_flat_map. exists v. split; [exact Hv | left; reflexivity].
    + intros n Hn. apply in_or_app. right. apply in_or_app. right.
      apply in_flat_map. exists a. split; [exact Ha|]. apply in_flat_map. exists v. split; [exact Hv|].
      rewrite Hn. right. left. reflexivity.
  - apply values_from_opt. intros v Hv. cbn [at_values uri_attr] in Hv. apply in_map_iff in Hv. destruct Hv as (g & <- & Hg).
    apply value_from_xs. unfold session_values. apply in_or_app. right. apply in_or_app. left. exact Hg.
Qed.

Lemma session_attributes_custom svc s :
  exists pre post, session_attributes svc s = pre ++ ss_custom s ++ post.
Proof.
  unfold session_attributes.
  match goal with
  | |- exists pre post, ?a0 ++ ?a1 ++ ?a2 ++ ?a3 ++ ?a4 ++ ?a5 ++ ?a6 ++ ?a7 ++ ?c ++ ?rest = _ =>
      exists (a0 ++ a1 ++ a2 ++ a3 ++ a4 ++ a5 ++ a6 ++ a7), rest
  end.
  rewrite <- !app_assoc. reflexivity.
Qed.

Lemma session_attributes_groups svc s :
  ss_groups s <> [] ->
  In (uri_attr "eduPersonAffiliation" "urn:oid:1.3.6.1.4.1.5923.1.1.1.1" (map xs_val (ss_groups s)))
     (session_attributes svc s).
Proof.
  intro H. unfold session_attributes.
  do 9 (apply in_or_app; right). apply in_or_app. left.
  destruct (ss_groups s); [contradiction|]. simpl. left. reflexivity.
Qed.

Theorem respond_attrs_from_session cfg cp rt rq s now tnow addr relay rnd action resp rl :
  respond cfg cp rt rq s now tnow addr relay rnd = Ok (action, resp, rl) ->
  let a := fst (inner_assertion resp) in
  ni_value (a_nameid a) = ss_nameid s /\ a_session_index a = ss_index s /\ a_authn_instant a = ss_create s /\
  values_from s (a_attributes a) /\
  (exists pre post, a_attributes a = pre ++ ss_custom s ++ post) /\
  (ss_groups s <> [] ->
     In (uri_attr "eduPersonAffiliation" "urn:oid:1.3.6.1.4.1.5923.1.1.1.1" (map xs_val (ss_groups s)))
        (a_attributes a)).
Proof.
  intro H. apply respond_inv in H. cbv zeta in H.
  destruct H as (ael & _ & _ & _ & Hin & _). cbv zeta. rewrite Hin. cbn [fst].
  pose proof (make_assertion_fields cfg rt rq s now tnow addr (rnd_saml rnd)) as F. cbv zeta in F.
  destruct F as (_ & _ & _ & _ & Fn & _ & _ & _ & _ & _ & _ & _ & _ & _ & Fa & Fi & _ & Fat).
  rewrite Fat. split; [exact Fn|]. split; [exact Fi|]. split; [exact Fa|].
  split; [apply session_attributes_from|]. split; [apply session_attributes_custom | apply session_attributes_groups].
Qed.

Theorem respond_both_signed cfg cp rt rq s now tnow addr relay rnd action resp rl :
  respond cfg cp rt rq s now tnow addr relay rnd = Ok (action, resp, rl) ->
  let '(a, sa) := inner_assertion resp in
  let sr := rs_sig resp in
  sg_signer sr = signer_key cfg /\ sg_method sr = effective_method cfg /\
  sg_ref sr = "#" +++ rs_id (rs_body resp) /\ sg_over sr = rs_body resp /\
  sg_signer sa = signer_key cfg /\ sg_method sa = effective_method cfg /\
  sg_ref sa = "#" +++ a_id a /\ sg_over sa = a /\
  In (effective_method cfg) (allowed_methods cfg) /\
  (forall k, idp_signer cfg = Some k -> signer_key cfg = k) /\
  (idp_signer cfg = None -> signer_key cfg = idp_key cfg) /\
  (sig_method cfg = "" -> effective_method cfg = rsa_sha1).
Proof.
  intro H. apply respond_inv in H. cbv zeta in H.
  destruct H as (ael & Hm & _ & -> & Hin & _). rewrite Hin.
  unfold response_of, sign. cbn. repeat split; auto.
  - apply (proj1 (mem_str_In _ _)) in Hm. exact Hm.
  - intros k Hk. unfold signer_key. rewrite Hk. reflexivity.
  - intro Hk. unfold signer_key. rewrite Hk. reflexivity.
  - intro Hk. unfold effective_method. rewrite Hk. reflexivity.
Qed.

(* ---------- the C06 monitor holds of the model's own output ---------- *)
Lemma list_eqb_refl {A} (eq : A -> A -> bool) (H : forall x, eq x x = true) l : list_eqb eq l l = true.
Proof. induction l as [|x r IH]; simpl; [reflexivity|]. rewrite H, IH. reflexivity. Qed.
Lemma nameid_eqb_refl a : nameid_eqb a a = true.
Proof. unfold nameid_eqb. rewrite !seqb_refl. reflexivity. Qed.
Lemma attrvalue_eqb_refl a : attrvalue_eqb a a = true.
Proof. unfold attrvalue_eqb. rewrite !seqb_refl. destruct (av_nameid a); [apply nameid_eqb_refl | reflexivity]. Qed.
Lemma attribute_eqb_refl a : attribute_eqb a a = true.
Proof. unfold attribute_eqb. rewrite !seqb_refl, (list_eqb_refl _ attrvalue_eqb_refl). reflexivity. Qed.
Lemma assertion_eqb_refl a : assertion_eqb a a = true.
Proof.
  unfold assertion_eqb.
  rewrite !seqb_refl, !Z.eqb_refl, nameid_eqb_refl, (list_eqb_refl _ seqb_refl),
          (list_eqb_refl _ attribute_eqb_refl). reflexivity.
Qed.
Lemma sig_eqb_refl {A} (eq : A -> A -> bool) (H : forall x, eq x x = true) s : sig_eqb eq s s = true.
Proof. unfold sig_eqb. rewrite Z.eqb_refl, !seqb_refl, H. reflexivity. Qed.
Lemma ael_eqb_refl x : ael_eqb x x = true.
Proof.
  destruct x as [a s|e]; simpl.
  - rewrite assertion_eqb_refl, (sig_eqb_refl _ assertion_eqb_refl). reflexivity.
  - unfold encrec_eqb. rewrite Z.eqb_refl, !seqb_refl, assertion_eqb_refl, (sig_eqb_refl _ assertion_eqb_refl). reflexivity.
Qed.
Lemma respbody_eqb_refl x : respbody_eqb x x = true.
Proof. unfold respbody_eqb. rewrite !seqb_refl, Z.eqb_refl, ael_eqb_refl. reflexivity. Qed.

Lemma subseq_b_skip_tail {A} (eq : A -> A -> bool) big :
  (forall small y, subseq_b eq small big = true -> subseq_b eq small (y :: big) = true) /\
  (forall x s', subseq_b eq (x :: s') big = true -> subseq_b eq s' big = true).
Proof.
  induction big as [|z b' [IHs IHt]].
  - split.
    + intros small y H. destruct small; [reflexivity | discriminate].
    + intros x s' H. discriminate.
  - assert (T : forall x s', subseq_b eq (x :: s') (z :: b') = true -> subseq_b eq s' (z :: b') = true).
    { intros x s' H. simpl in H. destruct (eq x z); apply IHs; [exact H | eapply IHt; exact H]. }
    split; [|exact T].
    intros small y H. destruct small as [|x s']; [reflexivity|].
    cbn [subseq_b]. destruct (eq x y); [eapply T; exact H | exact H].
Qed.

Lemma subseq_b_app {A} (eq : A -> A -> bool) (R : forall x, eq x x = true) pre small post :
  subseq_b eq small (pre ++ small ++ post) = true.
Proof.
  induction pre as [|y r IH]; simpl.
  - induction small as [|x s' IHs]; simpl; [destruct post; reflexivity|]. rewrite R. exact IHs.
  - apply (proj1 (subseq_b_skip_tail eq _)). exact IH.
Qed.

Theorem respond_attributes_exact cfg cp rt rq s now tnow addr relay rnd action resp rl :
  respond cfg cp rt rq s now tnow addr relay rnd = Ok (action, resp, rl) ->
  a_attributes (fst (inner_assertion resp)) = session_attributes (choose_attr_service (attr_services (rt_desc rt))) s.
Proof.
  intro H. apply respond_inv in H. cbv zeta in H. destruct H as (ael & _ & _ & _ & Hin & _). rewrite Hin. cbn [fst].
  pose proof (make_assertion_fields cfg rt rq s now tnow addr (rnd_saml rnd)) as F. cbv zeta in F. tauto.
Qed.

(* eduPersonPrincipalName carries the session's principal name, and the mail only as a fallback *)
Lemma session_attributes_eppn svc s :
  (ss_eppn s <> "" \/ ss_email s <> "") ->
  In (uri_attr "eduPersonPrincipalName" "urn:oid:1.3.6.1.4.1.5923.1.1.1.6"
               [xs_val (if nonempty (ss_eppn s) then ss_eppn s else ss_email s)])
     (session_attributes svc s).
Proof.
  intro H. unfold session_attributes. do 3 (apply in_or_app; right). apply in_or_app. left.
  assert (E : nonempty (ss_eppn s) || nonempty (ss_email s) = true).
  { apply orb_true_iff. destruct H as [H | H]; [left | right]; apply nonempty_true_iff; exact H. }
  rewrite E. left. reflexivity.
Qed.

Lemma respond_content_monitors cfg cp rt rq s now tnow addr relay rnd action resp rl :
  respond cfg cp rt rq s now tnow addr relay rnd = Ok (action, resp, rl) ->
  attrs_b s resp && signed_b cfg resp && attrs_exact_b (rt_desc rt) s resp = true.
Proof.
  intro E.
  pose proof (respond_attrs_from_session _ _ _ _ _ _ _ _ _ _ _ _ _ E) as A.
  pose proof (respond_both_signed _ _ _ _ _ _ _ _ _ _ _ _ _ E) as B.
  pose proof (respond_attributes_exact _ _ _ _ _ _ _ _ _ _ _ _ _ E) as X.
  cbv zeta in A. destruct A as (A1 & A2 & A3 & A4 & (pre & post & A5) & A6).
  apply andb_true_iff; split; [apply andb_true_iff; split|].
  - unfold attrs_b. rewrite A1, A2, A3, !seqb_refl, Z.eqb_refl. cbn [andb].
    apply andb_true_iff; split; [apply andb_true_iff; split|].
    + apply forallb_forall. intros a Ha. apply forallb_forall. intros v Hv.
      destruct (A4 a v Ha Hv) as [V1 V2]. apply andb_true_iff. split; [apply mem_str_In; exact V1|].
      destruct (av_nameid v) as [n|]; [apply mem_str_In; apply V2; reflexivity | reflexivity].
    + rewrite A5. apply subseq_b_app. exact attribute_eqb_refl.
    + unfold group_attr_ok. destruct (ss_groups s) as [|g0 gr] eqn:Eg; [reflexivity|].
      apply existsb_exists. eexists. split; [apply A6; discriminate|].
      cbn [uri_attr at_name at_values]. rewrite seqb_refl, (list_eqb_refl _ attrvalue_eqb_refl). reflexivity.
  - unfold signed_b. destruct (inner_assertion resp) as [a sa].
    destruct B as (B1 & B2 & B3 & B4 & B5 & B6 & B7 & B8 & B9 & _).
    rewrite B1, B2, B3, B4, B5, B6, B7, B8.
    rewrite !Z.eqb_refl, !seqb_refl, respbody_eqb_refl, assertion_eqb_refl.
    apply mem_str_In in B9. rewrite B9. reflexivity.
  - unfold attrs_exact_b. rewrite X. apply list_eqb_refl. exact attribute_eqb_refl.
Qed.

Theorem c06_spec_of_model cfg md certs rq sess now tnow addr relay rnd :
  let c0 := {| c6_cfg := cfg; c6_md := md; c6_certs := certs; c6_rq := rq; c6_sess := sess; c6_now := now;
               c6_tnow := tnow; c6_addr := addr; c6_relay := relay; c6_rnd := rnd; c6_obs := O6Err |} in
  c06_spec {| c6_cfg := cfg; c6_md := md; c6_certs := certs; c6_rq := rq; c6_sess := sess; c6_now := now;
              c6_tnow := tnow; c6_addr := addr; c6_relay := relay; c6_rnd := rnd;
              c6_obs := formobs_of (c06_model c0) |} = true.
Proof.
  cbv zeta. unfold c06_spec, c06_model, c06_route, c06_request.
  cbn [c6_cfg c6_md c6_certs c6_rq c6_sess c6_now c6_tnow c6_addr c6_relay c6_rnd c6_obs].
  set (route := match rq with Some r => get_acs_endpoint md r | None => idp_initiated_route md end).
  set (req := match rq with Some r => r | None => empty_request end).
  destruct route as [[[[di ei] d] e]|]; [|reflexivity].
  match goal with |- context [respond ?c ?cp ?r ?q ?ss ?n ?t ?ad ?rl ?rn] =>
    pose proof (respond_not_panic c cp r q ss n t ad rl rn) as Hnp;
    destruct (respond c cp r q ss n t ad rl rn) as [[[action resp] rl']| |] eqn:E end;
    cbn [formobs_of]; [| reflexivity | contradiction].
  pose proof (respond_scoping _ _ _ _ _ _ _ _ _ _ _ _ _ E) as S.
  pose proof (respond_times _ _ _ _ _ _ _ _ _ _ _ _ _ E) as T.
  pose proof (respond_content_monitors _ _ _ _ _ _ _ _ _ _ _ _ _ E) as M. cbn [mk_routing rt_desc] in M.
  cbv zeta in S, T. cbn [mk_routing rt_ep rt_md] in S.
  destruct S as (S1 & S2 & S3 & S4 & S5 & S6 & S7 & S8 & S9 & S10 & S11 & S12 & S13).
  destruct T as (T1 & T2 & T3 & T4 & T5 & T6).
  apply andb_true_iff; split; [apply andb_true_iff; split|exact M].
  - unfold scoping_b. rewrite S1, S2, S3, S4, S5, S7, S8, S9, S10, S11, S12, S13.
    rewrite !seqb_refl. simpl. rewrite seqb_refl. reflexivity.
  - unfold times_b. rewrite T4, T5, T6, !Z.eqb_refl.
    destruct (now - max_clock_skew cfg <? rq_issue req) eqn:El.
    + destruct T2 as [-> ->]; [lia|]. rewrite !Z.eqb_refl. cbn [andb]. rewrite ?andb_true_r. apply Z.leb_le. lia.
    + destruct T3 as [-> ->]; [lia|]. rewrite !Z.eqb_refl. cbn [andb]. rewrite ?andb_true_r. apply Z.leb_le. lia.
Qed.

(* ---------- non-vacuity: concrete accepted instances ---------- *)
Definition ex_cfg : idpcfg :=
  {| sso_url := "https://idp.example.com/sso"; idp_entity := "https://idp.example.com/metadata";
     max_issue_delay := 90000000000; max_clock_skew := 180000000000; sig_method := ""; idp_key := 1;
     idp_signer := Some 2; idp_signer_ecdsa := false |}.
Definition ex_md (kd : list keydesc) : spmeta :=
  {| md_entity := "https://sp.example.com/metadata";
     descriptors := [ {| acs := [ {| ep_binding := redirect_binding; ep_location := "https://sp.example.com/r"; ep_index := 0; ep_default := None |};
                                  {| ep_binding := post_binding; ep_location := "https://sp.example.com/acs"; ep_index := 1; ep_default := Some true |} ];
                         kds := kd; attr_services := [] |} ] |}.
Definition ex_reg (kd : list keydesc) : registry :=
  reg_of_list [("https://sp.example.com/metadata", Found (ex_md kd))].
Definition ex_rq : authnreq :=
  {| rq_id := "id-1"; rq_version := "2.0"; rq_issue := 1000000000000; rq_destination := "https://idp.example.com/sso";
     rq_issuer := Some "https://sp.example.com/metadata"; rq_acs_url := "https://attacker.example.net/"; rq_acs_index := "1" |}.
Definition ex_sess : session :=
  {| ss_create := 5; ss_index := "i"; ss_nameid := "alice"; ss_nameid_format := ""; ss_subject_id := "";
     ss_groups := ["staff"; "admin"]; ss_user_name := "alice"; ss_email := "a@example.com"; ss_common_name := "";
     ss_surname := ""; ss_given_name := ""; ss_scoped_aff := ""; ss_eppn := "";
     ss_custom := [ {| at_friendly := ""; at_name := "role"; at_format := ""; at_values := [xs_val "x"] |} ] |}.
Definition ex_rnd : rands :=
  {| rnd_saml := "0123456789012345678901234567890123456789"; rnd_enc := srepeat "k" 84; rnd_wrapn := 20%nat |}.

(* index "1" wins although the request also names a URL that is not registered *)
Example ex_validate_accepts :
  vobs_of (validate ex_cfg (ex_reg []) 1000000000000 ex_rq) = VOk 0 1.
Proof. vm_compute. reflexivity. Qed.

Example ex_respond_plain :
  match validate ex_cfg (ex_reg []) 1000000000000 ex_rq with
  | Ok rt => match respond ex_cfg (cp_of_list []) rt ex_rq ex_sess 1000000000000 1000000000000 "192.0.2.1:1" "relay" ex_rnd with
             | Ok (action, resp, rl) =>
                 seqb action "https://sp.example.com/acs"
                 && match rs_assertion (rs_body resp) with APlain _ _ => true | _ => false end
             | _ => false
             end
  | _ => false
  end = true.
Proof. vm_compute. reflexivity. Qed.

Example ex_respond_encrypted :
  let kd := [ {| kd_use := "encryption"; kd_certs := ["CERT"] |} ] in
  match validate ex_cfg (ex_reg kd) 1000000000000 ex_rq with
  | Ok rt => match respond ex_cfg (cp_of_list [("CERT", CertRsaKey 3)]) rt ex_rq ex_sess 1000000000000 1000000000000 "" "" ex_rnd with
             | Ok (_, resp, _) => match rs_assertion (rs_body resp) with AEnc e => en_recipient e =? 3 | _ => false end
             | _ => false
             end
  | _ => false
  end = true.
Proof. vm_compute. reflexivity. Qed.

(* ========================================================================= *)
(* C08: the encryption decision                                                *)
Lemma enc_loop_spec l :
  enc_loop l = match first_enc l with
               | None => Ok ""
               | Some k => match first_cert k with
                           | None => Err 30
                           | Some c => if nonempty c then Ok c else Err 30
                           end
               end.
Proof.
  unfold first_enc. induction l as [|k r IH]; simpl; [reflexivity|].
  unfold is_enc_kd at 1. destruct (seqb (kd_use k) "encryption"); [reflexivity | exact IH].
Qed.

Lemma unspec_loop_spec l :
  unspec_loop l = match first_unspec l with Some k => opt_str (first_cert k) | None => "" end.
Proof.
  unfold first_unspec. induction l as [|k r IH]; simpl; [reflexivity|].
  unfold is_usable_unspec at 1. destruct (nonempty (kd_use k)); simpl; [exact IH|].
  destruct (first_cert k) as [c|] eqn:Ec; [|exact IH]. destruct (nonempty c); [cbn; rewrite Ec; reflexivity | exact IH].
Qed.

Lemma first_unspec_nonempty l k :
  first_unspec l = Some k -> nonempty (opt_str (first_cert k)) = true.
Proof.
  unfold first_unspec. intro H. apply find_some in H. destruct H as [_ H].
  unfold is_usable_unspec in H. apply andb_true_iff in H. destruct H as [_ H].
  destruct (first_cert k); [exact H | discriminate].
Qed.

Theorem enc_decision_spec cp l : enc_decision cp l = enc_decision_decl cp l.
Proof.
  unfold enc_decision, enc_decision_decl, choose_cert_str, fallback_decision.
  rewrite enc_loop_spec, unspec_loop_spec.
  destruct (first_enc l) as [k|]; [destruct (first_cert k) as [c|]|]; cbn [bind]; try reflexivity.
  - destruct (nonempty c) eqn:Ec; cbn [bind]; [rewrite ?Ec; cbn [bind]; rewrite ?Ec; reflexivity | reflexivity].
  - cbn [nonempty]. destruct (first_unspec l) as [k'|] eqn:Eu; [|reflexivity].
    rewrite (first_unspec_nonempty _ _ Eu). reflexivity.
Qed.

Lemma of_cert_not_plain r : of_cert r <> Plain.
Proof. destruct r; discriminate. Qed.

(* plaintext exactly when no key is advertised; in particular a certificate that
   is missing, empty, does not decode, does not parse or carries a non-RSA key
   is an error, never a reason to send the assertion in clear *)
Theorem enc_decision_plain_iff cp l : enc_decision cp l = Plain <-> advertises_key_b l = false.
Proof.
  rewrite enc_decision_spec. unfold enc_decision_decl, advertises_key_b, fallback_decision.
  destruct (first_enc l) as [k|]; [destruct (first_cert k) as [c|]|]; cbn [orb].
  - destruct (nonempty c); split; try discriminate. intro H. exfalso. exact (of_cert_not_plain _ H).
  - split; discriminate.
  - destruct (first_unspec l); [split; [intro H; exfalso; exact (of_cert_not_plain _ H) | discriminate] | tauto].
Qed.

Theorem enc_decision_never_panics cp l : enc_decision cp l <> EncPanic.
Proof. exact (enc_decision_not_panic cp l). Qed.

(* regression for fix F17: an empty X509Certificate element in the first encryption
   descriptor is an error (it used to end in plaintext), also when a later
   encryption descriptor carries a good key *)
Example enc_empty_cert_is_error :
  enc_decision (fun _ => CertRsaKey 3)
    [ {| kd_use := "signing"; kd_certs := ["S"] |}; {| kd_use := "encryption"; kd_certs := [""] |};
      {| kd_use := "encryption"; kd_certs := ["GOOD"] |} ] = EncErr.
Proof. reflexivity. Qed.

Theorem respond_no_plaintext cfg cp rt rq s now tnow addr relay rnd action resp rl :
  advertises_key_b (kds (rt_desc rt)) = true ->
  respond cfg cp rt rq s now tnow addr relay rnd = Ok (action, resp, rl) ->
  exists e id,
    rs_assertion (rs_body resp) = AEnc e /\ enc_decision cp (kds (rt_desc rt)) = EncryptTo id /\
    en_recipient e = id /\
    fst (en_plain e) = fst (make_assertion cfg rt rq s now tnow addr (rnd_saml rnd)) /\
    en_key e = slice 0 16 (rnd_enc rnd) /\ en_iv e = slice (48 + rnd_wrapn rnd) 16 (rnd_enc rnd) /\
    en_key_id e = slice 16 16 (rnd_enc rnd) /\ en_data_id e = slice (32 + rnd_wrapn rnd) 16 (rnd_enc rnd).
Proof.
  intros Hadv H. apply respond_inv in H. cbv zeta in H.
  destruct H as (ael & _ & Hel & -> & _).
  apply make_assertion_el_inv in Hel. destruct Hel as (ctx & _ & [[Hp _] | (id & Hd & ->)]).
  - apply enc_decision_plain_iff in Hp. congruence.
  - eexists _, id. unfold response_of. cbn. repeat split; auto.
Qed.

(* an error on the way (no certificate element, undecodable or non-RSA certificate) emits nothing *)
Theorem respond_enc_error_is_error cfg cp rt rq s now tnow addr relay rnd :
  enc_decision cp (kds (rt_desc rt)) = EncErr ->
  exists c, respond cfg cp rt rq s now tnow addr relay rnd = Err c.
Proof.
  intro H. unfold respond. destruct (make_assertion cfg rt rq s now tnow addr (rnd_saml rnd)) as [a r'].
  unfold make_assertion_el. destruct (signing_context cfg) as [ctx| |] eqn:E; cbn [bind].
  - rewrite H. cbn [bind]. eauto.
  - eauto.
  - unfold signing_context in E. destruct (mem_str _ _); discriminate.
Qed.

(* ---------- fresh content key and IV ---------- *)
Lemma drop_drop a : forall b s, drop a (drop b s) = drop (b + a) s.
Proof.
  intros b. induction b as [|b IH]; intro s; [reflexivity|].
  destruct s as [|c r]; simpl.
  - destruct a; reflexivity.
  - apply IH.
Qed.

Lemma slice_drop off n k s : slice off n (drop k s) = slice (k + off) n s.
Proof. unfold slice. rewrite drop_drop. reflexivity. Qed.

(* two consecutive encryptions fed from one stream take their content keys and
   IVs from four pairwise disjoint 16-byte windows of the stream *)
Theorem encrypt_fresh_key_iv id1 id2 w1 w2 r p1 p2 :
  let '(e1, r1) := encrypt_assertion id1 w1 r p1 in
  let '(e2, r2) := encrypt_assertion id2 w2 r1 p2 in
  en_key e1 = slice 0 16 r /\ en_key_id e1 = slice 16 16 r /\
  en_data_id e1 = slice (32 + w1) 16 r /\ en_iv e1 = slice (48 + w1) 16 r /\
  en_key e2 = slice (64 + w1) 16 r /\ en_iv e2 = slice (64 + w1 + (48 + w2)) 16 r /\
  r1 = drop (64 + w1) r /\ r2 = drop (64 + w1 + (64 + w2)) r /\
  (0 + 16 <= 16 /\ 16 + 16 <= 32 + w1 /\ 32 + w1 + 16 <= 48 + w1 /\ 48 + w1 + 16 <= 64 + w1
   /\ 64 + w1 + 16 <= 64 + w1 + (48 + w2))%nat.
Proof.
  unfold encrypt_assertion, enc_consumed. cbn [en_key en_key_id en_data_id en_iv].
  rewrite !slice_drop, drop_drop. repeat split; try reflexivity; try lia.
  f_equal. lia.
Qed.

Theorem sym_decrypt_only_recipient key e p : sym_decrypt key e = Some p -> key = en_recipient e /\ p = en_plain e.
Proof.
  unfold sym_decrypt. destruct (key =? en_recipient e) eqn:E; [|discriminate].
  intro H. injection H as <-. split; [lia | reflexivity].
Qed.

(* the C08 monitor holds of the model's own output *)
Theorem c08_spec_of_model cfg md certs rq sess now tnow addr relay rnd :
  let c0 := {| c6_cfg := cfg; c6_md := md; c6_certs := certs; c6_rq := rq; c6_sess := sess; c6_now := now;
               c6_tnow := tnow; c6_addr := addr; c6_relay := relay; c6_rnd := rnd; c6_obs := O6Err |} in
  c08_spec {| c6_cfg := cfg; c6_md := md; c6_certs := certs; c6_rq := rq; c6_sess := sess; c6_now := now;
              c6_tnow := tnow; c6_addr := addr; c6_relay := relay; c6_rnd := rnd;
              c6_obs := formobs_of (c06_model c0) |} = true.
Proof.
  cbv zeta. unfold c08_spec, c08_kds, c06_model, c06_route, c06_request.
  cbn [c6_cfg c6_md c6_certs c6_rq c6_sess c6_now c6_tnow c6_addr c6_relay c6_rnd c6_obs].
  set (route := match rq with Some r => get_acs_endpoint md r | None => idp_initiated_route md end).
  set (req := match rq with Some r => r | None => empty_request end).
  destruct route as [[[[di ei] d] e]|]; [|reflexivity].
  match goal with |- context [respond ?c ?cp ?r ?q ?ss ?n ?t ?ad ?rl ?rn] =>
    pose proof (respond_not_panic c cp r q ss n t ad rl rn) as Hnp;
    destruct (respond c cp r q ss n t ad rl rn) as [[[action resp] rl']| |] eqn:E end;
    cbn [formobs_of]; [| reflexivity | contradiction].
  pose proof (respond_content_monitors _ _ _ _ _ _ _ _ _ _ _ _ _ E) as M. cbn [mk_routing rt_desc] in M.
  rewrite M. cbn [andb].
  destruct (advertises_key_b (kds d)) eqn:Ea.
  - pose proof (respond_no_plaintext _ _ (mk_routing md (di, ei, d, e)) _ _ _ _ _ _ _ _ _ _ Ea E) as (enc & id & He & Hd & Hr & _ & Hk & Hiv & Hkid & Hdid).
    rewrite He. rewrite <- enc_decision_spec. cbn [mk_routing rt_desc] in Hd. rewrite Hd.
    rewrite Hr, Hk, Hiv, Hkid, Hdid, Z.eqb_refl, !seqb_refl. reflexivity.
  - apply respond_inv in E. cbv zeta in E. destruct E as (ael & _ & Hel & -> & _).
    apply make_assertion_el_inv in Hel. destruct Hel as (ctx & _ & [[Hp ->] | (id' & Hd' & ->)]).
    + reflexivity.
    + cbn [mk_routing rt_desc] in Hd'. apply (proj2 (enc_decision_plain_iff (cp_of_list certs) _)) in Ea. congruence.
Qed.

(* ========================================================================= *)
(* C07                                                                         *)
From Saml Require Import XmlText XmlTextProofs.

(* the SP's own published metadata is sufficient registration: the request the
   SP builds is routed to the SP's ACS URL over HTTP-POST, and the encryption
   decision finds the SP's certificate exactly when one is configured *)
Theorem sp_metadata_registers sp cert id issue dest cp :
  exists d e,
    get_acs_endpoint (sp_metadata sp cert) (sp_request sp id issue dest) = Some (0, 0, d, e) /\
    ep_location e = sp_acs sp /\ ep_binding e = post_binding /\
    In d (descriptors (sp_metadata sp cert)) /\
    (sp_key sp = None \/ sp_key_rsa sp = false -> enc_decision cp (kds d) = Plain) /\
    (forall k, sp_key sp = Some k -> sp_key_rsa sp = true -> cert <> "" -> cp (strip_ws cert) = CertRsaKey k ->
               enc_decision cp (kds d) = EncryptTo k).
Proof.
  eexists _, _. split; [|split; [|split; [|split; [|split]]]].
  - unfold get_acs_endpoint, sp_request, sp_metadata. cbn [rq_acs_index rq_acs_url descriptors nonempty].
    destruct (nonempty (sp_acs sp)) eqn:En.
    + cbn [find_acs acs find_index]. unfold p_url at 1. cbn [ep_location]. rewrite seqb_refl. reflexivity.
    + cbn [negb andb find_acs acs find_index]. unfold p_default at 1, is_default. cbn [ep_default andb].
      unfold p_default at 1, is_default. cbn [ep_default andb].
      cbn [find_acs acs find_index]. unfold p_browser at 1, browser_binding. cbn [ep_binding].
      rewrite seqb_refl. reflexivity.
  - reflexivity.
  - reflexivity.
  - left. reflexivity.
  - intro H. cbn [kds]. destruct (sp_key sp) as [k|]; [|reflexivity].
    destruct H as [H | H]; [discriminate|]. rewrite H. destruct (sp_signs sp); reflexivity.
  - intros k H Hr Hc Hcp. cbn [kds]. rewrite H, Hr. rewrite enc_decision_spec.
    unfold enc_decision_decl, first_enc. cbn. apply nonempty_true_iff in Hc. rewrite Hc. rewrite Hcp. reflexivity.
Qed.

Lemma allowed_in_all cfg m : mem_str m (allowed_methods cfg) = true -> mem_str m all_methods = true.
Proof.
  intro H. apply mem_str_In in H. apply mem_str_In. unfold all_methods. apply in_or_app.
  unfold allowed_methods in H. destruct (idp_signer cfg); [destruct (idp_signer_ecdsa cfg)|]; auto.
Qed.

(* the SP accepts what the IdP emits, and returns the assertion the IdP made *)
Theorem roundtrip_abstract cfg cp sp rt rq s now addr relay rnd ids action resp rl :
  0 <= max_issue_delay cfg -> 0 <= max_clock_skew cfg ->
  rq_issue rq - max_clock_skew cfg <= now ->
  sp_idp_key sp = signer_key cfg -> sp_idp_entity sp = idp_entity cfg ->
  ep_location (rt_ep rt) = sp_acs sp -> md_entity (rt_md rt) = sp_entity sp ->
  (sp_allow_initiated sp = true \/ In (rq_id rq) ids) ->
  (forall k, enc_decision cp (kds (rt_desc rt)) = EncryptTo k -> sp_key sp = Some k) ->
  respond cfg cp rt rq s now now addr relay rnd = Ok (action, resp, rl) ->
  sp_accept sp (max_issue_delay cfg) (max_clock_skew cfg) now ids resp
  = Ok (fst (make_assertion cfg rt rq s now now addr (rnd_saml rnd))).
Proof.
  intros Hd Hs Hiss Hk He Hacs Hent Hid Henc H.
  pose proof (respond_inv _ _ _ _ _ _ _ _ _ _ _ _ _ H) as R. cbv zeta in R.
  destruct R as (ael & Hm & Hel & Hresp & Hin & _ & _ & _).
  pose proof (make_assertion_fields cfg rt rq s now now addr (rnd_saml rnd)) as F. cbv zeta in F.
  set (a := fst (make_assertion cfg rt rq s now now addr (rnd_saml rnd))) in *.
  destruct F as (Fid & Fii & Fiss & _ & _ & _ & _ & _ & _ & Firt & Fcnoa & Frec & Fw & Faud & _).
  assert (Hidb : sp_allow_initiated sp || mem_str (rq_id rq) ids = true).
  { destruct Hid as [-> | Hi]; [reflexivity|]. apply orb_true_iff. right. apply mem_str_In. exact Hi. }
  unfold sp_accept. rewrite Hresp. unfold response_of.
  cbn [rs_body rs_sig rs_destination rs_in_response_to rs_issue_instant rs_issuer rs_status rs_id rs_assertion].
  rewrite Hacs, seqb_refl. cbn [negb]. rewrite Hidb. cbn [negb].
  replace (now + max_issue_delay cfg <? now) with false by lia.
  rewrite He, seqb_refl. cbn [negb]. rewrite seqb_refl. cbn [negb].
  unfold sig_valid, sign. cbn [sg_signer sg_ref sg_over sg_method fst snd].
  rewrite Hk, Z.eqb_refl, seqb_refl, respbody_eqb_refl, (allowed_in_all _ _ Hm). cbn [andb negb].
  assert (Ha : match ael with
               | APlain a0 _ => Ok a0
               | AEnc e => match sp_key sp with
                           | Some k => match sym_decrypt k e with Some (a0, _) => Ok a0 | None => Err 7 end
                           | None => Err 7
                           end
               end = Ok a).
  { apply make_assertion_el_inv in Hel. destruct Hel as (ctx & _ & [[_ ->] | (id & Hdec & ->)]); [reflexivity|].
    rewrite (Henc id Hdec). unfold sym_decrypt, encrypt_assertion. cbn [fst en_recipient en_plain].
    rewrite Z.eqb_refl. reflexivity. }
  rewrite Ha. cbn [bind].
  unfold sp_validate_assertion. rewrite Fii.
  replace (now + max_issue_delay cfg <? now) with false by lia.
  rewrite Fiss, He, seqb_refl. cbn [negb]. rewrite Firt, Hidb. cbn [negb].
  rewrite Frec, Hacs, seqb_refl. cbn [negb]. rewrite Fcnoa.
  replace (now + max_issue_delay cfg + max_clock_skew cfg <? now) with false by lia.
  unfold cond_window in Fw.
  destruct (now - max_clock_skew cfg <? rq_issue rq) eqn:Ew; injection Fw as Fnb Fnoa; rewrite Fnb, Fnoa.
  - replace (now <? rq_issue rq - max_clock_skew cfg) with false by lia.
    replace (rq_issue rq + max_issue_delay cfg + max_clock_skew cfg <? now) with false by lia.
    rewrite Faud, Hent. cbn [mem_str]. rewrite seqb_refl. reflexivity.
  - replace (now <? now - max_clock_skew cfg - max_clock_skew cfg) with false by lia.
    replace (now + max_issue_delay cfg + max_clock_skew cfg <? now) with false by lia.
    rewrite Faud, Hent. cbn [mem_str]. rewrite seqb_refl. reflexivity.
Qed.

(* byte level: every session string survives the serialise -> parse hops *)
Lemma tr_text_ok s : valid_xml_chars s = true -> tr_text s = Some s.
Proof. apply xml_text_canonical_roundtrip. Qed.
Lemma tr_attr_ok s : attr_pos_ok s = true -> tr_attr s = Some s.
Proof.
  unfold attr_pos_ok. intro H. apply andb_true_iff in H. destruct H as [Hv Hc].
  apply negb_true_iff in Hc. apply xml_attr_canonical_roundtrip; assumption.
Qed.
Lemma tr_list_ok {A} (f : A -> option A) (ok : A -> bool) (H : forall x, ok x = true -> f x = Some x) l :
  forallb ok l = true -> tr_list f l = Some l.
Proof.
  induction l as [|x r IH]; intro Hl; [reflexivity|].
  cbn [forallb] in Hl. apply andb_true_iff in Hl. destruct Hl as [Hx Hr].
  cbn [tr_list]. rewrite (H x Hx), (IH Hr). reflexivity.
Qed.
Lemma tr_nameid_ok n : nameid_clean n = true -> tr_nameid n = Some n.
Proof.
  unfold nameid_clean, tr_nameid. intro H. rewrite !andb_true_iff in H. destruct H as [[[Hf Hq] Hs] Hv].
  rewrite (tr_attr_ok _ Hf), (tr_attr_ok _ Hq), (tr_attr_ok _ Hs), (tr_text_ok _ Hv). destruct n; reflexivity.
Qed.
Lemma tr_value_ok v : value_clean v = true -> tr_value v = Some v.
Proof.
  unfold value_clean, tr_value. intro H. rewrite !andb_true_iff in H. destruct H as [[Ht Hv] Hn].
  rewrite (tr_attr_ok _ Ht), (tr_text_ok _ Hv). destruct v as [t x [n|]]; cbn [av_nameid] in *.
  - rewrite (tr_nameid_ok _ Hn). reflexivity.
  - reflexivity.
Qed.
Lemma tr_attribute_ok a : attribute_clean a = true -> tr_attribute a = Some a.
Proof.
  unfold attribute_clean, tr_attribute. intro H. rewrite !andb_true_iff in H.
  destruct H as [[[Hf Hn] Hfm] Hv].
  rewrite (tr_attr_ok _ Hf), (tr_attr_ok _ Hn), (tr_attr_ok _ Hfm), (tr_list_ok tr_value value_clean tr_value_ok _ Hv).
  destruct a; reflexivity.
Qed.

Theorem roundtrip_bytes s :
  session_clean s = true -> c07_expect s = Some (ss_nameid s, session_attributes empty_svc s).
Proof.
  unfold session_clean, c07_expect. intro H. rewrite !andb_true_iff in H. destruct H as [[[Hi Hf] Hn] Ha].
  rewrite (tr_attr_ok _ Hi), (tr_attr_ok _ Hf), (tr_text_ok _ Hn),
          (tr_list_ok tr_attribute attribute_clean tr_attribute_ok _ Ha). reflexivity.
Qed.

Lemma list_eqb_refl' {A} (eq : A -> A -> bool) (H : forall x, eq x x = true) l : list_eqb eq l l = true.
Proof. apply list_eqb_refl. exact H. Qed.

(* the pipeline monitor holds of the model's own expectation for every clean
   session (for a valid session that is not clean it does not: K4) *)
Theorem c07_spec_of_model s :
  session_clean s = true ->
  c07_spec {| c7_sess := s;
              c7_accepted := match c07_expect s with Some _ => true | None => false end;
              c7_nameid := match c07_expect s with Some (n, _) => n | None => "" end;
              c7_attrs := match c07_expect s with Some (_, l) => l | None => [] end |} = true.
Proof.
  intro Hc. unfold c07_spec. cbn [c7_sess c7_accepted c7_nameid c7_attrs].
  destruct (session_valid s); [|reflexivity].
  rewrite (roundtrip_bytes s Hc). cbn [andb]. rewrite seqb_refl, (list_eqb_refl _ attribute_eqb_refl). reflexivity.
Qed.

(* K4 in the model: a session of XML characters whose session index contains "]]>" is refused *)
Example c07_cdata_end_refuted :
  let s := {| ss_create := 0; ss_index := "a]]>b"; ss_nameid := "alice"; ss_nameid_format := ""; ss_subject_id := "";
              ss_groups := []; ss_user_name := ""; ss_email := ""; ss_common_name := ""; ss_surname := "";
              ss_given_name := ""; ss_scoped_aff := ""; ss_eppn := ""; ss_custom := [] |} in
  session_valid s = true /\ c07_expect s = None.
Proof. vm_compute. split; reflexivity. Qed.

Example ex_roundtrip_hostile :
  c07_expect {| ss_create := 0; ss_index := "i"; ss_nameid := "a<b>&""c'" +++ String (chr 13) (String (chr 10) " ]]> ");
                ss_nameid_format := ""; ss_subject_id := ""; ss_groups := ["g" +++ String (chr 9) ""];
                ss_user_name := ""; ss_email := ""; ss_common_name := ""; ss_surname := ""; ss_given_name := "";
                ss_scoped_aff := ""; ss_eppn := ""; ss_custom := [] |}
  = Some ("a<b>&""c'" +++ String (chr 13) (String (chr 10) " ]]> "),
          [uri_attr "eduPersonAffiliation" "urn:oid:1.3.6.1.4.1.5923.1.1.1.1" [xs_val ("g" +++ String (chr 9) "")]]).
Proof. vm_compute. reflexivity. Qed.

(* ---------- C08, SP side of the small acceptance model: one path for both forms ---------- *)
Definition sp_envelope (sp : spcfg) (delay now : Z) (ids : list string) (resp : response) : outcome unit :=
  let b := rs_body resp in
  if negb (seqb (rs_destination b) (sp_acs sp)) then Err 2 else
  if negb (sp_allow_initiated sp || mem_str (rs_in_response_to b) ids) then Err 3 else
  if rs_issue_instant b + delay <? now then Err 4 else
  if negb (seqb (rs_issuer b) (sp_idp_entity sp)) then Err 5 else
  if negb (seqb (rs_status b) status_success) then Err 6 else
  if negb (sig_valid respbody_eqb (sp_idp_key sp) (rs_sig resp) b (rs_id b)) then Err 1 else Ok tt.
Definition sp_extract (sp : spcfg) (ael : assertion_el) : outcome assertion :=
  match ael with
  | APlain a _ => Ok a
  | AEnc e => match sp_key sp with
              | Some k => match sym_decrypt k e with Some (a, _) => Ok a | None => Err 7 end
              | None => Err 7
              end
  end.

(* the decrypted assertion goes through exactly the function a plaintext one goes
   through; an assertion encrypted to another key (or with no key configured) is an error *)
Theorem sp_accept_same_path sp delay skew now ids resp :
  sp_accept sp delay skew now ids resp =
  (do _ <- sp_envelope sp delay now ids resp;
   do a <- sp_extract sp (rs_assertion (rs_body resp));
   sp_validate_assertion sp delay skew now ids a).
Proof.
  unfold sp_accept, sp_envelope, sp_extract.
  repeat match goal with |- context [if ?b then _ else _] => destruct b; try reflexivity end.
Qed.

Theorem sp_undecryptable_is_error sp e :
  (forall k, sp_key sp = Some k -> k <> en_recipient e) -> sp_extract sp (AEnc e) = Err 7.
Proof.
  intro H. unfold sp_extract. destruct (sp_key sp) as [k|]; [|reflexivity].
  unfold sym_decrypt. specialize (H k eq_refl). destruct (k =? en_recipient e) eqn:E; [lia | reflexivity].
Qed.

(* ---------- C08: an encryption error leaves nothing behind in the request object ---------- *)
Lemma make_assertion_el_enc_err cfg cp rt a rnd :
  enc_decision cp (kds (rt_desc rt)) = EncErr -> exists c, make_assertion_el cfg cp rt a rnd = Err c.
Proof.
  intro H. unfold make_assertion_el. destruct (signing_context cfg) as [ctx| |] eqn:E; cbn [bind].
  - rewrite H. eauto.
  - eauto.
  - unfold signing_context in E. destruct (mem_str _ _); discriminate.
Qed.

Lemma do_step_enc_err x s :
  enc_decision (sx_cp x) (kds (rt_desc (sx_rt x))) = EncErr ->
  exists c, do_step x s st_empty = (st_empty, Err c).
Proof.
  intro H. destruct (make_assertion_el_enc_err (sx_cfg x) (sx_cp x) (sx_rt x) (sx_a x) (sx_rnd x) H) as [c Hc].
  assert (A : do_make_ael x st_empty = (st_empty, Err c)) by (unfold do_make_ael; rewrite Hc; reflexivity).
  assert (R : do_make_response x st_empty = (st_empty, Err c)).
  { unfold do_make_response. cbn [st_ael st_empty]. rewrite A. reflexivity. }
  exists c. destruct s; cbn [do_step]; [exact A | exact R |].
  unfold do_post_binding. cbn [st_resp st_empty]. rewrite R. reflexivity.
Qed.

(* whatever sequence of MakeAssertionEl / MakeResponse / PostBinding (WriteResponse)
   calls a caller makes, ignoring the errors: every call is an error and
   req.AssertionEl and req.ResponseEl stay nil *)
Theorem steps_enc_error_leave_nothing x l :
  enc_decision (sx_cp x) (kds (rt_desc (sx_rt x))) = EncErr ->
  exists os, run_steps x l st_empty = (st_empty, os) /\ Forall (fun z => z = 1) os
             /\ List.length os = List.length l.
Proof.
  intro H. induction l as [|s r IH].
  - exists []. repeat split. constructor.
  - destruct IH as (os & Hr & Hall & Hlen). destruct (do_step_enc_err x s H) as [c Hc].
    exists (1 :: os). cbn [run_steps]. rewrite Hc, Hr. cbn [ocls]. repeat split.
    + constructor; [reflexivity | exact Hall].
    + cbn [List.length]. rewrite Hlen. reflexivity.
Qed.

Lemma forallb_all_one os : Forall (fun z => z = 1) os -> forallb (fun z => z =? 1) os = true /\ forallb (fun z => negb (z =? 2)) os = true.
Proof. induction 1 as [|z r Hz _ [IH1 IH2]]; [split; reflexivity|]. subst z. cbn. rewrite IH1, IH2. split; reflexivity. Qed.

Lemma do_step_not_panic x s st : snd (do_step x s st) <> Panic.
Proof.
  assert (A : forall st, snd (do_make_ael x st) <> Panic).
  { intro st0. unfold do_make_ael. pose proof (make_assertion_el_not_panic (sx_cfg x) (sx_cp x) (sx_rt x) (sx_a x) (sx_rnd x)) as N.
    destruct (make_assertion_el _ _ _ _ _); cbn [snd]; try discriminate. contradiction. }
  assert (A' : forall st st1 r1, do_make_ael x st = (st1, r1) -> r1 = Ok tt -> st_ael st1 <> None).
  { intros st0 st1 r1. unfold do_make_ael. destruct (make_assertion_el _ _ _ _ _); intro E; injection E as <- <-; intro; try discriminate; try (cbn; discriminate). }
  assert (R : forall st, snd (do_make_response x st) <> Panic).
  { intro st0. unfold do_make_response.
    destruct (st_ael st0) as [ael|] eqn:Ea.
    - rewrite Ea. pose proof (make_response_not_panic (sx_cfg x) (sx_rt x) (sx_rq x) (sx_now x) ael (sx_rand x)) as N.
      destruct (make_response _ _ _ _ _ _); cbn [snd]; try discriminate. contradiction.
    - destruct (do_make_ael x st0) as [st1 r1] eqn:E. pose proof (A st0) as N. rewrite E in N. cbn [snd] in N.
      destruct r1 as [u| |]; cbn [snd]; try discriminate; [|contradiction].
      pose proof (A' _ _ _ E) as S. destruct u. specialize (S eq_refl).
      destruct (st_ael st1) as [ael|]; [|contradiction].
      pose proof (make_response_not_panic (sx_cfg x) (sx_rt x) (sx_rq x) (sx_now x) ael (sx_rand x)) as N2.
      destruct (make_response _ _ _ _ _ _); cbn [snd]; try discriminate. contradiction. }
  destruct s; cbn [do_step]; [apply A | apply R |].
  unfold do_post_binding. destruct (st_resp st).
  - cbn [snd]. destruct (negb _); discriminate.
  - destruct (do_make_response x st) as [st1 r1] eqn:E. pose proof (R st) as N. rewrite E in N. cbn [snd] in N.
    destruct r1; cbn [snd]; try discriminate; [destruct (negb _); discriminate | contradiction].
Qed.

Lemma run_steps_no_panic x l : forall st, forallb (fun z => negb (z =? 2)) (snd (run_steps x l st)) = true.
Proof.
  induction l as [|s r IH]; intro st; [reflexivity|].
  cbn [run_steps]. destruct (do_step x s st) as [st1 o] eqn:E.
  destruct (run_steps x r st1) as [st2 os] eqn:E2. cbn [snd forallb].
  pose proof (do_step_not_panic x s st) as N. rewrite E in N. cbn in N.
  specialize (IH st1). rewrite E2 in IH. cbn in IH. rewrite IH.
  destruct o; cbn; try reflexivity. contradiction.
Qed.

(* the step monitor holds of the model's own run *)
Theorem c08s_spec_of_model base steps :
  match c06_route base with
  | None => True
  | Some r =>
      let '(st, os) := run_steps (c08s_ctx base r) (map step_of steps) st_empty in
      c08s_spec {| s8_base := base; s8_steps := steps; s8_results := os;
                   s8_ael_set := is_some (st_ael st); s8_resp_set := is_some (st_resp st) |} = true
  end.
Proof.
  destruct (c06_route base) as [r|] eqn:Er; [|exact I].
  destruct (run_steps (c08s_ctx base r) (map step_of steps) st_empty) as [st os] eqn:E.
  unfold c08s_spec. cbn [s8_base s8_results s8_ael_set s8_resp_set].
  pose proof (run_steps_no_panic (c08s_ctx base r) (map step_of steps) st_empty) as NP. rewrite E in NP. cbn in NP.
  rewrite NP. cbn [andb]. unfold c08_kds. rewrite Er. destruct r as [[[di ei] d] e].
  destruct (enc_decision_decl (cp_of_list (c6_certs base)) (kds d)) eqn:Ed; try reflexivity.
  rewrite <- enc_decision_spec in Ed.
  assert (Hx : enc_decision (sx_cp (c08s_ctx base (di, ei, d, e))) (kds (rt_desc (sx_rt (c08s_ctx base (di, ei, d, e))))) = EncErr).
  { unfold c08s_ctx. destruct (make_assertion _ _ _ _ _ _ _ _) as [a rand']. cbn. exact Ed. }
  destruct (steps_enc_error_leave_nothing _ (map step_of steps) Hx) as (os' & Hr & Hall & _).
  rewrite E in Hr. injection Hr as -> ->. apply forallb_all_one in Hall. destruct Hall as [H1 _].
  rewrite H1. reflexivity.
Qed.

(* ---------- C05: a request that names no URL is never matched by Location ---------- *)
(* in particular a registered endpoint whose Location is "" (the metadata parser
   blanks the Location of endpoints with unknown bindings) is not selected
   because "" = "": with no URL in the request the selected endpoint matched the
   requested index, or — the request naming no index either — has a browser binding *)
Theorem empty_url_never_selects_by_location md rq di ei d e :
  rq_acs_url rq = "" -> get_acs_endpoint md rq = Some (di, ei, d, e) ->
  (rq_acs_index rq <> "" /\ itoa (ep_index e) = rq_acs_index rq) \/
  (rq_acs_index rq = "" /\ (ep_binding e = post_binding \/ ep_binding e = redirect_binding)).
Proof.
  intros Hu H. apply get_acs_endpoint_spec in H.
  destruct H as [Hi Hm | _ Hne _ | Hi _ Hm | Hi _ _ Hm].
  - left. split; [exact Hi|]. apply first_match_registered in Hm. destruct Hm as (_ & _ & _ & _ & Hp).
    apply p_index_iff. exact Hp.
  - contradiction.
  - right. split; [exact Hi|]. apply first_match_registered in Hm. destruct Hm as (_ & _ & _ & _ & Hp).
    apply p_default_iff in Hp. tauto.
  - right. split; [exact Hi|]. apply first_match_registered in Hm. destruct Hm as (_ & _ & _ & _ & Hp).
    apply p_browser_iff. exact Hp.
Qed.

(* a request whose only selector is an index that no registered endpoint carries is refused *)
Corollary unregistered_index_only_refused md rq :
  rq_acs_url rq = "" -> rq_acs_index rq <> "" ->
  desc_none_match (p_index (rq_acs_index rq)) (descriptors md) = true ->
  get_acs_endpoint md rq = None.
Proof. intros Hu Hi Hn. apply get_acs_endpoint_no_match; auto. Qed.

Example ex_blank_location_not_matched :
  let md := {| md_entity := "e"; descriptors := [ {| acs := [ {| ep_binding := "urn:oasis:names:tc:SAML:2.0:bindings:PAOS"; ep_location := ""; ep_index := 0; ep_default := None |};
                                                               {| ep_binding := post_binding; ep_location := "https://sp/acs"; ep_index := 1; ep_default := None |} ];
                                                      kds := []; attr_services := [] |} ] |} in
  let rq i := {| rq_id := "x"; rq_version := "2.0"; rq_issue := 0; rq_destination := ""; rq_issuer := Some "e"; rq_acs_url := ""; rq_acs_index := i |} in
  (match get_acs_endpoint md (rq "") with Some (_, ei, _, _) => ei | None => -1 end,
   match get_acs_endpoint md (rq "7") with Some (_, ei, _, _) => ei | None => -1 end) = (1, -1).
Proof. reflexivity. Qed.

(* ---------- C06 on the step API ---------- *)
Lemma do_post_binding_ok x st st' :
  do_post_binding x st = (st', Ok tt) -> ep_binding (rt_ep (sx_rt x)) = post_binding.
Proof.
  unfold do_post_binding.
  destruct (match st_resp st with None => do_make_response x st | Some _ => (st, Ok tt) end) as [st1 r1].
  destruct r1 as [u| |]; try (intro H; discriminate).
  destruct (seqb (ep_binding (rt_ep (sx_rt x))) post_binding) eqn:E; cbn [negb]; intro H; [|discriminate].
  apply seqb_iff. exact E.
Qed.

(* PostBinding / WriteResponse succeeds only for an HTTP-POST endpoint, in every state
   of the request object — also when MakeResponse was called first *)
Theorem steps_post_only_to_post x : forall l st,
  posts_only_to_post (ep_binding (rt_ep (sx_rt x)))
                     (map (fun s => match s with SMakeAssertionEl => 0 | SMakeResponse => 1 | SPostBinding => 2 end) l)
                     (snd (run_steps x l st)) = true.
Proof.
  induction l as [|s r IH]; intro st; [reflexivity|].
  cbn [run_steps map]. destruct (do_step x s st) as [st1 o] eqn:E.
  specialize (IH st1). destruct (run_steps x r st1) as [st2 os]. cbn [snd] in *. cbn [posts_only_to_post].
  rewrite IH, andb_true_r.
  destruct s; cbn [Z.eqb andb negb orb]; try reflexivity.
  destruct o as [u| |]; cbn [ocls Z.eqb Pos.eqb andb negb orb]; try reflexivity.
  destruct u. cbn [do_step] in E. rewrite (do_post_binding_ok _ _ _ E). apply seqb_refl.
Qed.

Lemma step_of_code l : map (fun s => match s with SMakeAssertionEl => 0 | SMakeResponse => 1 | SPostBinding => 2 end) (map step_of l)
                       = map (fun z => if z =? 0 then 0 else if z =? 1 then 1 else 2) l.
Proof. induction l as [|z r IH]; [reflexivity|]. cbn [map]. rewrite IH. unfold step_of. destruct (z =? 0); [reflexivity|]. destruct (z =? 1); reflexivity. Qed.

Lemma posts_only_raw b : forall l os,
  posts_only_to_post b (map (fun z => if z =? 0 then 0 else if z =? 1 then 1 else 2) l) os = true ->
  posts_only_to_post b l os = true.
Proof.
  induction l as [|z r IH]; intros os H; [reflexivity|]. destruct os as [|o os']; [reflexivity|].
  cbn [map posts_only_to_post] in *. apply andb_true_iff in H. destruct H as [H1 H2].
  rewrite (IH _ H2), andb_true_r.
  destruct (z =? 2) eqn:E2; [|reflexivity].
  apply Z.eqb_eq in E2. subst z. exact H1.
Qed.

Theorem c06s_spec_of_model base steps :
  match c06_route base with
  | None => True
  | Some r =>
      let '(st, os) := run_steps (c08s_ctx base r) (map step_of steps) st_empty in
      c06s_spec {| s8_base := base; s8_steps := steps; s8_results := os;
                   s8_ael_set := is_some (st_ael st); s8_resp_set := is_some (st_resp st) |} = true
  end.
Proof.
  destruct (c06_route base) as [r|] eqn:Er; [|exact I].
  destruct (run_steps (c08s_ctx base r) (map step_of steps) st_empty) as [st os] eqn:E.
  unfold c06s_spec. cbn [s8_base s8_results s8_steps]. rewrite Er.
  pose proof (run_steps_no_panic (c08s_ctx base r) (map step_of steps) st_empty) as NP. rewrite E in NP. cbn in NP.
  rewrite NP. cbn [andb]. destruct r as [[[di ei] d] e].
  pose proof (steps_post_only_to_post (c08s_ctx base (di, ei, d, e)) (map step_of steps) st_empty) as P.
  rewrite E in P. cbn [snd] in P. rewrite step_of_code in P.
  assert (Hb : ep_binding (rt_ep (sx_rt (c08s_ctx base (di, ei, d, e)))) = ep_binding e).
  { unfold c08s_ctx. destruct (make_assertion _ _ _ _ _ _ _ _) as [a rand']. reflexivity. }
  rewrite Hb in P. apply posts_only_raw. exact P.
Qed.

(* ---------- C05: the metadata parser's endpoint rule ---------- *)
(* what the IdP routes by never depends on the ResponseLocation attribute, and the
   parsed Location is the document's Location or blank *)
Theorem parse_endpoint_ignores_response_location b l rl rl' i d :
  parse_endpoint {| re_binding := b; re_location := l; re_response_location := rl; re_index := i; re_default := d |}
  = parse_endpoint {| re_binding := b; re_location := l; re_response_location := rl'; re_index := i; re_default := d |}.
Proof. reflexivity. Qed.
Theorem parse_endpoint_location r :
  ep_location (parse_endpoint r) = re_location r \/ ep_location (parse_endpoint r) = "".
Proof. unfold parse_endpoint. cbn [ep_location]. destruct (mem_str (re_binding r) known_bindings); auto. Qed.
