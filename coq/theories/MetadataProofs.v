(* MetadataProofs.v — lemmas about Metadata.v *)
From Saml Require Import Base BaseProofs UrlEnc UrlEncProofs TimeModel TimeProofs DurationModel DurationProofs Metadata.
Arguments seqb : simpl never.

(* ---------- getScheme ---------- *)
Lemma get_scheme_from_shape : forall s f sc rest,
  get_scheme_from f s = Ok (Some (sc, rest)) -> s = sc +++ String ":" rest.
Proof.
  induction s as [|c r IH]; intros f sc rest H; [discriminate|]. cbn [get_scheme_from] in H.
  destruct (is_alpha c || scheme_tail_char c && negb f) eqn:E1.
  - destruct (get_scheme_from false r) as [[[sc' rest']|]| |] eqn:E2; try discriminate.
    inversion H; subst. cbn [String.append]. f_equal. eapply IH; eauto.
  - destruct (scheme_tail_char c); [discriminate|].
    destruct (code c =? 58) eqn:E3; [|discriminate].
    destruct f; [discriminate|]. inversion H; subst. apply code_eqb_eq in E3. subst c. reflexivity.
Qed.

Lemma get_scheme_shape u sch rest :
  get_scheme u = Ok (sch, rest) -> (sch = EmptyString /\ rest = u) \/ u = sch +++ String ":" rest.
Proof.
  unfold get_scheme. destruct (get_scheme_from true u) as [[[a b]|]| |] eqn:E; intros H; inversion H; subst.
  - right. eapply get_scheme_from_shape; eauto.
  - now left.
Qed.

Lemma lower_str_length s : String.length (lower_str s) = String.length s.
Proof. induction s as [|c s IH]; cbn; congruence. Qed.

Lemma lower_str_nonempty s : nonempty (lower_str s) = nonempty s.
Proof. destruct s; reflexivity. Qed.

(* ---------- url.Parse returns the scheme getScheme found ---------- *)
Lemma url_parse_nofrag_scheme u sc :
  url_parse_nofrag u = Ok sc -> nonempty sc = true ->
  exists sch rest, get_scheme u = Ok (sch, rest) /\ sc = lower_str sch.
Proof.
  unfold url_parse_nofrag. destruct (has_ctl u); [discriminate|].
  destruct (seqb u "*"). { intros H; inversion H; subst. discriminate. }
  destruct (get_scheme u) as [[sch rest]| |] eqn:E; cbn [bind]; try discriminate.
  intros H Hn. exists sch, rest. split; [reflexivity|].
  repeat match type of H with
         | (if ?b then _ else _) = _ => destruct b
         end; try discriminate; inversion H; reflexivity.
Qed.

Lemma url_parse_scheme loc sc :
  url_parse loc = Ok sc -> nonempty sc = true -> sc = scheme_of loc.
Proof.
  unfold url_parse, scheme_of. destruct (cut_chr 35 loc) as [u frag]. cbn [fst].
  destruct (url_parse_nofrag u) as [s| |] eqn:E; cbn [bind]; try discriminate.
  destruct (nonempty frag && negb (unescape_ok MFragment frag)); [discriminate|].
  intros H Hn. inversion H; subst.
  destruct (url_parse_nofrag_scheme _ _ E Hn) as (sch & rest & G & ->). now rewrite G.
Qed.

(* ---------- checkEndpointLocation ---------- *)
(* C14_location_http_only: an accepted location of a standard binding is
   returned unchanged and its scheme is http or https (case-insensitively);
   for any other binding the location is blanked *)
Theorem check_location_http_only b loc loc' :
  check_endpoint_location b loc = Ok loc' ->
  (standard b = true -> loc' = loc /\ (scheme_of loc = "http" \/ scheme_of loc = "https")) /\
  (standard b = false -> loc' = EmptyString).
Proof.
  unfold check_endpoint_location. destruct (standard b).
  - destruct (url_parse loc) as [sc| |] eqn:E; try discriminate.
    destruct (seqb sc "http" || seqb sc "https") eqn:S; [|discriminate].
    intros H. inversion H; subst. split; [|discriminate]. intros _. split; [reflexivity|].
    apply orb_true_iff in S as [S|S]; apply seqb_eq in S; subst sc.
    + left. symmetry. now apply url_parse_scheme.
    + right. symmetry. now apply url_parse_scheme.
  - intros H. inversion H. split; [discriminate|reflexivity].
Qed.

(* the decision in both directions *)
Theorem check_location_iff b loc :
  (exists l, check_endpoint_location b loc = Ok l) <->
  standard b = false \/ (exists sc, url_parse loc = Ok sc /\ (sc = "http" \/ sc = "https")).
Proof.
  unfold check_endpoint_location. destruct (standard b).
  - split.
    + intros [l H]. right. destruct (url_parse loc) as [sc| |]; try discriminate.
      exists sc. split; [reflexivity|].
      destruct (seqb sc "http") eqn:A; [left; now apply seqb_eq|].
      destruct (seqb sc "https") eqn:B; [right; now apply seqb_eq|]. discriminate.
    + intros [H|[sc [-> [->| ->]]]]; [discriminate| |]; eexists; reflexivity.
  - split; [now left|]. intros _. eexists; reflexivity.
Qed.

Theorem check_location_never_panics b loc : check_endpoint_location b loc <> Panic.
Proof.
  unfold check_endpoint_location. destruct (standard b); [|discriminate].
  unfold url_parse. destruct (cut_chr 35 loc) as [u frag].
  assert (url_parse_nofrag u <> Panic) as Hn.
  { unfold url_parse_nofrag. destruct (has_ctl u); [discriminate|]. destruct (seqb u "*"); [discriminate|].
    unfold get_scheme. destruct (get_scheme_from true u) as [[[a c]|]| |] eqn:E; cbn [bind]; try discriminate.
    - repeat match goal with |- (if ?x then _ else _) <> _ => destruct x end; discriminate.
    - repeat match goal with |- (if ?x then _ else _) <> _ => destruct x end; discriminate.
    - exfalso. revert E. generalize true. induction u as [|c r IH]; intros f; cbn [get_scheme_from]; [discriminate|].
      destruct (is_alpha c || scheme_tail_char c && negb f).
      + destruct (get_scheme_from false r) as [[[x y]|]| |] eqn:E2; try discriminate. intros _. eapply IH; eauto.
      + destruct (scheme_tail_char c); [discriminate|]. destruct (code c =? 58); [destruct f|]; discriminate. }
  destruct (url_parse_nofrag u) as [s| |]; cbn [bind]; try congruence.
  destruct (nonempty frag && negb (unescape_ok MFragment frag)); [discriminate|].
  destruct (seqb s "http" || seqb s "https"); discriminate.
Qed.

Theorem check_location_idempotent b loc l :
  check_endpoint_location b loc = Ok l -> check_endpoint_location b l = Ok l.
Proof.
  intros H. destruct (check_location_http_only _ _ _ H) as [A B].
  destruct (standard b) eqn:S.
  - destruct (A eq_refl) as [-> _]. exact H.
  - rewrite (B eq_refl). unfold check_endpoint_location. now rewrite S.
Qed.

(* ---------- the accepted text literally starts with http: / https: ---------- *)
Lemma cut_chr_prefix d s : exists t, s = fst (cut_chr d s) +++ t.
Proof.
  induction s as [|c s [t IH]]; [exists EmptyString; reflexivity|]. cbn [cut_chr].
  destruct (code c =? d); [exists (String c s); reflexivity|].
  destruct (cut_chr d s) as [a b]. cbn [fst] in *. exists t. cbn. now rewrite <- IH.
Qed.

Lemma lower_char_eq c k :
  (if is_upper c then chr (code c + 32) else c) = k -> lower_str (String c EmptyString) = String k EmptyString.
Proof. intros <-. reflexivity. Qed.

Lemma scheme_http_prefix loc :
  scheme_of loc = "http" \/ scheme_of loc = "https" -> starts_ci "http:" loc || starts_ci "https:" loc = true.
Proof.
  unfold scheme_of. destruct (cut_chr_prefix 35 loc) as [t Ht].
  destruct (get_scheme (fst (cut_chr 35 loc))) as [[sch rest]| |] eqn:E; try (intros [H|H]; discriminate).
  destruct (get_scheme_shape _ _ _ E) as [[-> _]|Hu]; [intros [H|H]; discriminate|].
  rewrite Hu in Ht. rewrite Ht. clear. intros [H|H].
  - destruct sch as [|a [|b [|c [|d [|e sch]]]]]; try discriminate. cbn [lower_str] in H. injection H as H1 H2 H3 H4.
    apply orb_true_iff. left. unfold starts_ci. cbn [String.append take String.length lower_str].
    rewrite H1, H2, H3, H4. reflexivity.
  - destruct sch as [|a [|b [|c [|d [|e [|f sch]]]]]]; try discriminate. cbn [lower_str] in H. injection H as H1 H2 H3 H4 H5.
    apply orb_true_iff. right. unfold starts_ci. cbn [String.append take String.length lower_str].
    rewrite H1, H2, H3, H4, H5. reflexivity.
Qed.

Theorem accepted_location_prefix b loc l :
  check_endpoint_location b loc = Ok l -> standard b = true ->
  l = loc /\ http_only l = true.
Proof.
  intros H S. destruct (check_location_http_only _ _ _ H) as [A _]. destruct (A S) as [-> Hs].
  split; [reflexivity|]. unfold http_only. now apply scheme_http_prefix.
Qed.

(* ---------- Endpoint / IndexedEndpoint ---------- *)
Theorem endpoint_check_idempotent e e' : endpoint_check e = Ok e' -> endpoint_check e' = Ok e'.
Proof.
  unfold endpoint_check.
  destruct (check_endpoint_location (ep_binding e) (ep_location e)) as [l| |] eqn:E1; cbn [bind]; try discriminate.
  destruct (nonempty (ep_response e)) eqn:N.
  - destruct (check_endpoint_location (ep_binding e) (ep_response e)) as [r| |] eqn:E2; cbn [bind]; try discriminate.
    intros H. inversion H; subst; clear H. cbn.
    rewrite (check_location_idempotent _ _ _ E1). cbn [bind].
    destruct (nonempty r) eqn:Nr; [|destruct r; [reflexivity|discriminate]].
    now rewrite (check_location_idempotent _ _ _ E2).
  - intros H. inversion H; subst; clear H. cbn. now rewrite (check_location_idempotent _ _ _ E1).
Qed.

Theorem indexed_endpoint_check_idempotent e e' :
  indexed_endpoint_check e = Ok e' -> indexed_endpoint_check e' = Ok e'.
Proof.
  unfold indexed_endpoint_check.
  destruct (check_endpoint_location (ie_binding e) (ie_location e)) as [l| |] eqn:E1; cbn [bind]; try discriminate.
  destruct (ie_response e) as [r|].
  - destruct (check_endpoint_location (ie_binding e) r) as [rl| |] eqn:E2; cbn [bind]; try discriminate.
    intros H. inversion H; subst; clear H. cbn.
    rewrite (check_location_idempotent _ _ _ E1). cbn [bind].
    destruct (nonempty rl) eqn:Nr; [|reflexivity].
    rewrite (check_location_idempotent _ _ _ E2). cbn [bind]. now rewrite Nr.
  - intros H. inversion H; subst; clear H. cbn. now rewrite (check_location_idempotent _ _ _ E1).
Qed.

(* both location attributes of every accepted endpoint of a standard binding are http(s) *)
Theorem endpoint_check_http_only e e' :
  endpoint_check e = Ok e' ->
  ep_binding e' = ep_binding e /\
  (standard (ep_binding e) = true ->
     ep_location e' = ep_location e /\ http_only (ep_location e') = true /\
     ep_response e' = ep_response e /\ (nonempty (ep_response e') = true -> http_only (ep_response e') = true)) /\
  (standard (ep_binding e) = false -> ep_location e' = EmptyString /\ ep_response e' = EmptyString).
Proof.
  unfold endpoint_check.
  destruct (check_endpoint_location (ep_binding e) (ep_location e)) as [l| |] eqn:E1; cbn [bind]; try discriminate.
  destruct (nonempty (ep_response e)) eqn:N.
  - destruct (check_endpoint_location (ep_binding e) (ep_response e)) as [r| |] eqn:E2; cbn [bind]; try discriminate.
    intros H. inversion H; subst; clear H. cbn. split; [reflexivity|]. split.
    + intros S. destruct (accepted_location_prefix _ _ _ E1 S) as [-> P1].
      destruct (accepted_location_prefix _ _ _ E2 S) as [-> P2]. auto.
    + intros S. destruct (check_location_http_only _ _ _ E1) as [_ B1]. destruct (check_location_http_only _ _ _ E2) as [_ B2].
      rewrite (B1 S), (B2 S). auto.
  - intros H. inversion H; subst; clear H. cbn. split; [reflexivity|]. split.
    + intros S. destruct (accepted_location_prefix _ _ _ E1 S) as [-> P1].
      destruct (ep_response e); [|discriminate]. repeat split; auto; try discriminate.
    + intros S. destruct (check_location_http_only _ _ _ E1) as [_ B1]. rewrite (B1 S). auto.
Qed.

Theorem indexed_endpoint_check_http_only e e' :
  indexed_endpoint_check e = Ok e' ->
  ie_binding e' = ie_binding e /\ ie_index e' = ie_index e /\ ie_default e' = ie_default e /\
  (standard (ie_binding e) = true ->
     ie_location e' = ie_location e /\ http_only (ie_location e') = true /\
     ie_response e' = ie_response e /\ (forall r, ie_response e' = Some r -> http_only r = true)) /\
  (standard (ie_binding e) = false -> ie_location e' = EmptyString /\ ie_response e' = None).
Proof.
  unfold indexed_endpoint_check.
  destruct (check_endpoint_location (ie_binding e) (ie_location e)) as [l| |] eqn:E1; cbn [bind]; try discriminate.
  destruct (ie_response e) as [r|] eqn:R.
  - destruct (check_endpoint_location (ie_binding e) r) as [rl| |] eqn:E2; cbn [bind]; try discriminate.
    intros H. inversion H; subst; clear H. cbn. repeat split; try reflexivity.
    + destruct (accepted_location_prefix _ _ _ E1 H) as [-> P1]. reflexivity.
    + destruct (accepted_location_prefix _ _ _ E1 H) as [-> P1]. exact P1.
    + destruct (accepted_location_prefix _ _ _ E2 H) as [-> P2].
      destruct (nonempty r) eqn:Nr; [reflexivity|]. exfalso. destruct r; [|discriminate]. discriminate P2.
    + intros r0 Hr. destruct (accepted_location_prefix _ _ _ E2 H) as [-> P2].
      destruct (nonempty r); inversion Hr; subst. exact P2.
    + destruct (check_location_http_only _ _ _ E1) as [_ B1]. now rewrite (B1 H).
    + destruct (check_location_http_only _ _ _ E2) as [_ B2]. now rewrite (B2 H).
  - intros H. inversion H; subst; clear H. cbn. repeat split; try reflexivity.
    + destruct (accepted_location_prefix _ _ _ E1 H) as [-> P1]. reflexivity.
    + destruct (accepted_location_prefix _ _ _ E1 H) as [-> P1]. exact P1.
    + discriminate.
    + destruct (check_location_http_only _ _ _ E1) as [_ B1]. now rewrite (B1 H).
Qed.

(* ---------- norm: one Marshal/Unmarshal generation ---------- *)
Lemma norm_instant_ok t : zero_time <= round_ms t < year10000 -> norm_instant t = Ok (round_ms t).
Proof. apply instant_roundtrip. Qed.

Lemma norm_duration_ok d : in_int64 d -> norm_duration d = Ok d.
Proof.
  intros H. unfold norm_duration. destruct (dur_marshal d) eqn:E; [|reflexivity].
  rewrite <- E. now apply dur_roundtrip.
Qed.

Lemma any_endpoint_check_idem x x' : any_endpoint_check x = Ok x' -> any_endpoint_check x' = Ok x'.
Proof.
  destruct x as [e|e]; cbn [any_endpoint_check].
  - destruct (endpoint_check e) as [e1| |] eqn:E; cbn [bind]; try discriminate.
    intros H. inversion H; subst. cbn [any_endpoint_check]. now rewrite (endpoint_check_idempotent _ _ E).
  - destruct (indexed_endpoint_check e) as [e1| |] eqn:E; cbn [bind]; try discriminate.
    intros H. inversion H; subst. cbn [any_endpoint_check]. now rewrite (indexed_endpoint_check_idempotent _ _ E).
Qed.

Lemma norm_endpoints_idem : forall l l', norm_endpoints l = Ok l' -> norm_endpoints l' = Ok l'.
Proof.
  induction l as [|[p x] l IH]; intros l' H.
  - inversion H. reflexivity.
  - cbn [norm_endpoints] in H.
    destruct (any_endpoint_check x) as [x'| |] eqn:E; cbn [bind] in H; try discriminate.
    destruct (norm_endpoints l) as [r| |] eqn:E2; cbn [bind] in H; try discriminate.
    inversion H; subst. cbn [norm_endpoints].
    rewrite (any_endpoint_check_idem _ _ E). cbn [bind]. now rewrite (IH _ eq_refl).
Qed.

Lemma norm_inv m m' :
  zero_time <= round_ms (ed_valid_until m) < year10000 -> in_int64 (ed_cache_duration m) ->
  norm m = Ok m' ->
  exists eps, norm_endpoints (ed_endpoints m) = Ok eps /\
  m' = {| ed_entity_id := ed_entity_id m; ed_valid_until := round_ms (ed_valid_until m);
          ed_cache_duration := ed_cache_duration m; ed_role_valid_until := ed_role_valid_until m;
          ed_role_cache := ed_role_cache m; ed_keys := ed_keys m; ed_endpoints := eps |}.
Proof.
  intros Ht Hd. unfold norm. rewrite norm_instant_ok, norm_duration_ok by assumption. cbn [bind].
  destruct (norm_endpoints (ed_endpoints m)) as [eps| |]; cbn [bind]; try discriminate.
  intros H. inversion H; subst. eauto.
Qed.

(* metadata_norm_idempotent: the value obtained from one generation is a fixed point *)
Theorem norm_idempotent m m' :
  zero_time <= round_ms (ed_valid_until m) < year10000 -> in_int64 (ed_cache_duration m) ->
  norm m = Ok m' -> norm m' = Ok m'.
Proof.
  intros Ht Hd H. destruct (norm_inv _ _ Ht Hd H) as (eps & He & ->).
  unfold norm. cbn [ed_valid_until ed_cache_duration ed_endpoints ed_entity_id ed_role_valid_until ed_role_cache ed_keys].
  rewrite norm_instant_ok by (rewrite round_ms_idem; exact Ht).
  rewrite norm_duration_ok by exact Hd. cbn [bind].
  rewrite (norm_endpoints_idem _ _ He). cbn [bind]. now rewrite round_ms_idem.
Qed.

(* an endpoint of a standard binding that survives the generation is unchanged *)
Lemma standard_endpoint_preserved x x' :
  any_endpoint_check x = Ok x' -> standard (binding_of_any x) = true -> x' = x.
Proof.
  destruct x as [e|e]; cbn [any_endpoint_check binding_of_any].
  - destruct (endpoint_check e) as [e1| |] eqn:E; cbn [bind]; try discriminate.
    intros H S. inversion H; subst. destruct (endpoint_check_http_only _ _ E) as (B & A & _).
    destruct (A S) as (L & _ & R & _). destruct e, e1; cbn in *. now subst.
  - destruct (indexed_endpoint_check e) as [e1| |] eqn:E; cbn [bind]; try discriminate.
    intros H S. inversion H; subst. destruct (indexed_endpoint_check_http_only _ _ E) as (B & I & D & A & _).
    destruct (A S) as (L & _ & R & _). destruct e, e1; cbn in *. now subst.
Qed.

Inductive ep_related : string * any_endpoint -> string * any_endpoint -> Prop :=
| ep_rel p x x' : any_endpoint_check x = Ok x' -> ep_related (p, x) (p, x').

Lemma norm_endpoints_related : forall l l', norm_endpoints l = Ok l' -> Forall2 ep_related l l'.
Proof.
  induction l as [|[p x] l IH]; intros l' H.
  - inversion H. constructor.
  - cbn [norm_endpoints] in H.
    destruct (any_endpoint_check x) as [x'| |] eqn:E; cbn [bind] in H; try discriminate.
    destruct (norm_endpoints l) as [r| |] eqn:E2; cbn [bind] in H; try discriminate.
    inversion H; subst. constructor; [now constructor|now apply IH].
Qed.

(* norm_preserves: entity ID, key descriptors, role-level attributes and cache
   duration are unchanged, the validity instant is rounded to the millisecond,
   and every endpoint keeps its slot; those of the standard bindings (whose
   locations are then http/https URLs) are unchanged, the others are blanked *)
Theorem norm_preserves m m' :
  zero_time <= round_ms (ed_valid_until m) < year10000 -> in_int64 (ed_cache_duration m) ->
  norm m = Ok m' ->
  ed_entity_id m' = ed_entity_id m /\
  ed_valid_until m' = round_ms (ed_valid_until m) /\
  ed_cache_duration m' = ed_cache_duration m /\
  ed_keys m' = ed_keys m /\
  ed_role_valid_until m' = ed_role_valid_until m /\ ed_role_cache m' = ed_role_cache m /\
  Forall2 ep_related (ed_endpoints m) (ed_endpoints m') /\
  Forall2 (fun a b => standard (binding_of_any (snd a)) = true -> b = a) (ed_endpoints m) (ed_endpoints m').
Proof.
  intros Ht Hd H. destruct (norm_inv _ _ Ht Hd H) as (eps & He & ->). cbn.
  do 6 (split; [reflexivity|]). split.
  - now apply norm_endpoints_related.
  - pose proof (norm_endpoints_related _ _ He) as R. clear He H.
    induction R as [|a b l l' Hab R IH]; constructor; auto.
    destruct Hab as [p x x' Hx]. cbn. intros S. now rewrite (standard_endpoint_preserved _ _ Hx S).
Qed.

(* the generation fails exactly when some endpoint of a standard binding has a
   location that is not an http(s) URL *)
Theorem norm_fails_iff m :
  zero_time <= round_ms (ed_valid_until m) < year10000 -> in_int64 (ed_cache_duration m) ->
  (exists m', norm m = Ok m') <-> (exists eps, norm_endpoints (ed_endpoints m) = Ok eps).
Proof.
  intros Ht Hd. split.
  - intros [m' H]. destruct (norm_inv _ _ Ht Hd H) as (eps & He & _). eauto.
  - intros [eps He]. unfold norm. rewrite norm_instant_ok, norm_duration_ok by assumption. cbn [bind].
    rewrite He. cbn [bind]. eauto.
Qed.

(* ================= the monitors evaluate the theorems' conclusions ================= *)
(* the model's verdict on a location always satisfies the monitor used on the implementation *)
Theorem check_location_meets_spec b loc :
  loccase_spec {| lc_binding := b; lc_loc := loc;
                  lc_ok := is_ok (check_endpoint_location b loc);
                  lc_out := match check_endpoint_location b loc with Ok l => l | _ => EmptyString end |} = true.
Proof.
  unfold loccase_spec. cbn [lc_binding lc_loc lc_ok lc_out].
  destruct (check_endpoint_location b loc) as [l| |] eqn:E; cbn [is_ok].
  - destruct (standard b) eqn:S.
    + destruct (accepted_location_prefix _ _ _ E S) as [-> P]. unfold http_only in P. now rewrite seqb_refl, P.
    + destruct (check_location_http_only _ _ _ E) as [_ B]. now rewrite (B S).
  - unfold check_endpoint_location in E. destruct (standard b); [reflexivity|discriminate].
  - exfalso. eapply check_location_never_panics; eauto.
Qed.

(* soundness of the monitor: what it accepts is the propositional conclusion *)
Theorem loccase_spec_sound c :
  loccase_spec c = true -> lc_ok c = true ->
  (standard (lc_binding c) = true -> lc_out c = lc_loc c /\ http_only (lc_loc c) = true) /\
  (standard (lc_binding c) = false -> lc_out c = EmptyString).
Proof.
  unfold loccase_spec. intros H Hok. rewrite Hok in H. destruct (standard (lc_binding c)).
  - apply andb_true_iff in H as [H1 H2]. apply seqb_eq in H1. split; [|discriminate]. intros _. now split.
  - split; [discriminate|]. intros _. destruct (lc_out c); [reflexivity|discriminate].
Qed.

Lemma any_eqb_refl x : any_eqb x x = true.
Proof.
  destruct x as [e|e]; cbn; unfold endpoint_eqb, indexed_eqb.
  - now rewrite !seqb_refl.
  - rewrite !seqb_refl, Z.eqb_refl. destruct (ie_response e), (ie_default e) as [[]|]; cbn; rewrite ?seqb_refl; reflexivity.
Qed.

(* every endpoint after one generation is "preserved" in the monitor's sense *)
Lemma any_check_preserved p x x' :
  any_endpoint_check x = Ok x' -> ep_preserved (p, x) (p, x') = true.
Proof.
  intros H. unfold ep_preserved. cbn [fst snd]. rewrite seqb_refl. cbn [andb].
  destruct (standard (binding_of_any x)) eqn:S.
  - rewrite (standard_endpoint_preserved _ _ H S). apply any_eqb_refl.
  - destruct x as [e|e]; cbn [any_endpoint_check binding_of_any] in *.
    + destruct (endpoint_check e) as [e1| |] eqn:E; cbn [bind] in H; try discriminate. inversion H; subst.
      destruct (endpoint_check_http_only _ _ E) as (B & _ & N). destruct (N S) as [L R].
      cbn [binding_of_any snd]. now rewrite B, seqb_refl, L, R.
    + destruct (indexed_endpoint_check e) as [e1| |] eqn:E; cbn [bind] in H; try discriminate. inversion H; subst.
      destruct (indexed_endpoint_check_http_only _ _ E) as (B & _ & _ & _ & N). destruct (N S) as [L R].
      cbn [binding_of_any snd]. now rewrite B, seqb_refl, L, R.
Qed.

Lemma norm_endpoints_preserved : forall l l',
  norm_endpoints l = Ok l' -> list_eqb ep_preserved l l' = true.
Proof.
  induction l as [|[p x] l IH]; intros l' H.
  - inversion H. reflexivity.
  - cbn [norm_endpoints] in H.
    destruct (any_endpoint_check x) as [x'| |] eqn:E; cbn [bind] in H; try discriminate.
    destruct (norm_endpoints l) as [r| |] eqn:E2; cbn [bind] in H; try discriminate.
    inversion H; subst. cbn [list_eqb]. now rewrite (any_check_preserved p _ _ E), (IH _ eq_refl).
Qed.

Lemma list_eqb_refl {A} (eq : A -> A -> bool) :
  (forall x, eq x x = true) -> forall l, list_eqb eq l l = true.
Proof. intros H. induction l as [|x l IH]; [reflexivity|]. cbn. now rewrite H, IH. Qed.

Lemma kd_eqb_refl k : kd_eqb k k = true.
Proof. unfold kd_eqb. now rewrite seqb_refl, !(list_eqb_refl seqb seqb_refl). Qed.

Lemma opt_Z_eq_refl o : opt_Z_eq o o = true.
Proof. destruct o; cbn; [apply Z.eqb_refl|reflexivity]. Qed.

Lemma ed_eqb_refl m : ed_eqb m m = true.
Proof.
  unfold ed_eqb. rewrite seqb_refl, !Z.eqb_refl. cbn [andb].
  rewrite (list_eqb_refl _ (fun x => eq_trans (f_equal2 andb (seqb_refl (fst x)) (opt_Z_eq_refl (snd x))) eq_refl)).
  rewrite (list_eqb_refl _ (fun x => eq_trans (f_equal2 andb (seqb_refl (fst x)) (Z.eqb_refl (snd x))) eq_refl)).
  rewrite (list_eqb_refl _ (fun x => eq_trans (f_equal2 andb (seqb_refl (fst x)) (kd_eqb_refl (snd x))) eq_refl)).
  rewrite (list_eqb_refl _ (fun x => eq_trans (f_equal2 andb (seqb_refl (fst x)) (any_eqb_refl (snd x))) eq_refl)).
  reflexivity.
Qed.

(* the model always satisfies the metadata monitor: the theorem restated *)
Theorem norm_meets_spec m :
  zero_time <= round_ms (ed_valid_until m) < year10000 -> in_int64 (ed_cache_duration m) ->
  mgcase_spec {| mg_in := m; mg_gen1 := ed_obs (norm m);
                 mg_gen2 := match norm m with Ok m1 => ed_obs (norm m1) | _ => None end |} = true.
Proof.
  intros Ht Hd. unfold mgcase_spec. cbn [mg_in mg_gen1 mg_gen2].
  destruct (norm m) as [m1| |] eqn:E; cbn [ed_obs]; try reflexivity.
  rewrite (norm_idempotent _ _ Ht Hd E). cbn [ed_obs opt_ed_eq]. rewrite ed_eqb_refl.
  destruct (norm_inv _ _ Ht Hd E) as (eps & He & ->). cbn.
  rewrite seqb_refl, !Z.eqb_refl. cbn [andb].
  rewrite (list_eqb_refl _ (fun x => eq_trans (f_equal2 andb (seqb_refl (fst x)) (kd_eqb_refl (snd x))) eq_refl)).
  now rewrite (norm_endpoints_preserved _ _ He).
Qed.

(* ---------- EntitiesDescriptor scalars ---------- *)
Theorem group_scalars_roundtrip vu cd :
  (forall t, vu = Some t -> zero_time <= round_ms t < year10000) ->
  (forall d, cd = Some d -> in_int64 d) ->
  norm_opt_instant vu = Ok (option_map round_ms vu) /\ norm_opt_duration cd = Ok cd.
Proof.
  intros Hv Hd. split.
  - destruct vu as [t|]; [|reflexivity]. cbn [norm_opt_instant option_map]. now rewrite norm_instant_ok by (apply Hv; reflexivity).
  - destruct cd as [d|]; [|reflexivity]. cbn [norm_opt_duration]. now rewrite norm_duration_ok by (apply Hd; reflexivity).
Qed.

(* ---------- non-vacuity ---------- *)
Example check_location_examples :
  map (fun p => check_endpoint_location (fst p) (snd p))
      [ (HTTP_POST_BINDING, "https://idp.example.com/sso"); (HTTP_REDIRECT_BINDING, "HTTP://idp.example.com/sso");
        (HTTP_POST_BINDING, "javascript:alert(1)"); (HTTP_POST_BINDING, " https://idp.example.com/sso");
        (HTTP_POST_BINDING, "https://idp.example.com/%zz"); (HTTP_POST_BINDING, "//idp.example.com/sso");
        ("urn:mace:shibboleth:1.0:profiles:AuthnRequest", "javascript:alert(1)") ]
  = [ Ok "https://idp.example.com/sso"; Ok "HTTP://idp.example.com/sso"; Err 2; Err 1; Err 1; Err 2; Ok "" ].
Proof. vm_compute. reflexivity. Qed.

Example norm_example :
  let e1 := EPlain {| ep_binding := HTTP_POST_BINDING; ep_location := "https://idp.example.com/sso";
                      ep_response := "https://idp.example.com/slo-return" |} in
  let e2 := EIndexed {| ie_binding := "urn:x:unknown"; ie_location := "javascript:alert(1)";
                        ie_response := Some "data:x"; ie_index := 1; ie_default := None |} in
  let m := {| ed_entity_id := "https://e"; ed_valid_until := 1700000000123456789; ed_cache_duration := 3600000000001;
              ed_role_valid_until := []; ed_role_cache := []; ed_keys := [];
              ed_endpoints := [("IDPSSO[0]/SingleSignOnService[0]", e1); ("SPSSO[0]/AssertionConsumerService[0]", e2)] |} in
  match norm m with
  | Ok m' => ed_valid_until m' = 1700000000123000000 /\ ed_cache_duration m' = 3600000000001 /\
             map snd (ed_endpoints m') =
             [e1; EIndexed {| ie_binding := "urn:x:unknown"; ie_location := ""; ie_response := None; ie_index := 1; ie_default := None |}]
             /\ norm m' = Ok m'
  | _ => False
  end.
Proof. vm_compute. repeat split; reflexivity. Qed.
