(* SPModel.v — executable model of the service provider's response acceptance:
   service_provider.go ParseXMLResponse / ParseXMLArtifactResponse /
   parseArtifactResponse / parseResponse / parseEncryptedAssertion /
   parseAssertion / validateAssertion / validateRequestID /
   validateAudienceRestriction / validateSignature / getIDPSigningCerts /
   getCertBasedOnFingerprint / findChildren / unmarshalElement, the schema.go
   structs these fill (as encoding/xml fills them), goxmldsig's Validate
   (findSignature, verifyCertificate, validateSignature), and
   ValidateLogoutResponseForm/Redirect.

   XML is a tree of resolved names.  Signatures and encryption are symbolic
   (Dolev-Yao): a [SigN] carries who produced its SignatureValue ([signer]),
   which Reference URI it names and the element content its DigestValue was
   computed over ([over]); these three are the signed part.  KeyInfo and the
   element's shape are outside SignedInfo and can be altered by anyone.
   Definitions only; lemmas are in SPModelProofs.v. *)
From Saml Require Import Base TimeModel.

Definition NS_A : string := "urn:oasis:names:tc:SAML:2.0:assertion".
Definition NS_P : string := "urn:oasis:names:tc:SAML:2.0:protocol".
Definition NS_SOAP : string := "http://schemas.xmlsoap.org/soap/envelope/".
Definition STATUS_SUCCESS : string := "urn:oasis:names:tc:SAML:2.0:status:Success".

(* KeyInfo of a Signature: absent | present without X509Certificate |
   X509Certificate holding certificate c | X509Certificate with undecodable data *)
Inductive kinfo := KINone | KIEmpty | KICert (c : Z) | KIBad.

Inductive node :=
| El (ns tag : string) (attrs : list (string * string)) (kids : list node)
| Txt (s : string)
| Cmt
  (* ds:Signature.  shape_ok = exactly one SignedInfo, one SignatureValue, at most one KeyInfo *)
| SigN (shape_ok : bool) (uri : string) (signer : Z) (ki : kinfo) (over : node)
  (* saml:EncryptedAssertion with ciphertext identity cid.  st = 0: decrypts under the SP
     key to a well-formed document with root [plain]; 1: decryption fails (other
     recipient, malformed); 2: plaintext is not acceptable XML (round-trip validator /
     parser); 3: plaintext has no root element *)
| EncN (cid : Z) (st : Z) (plain : node).

(* certificates are identified by numbers; certificate c certifies key c.
   Negative numbers stand for certificate data that does not parse. *)
Record keydesc := { kd_use : string; kd_certs : list Z }.
Inductive trustcfg :=
| TMeta (kds : list keydesc)            (* certificates from IdP metadata *)
| TPinned (c : Z)                       (* IDPCertificate *)
| TFinger (alg_ok : bool) (c : Z)       (* fingerprint (of certificate c) + algorithm *)
| TBad.                                 (* any other combination of the three settings *)

(* which families of checks are applied; all true = the code.  The weaker
   variants only serve to state "an otherwise valid response ..." *)
Record checks := { ck_time : bool; ck_addr : bool; ck_reqid : bool }.
Definition all_checks := {| ck_time := true; ck_addr := true; ck_reqid := true |}.

Record spcfg := {
  idp_entity : string; acs_url : string; slo_url : string;
  sp_entity : string; metadata_url : string;
  trust : trustcfg;
  allow_idp_init : bool;
  custom_reqid : option bool;   (* ValidateRequestID hook: None = not installed, Some v = installed, returns v *)
  custom_aud : option bool;     (* ValidateAudienceRestriction hook *)
  max_issue_delay : Z; max_clock_skew : Z }.

(* ------------------------------------------------------------------ *)
(* tree helpers *)

Definition is_el (n : node) : bool := match n with El _ _ _ _ => true | _ => false end.
Definition node_kids (n : node) : list node := match n with El _ _ _ k => k | _ => [] end.
Definition node_attrs (n : node) : list (string * string) := match n with El _ _ a _ => a | _ => [] end.
Definition named (ns tag : string) (n : node) : bool :=
  match n with El ns' tag' _ _ => seqb ns ns' && seqb tag tag' | _ => false end.
Definition tagged (tag : string) (n : node) : bool :=
  match n with El _ tag' _ _ => seqb tag tag' | _ => false end.

(* last attribute with that name wins (encoding/xml assigns in document order) *)
Fixpoint attr_opt (name : string) (a : list (string * string)) : option string :=
  match a with
  | [] => None
  | (k, v) :: r => match attr_opt name r with Some x => Some x | None => if seqb k name then Some v else None end
  end.
Definition attr (name : string) (a : list (string * string)) : string := opt_str (attr_opt name a).

(* character data directly inside an element (comments and child elements are skipped) *)
Fixpoint chardata (kids : list node) : string :=
  match kids with
  | [] => ""
  | Txt s :: r => s +++ chardata r
  | _ :: r => chardata r
  end.

Fixpoint last_opt {A} (l : list A) : option A :=
  match l with [] => None | [x] => Some x | _ :: r => last_opt r end.

(* encoding/xml fills a singleton struct field from every matching child in
   turn into the same struct: attributes accumulate (later wins), element
   children accumulate, character data is that of the last occurrence *)
Record merged := { mg_attrs : list (string * string); mg_kids : list node; mg_text : string }.
Definition merge (els : list node) : option merged :=
  match last_opt els with
  | None => None
  | Some l => Some {| mg_attrs := flat_map node_attrs els; mg_kids := flat_map node_kids els;
                      mg_text := chardata (node_kids l) |}
  end.
Definition child_ns (ns tag : string) (kids : list node) : option merged := merge (filter (named ns tag) kids).
Definition child_any (tag : string) (kids : list node) : option merged := merge (filter (tagged tag) kids).

(* ------------------------------------------------------------------ *)
(* what xml.Unmarshal reads *)

Record conf := { sc_data : bool; sc_irt : string; sc_recipient : string; sc_noa : Z }.
Record assertion := {
  a_id : string; a_issue : Z; a_issuer : string;
  a_subject : option (string * list conf);      (* NameID value, confirmations *)
  a_conditions : option (Z * Z * list string);  (* NotBefore, NotOnOrAfter, one Audience per AudienceRestriction *)
  a_attrvals : list string }.
Record response := {
  r_dest : string; r_irt : string; r_issue : Z; r_issuer : option string; r_status : string }.

Definition time_attr (name : string) (a : list (string * string)) : outcome Z := parse_relaxed (attr name a).

Fixpoint map_o {A B} (f : A -> outcome B) (l : list A) : outcome (list B) :=
  match l with
  | [] => Ok []
  | x :: r => do y <- f x; do ys <- map_o f r; Ok (y :: ys)
  end.

Definition un_conf (n : node) : outcome conf :=
  match child_any "SubjectConfirmationData" (node_kids n) with
  | None => Ok {| sc_data := false; sc_irt := ""; sc_recipient := ""; sc_noa := zero_time |}
  | Some d =>
      do _ <- time_attr "NotBefore" (mg_attrs d);
      do noa <- time_attr "NotOnOrAfter" (mg_attrs d);
      Ok {| sc_data := true; sc_irt := attr "InResponseTo" (mg_attrs d);
            sc_recipient := attr "Recipient" (mg_attrs d); sc_noa := noa |}
  end.

Definition un_audience (n : node) : string :=
  match child_any "Audience" (node_kids n) with Some m => mg_text m | None => "" end.

Definition un_attrvals (stmt : node) : list string :=
  flat_map (fun at_ => map (fun v => chardata (node_kids v)) (filter (tagged "AttributeValue") (node_kids at_)))
           (filter (tagged "Attribute") (node_kids stmt)).

Definition un_assertion (n : node) : outcome assertion :=
  match n with
  | El ns tag attrs kids =>
      if negb (seqb ns NS_A && seqb tag "Assertion") then Err 1 else
      do issue <- time_attr "IssueInstant" attrs;
      do subj <- match child_ns NS_A "Subject" kids with
                 | None => Ok None
                 | Some s =>
                     do cs <- map_o un_conf (filter (tagged "SubjectConfirmation") (mg_kids s));
                     Ok (Some (match child_any "NameID" (mg_kids s) with Some m => mg_text m | None => "" end, cs))
                 end;
      do cond <- match child_any "Conditions" kids with
                 | None => Ok None
                 | Some c =>
                     do nb <- time_attr "NotBefore" (mg_attrs c);
                     do noa <- time_attr "NotOnOrAfter" (mg_attrs c);
                     Ok (Some (nb, noa, map un_audience (filter (tagged "AudienceRestriction") (mg_kids c))))
                 end;
      Ok {| a_id := attr "ID" attrs; a_issue := issue;
            a_issuer := match child_ns NS_A "Issuer" kids with Some m => mg_text m | None => "" end;
            a_subject := subj; a_conditions := cond;
            a_attrvals := flat_map un_attrvals (filter (tagged "AttributeStatement") kids) |}
  | _ => Err 1
  end.

Definition un_status (kids : list node) : string :=
  match child_ns NS_P "Status" kids with
  | None => ""
  | Some st => match child_ns NS_P "StatusCode" (mg_kids st) with Some c => attr "Value" (mg_attrs c) | None => "" end
  end.

(* Response (and ArtifactResponse, LogoutResponse: same fields) *)
Definition un_response_named (tag : string) (n : node) : outcome response :=
  match n with
  | El ns tag' attrs kids =>
      if negb (seqb ns NS_P && seqb tag' tag) then Err 1 else
      do issue <- time_attr "IssueInstant" attrs;
      Ok {| r_dest := attr "Destination" attrs; r_irt := attr "InResponseTo" attrs; r_issue := issue;
            r_issuer := match child_ns NS_A "Issuer" kids with Some m => Some (mg_text m) | None => None end;
            r_status := un_status kids |}
  | _ => Err 1
  end.

(* the Response struct also has an Assertion field: every plain Assertion child is
   unmarshalled along with the Response, so one that does not unmarshal fails the Response *)
Definition un_response (n : node) : outcome response :=
  do r <- un_response_named "Response" n;
  do _ <- map_o un_assertion (filter (named NS_A "Assertion") (node_kids n));
  Ok r.

(* ------------------------------------------------------------------ *)
(* signatures *)

Fixpoint node_eqb (a b : node) {struct a} : bool :=
  match a, b with
  | El n1 t1 a1 k1, El n2 t2 a2 k2 =>
      seqb n1 n2 && seqb t1 t2 &&
      (fix attrs_eqb (x y : list (string * string)) : bool :=
         match x, y with
         | [], [] => true
         | (p, q) :: x', (p', q') :: y' => seqb p p' && seqb q q' && attrs_eqb x' y'
         | _, _ => false
         end) a1 a2 &&
      (fix kids_eqb (x y : list node) : bool :=
         match x, y with
         | [], [] => true
         | u :: x', v :: y' => node_eqb u v && kids_eqb x' y'
         | _, _ => false
         end) k1 k2
  | Txt s1, Txt s2 => seqb s1 s2
  | Cmt, Cmt => true
  | SigN sh1 u1 sg1 ki1 o1, SigN sh2 u2 sg2 ki2 o2 =>
      Bool.eqb sh1 sh2 && seqb u1 u2 && (sg1 =? sg2) &&
      match ki1, ki2 with
      | KINone, KINone | KIEmpty, KIEmpty | KIBad, KIBad => true
      | KICert c1, KICert c2 => c1 =? c2
      | _, _ => false
      end && node_eqb o1 o2
  | EncN c1 s1 p1, EncN c2 s2 p2 => (c1 =? c2) && (s1 =? s2) && node_eqb p1 p2
  | _, _ => false
  end.

(* canonical form the digest is computed over (exclusive c14n without
   comments): comments dropped, adjacent character data merged *)
Fixpoint merge_txt (l : list node) : list node :=
  match l with
  | Txt a :: r => match merge_txt r with Txt b :: r' => Txt (a +++ b) :: r' | r' => Txt a :: r' end
  | x :: r => x :: merge_txt r
  | [] => []
  end.
Fixpoint canon (n : node) : node :=
  match n with
  | El ns tag attrs kids =>
      El ns tag attrs (merge_txt ((fix go (l : list node) : list node :=
                                    match l with
                                    | [] => []
                                    | Cmt :: r => go r
                                    | k :: r => canon k :: go r
                                    end) kids))
  | _ => n
  end.

Definition uri_matches (uri id : string) : bool := negb (nonempty uri) || seqb (drop 1 uri) id.

(* goxmldsig findSignature: first Signature in document order (depth first)
   whose Reference is "" or names the root's ID; a Signature of bad shape met
   before that aborts.  [FHit] also returns the tree with that Signature removed
   (the enveloped-signature transform). *)
Inductive found (T : Type) := FNone | FBad | FHit (uri : string) (signer : Z) (ki : kinfo) (over : node) (rest : T).
Arguments FNone {T}. Arguments FBad {T}. Arguments FHit {T}.
Definition fmap {T U} (f : T -> U) (x : found T) : found U :=
  match x with FNone => FNone | FBad => FBad | FHit u s k o r => FHit u s k o (f r) end.

Fixpoint find_sig (id : string) (n : node) : found node :=
  match n with
  | El ns tag attrs kids =>
      fmap (El ns tag attrs)
        ((fix go (l : list node) : found (list node) :=
            match l with
            | [] => FNone
            | k :: r =>
                match k with
                | SigN sh uri sg ki ov =>
                    if negb sh then FBad
                    else if uri_matches uri id then FHit uri sg ki ov r
                    else fmap (cons k) (go r)
                | El _ _ _ _ =>
                    match find_sig id k with
                    | FHit u s ki o k' => FHit u s ki o (k' :: r)
                    | FBad => FBad
                    | FNone => fmap (cons k) (go r)
                    end
                | _ => fmap (cons k) (go r)
                end
            end) kids)
  | _ => FNone
  end.

(* children whose tag is "Signature" in any namespace (etree paths ignore namespaces) *)
Definition sigtagged (n : node) : bool :=
  match n with SigN _ _ _ _ _ => true | El _ tag _ _ => seqb tag "Signature" | _ => false end.
Definition has_path3 (n : node) : bool :=
  existsb (fun k => tagged "KeyInfo" k &&
    existsb (fun x => tagged "X509Data" x && existsb (tagged "X509Certificate") (node_kids x)) (node_kids k)) (node_kids n).
Definition has_cert (n : node) : bool :=
  match n with
  | SigN _ _ _ (KICert _) _ | SigN _ _ _ KIBad _ => true
  | El _ _ _ _ => sigtagged n && has_path3 n
  | _ => false
  end.

(* el.FindElement("./Signature/KeyInfo/X509Data/X509Certificate") == nil  =>  remove KeyInfo
   from el.FindElement("./Signature") *)
Fixpoint remove_first (p : node -> bool) (l : list node) : list node :=
  match l with [] => [] | x :: r => if p x then r else x :: remove_first p r end.
Fixpoint strip_first_keyinfo (kids : list node) : list node :=
  match kids with
  | [] => []
  | k :: r =>
      if sigtagged k then
        match k with
        | SigN sh u s _ o => SigN sh u s KINone o :: r
        | El ns t a ks => El ns t a (remove_first (tagged "KeyInfo") ks) :: r
        | _ => k :: r
        end
      else k :: strip_first_keyinfo r
  end.
Definition strip_keyinfo (n : node) : node :=
  match n with
  | El ns tag attrs kids => if existsb has_cert kids then n else El ns tag attrs (strip_first_keyinfo kids)
  | _ => n
  end.

(* the certificates validateSignature hands to goxmldsig as roots *)
Definition meta_certs (kds : list keydesc) : list Z :=
  flat_map (fun kd => if seqb (kd_use kd) "" || seqb (kd_use kd) "signing" then kd_certs kd else []) kds.
Definition signing_roots (t : trustcfg) (el : node) : outcome (list Z) :=
  match t with
  | TMeta kds =>
      let cs := meta_certs kds in
      match cs with
      | [] => Err 1
      | _ => if forallb (fun c => 0 <=? c) cs then Ok cs else Err 1
      end
  | TFinger alg_ok c =>
      match find (fun k => sigtagged k && has_cert k) (node_kids el) with
      | Some (SigN _ _ _ (KICert c') _) => if 0 <=? c' then (if alg_ok && (c' =? c) then Ok [c'] else Err 1) else Err 1
      | _ => Err 1
      end
  | TPinned c => if 0 <=? c then Ok [c] else Err 1
  | TBad => Err 1
  end.

Inductive sigv := SAbsent | SValid | SInvalid.
Definition sigv_eqb (a b : sigv) : bool :=
  match a, b with SAbsent, SAbsent | SValid, SValid | SInvalid, SInvalid => true | _, _ => false end.

Definition is_sig (n : node) : bool := match n with SigN _ _ _ _ _ => true | _ => false end.

(* goxmldsig Validate on the (already KeyInfo-stripped) element *)
Definition dsig_validate (roots : list Z) (el : node) : bool :=
  match find_sig (attr "ID" (node_attrs el)) el with
  | FHit uri signer ki over rest =>
      match (match ki with
             | KINone => match roots with [c] => Some c | _ => None end
             | KICert c => if (0 <=? c) && existsb (Z.eqb c) roots then Some c else None
             | _ => None
             end) with
      | Some c => (signer =? c) && node_eqb (canon rest) (canon over)
      | None => false
      end
  | _ => false
  end.

(* ServiceProvider.validateSignature *)
Definition validate_signature (cfg : spcfg) (el : node) : sigv :=
  match filter is_sig (node_kids el) with
  | [] => SAbsent
  | [_] =>
      match signing_roots (trust cfg) el with
      | Ok roots => if dsig_validate roots (strip_keyinfo el) then SValid else SInvalid
      | _ => SInvalid
      end
  | _ => SInvalid
  end.

(* ------------------------------------------------------------------ *)
(* field checks *)

(* pointer dereference: Go panics on nil *)
Definition deref {A} (o : option A) : outcome A := match o with Some a => Ok a | None => Panic end.
Definition guard (b : bool) (code : Z) : outcome unit := if b then Ok tt else Err code.

Definition first_set (a b : string) : string := if nonempty a then a else b.

Definition validate_request_id (ck : checks) (cfg : spcfg) (ids : list string) (irt : string) : outcome unit :=
  if negb (ck_reqid ck) then Ok tt else
  match custom_reqid cfg with
  | Some v => guard v 1
  | None => guard (allow_idp_init cfg || mem_str irt ids) 1
  end.

Fixpoint validate_confs (ck : checks) (cfg : spcfg) (ids : list string) (now : Z) (l : list conf) : outcome unit :=
  match l with
  | [] => Ok tt
  | sc :: r =>
      do _ <- guard (sc_data sc) 1;
      do _ <- guard (negb (ck_reqid ck) || allow_idp_init cfg || mem_str (sc_irt sc) ids) 1;
      do _ <- guard (negb (ck_addr ck) || seqb (sc_recipient sc) (acs_url cfg)) 1;
      do _ <- guard (negb (ck_time ck) || negb (sc_noa sc + max_clock_skew cfg <? now)) 1;
      validate_confs ck cfg ids now r
  end.

Definition validate_audience (ck : checks) (cfg : spcfg) (auds : list string) : outcome unit :=
  if negb (ck_addr ck) then Ok tt else
  match custom_aud cfg with
  | Some v => guard v 1
  | None =>
      guard (match auds with [] => true | _ => false end
             || mem_str (first_set (sp_entity cfg) (metadata_url cfg)) auds) 1
  end.

Definition validate_assertion (ck : checks) (cfg : spcfg) (ids : list string) (now : Z) (a : assertion) : outcome unit :=
  do _ <- guard (negb (ck_time ck) || negb (a_issue a + max_issue_delay cfg <? now)) 1;
  do _ <- guard (negb (ck_addr ck) || seqb (a_issuer a) (idp_entity cfg)) 1;
  do _ <- guard (match a_subject a with Some _ => true | None => false end) 1;
  do _ <- guard (match a_conditions a with Some _ => true | None => false end) 1;
  do subj <- deref (a_subject a);
  do _ <- validate_confs ck cfg ids now (snd subj);
  do cond <- deref (a_conditions a);
  let '(nb, noa, auds) := cond in
  do _ <- guard (negb (ck_time ck) || negb (now <? nb - max_clock_skew cfg)) 1;
  do _ <- guard (negb (ck_time ck) || negb (noa + max_clock_skew cfg <? now)) 1;
  validate_audience ck cfg auds.

Definition parse_assertion (ck : checks) (cfg : spcfg) (ids : list string) (now : Z) (need_sig : bool) (el : node)
  : outcome assertion :=
  do _ <- (if need_sig then guard (sigv_eqb (validate_signature cfg el) SValid) 1 else Ok tt);
  do a <- un_assertion el;
  do _ <- validate_assertion ck cfg ids now a;
  Ok a.

Definition parse_encrypted (ck : checks) (cfg : spcfg) (ids : list string) (now : Z) (need_sig : bool) (n : node)
  : outcome assertion :=
  match n with
  | EncN _ st plain => if st =? 0 then parse_assertion ck cfg ids now need_sig plain else Err 1
  | _ => Err 1
  end.

Definition is_enc (n : node) : bool := match n with EncN _ _ _ => true | _ => false end.

Fixpoint first_ok {A} (l : list (outcome A)) : option A :=
  match l with [] => None | Ok a :: _ => Some a | _ :: r => first_ok r end.
Fixpoint first_fail {A} (l : list (outcome A)) : outcome A :=
  match l with [] => Err 1 | Ok _ :: r => first_fail r | x :: _ => x end.

(* the candidate assertions in the order the code tries them: encrypted first *)
Definition candidates (ck : checks) (cfg : spcfg) (ids : list string) (now : Z) (need_sig : bool) (r : node)
  : list (outcome assertion) :=
  map (parse_encrypted ck cfg ids now need_sig) (filter is_enc (node_kids r)) ++
  map (parse_assertion ck cfg ids now need_sig) (filter (named NS_A "Assertion") (node_kids r)).

(* Response-level field checks, in the code's order *)
Definition response_checks (ck : checks) (cfg : spcfg) (ids : list string) (now : Z) (has_sig : bool) (cur : string)
  (resp : response) : outcome unit :=
  do _ <- guard (negb (ck_addr ck) || negb (has_sig || nonempty (r_dest resp))
                 || seqb (r_dest resp) cur || seqb (r_dest resp) (acs_url cfg)) 1;
  do _ <- validate_request_id ck cfg ids (r_irt resp);
  do _ <- guard (negb (ck_time ck) || negb (r_issue resp + max_issue_delay cfg <? now)) 1;
  do _ <- guard (negb (ck_addr ck) || match r_issuer resp with Some i => seqb i (idp_entity cfg) | None => true end) 1;
  guard (negb (ck_addr ck) || seqb (r_status resp) STATUS_SUCCESS) 2.

(* parseResponse: need_sig = signatureRequired *)
Definition parse_response (ck : checks) (cfg : spcfg) (ids : list string) (now : Z) (need_sig : bool) (cur : string)
  (r : node) : outcome assertion :=
  let rsig := if need_sig then validate_signature cfg r else SAbsent in
  let has_sig := need_sig && negb (sigv_eqb rsig SAbsent) in
  do resp <- un_response r;
  do _ <- response_checks ck cfg ids now has_sig cur resp;
  do need' <- (if need_sig
               then match rsig with SValid => Ok false | SAbsent => Ok true | SInvalid => Err 1 end
               else Ok false);
  let cs := candidates ck cfg ids now need' r in
  match first_ok cs with
  | Some a => Ok a
  | None => first_fail cs
  end.

(* a parsed document: not acceptable to the round-trip validator / parser, no root, or a root *)
Inductive xdoc := DBad | DNoRoot | DRoot (n : node).

Definition parse_xml_response_ck (ck : checks) (cfg : spcfg) (ids : list string) (now : Z) (cur : string) (d : xdoc)
  : outcome assertion :=
  match d with
  | DRoot r => parse_response ck cfg ids now true cur r
  | _ => Err 1
  end.
Definition parse_xml_response := parse_xml_response_ck all_checks.

Definition one_child (p : node -> bool) (kids : list node) : outcome node :=
  match filter p kids with [x] => Ok x | _ => Err 1 end.

(* parseArtifactResponse *)
Definition parse_artifact_response (ck : checks) (cfg : spcfg) (ids : list string) (rid : string) (now : Z) (cur : string)
  (ar : node) : outcome assertion :=
  do resp <- un_response_named "ArtifactResponse" ar;
  do _ <- map_o un_response (filter (named NS_P "Response") (node_kids ar));
  do _ <- guard (negb (ck_reqid ck) || seqb (r_irt resp) rid) 1;
  do _ <- guard (negb (ck_time ck) || negb (r_issue resp + max_issue_delay cfg <? now)) 1;
  do _ <- guard (negb (ck_addr ck) || match r_issuer resp with Some i => seqb i (idp_entity cfg) | None => true end) 1;
  do _ <- guard (negb (ck_addr ck) || seqb (r_status resp) STATUS_SUCCESS) 2;
  do need <- match validate_signature cfg ar with SValid => Ok false | SAbsent => Ok true | SInvalid => Err 1 end;
  do r <- one_child (named NS_P "Response") (node_kids ar);
  parse_response ck cfg ids now need cur r.

Definition parse_xml_artifact_response_ck (ck : checks) (cfg : spcfg) (ids : list string) (rid : string) (now : Z)
  (cur : string) (d : xdoc) : outcome assertion :=
  match d with
  | DRoot env =>
      do _ <- guard (named NS_SOAP "Envelope" env) 1;
      do body <- one_child (named NS_SOAP "Body") (node_kids env);
      do ar <- one_child (named NS_P "ArtifactResponse") (node_kids body);
      parse_artifact_response ck cfg ids rid now cur ar
  | _ => Err 1
  end.
Definition parse_xml_artifact_response := parse_xml_artifact_response_ck all_checks.

(* ValidateLogoutResponseForm / Redirect after decoding: [now] is the wall clock *)
Definition validate_logout (cfg : spcfg) (now : Z) (d : xdoc) : outcome unit :=
  match d with
  | DRoot r =>
      do _ <- guard (sigv_eqb (validate_signature cfg r) SValid) 1;
      do resp <- un_response_named "LogoutResponse" r;
      do _ <- guard (seqb (r_dest resp) (slo_url cfg)) 1;
      do _ <- guard (negb (r_issue resp + max_issue_delay cfg <? now)) 1;
      do _ <- guard (match r_issuer resp with Some i => seqb i (idp_entity cfg) | None => false end) 1;
      guard (seqb (r_status resp) STATUS_SUCCESS) 1
  | _ => Err 1
  end.

(* ------------------------------------------------------------------ *)
(* declarative forms of the properties' conclusions (decidable) *)

Definition resp_of (d : xdoc) : option response :=
  match d with DRoot r => match un_response r with Ok x => Some x | _ => None end | _ => None end.

(* C02: the windows *)
Definition conf_window (cfg : spcfg) (now : Z) (sc : conf) : bool := now <=? sc_noa sc + max_clock_skew cfg.
Definition time_ok_a (cfg : spcfg) (now : Z) (a : assertion) : bool :=
  (now <=? a_issue a + max_issue_delay cfg) &&
  match a_subject a with Some (_, cs) => forallb (conf_window cfg now) cs | None => true end &&
  match a_conditions a with
  | Some (nb, noa, _) => (nb - max_clock_skew cfg <=? now) && (now <=? noa + max_clock_skew cfg)
  | None => true
  end.
Definition time_ok_r (cfg : spcfg) (now : Z) (r : response) : bool := now <=? r_issue r + max_issue_delay cfg.

(* C03: addressing *)
Definition addr_ok_a (cfg : spcfg) (a : assertion) : bool :=
  seqb (a_issuer a) (idp_entity cfg) &&
  match a_subject a with Some (_, cs) => forallb (fun sc => seqb (sc_recipient sc) (acs_url cfg)) cs | None => true end &&
  match a_conditions a with
  | Some (_, _, auds) =>
      match custom_aud cfg with
      | Some v => v
      | None => match auds with [] => true | _ => mem_str (first_set (sp_entity cfg) (metadata_url cfg)) auds end
      end
  | None => true
  end.
Definition addr_ok_r (cfg : spcfg) (has_sig : bool) (cur : string) (r : response) : bool :=
  (negb (has_sig || nonempty (r_dest r)) || seqb (r_dest r) cur || seqb (r_dest r) (acs_url cfg)) &&
  match r_issuer r with Some i => seqb i (idp_entity cfg) | None => true end &&
  seqb (r_status r) STATUS_SUCCESS.

(* C04: outstanding request ids *)
Definition reqid_ok_a (cfg : spcfg) (ids : list string) (a : assertion) : bool :=
  allow_idp_init cfg ||
  match a_subject a with Some (_, cs) => forallb (fun sc => mem_str (sc_irt sc) ids) cs | None => true end.
Definition reqid_ok_r (cfg : spcfg) (ids : list string) (r : response) : bool :=
  match custom_reqid cfg with Some v => v | None => allow_idp_init cfg || mem_str (r_irt r) ids end.

(* C01: the element [e] is covered by a signature of a trusted key: its own
   (first Signature referring to it, content equal to what was signed) ... *)
Definition trusted_keys (cfg : spcfg) : list Z :=
  match trust cfg with
  | TMeta kds => filter (fun c => 0 <=? c) (meta_certs kds)
  | TPinned c | TFinger _ c => if 0 <=? c then [c] else []
  | TBad => []
  end.
Definition covered_self (cfg : spcfg) (e : node) : bool :=
  match find_sig (attr "ID" (node_attrs e)) (strip_keyinfo e) with
  | FHit _ signer _ over rest => existsb (Z.eqb signer) (trusted_keys cfg) && node_eqb (canon rest) (canon over)
  | _ => false
  end.
(* ... or that of an enclosing element it is a child of (directly, or as the plaintext of an
   EncryptedAssertion child) *)
Definition holds_candidate (parent e : node) : bool :=
  existsb (fun k => match k with
                    | EncN _ st p => (st =? 0) && node_eqb p e
                    | El _ _ _ _ => node_eqb k e
                    | _ => false
                    end) (node_kids parent).

(* ------------------------------------------------------------------ *)
(* correspondence cases *)

Inductive obs :=
| OAccept (id nameid : string) (attrvals : list string)
| OReject (code : Z)       (* 1 = any error, 2 = ErrBadStatus *)
| OPanic.

Fixpoint strs_eqb (a b : list string) : bool :=
  match a, b with
  | [], [] => true
  | x :: a', y :: b' => seqb x y && strs_eqb a' b'
  | _, _ => false
  end.
Definition obs_eqb (a b : obs) : bool :=
  match a, b with
  | OAccept i n v, OAccept i' n' v' => seqb i i' && seqb n n' && strs_eqb v v'
  | OReject c, OReject c' => c =? c'
  | OPanic, OPanic => true
  | _, _ => false
  end.
Definition a_nameid (a : assertion) : string := match a_subject a with Some (n, _) => n | None => "" end.
Definition obs_of (o : outcome assertion) : obs :=
  match o with
  | Ok a => OAccept (a_id a) (a_nameid a) (a_attrvals a)
  | Err c => OReject (if c =? 2 then 2 else 1)
  | Panic => OPanic
  end.
Definition matches_obs (o : obs) (a : assertion) : bool := obs_eqb (obs_of (Ok a)) o.

(* entry 0: ParseXMLResponse (and ParseResponse with the POST form); entry 1: ParseXMLArtifactResponse *)
Record spcase := {
  pc_cfg : spcfg; pc_ids : list string; pc_now : Z; pc_cur : string;
  pc_entry : Z; pc_rid : string; pc_doc : xdoc; pc_obs : obs }.

Definition run_ck (ck : checks) (c : spcase) : outcome assertion :=
  if pc_entry c =? 0 then parse_xml_response_ck ck (pc_cfg c) (pc_ids c) (pc_now c) (pc_cur c) (pc_doc c)
  else parse_xml_artifact_response_ck ck (pc_cfg c) (pc_ids c) (pc_rid c) (pc_now c) (pc_cur c) (pc_doc c).
Definition run := run_ck all_checks.
Definition spcase_agree (c : spcase) : bool := obs_eqb (obs_of (run c)) (pc_obs c).

(* the ArtifactResponse and the Response of a case *)
Definition case_ar (c : spcase) : option node :=
  if pc_entry c =? 0 then None else
  match pc_doc c with
  | DRoot env =>
      match one_child (named NS_SOAP "Body") (node_kids env) with
      | Ok body => match one_child (named NS_P "ArtifactResponse") (node_kids body) with Ok ar => Some ar | _ => None end
      | _ => None
      end
  | _ => None
  end.
Definition case_resp (c : spcase) : option node :=
  if pc_entry c =? 0 then match pc_doc c with DRoot r => Some r | _ => None end
  else match case_ar c with
       | Some ar => match one_child (named NS_P "Response") (node_kids ar) with Ok r => Some r | _ => None end
       | None => None
       end.
(* signatureRequired when parseResponse is entered *)
Definition case_need_sig (c : spcase) : bool :=
  match case_ar c with
  | Some ar => negb (sigv_eqb (validate_signature (pc_cfg c) ar) SValid)
  | None => true
  end.
Definition case_has_sig (c : spcase) : bool :=
  match case_resp c with
  | Some r => case_need_sig c && negb (sigv_eqb (validate_signature (pc_cfg c) r) SAbsent)
  | None => false
  end.

(* elements that can be returned as the assertion *)
Definition cand_elems (r : node) : list node :=
  flat_map (fun k => match k with EncN _ st p => if st =? 0 then [p] else [] | _ => [] end) (node_kids r) ++
  filter (named NS_A "Assertion") (node_kids r).
Definition returned (c : spcase) : list assertion :=
  match case_resp c with
  | Some r => flat_map (fun e => match un_assertion e with
                                 | Ok a => if matches_obs (pc_obs c) a then [a] else []
                                 | _ => []
                                 end) (cand_elems r)
  | None => []
  end.
Definition un_named (tag : string) (o : option node) : option response :=
  match o with Some n => match un_response_named tag n with Ok r => Some r | _ => None end | None => None end.

Definition is_accept (o : obs) : bool := match o with OAccept _ _ _ => true | _ => false end.

(* the property's conclusion evaluated on what the implementation did.
   accepted: the response (and ArtifactResponse) and some candidate matching what was
   returned satisfy [okr]/[oka];  rejected: it must not be the case that the response is
   acceptable with this family of checks left out while the family's conditions hold *)
Definition family_spec (ck_without : checks) (okr : spcase -> response -> bool) (okar : spcase -> response -> bool)
  (oka : spcase -> assertion -> bool) (c : spcase) : bool :=
  let rr := un_named "Response" (case_resp c) in
  let ar := un_named "ArtifactResponse" (case_ar c) in
  let r_ok := match rr with Some r => okr c r | None => false end &&
              match ar with Some x => okar c x | None => pc_entry c =? 0 end in
  match pc_obs c with
  | OAccept _ _ _ => r_ok && existsb (oka c) (returned c)
  | OReject _ => match run_ck ck_without c with Ok a => negb (r_ok && oka c a) | _ => true end
  | OPanic => true
  end.

Definition c02_spec : spcase -> bool :=
  family_spec {| ck_time := false; ck_addr := true; ck_reqid := true |}
    (fun c r => time_ok_r (pc_cfg c) (pc_now c) r) (fun c r => time_ok_r (pc_cfg c) (pc_now c) r)
    (fun c a => time_ok_a (pc_cfg c) (pc_now c) a).
Definition c03_spec : spcase -> bool :=
  family_spec {| ck_time := true; ck_addr := false; ck_reqid := true |}
    (fun c r => addr_ok_r (pc_cfg c) (case_has_sig c) (pc_cur c) r)
    (fun c r => addr_ok_r (pc_cfg c) false "" {| r_dest := ""; r_irt := r_irt r; r_issue := r_issue r;
                                                  r_issuer := r_issuer r; r_status := r_status r |})
    (fun c a => addr_ok_a (pc_cfg c) a).
Definition c04_spec : spcase -> bool :=
  family_spec {| ck_time := true; ck_addr := true; ck_reqid := false |}
    (fun c r => reqid_ok_r (pc_cfg c) (pc_ids c) r) (fun c r => seqb (r_irt r) (pc_rid c))
    (fun c a => reqid_ok_a (pc_cfg c) (pc_ids c) a).
(* a non-Success status must be reported as ErrBadStatus when everything checked before it passed *)
Definition c03_status_spec (c : spcase) : bool :=
  match run c, pc_obs c with
  | Err 2, OReject code => code =? 2
  | _, OReject code => true
  | _, _ => true
  end.

(* C01: what was returned is covered by a trusted key's signature *)
Definition c01_spec (c : spcase) : bool :=
  match pc_obs c with
  | OAccept _ _ _ =>
      match case_resp c with
      | Some r =>
          let outer := covered_self (pc_cfg c) r ||
                       match case_ar c with Some ar => covered_self (pc_cfg c) ar | None => false end in
          existsb (fun e => match un_assertion e with
                            | Ok a => matches_obs (pc_obs c) a && (outer || covered_self (pc_cfg c) e)
                            | _ => false
                            end) (cand_elems r)
      | None => false
      end
  | _ => true
  end.
(* C09: no panic, and either an assertion or an error *)
Definition c09_spec (c : spcase) : bool := match pc_obs c with OPanic => false | _ => true end.

Definition check_c01 := check_cases spcase_agree c01_spec.
Definition check_c02 := check_cases spcase_agree c02_spec.
Definition check_c03 := check_cases spcase_agree (fun c => c03_spec c && c03_status_spec c).
Definition check_c04 := check_cases spcase_agree c04_spec.
Definition check_c09 := check_cases spcase_agree c09_spec.

(* logout responses: lc_lo/lc_hi bracket the wall clock during the call;
   observed 0 = nil error, 1 = error, 2 = panic *)
Record locase := { lc_cfg : spcfg; lc_lo : Z; lc_hi : Z; lc_doc : xdoc; lc_obs : Z }.
Definition locase_agree (c : locase) : bool :=
  let a := ocls (validate_logout (lc_cfg c) (lc_lo c) (lc_doc c)) in
  let b := ocls (validate_logout (lc_cfg c) (lc_hi c) (lc_doc c)) in
  (a =? lc_obs c) || (b =? lc_obs c).
(* C18: valid only if signed by the IdP, addressed to the SLO URL, issued by the IdP, Success, fresh *)
Definition logout_valid (cfg : spcfg) (now : Z) (d : xdoc) : bool :=
  match d with
  | DRoot r =>
      sigv_eqb (validate_signature cfg r) SValid &&
      match un_response_named "LogoutResponse" r with
      | Ok resp => seqb (r_dest resp) (slo_url cfg) && (now <=? r_issue resp + max_issue_delay cfg) &&
                   match r_issuer resp with Some i => seqb i (idp_entity cfg) | None => false end &&
                   seqb (r_status resp) STATUS_SUCCESS
      | _ => false
      end
  | _ => false
  end.
Definition locase_spec (c : locase) : bool :=
  if lc_obs c =? 0 then logout_valid (lc_cfg c) (lc_lo c) (lc_doc c)
  else if lc_obs c =? 1 then negb (logout_valid (lc_cfg c) (lc_hi c) (lc_doc c)) else false.
Definition check_c18 := check_cases locase_agree locase_spec.

(* C09 on the logout path: an error or a verdict, never a panic *)
Definition check_c09_logout := check_cases locase_agree (fun c => negb (lc_obs c =? 2)).

(* ------------------------------------------------------------------ *)
(* Dolev-Yao view: the signatures that occur in a document *)

(* every (signer, signed content) of a Signature occurring in the tree, including inside
   decryptable EncryptedAssertions (not inside the [over] payloads, which are not part of the document) *)
Fixpoint sigs_in (n : node) : list (Z * node) :=
  match n with
  | El _ _ _ kids => (fix go (l : list node) : list (Z * node) :=
                        match l with [] => [] | k :: r => (sigs_in k ++ go r)%list end) kids
  | SigN _ _ signer _ over => [(signer, over)]
  | EncN _ _ p => sigs_in p
  | _ => []
  end.

(* non-vacuity witnesses: a Response signed by the metadata key, accepted *)
Definition ex_cfg : spcfg :=
  {| idp_entity := "https://idp/"; acs_url := "https://sp/acs"; slo_url := "https://sp/slo"; sp_entity := "";
     metadata_url := "https://sp/md"; trust := TMeta [{| kd_use := "signing"; kd_certs := [0] |}; {| kd_use := "encryption"; kd_certs := [2] |}];
     allow_idp_init := false; custom_reqid := None; custom_aud := None;
     max_issue_delay := 90000000000; max_clock_skew := 180000000000 |}.
Definition ex_conf (noa : string) : node :=
  El NS_A "SubjectConfirmation" [] [El NS_A "SubjectConfirmationData"
     [("InResponseTo", "id-1"); ("NotOnOrAfter", noa); ("Recipient", "https://sp/acs")] []].
Definition ex_assertion : node :=
  El NS_A "Assertion" [("ID", "a1"); ("IssueInstant", "2024-05-17T10:30:00Z")]
    [El NS_A "Issuer" [] [Txt "https://idp/"];
     El NS_A "Subject" [] [El NS_A "NameID" [] [Txt "ali"; Cmt; Txt "ce"]; ex_conf "2024-05-17T10:35:00Z"; ex_conf "2024-05-17T11:36:00.5+01:00"];
     El NS_A "Conditions" [("NotBefore", "2024-05-17T10:29:00Z"); ("NotOnOrAfter", "2024-05-17T10:40:00Z")]
       [El NS_A "AudienceRestriction" [] [El NS_A "Audience" [] [Txt "https://sp/md"]]];
     El NS_A "AttributeStatement" [] [El NS_A "Attribute" [("Name", "mail")] [El NS_A "AttributeValue" [] [Txt "alice@example.com"]]]].
Definition ex_response_body : list node :=
  [El NS_A "Issuer" [] [Txt "https://idp/"];
   El NS_P "Status" [] [El NS_P "StatusCode" [("Value", STATUS_SUCCESS)] []];
   ex_assertion].
Definition ex_response_attrs : list (string * string) :=
  [("ID", "r1"); ("InResponseTo", "id-1"); ("IssueInstant", "2024-05-17T10:30:00Z"); ("Destination", "https://sp/acs")].
Definition ex_unsigned : node := El NS_P "Response" ex_response_attrs ex_response_body.
Definition ex_signed (signer : Z) (ki : kinfo) : node :=
  El NS_P "Response" ex_response_attrs
     (El NS_A "Issuer" [] [Txt "https://idp/"] :: SigN true "#r1" signer ki ex_unsigned :: tl ex_response_body).
Definition ex_now : Z := match parse_relaxed "2024-05-17T10:30:30.000000001Z" with Ok t => t + 1 | _ => 0 end.

(* ------------------------------------------------------------------ *)
(* what the unmarshaller can see of an element: its name and attributes, the character data
   directly inside it, and its element children other than Signatures - recursively.
   Comments, the way text is split, and Signature elements are invisible to it. *)
Fixpoint visible (n : node) : node :=
  match n with
  | El ns tag attrs kids =>
      El ns tag attrs
        (Txt (chardata kids) ::
         (fix go (l : list node) : list node :=
            match l with
            | [] => []
            | (El _ t _ _ as k) :: r => if seqb t "Signature" then go r else visible k :: go r
            | (EncN _ _ _ as k) :: r => k :: go r
            | _ :: r => go r
            end) kids)
  | _ => n
  end.
