(* OutboundIdPProofs.v — the IdP model accepts every AuthnRequest the SP model produces *)
From Saml Require Import IdPModel IdPModelProofs.
From Saml Require Import Base BaseProofs UrlEnc UrlEncProofs TimeModel Outbound OutboundProofs OutboundIdP.
From Coq Require Import ZifyBool.
Ltac Zify.zify_post_hook ::= Z.div_mod_to_equations.

Lemma wire_instant_bounds t : t - 999999 <= wire_instant t <= t.
Proof. unfold wire_instant, ns_per_ms. lia. Qed.

Lemma wire_instant_on_ms t : t mod ns_per_ms = 0 -> wire_instant t = t.
Proof. unfold wire_instant, ns_per_ms. lia. Qed.

(* the record is the request whose fields the correspondence check compares *)
Theorem make_authn_request_fields c stream now dest rb r rest :
  make_authn_request c stream now dest rb = Ok (r, rest) ->
  fields_of_request r = authn_fields c (aq_id r) dest rb
  /\ new_id stream = Ok (aq_id r, rest) /\ aq_issue_instant r = now /\ aq_destination r = dest.
Proof.
  unfold make_authn_request. destruct (new_id stream) as [[id rs]| |]; cbn [bind]; try discriminate.
  intros H. inversion H; subst; clear H. cbn. auto.
Qed.

(* in the IdP model's terms it is the request of IdPModel.sp_request *)
Lemma to_authnreq_is_sp_request c stream now dest rb r rest key rsa signs ik allow :
  make_authn_request c stream now dest rb = Ok (r, rest) ->
  to_authnreq r = IdPModel.sp_request (idp_view c key rsa signs ik allow) (aq_id r) (wire_instant now) dest.
Proof.
  unfold make_authn_request. destruct (new_id stream) as [[id rs]| |]; cbn [bind]; try discriminate.
  intros H. inversion H; subst; clear H. reflexivity.
Qed.

(* C12_idp_accepts_sp_request.  For every SP configuration, random stream and
   SP clock: if the request's Destination is the IdP's SSO URL or empty, the
   SP's metadata (of the same configuration, any certificate) is what the IdP
   finds registered under the request's issuer, and the IdP's clock is within
   MaxIssueDelay of the IssueInstant on the wire, then Validate accepts and
   routes to the SP's ACS URL with the HTTP-POST binding. *)
Theorem idp_accepts_sp_request
  (c : spcfg) (stream : string) (sp_now : Z) (dest rb : string) (r : authn_request) (rest : string)
  (cfg : IdPModel.idpcfg) (reg : IdPModel.registry) (idp_now : Z)
  (key : option Z) (rsa signs : bool) (ik : Z) (allow : bool) (cert : string) :
  make_authn_request c stream sp_now dest rb = Ok (r, rest) ->
  (dest <> EmptyString -> dest = IdPModel.sso_url cfg) ->
  reg (issuer_of c) = IdPModel.Found (IdPModel.sp_metadata (idp_view c key rsa signs ik allow) cert) ->
  idp_now <= wire_instant sp_now + IdPModel.max_issue_delay cfg ->
  exists rt, IdPModel.validate cfg reg idp_now (to_authnreq r) = Ok rt /\
             IdPModel.ep_location (IdPModel.rt_ep rt) = sp_acs_url c /\
             IdPModel.ep_binding (IdPModel.rt_ep rt) = IdPModel.post_binding /\
             IdPModel.rt_md rt = IdPModel.sp_metadata (idp_view c key rsa signs ik allow) cert.
Proof.
  intros Hm Hd Hreg Hnow.
  pose proof (to_authnreq_is_sp_request _ _ _ _ _ _ _ key rsa signs ik allow Hm) as E.
  destruct (IdPModelProofs.sp_metadata_registers (idp_view c key rsa signs ik allow) cert (aq_id r)
              (wire_instant sp_now) dest (fun _ => IdPModel.CertBad)) as (d & e & Hacs & Hloc & Hb & _).
  exists (IdPModel.mk_routing (IdPModel.sp_metadata (idp_view c key rsa signs ik allow) cert) (0, 0, d, e)).
  split; [|split; [exact Hloc|split; [exact Hb|reflexivity]]].
  rewrite E. apply (IdPModelProofs.validate_complete cfg reg idp_now _ (issuer_of c)).
  - exact Hnow.
  - reflexivity.
  - exact Hd.
  - reflexivity.
  - exact Hreg.
  - exact Hacs.
Qed.

(* with the clocks in agreement up to the delay (one millisecond of slack for
   the truncation of IssueInstant) *)
Corollary idp_accepts_sp_request_clocks c stream sp_now dest rb r rest cfg reg idp_now key rsa signs ik allow cert :
  make_authn_request c stream sp_now dest rb = Ok (r, rest) ->
  (dest <> EmptyString -> dest = IdPModel.sso_url cfg) ->
  reg (issuer_of c) = IdPModel.Found (IdPModel.sp_metadata (idp_view c key rsa signs ik allow) cert) ->
  idp_now + 999999 <= sp_now + IdPModel.max_issue_delay cfg ->
  exists rt, IdPModel.validate cfg reg idp_now (to_authnreq r) = Ok rt /\
             IdPModel.ep_location (IdPModel.rt_ep rt) = sp_acs_url c /\
             IdPModel.ep_binding (IdPModel.rt_ep rt) = IdPModel.post_binding.
Proof.
  intros Hm Hd Hreg Hnow.
  destruct (idp_accepts_sp_request c stream sp_now dest rb r rest cfg reg idp_now key rsa signs ik allow cert Hm Hd Hreg)
    as (rt & A & B & C & _).
  - pose proof (wire_instant_bounds sp_now). lia.
  - eauto.
Qed.

(* non-vacuity: a concrete SP configuration, random stream, registry and clocks
   satisfy the hypotheses, for any IdP configuration with that SSO URL and a
   90 s MaxIssueDelay (stated over cfg so that it does not depend on the other
   fields of IdPModel.idpcfg) *)
Example idp_accepts_example :
  let c := {| sp_entity_id := ""; sp_metadata_url := "https://sp.example.com/saml/metadata";
              sp_acs_url := "https://sp.example.com/saml/acs"; sp_nameid_format := "";
              sp_force_authn := None; sp_authn_ctx := None; sp_idp_entity := "https://idp.example.com/metadata" |} in
  let md := IdPModel.sp_metadata (idp_view c (Some 7) true false 1 false) "MIIB" in
  let reg := IdPModel.reg_of_list [("https://sp.example.com/saml/metadata", IdPModel.Found md)] in
  forall cfg, IdPModel.sso_url cfg = "https://idp.example.com/sso" -> IdPModel.max_issue_delay cfg = 90000000000 ->
  exists r rt,
    make_authn_request c "0123456789abcdefghijREST" 1715000000123456789 "https://idp.example.com/sso" HTTP_POST = Ok (r, "REST")
    /\ aq_id r = "id-303132333435363738396162636465666768696a"
    /\ IdPModel.validate cfg reg (1715000000123456789 + 89000000000) (to_authnreq r) = Ok rt
    /\ IdPModel.ep_location (IdPModel.rt_ep rt) = "https://sp.example.com/saml/acs".
Proof.
  intros c md reg cfg Hs Hd.
  destruct (make_authn_request c "0123456789abcdefghijREST" 1715000000123456789 "https://idp.example.com/sso" HTTP_POST)
    as [[r rest]| |] eqn:E; try (vm_compute in E; discriminate).
  assert (rest = "REST" /\ aq_id r = "id-303132333435363738396162636465666768696a") as [-> Hid]
    by (vm_compute in E; inversion E; split; reflexivity).
  destruct (idp_accepts_sp_request c _ _ _ _ r "REST" cfg reg (1715000000123456789 + 89000000000)
              (Some 7) true false 1 false "MIIB" E) as (rt & A & B & _).
  - intros _. now rewrite Hs.
  - reflexivity.
  - rewrite Hd. vm_compute. discriminate.
  - exists r, rt. auto.
Qed.

(* the zoned rendering: same instant, the zone's wall clock and offset *)
Example issue_instant_zoned_examples :
  issue_instant_text_zoned 1715000000123456789 0 = issue_instant_text 1715000000123456789
  /\ issue_instant_text_zoned 1715000000123456789 19800 = "2024-05-06T18:23:20.123+05:30"
  /\ issue_instant_text_zoned 1715000000000000001 (-18000) = "2024-05-06T07:53:20-05:00"
  /\ parse_relaxed "2024-05-06T18:23:20.123+05:30" = Ok (wire_instant 1715000000123456789).
Proof. vm_compute. repeat split; reflexivity. Qed.
