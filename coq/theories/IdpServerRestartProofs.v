(* IdpServerRestartProofs.v — the in-memory registry agrees with the stored
   services, and a restart (new Server over the same store) changes no later
   reply (C19_registry_consistent, C19_restart_refines). *)
From Saml Require Import Base BaseProofs IdpServer IdpServerProofs.
Local Open Scope list_scope.

(* ---------- keys of association lists ---------- *)
Lemma alookup_in_keys {A} k (l : list (string * A)) v : alookup k l = Some v -> In k (akeys l).
Proof.
  induction l as [|[k' w] r IH]; cbn; [discriminate|].
  destruct (String.eqb_spec k k') as [->|D]; [now left|]. intros E. right. now apply IH.
Qed.
Lemma akeys_aremove {A} x k (l : list (string * A)) : In x (akeys (aremove k l)) -> In x (akeys l) /\ x <> k.
Proof.
  induction l as [|[k' w] r IH]; cbn; [tauto|].
  destruct (String.eqb_spec k k') as [->|D]; cbn.
  - intros X. destruct (IH X). auto.
  - intros [<-|X]; [auto|]. destruct (IH X). auto.
Qed.
Lemma nodup_aremove {A} k (l : list (string * A)) : NoDup (akeys l) -> NoDup (akeys (aremove k l)).
Proof.
  induction l as [|[k' w] r IH]; cbn; [constructor|]. intros N. inversion N as [|? ? Hn N']; subst.
  destruct (String.eqb_spec k k'); [now apply IH|]. cbn. constructor; [|now apply IH].
  intros X. apply akeys_aremove in X as [X _]. contradiction.
Qed.
Lemma nodup_ainsert {A} k (v : A) l : NoDup (akeys l) -> NoDup (akeys (ainsert k v l)).
Proof.
  intros N. unfold ainsert. cbn. constructor; [|now apply nodup_aremove].
  intros X. apply akeys_aremove in X as [_ X]. congruence.
Qed.

(* ---------- consistency of the registry with the stored services ---------- *)
(* K3: no two stored service ids share an entity ID *)
Definition nodup_entity (svcs : list (string * spmeta)) : Prop :=
  forall id1 id2 m1 m2, alookup id1 svcs = Some m1 -> alookup id2 svcs = Some m2 ->
                        md_entity m1 = md_entity m2 -> id1 = id2.
Definition reg_spec (svcs : list (string * spmeta)) (e : string) (md : spmeta) : Prop :=
  exists id, alookup id svcs = Some md /\ md_entity md = e.
Definition reg_agrees (reg svcs : list (string * spmeta)) : Prop :=
  forall e md, alookup e reg = Some md <-> reg_spec svcs e md.

Lemma registry_of_store_spec svcs :
  NoDup (akeys svcs) -> nodup_entity svcs -> reg_agrees (registry_of_store svcs) svcs.
Proof.
  induction svcs as [|[k m] r IH]; intros N ND e md.
  - cbn. split; [discriminate|]. intros (id & X & _). discriminate.
  - inversion N as [|? ? Hk N']; subst.
    assert (forall i v, alookup i r = Some v -> alookup i ((k, m) :: r) = Some v) as Up.
    { intros i v X. cbn. destruct (String.eqb_spec i k) as [Ei|]; [|exact X].
      exfalso. apply Hk. rewrite <- Ei. eapply alookup_in_keys; eassumption. }
    assert (nodup_entity r) as NDr.
    { intros i1 i2 a b X1 X2. apply ND; now apply Up. }
    specialize (IH N' NDr). cbn [registry_of_store fold_right snd]. split.
    + intros X. apply alookup_ainsert_some in X as [[-> ->]|[D X]].
      * exists k. cbn. now rewrite String.eqb_refl.
      * apply IH in X as (id & X & Ee). exists id. split; [now apply Up|exact Ee].
    + intros (i & X & Ee). cbn in X. destruct (String.eqb_spec i k) as [Ei|D].
      * injection X as <-. subst e. apply alookup_ainsert_same.
      * destruct (String.eqb_spec e (md_entity m)) as [->|De].
        -- exfalso. apply D. apply (ND i k md m); [now apply Up| |exact Ee]. cbn. now rewrite String.eqb_refl.
        -- rewrite alookup_ainsert_diff by exact De. apply IH. now exists i.
Qed.

Section Restart.
Variable H : Type.
Variable hash : string -> H.
Variable verify : H -> string -> bool.
Variable empty_hash : H.
Variable norm : string -> string.
Hypothesis verify_hash : forall p p', verify (hash p) p' = true <-> norm p = norm p'.
Hypothesis verify_empty : forall p, verify empty_hash p = false.

Local Notation step' := (step hash verify empty_hash).
Local Notation trace' := (trace hash verify empty_hash).
Local Notation run' := (run_hist hash verify empty_hash).
Local Notation replies' := (replies hash verify empty_hash).
Local Notation sstate' := (sstate H).

Definition consistent (s : sstate') : Prop :=
  NoDup (akeys (services s)) /\ reg_agrees (registry s) (services s).

Lemma gs_fields s parsed c fp s1 r fp1 :
  get_session verify s parsed c fp = (s1, r, fp1) -> services s1 = services s /\ registry s1 = registry s.
Proof.
  intros G. destruct (get_session_users H hash verify empty_hash norm verify_hash verify_empty _ _ _ _ _ _ _ G) as (_ & A & B & _). auto.
Qed.

(* one step keeps the registry consistent, provided no two stored service ids
   share an entity ID before and after it *)
Lemma step_consistent s o fp s' rs fp' :
  consistent s -> nodup_entity (services s) -> nodup_entity (services s') ->
  step' s o fp = (s', rs, fp') -> consistent s'.
Proof.
  intros [N C] ND ND' E.
  assert (services s' = services s -> registry s' = registry s -> consistent s') as Same.
  { intros A B. unfold consistent. rewrite A, B. now split. }
  assert (forall parsed c fpa s1 r fp1, get_session verify s parsed c fpa = (s1, r, fp1) -> consistent s1) as KG.
  { intros parsed c fpa s1 r fp1 G. destruct (gs_fields _ _ _ _ _ _ _ G) as [A B]. unfold consistent. rewrite A, B. now split. }
  destruct o as [n pw pr|n|n|cl|id b|id|n sp|n|c|rq c|n c|id|id|dt|]; cbn [step] in E.
  - unfold put_user in E. repeat dmh E; injection E as <- <- <-; now apply Same.
  - unfold del_user in E. repeat dmh E; injection E as <- <- <-; now apply Same.
  - unfold get_user in E. repeat dmh E; injection E as <- <- <-; now apply Same.
  - unfold list_keys in E. repeat dmh E; injection E as <- <- <-; now apply Same.
  - (* PutService *)
    unfold put_service in E. destruct (select_md b) as [md|]; [|injection E as <- <- <-; now apply Same].
    unfold put_service_md in E. destruct (store_get (services s) id fp) as [g fp1] eqn:G.
    assert (forall reg1,
              (forall e m, alookup e reg1 = Some m -> alookup e (registry s) = Some m) ->
              (forall e m, alookup e (registry s) = Some m -> e <> md_entity md ->
                           (forall prev, alookup id (services s) = Some prev -> m <> prev) -> alookup e reg1 = Some m) ->
              (forall e m, alookup e reg1 = Some m -> e <> md_entity md -> forall prev, alookup id (services s) = Some prev -> md_entity prev <> e) ->
              s' = set_services s (ainsert id md (services s)) (ainsert (md_entity md) md reg1) -> consistent s') as K.
    { intros reg1 R1 R2 R3 ->. split; [unfold set_services; cbn [services]; now apply nodup_ainsert|unfold set_services; cbn [services registry]]. intros e m. split.
      - intros X. apply alookup_ainsert_some in X as [[-> ->]|[De X]].
        + exists id. split; [apply alookup_ainsert_same|reflexivity].
        + pose proof (R1 _ _ X) as X0. apply C in X0 as (id' & L & Ee). exists id'. split; [|exact Ee].
          destruct (String.eqb_spec id' id) as [->|Di]; [|now rewrite alookup_ainsert_diff].
          exfalso. apply (R3 _ _ X De _ L). exact Ee.
      - intros (id' & L & Ee). apply alookup_ainsert_some in L as [[-> ->]|[Di L]].
        + subst e. apply alookup_ainsert_same.
        + assert (e <> md_entity md) as De.
          { intros ->. apply Di. apply (ND' id' id m md); unfold set_services; cbn [services]; [now rewrite alookup_ainsert_diff|apply alookup_ainsert_same|exact Ee]. }
          rewrite alookup_ainsert_diff by exact De. apply R2; [apply C; now exists id'|exact De|].
          intros prev Lp ->. apply Di. apply (ND id' id prev prev); auto. }
    destruct g as [prev| |].
    + apply store_get_ok in G as (Lp & _). destruct (store_mut fp1) as [[|] fp2]; injection E as <- <- <-; [|now apply Same].
      destruct (String.eqb_spec (md_entity prev) (md_entity md)) as [Ee|De].
      * eapply K; [| | |reflexivity].
        -- auto.
        -- auto.
        -- intros e m X D p Lp2. rewrite Lp in Lp2. injection Lp2 as <-. congruence.
      * eapply K; [| | |reflexivity].
        -- intros e m X. now apply alookup_aremove_some in X as [X _].
        -- intros e m X D Hne. rewrite alookup_aremove_diff; [exact X|].
           intros ->. apply C in X as (id' & L & Ee).
           assert (id' = id) as -> by (apply (ND id' id m prev); auto). rewrite Lp in L. injection L as <-. now apply (Hne prev).
        -- intros e m X D p Lp2. rewrite Lp in Lp2. injection Lp2 as <-. apply alookup_aremove_some in X as [_ X]. congruence.
    + apply store_get_notfound in G. destruct (store_mut fp1) as [[|] fp2]; injection E as <- <- <-; [|now apply Same].
      eapply K; [| | |reflexivity]; auto. intros e m X D p Lp. congruence.
    + injection E as <- <- <-. now apply Same.
  - (* DelService *)
    unfold del_service in E. destruct (store_get (services s) id fp) as [g fp1] eqn:G.
    destruct g as [md0| |]; try (injection E as <- <- <-; now apply Same).
    apply store_get_ok in G as (L0 & _). destruct (store_mut fp1) as [[|] fp2]; injection E as <- <- <-; [|now apply Same].
    split; [unfold set_services; cbn [services]; now apply nodup_aremove|unfold set_services; cbn [services registry]]. intros e m. split.
    + intros X. apply alookup_aremove_some in X as [X De]. apply C in X as (id' & L & Ee). exists id'. split; [|exact Ee].
      rewrite alookup_aremove_diff; [exact L|]. intros ->. rewrite L0 in L. injection L as <-. congruence.
    + intros (id' & L & Ee). apply alookup_aremove_some in L as [L Di].
      rewrite alookup_aremove_diff; [apply C; now exists id'|].
      intros ->. apply Di. apply (ND id' id m md0); auto.
  - unfold put_shortcut in E. repeat dmh E; injection E as <- <- <-; now apply Same.
  - unfold del_shortcut in E. repeat dmh E; injection E as <- <- <-; now apply Same.
  - unfold login in E. destruct (get_session verify s true c fp) as [[s1 r] fp1] eqn:G.
    assert (s' = s1) as -> by (destruct r as [rep|[sx ck]]; now injection E as <- <- <-). eapply KG; eassumption.
  - unfold sso in E. destruct (alookup (rq_issuer rq) (registry s)) as [md|]; [|injection E as <- <- <-; now apply Same].
    destruct (acs_select md rq); [|injection E as <- <- <-; now apply Same].
    destruct (get_session verify s true c fp) as [[s1 r] fp1] eqn:G.
    assert (s' = s1) as -> by (destruct r as [rep|[sx ck]]; now injection E as <- <- <-). eapply KG; eassumption.
  - unfold launch in E. destruct (store_get (shortcuts s) n fp) as [[sp| |] fp1]; try (injection E as <- <- <-; now apply Same).
    destruct (get_session verify s false c fp1) as [[s1 r] fp2] eqn:G.
    assert (s' = s1) as -> by (destruct r as [rep|[sx ck]]; [now injection E as <- <- <-|repeat dmh E; now injection E as <- <- <-]).
    eapply KG; eassumption.
  - unfold get_sess in E. repeat dmh E; injection E as <- <- <-; now apply Same.
  - unfold del_session in E. repeat dmh E; injection E as <- <- <-; now apply Same.
  - injection E as <- <- <-. now apply Same.
  - injection E as <- <- <-. split; cbn; [exact N|]. now apply registry_of_store_spec.
Qed.

(* along a history: every intermediate store satisfies nodup_entity *)
Fixpoint hist_nodup (s : sstate') (h : list op) (fp : faultplan) : Prop :=
  nodup_entity (services s) /\
  match h with
  | [] => True
  | o :: r => let '(s', _, fp') := step' s o fp in hist_nodup s' r fp'
  end.

Lemma hist_nodup_head s h fp : hist_nodup s h fp -> nodup_entity (services s).
Proof. destruct h; cbn; tauto. Qed.

Theorem registry_consistent h : forall s fp,
  consistent s -> hist_nodup s h fp -> consistent (fst (run' s h fp)).
Proof.
  induction h as [|o h IH]; intros s fp C HN; [exact C|].
  rewrite (run_step H hash verify empty_hash). cbn [hist_nodup] in HN. destruct HN as [ND HN].
  destruct (step' s o fp) as [[s' rs] fp'] eqn:E. apply IH; [|exact HN].
  eapply step_consistent; try eassumption. now apply hist_nodup_head in HN.
Qed.

(* ---------- restart refinement ---------- *)
(* two states that differ only in registries with the same lookups *)
Definition same_but_registry (s t : sstate') : Prop :=
  users s = users t /\ sessions s = sessions t /\ services s = services t /\ shortcuts s = shortcuts t /\
  clock s = clock t /\ rand s = rand t /\ authlog s = authlog t /\
  forall e, alookup e (registry s) = alookup e (registry t).

Lemma sbr_refl s : same_but_registry s s.
Proof. unfold same_but_registry. tauto. Qed.

Lemma alookup_ainsert_ext {A} k (v : A) l1 l2 :
  (forall e, alookup e l1 = alookup e l2) -> forall e, alookup e (ainsert k v l1) = alookup e (ainsert k v l2).
Proof.
  intros X e. destruct (String.eqb_spec e k) as [->|D]; [now rewrite !alookup_ainsert_same|].
  now rewrite !alookup_ainsert_diff by exact D.
Qed.
Lemma alookup_aremove_ext {A} k (l1 l2 : list (string * A)) :
  (forall e, alookup e l1 = alookup e l2) -> forall e, alookup e (aremove k l1) = alookup e (aremove k l2).
Proof.
  intros X e. destruct (String.eqb_spec e k) as [->|D]; [now rewrite !alookup_aremove_same|].
  now rewrite !alookup_aremove_diff by exact D.
Qed.

Lemma get_session_sbr s t parsed c fp :
  same_but_registry s t ->
  let '(s1, r, fp1) := get_session verify s parsed c fp in
  let '(t1, r', fp1') := get_session verify t parsed c fp in
  same_but_registry s1 t1 /\ r = r' /\ fp1 = fp1'.
Proof.
  intros (U & Se & Sv & Sc & Cl & Ra & Lg & Rg).
  destruct s as [us ss sv sc rg cl ra lg], t as [ut st svt sct rgt clt rat lgt]. cbn in *. subst ut st svt sct clt rat lgt.
  unfold get_session, new_session; cbn [users sessions clock rand authlog services shortcuts registry].
  destruct (parsed && nonempty (cr_user c)).
  - destruct (store_get us (cr_user c) fp) as [[u| |] fp1]; try (unfold same_but_registry; cbn -[sid Z.add]; auto 12).
    destruct (verify (u_hash u) (cr_pw c)); try (unfold same_but_registry; cbn -[sid Z.add]; auto 12).
    destruct (store_mut fp1) as [[|] fp2]; unfold same_but_registry; cbn -[sid Z.add]; auto 12.
  - destruct (cr_cookie c) as [i|]; try (unfold same_but_registry; cbn -[sid Z.add]; auto 12).
    destruct (store_get ss i fp) as [[se| |] fp1]; try (unfold same_but_registry; cbn -[sid Z.add]; auto 12).
    destruct (se_expire se <? cl); unfold same_but_registry; cbn -[sid Z.add]; auto 12.
Qed.

Lemma step_sbr s t o fp :
  same_but_registry s t ->
  same_but_registry (fst (fst (step' s o fp))) (fst (fst (step' t o fp))) /\
  snd (fst (step' s o fp)) = snd (fst (step' t o fp)) /\ snd (step' s o fp) = snd (step' t o fp).
Proof.
  intros R. pose proof R as (U & Se & Sv & Sc & Cl & Ra & Lg & Rg).
  assert (forall parsed fpa, let '(s1, r, fp1) := get_session verify s parsed match o with Login c | Sso _ c | Launch _ c => c | _ => NoCreds end fpa in
                              let '(t1, r', fp1') := get_session verify t parsed match o with Login c | Sso _ c | Launch _ c => c | _ => NoCreds end fpa in
                              same_but_registry s1 t1 /\ r = r' /\ fp1 = fp1') as KG.
  { intros. now apply get_session_sbr. }
  destruct o as [n pw pr|n|n|kc|id b|id|n sp|n|c|rq c|n c|id|id|dt|]; cbn [step].
  1-4,7-8,12-15:
    destruct s as [us ss sv sc rg cl ra lg], t as [ut st svt sct rgt clt rat lgt]; cbn in U, Se, Sv, Sc, Cl, Ra, Lg, Rg;
    subst ut st svt sct clt rat lgt;
    unfold put_user, del_user, get_user, list_keys, put_shortcut, del_shortcut, get_sess, del_session,
           set_users, set_sessions, set_shortcuts, set_clock, set_registry; cbn [users sessions clock rand authlog services shortcuts registry];
    repeat dm; unfold same_but_registry; cbn; auto 10.
  - (* PutService *)
    unfold put_service. destruct (select_md b) as [md|]; [|cbn; auto]. unfold put_service_md.
    rewrite <- Sv. destruct (store_get (services s) id fp) as [g fp1].
    destruct g as [prev| |]; cbn; auto; destruct (store_mut fp1) as [[|] fp2]; cbn; auto.
    + split; [|auto]. unfold same_but_registry; cbn. repeat (split; [assumption|]). split; [now rewrite Sv|]. repeat (split; [assumption|]).
      apply alookup_ainsert_ext. destruct (md_entity prev =? md_entity md)%string; [exact Rg|now apply alookup_aremove_ext].
    + split; [|auto]. unfold same_but_registry; cbn. repeat (split; [assumption|]). split; [now rewrite Sv|]. repeat (split; [assumption|]).
      now apply alookup_ainsert_ext.
  - (* DelService *)
    unfold del_service. rewrite <- Sv. destruct (store_get (services s) id fp) as [g fp1].
    destruct g as [md0| |]; cbn; auto; destruct (store_mut fp1) as [[|] fp2]; cbn; auto.
    split; [|auto]. unfold same_but_registry; cbn. repeat (split; [assumption|]). split; [now rewrite Sv|]. repeat (split; [assumption|]).
    now apply alookup_aremove_ext.
  - (* Login *)
    unfold login. specialize (KG true fp).
    destruct (get_session verify s true c fp) as [[s1 r] fp1], (get_session verify t true c fp) as [[t1 r'] fp1'].
    destruct KG as (R1 & <- & <-). destruct r as [rep|[se ck]]; cbn; auto.
  - (* Sso *)
    unfold sso. rewrite <- Rg. destruct (alookup (rq_issuer rq) (registry s)) as [md|]; cbn; auto.
    destruct (acs_select md rq); cbn; auto. specialize (KG true fp).
    destruct (get_session verify s true c fp) as [[s1 r] fp1], (get_session verify t true c fp) as [[t1 r'] fp1'].
    destruct KG as (R1 & <- & <-). destruct r as [rep|[se ck]]; cbn; auto.
  - (* Launch *)
    unfold launch. rewrite <- Sc. destruct (store_get (shortcuts s) n fp) as [g fp1].
    destruct g as [sp| |]; [|cbn; auto|cbn; auto]. cbv beta iota.
    specialize (KG false fp1).
    destruct (get_session verify s false c fp1) as [[s1 r] fp2], (get_session verify t false c fp1) as [[t1 r'] fp2'].
    destruct KG as (R1 & <- & <-). destruct r as [rep|[se ck]]; cbv beta iota; [cbn; auto|].
    pose proof R1 as (_ & _ & _ & _ & _ & _ & _ & Rg1).
    rewrite <- Rg1. destruct (alookup sp (registry s1)) as [md|]; [|cbn; auto].
    destruct (md_acs md); cbn; auto.
Qed.

Lemma replies_sbr h : forall s t fp, same_but_registry s t -> replies' s h fp = replies' t h fp.
Proof.
  induction h as [|o h IH]; intros s t fp R; [reflexivity|].
  unfold replies. cbn [trace]. destruct (step_sbr s t o fp R) as (R1 & Er & Ef).
  destruct (step' s o fp) as [[s' rs] fp'], (step' t o fp) as [[t' rs'] fp'']. cbn [fst snd] in *. subst rs' fp''.
  cbn [map snd]. f_equal. now apply IH.
Qed.

Lemma replies_app s h1 h2 fp :
  replies' s (h1 ++ h2) fp = replies' s h1 fp ++ replies' (fst (run' s h1 fp)) h2 (snd (run' s h1 fp)).
Proof. unfold replies. rewrite (trace_app H hash verify empty_hash). now rewrite map_app. Qed.

Lemma replies_length h : forall s fp, List.length (replies' s h fp) = List.length h.
Proof.
  induction h as [|o h IH]; intros s fp; [reflexivity|]. unfold replies. cbn [trace].
  destruct (step' s o fp) as [[s' rs] fp']. cbn [map List.length]. f_equal. apply IH.
Qed.

(* THE RESTART THEOREM.  If along h1 no two stored service ids ever share an
   entity ID (K3 otherwise), then inserting a restart (registry rebuilt from the
   store, as samlidp.New does) after h1 leaves every later reply unchanged, for
   every continuation h2 and every fault plan. *)
Theorem restart_refines now h1 h2 fp :
  hist_nodup (init_state H now) h1 fp ->
  replies' (init_state H now) (h1 ++ Restart :: h2) fp =
  replies' (init_state H now) h1 fp ++ [] :: skipn (List.length h1) (replies' (init_state H now) (h1 ++ h2) fp).
Proof.
  intros HN.
  assert (consistent (init_state H now)) as C0.
  { split; cbn; [constructor|]. intros e md. split; [discriminate|]. intros (id & X & _). discriminate. }
  pose proof (registry_consistent h1 _ _ C0 HN) as [N C].
  assert (nodup_entity (services (fst (run' (init_state H now) h1 fp)))) as ND.
  { clear C0 N C. revert HN. generalize (init_state H now) as s0. revert fp. induction h1 as [|o h IH]; intros fp s0 HN.
    - now apply hist_nodup_head in HN.
    - rewrite (run_step H hash verify empty_hash). cbn [hist_nodup] in HN. destruct HN as [_ HN].
      destruct (step' s0 o fp) as [[s' rs] fp']. now apply IH. }
  rewrite !replies_app. f_equal.
  pose proof (replies_length h1 (init_state H now) fp) as Len.
  rewrite <- Len, skipn_app, skipn_all, Nat.sub_diag. cbn [skipn app].
  set (s := fst (run' (init_state H now) h1 fp)) in *. set (f := snd (run' (init_state H now) h1 fp)).
  unfold replies at 1. cbn [trace step map snd]. f_equal.
  apply replies_sbr. unfold same_but_registry. cbn. repeat (split; [reflexivity|]).
  intros e. pose proof (registry_of_store_spec _ N ND) as C'.
  destruct (alookup e (registry_of_store (services s))) as [m|] eqn:X.
  - apply C' in X. apply C in X. now rewrite X.
  - destruct (alookup e (registry s)) as [m|] eqn:Y; [|reflexivity]. apply C in Y. apply C' in Y. congruence.
Qed.

End Restart.

(* the hypothesis of the restart theorems is satisfiable (non-vacuity) *)
Lemma nodup_entity_nil : nodup_entity [].
Proof. intros i1 i2 m1 m2 X. discriminate. Qed.
Lemma nodup_entity_single k m : nodup_entity [(k, m)].
Proof.
  intros i1 i2 m1 m2 X1 X2 _. cbn in X1, X2.
  destruct (String.eqb_spec i1 k), (String.eqb_spec i2 k); congruence.
Qed.
Example restart_hypothesis_satisfiable :
  hist_nodup H0 hash0 verify0 empty0 (init_state H0 0) [PutService "a" (MdSingle ex_md1); Restart] [].
Proof.
  cbn [hist_nodup]. split; [apply nodup_entity_nil|].
  change (step hash0 verify0 empty0 (init_state H0 0) (PutService "a" (MdSingle ex_md1)) [])
    with (set_services (init_state H0 0) [("a", ex_md1)] [("https://sp1/metadata", ex_md1)], [@rnocontent H0], @nil fault).
  cbn [hist_nodup]. split; [apply nodup_entity_single|]. cbn [step]. cbn [hist_nodup]. split; [apply nodup_entity_single|exact I].
Qed.
