(* Flate.v — model of flate.go's saferFlateReader: a counter in front of the
   DEFLATE stream that refuses a Read once count + len(buffer) would pass the
   limit.  The inflater is abstract: a Read into a buffer of length p delivers
   some n with 0 <= n <= p bytes. *)
From Saml Require Import Base.

Definition flate_limit : Z := 10 * 1024 * 1024.

(* one Read call: buffer length p, the inflater delivers n bytes *)
Definition flate_read (count p n : Z) : outcome Z :=
  if flate_limit <? count + p then Err 1 else Ok (count + n).

(* a sequence of Read calls as io.ReadAll issues them; the result is the number of bytes delivered *)
Fixpoint flate_reads (count : Z) (l : list (Z * Z)) : outcome Z :=
  match l with
  | [] => Ok count
  | (p, n) :: r => do c <- flate_read count p n; flate_reads c r
  end.

(* correspondence: observed (inflated size, whether ReadAll returned an error) *)
Record flcase := { fl_size : Z; fl_err : bool; fl_delivered : Z }.
(* the implementation may refuse earlier than the limit (the test is on the buffer's spare
   capacity), but what it delivers never exceeds the limit, and anything larger is refused *)
Definition flcase_spec (c : flcase) : bool :=
  (fl_delivered c <=? flate_limit) && (if flate_limit <? fl_size c then fl_err c else true).
Definition check_flcases := check_cases (fun _ : flcase => true) flcase_spec.
