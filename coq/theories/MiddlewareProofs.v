(* MiddlewareProofs.v — theorems about Middleware.v (property C17). *)
From Saml Require Import Base Tokens TokensProofs Middleware.
From Coq Require Import Permutation.

(* ---------- strings: the cookie-name prefix ---------- *)
Lemma prefixb_app p s : prefixb p (p +++ s) = true.
Proof. induction p as [|a p IH]; simpl; [reflexivity|]. rewrite Ascii.eqb_refl. exact IH. Qed.
Lemma drop_app p s : drop (String.length p) (p +++ s) = s.
Proof. induction p as [|a p IH]; simpl; [destruct s; reflexivity | exact IH]. Qed.
Lemma prefixb_drop p n : prefixb p n = true -> n = p +++ drop (String.length p) n.
Proof.
  revert n; induction p as [|a p IH]; intros n H; simpl in *.
  - destruct n; reflexivity.
  - destruct n as [|b n]; [discriminate|]. apply andb_true_iff in H; destruct H as [H1 H2].
    apply Ascii.eqb_eq in H1; subst b. f_equal. apply IH, H2.
Qed.
Lemma app_inv_head_s p a b : p +++ a = p +++ b -> a = b.
Proof. induction p as [|c p IH]; simpl; intro H; [exact H | injection H as H; apply IH, H]. Qed.

Lemma mem_str_in x l : mem_str x l = true <-> In x l.
Proof.
  induction l as [|y r IH]; simpl; [split; [discriminate | tauto]|].
  unfold seqb. rewrite orb_true_iff, IH, String.eqb_eq. split; intros [H|H]; auto.
Qed.

Lemma jar_get_in n j w : jar_get n j = Some w -> In (n, w) j.
Proof.
  induction j as [|[n' w'] r IH]; simpl; [discriminate|].
  destruct (String.eqb n' n) eqn:E.
  - apply String.eqb_eq in E; subst. intro H; injection H as ->. left; reflexivity.
  - intro H; right; apply IH, H.
Qed.
Lemma jar_get_of_in n j w0 : In (n, w0) j -> exists w, jar_get n j = Some w /\ In (n, w) j.
Proof.
  induction j as [|[n' w'] r IH]; simpl; [tauto|]. intros [H|H].
  - injection H as -> ->. rewrite String.eqb_refl. exists w0; auto.
  - destruct (String.eqb n' n) eqn:E.
    + apply String.eqb_eq in E; subst. exists w'; auto.
    + destruct (IH H) as (w & Hg & Hi). exists w; auto.
Qed.

(* ---------- GetTrackedRequests ---------- *)
Lemma gtr_in cfg now j tr :
  In tr (get_tracked_requests cfg now j) <->
  exists n w, In (n, w) j /\ prefixb (m_prefix cfg) n = true
              /\ decode_tracking (m_tcodec cfg) now w = Some tr /\ index_of_name cfg n = tr_index tr.
Proof.
  induction j as [|[n w] r IH]; simpl.
  - split; [tauto | intros (n & w & [] & _)].
  - destruct (prefixb (m_prefix cfg) n) eqn:Ep; simpl.
    + destruct (decode_tracking (m_tcodec cfg) now w) as [tr'|] eqn:Ed.
      * destruct (String.eqb (index_of_name cfg n) (tr_index tr')) eqn:Ei.
        -- simpl. rewrite IH. split.
           ++ intros [<-|(n0 & w0 & Hi & H)]; [exists n, w; apply String.eqb_eq in Ei; auto | exists n0, w0; auto].
           ++ intros (n0 & w0 & [Hi|Hi] & Hp & Hd & Hx); [injection Hi as <- <-; left; congruence | right; exists n0, w0; auto].
        -- rewrite IH. split.
           ++ intros (n0 & w0 & Hi & H); exists n0, w0; auto.
           ++ intros (n0 & w0 & [Hi|Hi] & Hp & Hd & Hx); [|exists n0, w0; auto].
              injection Hi as <- <-. rewrite Ed in Hd. injection Hd as <-. rewrite Hx, String.eqb_refl in Ei. discriminate.
      * rewrite IH. split.
        -- intros (n0 & w0 & Hi & H); exists n0, w0; auto.
        -- intros (n0 & w0 & [Hi|Hi] & Hp & Hd & Hx); [injection Hi as <- <-; congruence | exists n0, w0; auto].
    + rewrite IH. split.
      * intros (n0 & w0 & Hi & H); exists n0, w0; auto.
      * intros (n0 & w0 & [Hi|Hi] & Hp & Hd & Hx); [injection Hi as <- <-; congruence | exists n0, w0; auto].
Qed.

(* ---------- invariants of reachable states ---------- *)
Definition flow_wf (cfg : mwcfg) (f : flow) : Prop :=
  fl_cookie f = WToken (mint_tracking (m_arr cfg) (m_tcodec cfg) (fl_start f) (flow_tracked f)).
Definition flows_ok (m : mw) : Prop :=
  forall f, In f (mw_flows m) -> flow_wf (mw_cfg m) f /\ fl_start f <= mw_clock m.

Lemma step_cfg m a : mw_cfg (fst (step m a)) = mw_cfg m.
Proof.
  destruct a; simpl; try reflexivity.
  destruct (get_session _ _ _ _); reflexivity.
Qed.

Lemma start_flow_wf cfg now u idx rid : flow_wf cfg (snd (start_flow cfg now u idx rid)).
Proof. reflexivity. Qed.

Lemma step_flows_ok m a : flows_ok m -> flows_ok (fst (step m a)).
Proof.
  intro H. destruct a; simpl.
  - intros f [<-|Hf]; [split; [apply start_flow_wf | simpl; lia] | apply H, Hf].
  - destruct (get_session _ _ _ _); simpl; [exact H|].
    intros f [<-|Hf]; [split; [apply start_flow_wf | simpl; lia] | apply H, Hf].
  - exact H.
  - intros f Hf. simpl in *. destruct (H f Hf) as [H1 H2]. split; [exact H1 | lia].
Qed.

Lemma run_cfg h : forall m, mw_cfg (run m h) = mw_cfg m.
Proof. induction h as [|a h IH]; intro m; simpl; [reflexivity|]. unfold run in *. simpl. rewrite IH. apply step_cfg. Qed.

Lemma run_flows_ok h : forall m, flows_ok m -> flows_ok (run m h).
Proof. induction h as [|a h IH]; intros m H; simpl; [exact H|]. unfold run in *; simpl. apply IH, step_flows_ok, H. Qed.

Lemma init_flows_ok cfg t0 : flows_ok (init cfg t0).
Proof. intros f []. Qed.

(* indices of the flows of a reachable state are pairwise distinct when the draws are *)
Lemma nodup_middle {A} (a : A) l1 l2 : NoDup (a :: l1 ++ l2) -> NoDup (l1 ++ a :: l2).
Proof. intro H. eapply Permutation_NoDup; [apply Permutation_middle | exact H]. Qed.

Lemma step_indices m a :
  NoDup (map fst (draws_of a) ++ map fl_index (mw_flows m)) ->
  NoDup (map fl_index (mw_flows (fst (step m a)))).
Proof.
  destruct a; simpl; intro H; try exact H.
  - destruct (get_session _ _ _ _); simpl; [inversion H; assumption | exact H].
Qed.

Lemma run_indices h : forall m,
  NoDup (map fst (flat_map draws_of h) ++ map fl_index (mw_flows m)) ->
  NoDup (map fl_index (mw_flows (run m h))).
Proof.
  induction h as [|a h IH]; intros m H; simpl in *; [exact H|].
  unfold run in *; simpl. apply IH.
  rewrite map_app, <- app_assoc in H.
  destruct a; simpl in *; try exact H.
  - apply nodup_middle in H. exact H.
  - destruct (get_session _ _ _ _); simpl.
    + inversion H; assumption.
    + apply nodup_middle in H. exact H.
Qed.

Lemma nodup_map_inj {A B} (g : A -> B) l x y :
  NoDup (map g l) -> In x l -> In y l -> g x = g y -> x = y.
Proof.
  induction l as [|a l IH]; simpl; intros Hn Hx Hy E; [tauto|].
  inversion Hn as [|? ? Hni Hn']; subst.
  destruct Hx as [<-|Hx], Hy as [<-|Hy]; auto.
  - exfalso; apply Hni. rewrite E. apply in_map, Hy.
  - exfalso; apply Hni. rewrite <- E. apply in_map, Hx.
Qed.

(* ---------- what can be in a jar ---------- *)
(* Dolev-Yao closure for the browser's cookie values, relative to the state m:
   garbage; anything signed with another key or with a broken signature;
   the tracking cookies THIS middleware has issued so far; tracking tokens of
   other deployments (differing in key, algorithm, audience or issuer);
   session tokens of anyone, this deployment included. *)
Inductive wire_ok (m : mw) : wire -> Prop :=
| wo_garbage : wire_ok m WGarbage
| wo_other_key t : tk_key t <> c_key (m_tcodec (mw_cfg m)) -> wire_ok m (WToken t)
| wo_broken t : tk_intact t = false -> wire_ok m (WToken t)
| wo_issued f : In f (mw_flows m) -> wire_ok m (fl_cookie f)
| wo_foreign arr c' t0 tr : codec_id c' <> codec_id (m_tcodec (mw_cfg m)) ->
                            wire_ok m (WToken (mint_tracking arr c' t0 tr))
| wo_session c' t0 a : wire_ok m (WToken (mint_session c' t0 a)).
Definition jar_ok (m : mw) (j : jar) : Prop := forall n w, In (n, w) j -> wire_ok m w.

Lemma flow_live_iff cfg now f :
  flow_live cfg now f = true <->
  sec (fl_start f) * tk_ns_per_s <= now < sec (fl_start f + c_max_age (m_tcodec cfg)) * tk_ns_per_s.
Proof. unfold flow_live. rewrite andb_true_iff, Z.leb_le, Z.ltb_lt. tauto. Qed.

(* a cookie value that decodes is an authentic, live cookie of one of our flows *)
Lemma decode_ok_is_flow m now w tr :
  flows_ok m -> wire_ok m w ->
  decode_tracking (m_tcodec (mw_cfg m)) now w = Some tr ->
  exists f, In f (mw_flows m) /\ w = fl_cookie f /\ tr = flow_tracked f /\ flow_live (mw_cfg m) now f = true.
Proof.
  intros Hok Hw Hd. destruct Hw as [ | t Hk | t Hb | f Hf | arr c' t0 tr' Hid | c' t0 a ].
  - discriminate Hd.
  - apply decode_tracking_some in Hd. destruct Hd as (_ & _ & Hs & _). apply verify_sig_true in Hs. destruct Hs; contradiction.
  - apply decode_tracking_some in Hd. destruct Hd as (_ & _ & Hs & _). apply verify_sig_true in Hs. destruct Hs; congruence.
  - destruct (Hok f Hf) as [Hwf _]. exists f. split; [exact Hf|]. split; [reflexivity|].
    rewrite Hwf in Hd. split.
    + exact (tracking_decode_none_or_tr (m_arr (mw_cfg m)) (m_tcodec (mw_cfg m)) (fl_start f) (flow_tracked f) now tr Hd).
    + apply flow_live_iff. apply decode_tracking_some in Hd. destruct Hd as (_ & _ & _ & Hv & _).
      apply reg_window in Hv. exact Hv.
  - exfalso. apply Hid. exact (tracking_mint_accepted_id arr (m_tcodec (mw_cfg m)) c' now t0 tr' tr Hd).
  - rewrite cross_codec_session_as_tracking in Hd. discriminate.
Qed.

(* ---------- deliver: shape of the reply ---------- *)
Definition possible_ids (cfg : mwcfg) (now : Z) (j : jar) : list string :=
  ((if m_allow_idp cfg then [""] else []) ++ map tr_req_id (get_tracked_requests cfg now j))%list.

Definition accept_reply (cfg : mwcfg) (now : Z) (r : response) (req_https : bool) (uri : string) (cks : list setcookie) : reply :=
  {| rp_status := 302; rp_location := LUrl uri; rp_relay := "";
     rp_cookies := (cks ++ [session_cookie cfg now (r_assertion r) req_https])%list; rp_ran := false |}.

Lemma deliver_cases cfg now r j relay h :
  deliver cfg now r j relay h = forbidden
  \/ (sp_verdict cfg now (possible_ids cfg now j) r = true
      /\ ((relay = "" /\ deliver cfg now r j relay h = accept_reply cfg now r h (m_default_redirect cfg) [])
          \/ (relay <> "" /\ exists tr, get_tracked_request cfg now j relay = Ok tr
                             /\ deliver cfg now r j relay h = accept_reply cfg now r h (tr_uri tr) [clear_cookie cfg relay])
          \/ (relay <> "" /\ get_tracked_request cfg now j relay = Err 1 /\ m_allow_idp cfg = true
              /\ deliver cfg now r j relay h = accept_reply cfg now r h relay []))).
Proof.
  unfold deliver. fold (possible_ids cfg now j).
  destruct (sp_verdict cfg now (possible_ids cfg now j) r) eqn:Ev; simpl; [|left; reflexivity].
  destruct (nonempty relay) eqn:En.
  - apply nonempty_iff in En.
    destruct (get_tracked_request cfg now j relay) as [tr|c|] eqn:Eg.
    + right. split; [reflexivity|]. right; left. split; [exact En|]. exists tr. split; reflexivity.
    + destruct c as [|p|p]; try (left; reflexivity).
      destruct p; try (left; reflexivity).
      destruct (m_allow_idp cfg) eqn:Ea; [|left; reflexivity].
      right. split; [reflexivity|]. right; right. repeat split; assumption.
    + left; reflexivity.
  - right. split; [reflexivity|]. left. split; [|reflexivity].
    destruct relay; [reflexivity | discriminate En].
Qed.

Lemma forbidden_no_session : ~ sets_session forbidden.
Proof. intros (ck & [] & _). Qed.

Lemma accept_sets_session cfg now r h uri cks : sets_session (accept_reply cfg now r h uri cks).
Proof. exists (session_cookie cfg now (r_assertion r) h). split; [apply in_or_app; right; left; reflexivity | reflexivity]. Qed.

(* every ACS reply is either the bare 403 or a 302 that sets the session cookie *)
Theorem deliver_dichotomy cfg now r j relay h :
  deliver cfg now r j relay h = forbidden
  \/ (sets_session (deliver cfg now r j relay h) /\ rp_status (deliver cfg now r j relay h) = 302).
Proof.
  destruct (deliver_cases cfg now r j relay h) as [H|(_ & [(_ & H)|[(_ & tr & _ & H)|(_ & _ & _ & H)]])];
    [left; exact H | right; rewrite H; split; [apply accept_sets_session | reflexivity] ..].
Qed.

(* ---------- C17_session_needs_own_tracking_cookie ---------- *)
Theorem session_needs_own_tracking_cookie m r j relay h m' rp :
  flows_ok m -> jar_ok m j -> m_allow_idp (mw_cfg m) = false ->
  step m (Deliver r j relay h) = (m', rp) -> sets_session rp ->
  r_ok r = true /\ response_fresh (mw_cfg m) (mw_clock m) r = true
  /\ exists f, In f (mw_flows m)
               /\ r_irt r = fl_req_id f
               /\ In (m_prefix (mw_cfg m) +++ fl_index f, fl_cookie f) j
               /\ fl_cookie f = WToken (mint_tracking (m_arr (mw_cfg m)) (m_tcodec (mw_cfg m)) (fl_start f) (flow_tracked f))
               /\ flow_live (mw_cfg m) (mw_clock m) f = true.
Proof.
  intros Hok Hj Hidp Hstep Hs. simpl in Hstep. injection Hstep as _ <-.
  set (cfg := mw_cfg m) in *. set (now := mw_clock m) in *.
  destruct (deliver_cases cfg now r j relay h) as [H|(Hv & _)].
  - rewrite H in Hs. exfalso; exact (forbidden_no_session Hs).
  - unfold sp_verdict in Hv. rewrite Hidp in Hv. simpl in Hv.
    apply andb_true_iff in Hv; destruct Hv as [Hv Hm]. apply andb_true_iff in Hv; destruct Hv as [Hrok Hfr].
    split; [exact Hrok|]. split; [exact Hfr|].
    apply mem_str_in in Hm. unfold possible_ids in Hm. rewrite Hidp in Hm. simpl in Hm.
    apply in_map_iff in Hm. destruct Hm as (tr & Hid & Hin).
    apply gtr_in in Hin. destruct Hin as (n & w & Hnw & Hp & Hd & Hx).
    destruct (decode_ok_is_flow m now w tr Hok (Hj n w Hnw) Hd) as (f & Hf & -> & -> & Hl).
    exists f. split; [exact Hf|]. split; [symmetry; exact Hid|].
    split.
    + apply prefixb_drop in Hp. unfold index_of_name in Hx. rewrite Hx in Hp. simpl in Hp. rewrite <- Hp. exact Hnw.
    + split; [apply (Hok f Hf) | exact Hl].
Qed.

(* ---------- C17_redirect_target ---------- *)
Theorem redirect_target m r j relay h m' rp :
  flows_ok m -> jar_ok m j -> m_allow_idp (mw_cfg m) = false ->
  step m (Deliver r j relay h) = (m', rp) -> sets_session rp ->
  (relay = "" -> rp_location rp = LUrl (m_default_redirect (mw_cfg m)))
  /\ (relay <> "" ->
      exists f, In f (mw_flows m) /\ fl_index f = relay
                /\ jar_get (m_prefix (mw_cfg m) +++ relay) j = Some (fl_cookie f)
                /\ flow_live (mw_cfg m) (mw_clock m) f = true
                /\ rp_location rp = LUrl (fl_uri f)
                /\ In (clear_cookie (mw_cfg m) relay) (rp_cookies rp)).
Proof.
  intros Hok Hj Hidp Hstep Hs. simpl in Hstep. injection Hstep as _ <-.
  set (cfg := mw_cfg m) in *. set (now := mw_clock m) in *.
  destruct (deliver_cases cfg now r j relay h) as [H|(Hv & [(He & H)|[(Hne & tr & Hg & H)|(Hne & _ & Ha & _)]])].
  - rewrite H in Hs. exfalso; exact (forbidden_no_session Hs).
  - rewrite H. split; [reflexivity | intro; contradiction].
  - rewrite H. split; [intro; contradiction|]. intros _.
    unfold get_tracked_request in Hg.
    destruct (jar_get (m_prefix cfg +++ relay) j) as [w|] eqn:Ej; [|discriminate].
    destruct (decode_tracking (m_tcodec cfg) now w) as [tr'|] eqn:Ed; [|discriminate].
    destruct (String.eqb (tr_index tr') relay) eqn:Ei; [|discriminate]. injection Hg as ->.
    apply String.eqb_eq in Ei.
    destruct (decode_ok_is_flow m now w tr Hok (Hj _ _ (jar_get_in _ _ _ Ej)) Ed) as (f & Hf & -> & -> & Hl).
    exists f. repeat split; try assumption. simpl. left; reflexivity.
  - congruence.
Qed.

(* the only strings that can reach Location are the default and URIs recorded at a flow start *)
Corollary location_never_attacker_text m r j relay h m' rp :
  flows_ok m -> jar_ok m j -> m_allow_idp (mw_cfg m) = false ->
  step m (Deliver r j relay h) = (m', rp) ->
  rp_location rp = LNone
  \/ rp_location rp = LUrl (m_default_redirect (mw_cfg m))
  \/ exists f, In f (mw_flows m) /\ rp_location rp = LUrl (fl_uri f).
Proof.
  intros Hok Hj Hidp Hstep.
  pose proof Hstep as Hstep'. simpl in Hstep'. injection Hstep' as _ Hrp.
  destruct (deliver_dichotomy (mw_cfg m) (mw_clock m) r j relay h) as [H|[Hs _]].
  - left. rewrite <- Hrp, H. reflexivity.
  - rewrite Hrp in Hs. destruct (redirect_target m r j relay h m' rp Hok Hj Hidp Hstep Hs) as [H1 H2].
    destruct relay as [|c s].
    + right; left. apply H1; reflexivity.
    + right; right. destruct H2 as (f & Hf & _ & _ & _ & Hl & _); [discriminate|]. exists f; auto.
Qed.

(* ---------- C17_refused_without_cookie ---------- *)
Theorem refused_without_cookie m r j relay h m' rp :
  flows_ok m -> jar_ok m j -> m_allow_idp (mw_cfg m) = false ->
  (forall f, In f (mw_flows m) -> r_irt r = fl_req_id f ->
             In (m_prefix (mw_cfg m) +++ fl_index f, fl_cookie f) j ->
             flow_live (mw_cfg m) (mw_clock m) f = false) ->
  step m (Deliver r j relay h) = (m', rp) ->
  rp = forbidden.
Proof.
  intros Hok Hj Hidp Hno Hstep.
  pose proof Hstep as Hstep'. simpl in Hstep'. injection Hstep' as _ Hrp.
  destruct (deliver_dichotomy (mw_cfg m) (mw_clock m) r j relay h) as [H|[Hs _]]; [congruence|].
  rewrite Hrp in Hs.
  destruct (session_needs_own_tracking_cookie m r j relay h m' rp Hok Hj Hidp Hstep Hs) as (_ & _ & f & Hf & Hi & Hin & _ & Hl).
  rewrite (Hno f Hf Hi Hin) in Hl. discriminate.
Qed.

(* ---------- C17_flags ---------- *)
Definition req_https_of (a : action) : bool := match a with Deliver _ _ _ h => h | _ => false end.
Definition cookie_ok (cfg : mwcfg) (req_https : bool) (ck : setcookie) : Prop :=
  match ck_kind ck with
  | CkSession => ck_httponly ck = true /\ ck_secure ck = (m_secure cfg || req_https) /\ ck_path ck = "/"
                 /\ ck_name ck = m_session_name cfg /\ ck_max_age ck = secs (m_session_cookie_age cfg)
  | CkTracking => ck_httponly ck = true /\ ck_secure ck = m_acs_https cfg /\ ck_path ck = m_acs_path cfg
                  /\ ck_max_age ck = secs (m_track_cookie_age cfg)
                  /\ exists now tr, ck_name ck = m_prefix cfg +++ tr_index tr
                                    /\ ck_value ck = WToken (mint_tracking (m_arr cfg) (m_tcodec cfg) now tr)
  | CkClear => ck_path ck = m_acs_path cfg /\ ck_value ck = WGarbage
  end.

Theorem flags m a m' rp :
  step m a = (m', rp) -> forall ck, In ck (rp_cookies rp) -> cookie_ok (mw_cfg m) (req_https_of a) ck.
Proof.
  intros Hstep ck Hin. destruct a; simpl in Hstep.
  - injection Hstep as _ <-. simpl in Hin. destruct Hin as [<-|[]].
    unfold cookie_ok; simpl. repeat split.
    exists (mw_clock m), {| tr_index := idx; tr_req_id := rid; tr_uri := u |}. split; reflexivity.
  - destruct (get_session _ _ _ _); injection Hstep as _ <-; simpl in Hin; [contradiction|].
    destruct Hin as [<-|[]]. unfold cookie_ok; simpl. repeat split.
    exists (mw_clock m), {| tr_index := idx; tr_req_id := rid; tr_uri := u |}. split; reflexivity.
  - injection Hstep as _ <-.
    destruct (deliver_cases (mw_cfg m) (mw_clock m) r j relay req_https) as [H|(_ & [(_ & H)|[(_ & tr & _ & H)|(_ & _ & _ & H)]])];
      rewrite H in Hin; simpl in Hin.
    + contradiction.
    + destruct Hin as [<-|[]]. unfold cookie_ok; simpl. repeat split.
    + destruct Hin as [<-|[<-|[]]]; unfold cookie_ok; simpl; repeat split.
    + destruct Hin as [<-|[]]. unfold cookie_ok; simpl. repeat split.
  - injection Hstep as _ <-. contradiction.
Qed.

(* ---------- C17_tracking_lifetime ---------- *)
Theorem tracking_lifetime_cfg o mid https acs allow dflt post :
  let cfg := default_cfg o mid https acs allow dflt post in
  c_max_age (m_tcodec cfg) = mid /\ m_track_cookie_age cfg = mid /\ m_mid cfg = mid.
Proof. simpl. auto. Qed.

(* the cookie of a flow started at t counts as a tracked request exactly while
   Unix(t) <= now < Unix(t + lifetime), to the nanosecond *)
Theorem tracking_cookie_window m now f :
  flows_ok m -> codec_wf (m_tcodec (mw_cfg m)) -> In f (mw_flows m) ->
  (In (flow_tracked f) (get_tracked_requests (mw_cfg m) now [(m_prefix (mw_cfg m) +++ fl_index f, fl_cookie f)])
   <-> sec (fl_start f) * tk_ns_per_s <= now < sec (fl_start f + c_max_age (m_tcodec (mw_cfg m))) * tk_ns_per_s).
Proof.
  intros Hok Hwf Hf. destruct (Hok f Hf) as [Hc _]. rewrite gtr_in. split.
  - intros (n & w & [Hi|[]] & _ & Hd & _). injection Hi as <- <-. rewrite Hc in Hd.
    apply decode_tracking_some in Hd. destruct Hd as (_ & _ & _ & Hv & _). apply reg_window in Hv. exact Hv.
  - intro Hw. eexists _, _. split; [left; reflexivity|]. split; [apply prefixb_app|]. split.
    + rewrite Hc. apply tracking_lifetime; assumption.
    + unfold index_of_name. rewrite drop_app. reflexivity.
Qed.

(* ---------- C17_interleaving ---------- *)
(* a jar in which every cookie carrying the tracking prefix is a cookie this
   middleware issued, under the name it was issued with *)
Definition honest_jar (m : mw) (j : jar) : Prop :=
  forall n w, In (n, w) j -> prefixb (m_prefix (mw_cfg m)) n = true ->
              exists f, In f (mw_flows m) /\ n = m_prefix (mw_cfg m) +++ fl_index f /\ w = fl_cookie f.

Theorem faithful_delivery_completes m r j h f :
  flows_ok m -> codec_wf (m_tcodec (mw_cfg m)) -> NoDup (map fl_index (mw_flows m)) ->
  In f (mw_flows m) -> fl_index f <> "" ->
  honest_jar m j -> In (m_prefix (mw_cfg m) +++ fl_index f, fl_cookie f) j ->
  flow_live (mw_cfg m) (mw_clock m) f = true ->
  r_ok r = true -> response_fresh (mw_cfg m) (mw_clock m) r = true -> r_irt r = fl_req_id f ->
  snd (step m (Deliver r j (fl_index f) h))
  = accept_reply (mw_cfg m) (mw_clock m) r h (fl_uri f) [clear_cookie (mw_cfg m) (fl_index f)].
Proof.
  intros Hok Hwf Hnd Hf Hne Hj Hin Hl Hrok Hfr Hirt. simpl.
  set (cfg := mw_cfg m) in *. set (now := mw_clock m) in *.
  destruct (Hok f Hf) as [Hc _].
  assert (Hdec : decode_tracking (m_tcodec cfg) now (fl_cookie f) = Some (flow_tracked f)).
  { rewrite Hc. apply tracking_lifetime; [assumption|]. apply flow_live_iff, Hl. }
  assert (Hposs : In (fl_req_id f) (map tr_req_id (get_tracked_requests cfg now j))).
  { apply in_map_iff. exists (flow_tracked f). split; [reflexivity|]. apply gtr_in.
    eexists _, _. split; [exact Hin|]. split; [apply prefixb_app|]. split; [exact Hdec|].
    unfold index_of_name. rewrite drop_app. reflexivity. }
  assert (Hv : sp_verdict cfg now (possible_ids cfg now j) r = true).
  { unfold sp_verdict. rewrite Hrok, Hfr. simpl. apply orb_true_iff. right. apply mem_str_in.
    unfold possible_ids. apply in_or_app. right. rewrite Hirt. exact Hposs. }
  assert (Hg : get_tracked_request cfg now j (fl_index f) = Ok (flow_tracked f)).
  { unfold get_tracked_request.
    destruct (jar_get_of_in _ _ _ Hin) as (w & Hget & Hw). rewrite Hget.
    destruct (Hj _ _ Hw (prefixb_app _ _)) as (f' & Hf' & Hn & ->).
    apply app_inv_head_s in Hn.
    assert (f = f') as <- by (eapply nodup_map_inj; eassumption).
    rewrite Hdec. simpl. rewrite String.eqb_refl. reflexivity. }
  unfold deliver. fold (possible_ids cfg now j). rewrite Hv. simpl.
  assert (En : nonempty (fl_index f) = true) by (apply nonempty_iff; exact Hne).
  rewrite En, Hg. reflexivity.
Qed.

(* the same over histories of any length: whatever was started, answered,
   delivered, requested and however long the clock was advanced before *)
Theorem interleaving cfg t0 hist r j h f :
  let m := run (init cfg t0) hist in
  fresh_draws hist -> codec_wf (m_tcodec cfg) ->
  In f (mw_flows m) -> fl_index f <> "" ->
  honest_jar m j -> In (m_prefix cfg +++ fl_index f, fl_cookie f) j ->
  flow_live cfg (mw_clock m) f = true ->
  r_ok r = true -> response_fresh cfg (mw_clock m) r = true -> r_irt r = fl_req_id f ->
  let rp := snd (step m (Deliver r j (fl_index f) h)) in
  rp_status rp = 302 /\ rp_location rp = LUrl (fl_uri f) /\ sets_session rp
  /\ In (clear_cookie cfg (fl_index f)) (rp_cookies rp).
Proof.
  intros m [Hfresh _] Hwf Hf Hne Hj Hin Hl Hrok Hfr Hirt rp.
  assert (Hcfg : mw_cfg m = cfg) by (unfold m; rewrite run_cfg; reflexivity).
  assert (Hok : flows_ok m) by (apply run_flows_ok, init_flows_ok).
  assert (Hnd : NoDup (map fl_index (mw_flows m))).
  { apply run_indices. simpl. rewrite app_nil_r. exact Hfresh. }
  unfold rp. rewrite (faithful_delivery_completes m r j h f); rewrite ?Hcfg; try assumption.
  simpl. repeat split; [apply accept_sets_session | left; reflexivity].
Qed.

(* ---------- TrackRequest's index ---------- *)
Lemma track_index_nonempty c rnd : nonempty rnd = true -> nonempty (track_index c rnd) = true.
Proof. intro H. destruct c as [s|]; simpl; [destruct (nonempty s) eqn:E; assumption | assumption]. Qed.
Lemma track_index_custom s rnd : s <> "" -> track_index (Some s) rnd = s.
Proof. intro H. simpl. apply nonempty_iff in H. rewrite H. reflexivity. Qed.
Lemma track_index_fallback rnd : track_index (Some "") rnd = rnd /\ track_index None rnd = rnd.
Proof. split; reflexivity. Qed.

(* with non-empty draws every flow of a reachable state has a non-empty index *)
Definition nonempty_draws (h : list action) : Prop := forall d, In d (flat_map draws_of h) -> fst d <> "".
Lemma step_index_nonempty m a :
  (forall d, In d (draws_of a) -> fst d <> "") ->
  (forall f, In f (mw_flows m) -> fl_index f <> "") ->
  forall f, In f (mw_flows (fst (step m a))) -> fl_index f <> "".
Proof.
  intros Hd Hm f. destruct a; simpl.
  - intros [<-|H]; [apply (Hd (idx, rid)); left; reflexivity | apply Hm, H].
  - destruct (get_session _ _ _ _); simpl; [apply Hm|].
    intros [<-|H]; [apply (Hd (idx, rid)); left; reflexivity | apply Hm, H].
  - apply Hm.
  - apply Hm.
Qed.
Lemma run_index_nonempty h : forall m,
  nonempty_draws h -> (forall f, In f (mw_flows m) -> fl_index f <> "") ->
  forall f, In f (mw_flows (run m h)) -> fl_index f <> "".
Proof.
  induction h as [|a h IH]; intros m Hd Hm; [exact Hm|].
  unfold run in *; simpl. apply IH.
  - intros d Hin. apply Hd. simpl. apply in_or_app. right; exact Hin.
  - apply step_index_nonempty; [|exact Hm]. intros d Hin. apply Hd. simpl. apply in_or_app. left; exact Hin.
Qed.

(* the hypothesis on f's index is discharged by the draws being non-empty *)
Theorem interleaving_nonempty_draws cfg t0 hist r j h f :
  let m := run (init cfg t0) hist in
  fresh_draws hist -> nonempty_draws hist -> codec_wf (m_tcodec cfg) ->
  In f (mw_flows m) ->
  honest_jar m j -> In (m_prefix cfg +++ fl_index f, fl_cookie f) j ->
  flow_live cfg (mw_clock m) f = true ->
  r_ok r = true -> response_fresh cfg (mw_clock m) r = true -> r_irt r = fl_req_id f ->
  let rp := snd (step m (Deliver r j (fl_index f) h)) in
  rp_status rp = 302 /\ rp_location rp = LUrl (fl_uri f) /\ sets_session rp
  /\ In (clear_cookie cfg (fl_index f)) (rp_cookies rp).
Proof.
  intros m Hfr Hne Hwf Hf. apply interleaving; try assumption.
  apply (run_index_nonempty hist (init cfg t0) Hne); [intros f0 [] | exact Hf].
Qed.

(* reachable-state versions of the security theorems *)
Theorem reachable_session_needs_own_tracking_cookie cfg t0 hist r j relay h :
  let m := run (init cfg t0) hist in
  m_allow_idp cfg = false -> jar_ok m j ->
  sets_session (snd (step m (Deliver r j relay h))) ->
  exists f, In f (mw_flows m) /\ r_irt r = fl_req_id f
            /\ In (m_prefix cfg +++ fl_index f, fl_cookie f) j
            /\ fl_cookie f = WToken (mint_tracking (m_arr cfg) (m_tcodec cfg) (fl_start f) (flow_tracked f))
            /\ fl_start f <= mw_clock m
            /\ mw_clock m < sec (fl_start f + c_max_age (m_tcodec cfg)) * tk_ns_per_s.
Proof.
  intros m Hidp Hj Hs.
  assert (Hcfg : mw_cfg m = cfg) by (unfold m; rewrite run_cfg; reflexivity).
  assert (Hok : flows_ok m) by (apply run_flows_ok, init_flows_ok).
  destruct (step m (Deliver r j relay h)) as [m' rp] eqn:Hstep. simpl in Hs.
  rewrite <- Hcfg in Hidp.
  destruct (session_needs_own_tracking_cookie m r j relay h m' rp Hok Hj Hidp Hstep Hs) as (_ & _ & f & Hf & Hi & Hin & Hc & Hl).
  rewrite Hcfg in *. exists f. repeat split; try assumption.
  - apply (Hok f Hf).
  - apply flow_live_iff in Hl. apply Hl.
Qed.

(* ---------- non-vacuity ---------- *)
Definition ex_cfg : mwcfg :=
  default_cfg ex_opts (90 * tk_ns_per_s) true "/saml/acs" false "" false.
Definition ex_hist : list action :=
  [ Start "/protected/a" "idxA" "id-A"; Advance (3 * tk_ns_per_s);
    Start "/protected/b" "idxB" "id-B"; Start "/protected/c" "idxC" "id-C"; Advance (10 * tk_ns_per_s) ].
Definition ex_m : mw := run (init ex_cfg ex_t0) ex_hist.
Definition ex_full_jar : jar := map (fun f => (m_prefix ex_cfg +++ fl_index f, fl_cookie f)) (mw_flows ex_m).
Definition ex_resp (rid : string) : response :=
  {| r_irt := rid; r_issued := mw_clock ex_m - tk_ns_per_s; r_ok := true; r_assertion := ex_assertion |}.

Example ex_fresh : fresh_draws ex_hist.
Proof. split; simpl; repeat constructor; simpl; intuition discriminate. Qed.

(* three pending flows; each answer delivered with the full jar completes at its own URL *)
Example ex_three_flows_complete :
  map (fun ir => let rp := snd (step ex_m (Deliver (ex_resp (snd ir)) ex_full_jar (fst ir) false)) in
                 (rp_status rp, rp_location rp, sets_session_b rp))
      [("idxC", "id-C"); ("idxA", "id-A"); ("idxB", "id-B")]
  = [(302, LUrl "/protected/c", true); (302, LUrl "/protected/a", true); (302, LUrl "/protected/b", true)].
Proof. vm_compute. reflexivity. Qed.

(* the same answer without the cookie, with another flow's cookie only, with the
   cookie renamed, and after the lifetime: the bare 403 *)
Example ex_refusals :
  let other := [(m_prefix ex_cfg +++ "idxB", nth 1 (map fl_cookie (mw_flows ex_m)) WGarbage)] in
  let renamed := [(m_prefix ex_cfg +++ "idxB", nth 2 (map fl_cookie (mw_flows ex_m)) WGarbage)] in
  snd (step ex_m (Deliver (ex_resp "id-A") [] "idxA" false)) = forbidden
  /\ snd (step ex_m (Deliver (ex_resp "id-A") other "idxA" false)) = forbidden
  /\ snd (step ex_m (Deliver (ex_resp "id-A") other "idxB" false)) = forbidden
  /\ snd (step ex_m (Deliver (ex_resp "id-A") renamed "idxB" false)) = forbidden
  /\ snd (step (fst (step ex_m (Advance (77 * tk_ns_per_s)))) (Deliver {| r_irt := "id-A"; r_issued := mw_clock ex_m + 70 * tk_ns_per_s; r_ok := true; r_assertion := ex_assertion |} ex_full_jar "idxA" false)) = forbidden
  /\ rp_status (snd (step (fst (step ex_m (Advance (76 * tk_ns_per_s)))) (Deliver {| r_irt := "id-A"; r_issued := mw_clock ex_m + 70 * tk_ns_per_s; r_ok := true; r_assertion := ex_assertion |} ex_full_jar "idxA" false))) = 302.
Proof. vm_compute. repeat split; reflexivity. Qed.

Example ex_jar_ok : jar_ok ex_m ex_full_jar.
Proof.
  intros n w H. unfold ex_full_jar in H. apply in_map_iff in H. destruct H as (f & E & Hf).
  injection E as _ <-. apply wo_issued, Hf.
Qed.

(* ---------- the check evaluated on generated histories is sound ---------- *)
Lemma location_eqb_eq a b : location_eqb a b = true -> a = b.
Proof. destruct a, b; simpl; intro H; try discriminate; try reflexivity. apply String.eqb_eq in H; subst; reflexivity. Qed.
Lemma location_eqb_refl a : location_eqb a a = true.
Proof. destruct a; simpl; try reflexivity. apply String.eqb_refl. Qed.

Lemma ocookie_eqb_eq a b : ocookie_eqb a b = true -> a = b.
Proof.
  destruct a, b; unfold ocookie_eqb; simpl; intro H.
  repeat (apply andb_true_iff in H; let H' := fresh "E" in destruct H as [H H']).
  apply String.eqb_eq in H. apply Z.eqb_eq in E8. apply String.eqb_eq in E7. apply String.eqb_eq in E6.
  apply String.eqb_eq in E5. apply Z.eqb_eq in E4. apply Z.eqb_eq in E3. apply Bool.eqb_prop in E2.
  apply Bool.eqb_prop in E1. apply String.eqb_eq in E0. apply Z.eqb_eq in E. subst. reflexivity.
Qed.

Lemma list_eqb_sound {A} (e : A -> A -> bool) : (forall x y, e x y = true -> x = y) ->
  forall a b, list_eqb e a b = true -> a = b.
Proof.
  intros He a; induction a as [|x a IH]; intros [|y b]; simpl; intro H; try reflexivity; try discriminate H.
  apply andb_true_iff in H; destruct H as [H1 H2]. apply He in H1. apply IH in H2. subst; reflexivity.
Qed.

Lemma oreply_eqb_eq a b : oreply_eqb a b = true -> a = b.
Proof.
  destruct a, b; unfold oreply_eqb; simpl; intro H.
  repeat (apply andb_true_iff in H; let H' := fresh "E" in destruct H as [H H']).
  apply Z.eqb_eq in H. apply location_eqb_eq in E3. apply String.eqb_eq in E2.
  apply (list_eqb_sound _ ocookie_eqb_eq) in E1. apply Bool.eqb_prop in E0. apply Z.eqb_eq in E. subst. reflexivity.
Qed.

Lemma wire_eqb_refl w : wire_eqb w w = true.
Proof. destruct w; simpl; [apply token_eqb_refl | reflexivity]. Qed.

(* configurations as samlsp.New builds them: one lifetime, in whole seconds *)
Definition cfg_wf (cfg : mwcfg) : Prop :=
  m_track_cookie_age cfg = m_mid cfg /\ c_max_age (m_tcodec cfg) = m_mid cfg
  /\ (exists k, m_mid cfg = k * tk_ns_per_s) /\ codec_wf (m_tcodec cfg).

Lemma default_cfg_wf o k id secs_ https acs allow dflt post :
  o_key o = KPriv k id -> o_url o <> "" ->
  cfg_wf (default_cfg o (secs_ * tk_ns_per_s) https acs allow dflt post).
Proof.
  intros Hk Hu. unfold cfg_wf. simpl. repeat split; try reflexivity.
  - exists secs_; reflexivity.
  - simpl. unfold verify_sig. simpl. rewrite Hk. destruct k; simpl; rewrite Z.eqb_refl; reflexivity.
  - exact Hu.
  - exact Hu.
Qed.

Lemma sec_shift now k : sec (sec now * tk_ns_per_s + k * tk_ns_per_s) = sec (now + k * tk_ns_per_s).
Proof.
  unfold sec. rewrite <- Z.mul_add_distr_r. rewrite Z.div_mul by (unfold tk_ns_per_s; lia).
  rewrite Z.div_add by (unfold tk_ns_per_s; lia). reflexivity.
Qed.

Lemma start_flow_spec cfg now u idx rid :
  cfg_wf cfg -> nonempty idx = true ->
  let o := project (fst (start_flow cfg now u idx rid)) in
  forallb (cookie_flags_ok cfg false) (or_cookies o) && negb (o_sets_session o)
  && started_flow_ok cfg u o = true.
Proof.
  intros (Hage & Hmax & (k & Hk) & _) Hne. unfold started_flow_ok. simpl. rewrite Hne.
  unfold cookie_flags_ok; simpl. rewrite !String.eqb_refl, Hage, Z.eqb_refl.
  destruct (m_post_binding cfg); destruct (m_acs_https cfg); simpl; rewrite Hmax, Hk, sec_shift, Z.eqb_refl; reflexivity.
Qed.

(* a delivery that satisfies the premises of C17_interleaving is accepted by the model *)
Lemma find_some_in {A} (p : A -> bool) l x : find p l = Some x -> In x l /\ p x = true.
Proof. apply find_some. Qed.

Lemma faithful_accepts m r j relay h f :
  flows_ok m -> codec_wf (m_tcodec (mw_cfg m)) ->
  faithful_delivery m r j relay = Some f ->
  deliver (mw_cfg m) (mw_clock m) r j relay h
  = accept_reply (mw_cfg m) (mw_clock m) r h (fl_uri f) [clear_cookie (mw_cfg m) relay].
Proof.
  intros Hok Hwf H. unfold faithful_delivery in H.
  destruct (honest_jar_b m j && r_ok r && response_fresh (mw_cfg m) (mw_clock m) r) eqn:E1; [|discriminate].
  apply andb_true_iff in E1; destruct E1 as [E1 Hfr]. apply andb_true_iff in E1; destruct E1 as [_ Hrok].
  destruct (relay_flow m j relay) as [f'|] eqn:Er; [|discriminate].
  destruct (String.eqb (fl_req_id f') (r_irt r) && nonempty relay) eqn:E2; [|discriminate].
  injection H as ->. apply andb_true_iff in E2; destruct E2 as [Hid Hne]. apply String.eqb_eq in Hid.
  unfold relay_flow in Er.
  destruct (jar_get (m_prefix (mw_cfg m) +++ relay) j) as [w|] eqn:Ej; [|discriminate].
  apply find_some_in in Er. destruct Er as [Hf Hp].
  apply andb_true_iff in Hp; destruct Hp as [Hp Hl]. apply andb_true_iff in Hp; destruct Hp as [Hi Hw].
  apply String.eqb_eq in Hi. apply wire_eqb_eq in Hw. subst w.
  set (cfg := mw_cfg m) in *. set (now := mw_clock m) in *.
  destruct (Hok f Hf) as [Hc _].
  assert (Hdec : decode_tracking (m_tcodec cfg) now (fl_cookie f) = Some (flow_tracked f)).
  { rewrite Hc. apply tracking_lifetime; [assumption|]. apply flow_live_iff, Hl. }
  assert (Hv : sp_verdict cfg now (possible_ids cfg now j) r = true).
  { unfold sp_verdict. rewrite Hrok, Hfr. simpl. apply orb_true_iff. right. apply mem_str_in.
    unfold possible_ids. apply in_or_app. right. rewrite <- Hid.
    apply in_map_iff. exists (flow_tracked f). split; [reflexivity|]. apply gtr_in.
    exists (m_prefix cfg +++ relay), (fl_cookie f). split; [apply jar_get_in, Ej|].
    split; [apply prefixb_app|]. split; [exact Hdec|]. unfold index_of_name. rewrite drop_app. simpl. symmetry; exact Hi. }
  unfold deliver. fold (possible_ids cfg now j). rewrite Hv. simpl. rewrite Hne.
  unfold get_tracked_request. rewrite Ej, Hdec. simpl. rewrite Hi, String.eqb_refl. reflexivity.
Qed.

Lemma session_cookie_flags cfg now a h :
  cookie_flags_ok cfg h (project_cookie (session_cookie cfg now a h)) = true.
Proof.
  unfold cookie_flags_ok; simpl. rewrite !String.eqb_refl.
  destruct (m_secure cfg || h); reflexivity.
Qed.
Lemma clear_cookie_flags cfg h relay :
  cookie_flags_ok cfg h (project_cookie (clear_cookie cfg relay)) = true.
Proof. unfold cookie_flags_ok; simpl. apply String.eqb_refl. Qed.

Lemma flow_uri_of_cookie cfg f f' : flow_wf cfg f -> flow_wf cfg f' -> fl_cookie f = fl_cookie f' -> fl_uri f = fl_uri f'.
Proof.
  unfold flow_wf. intros H1 H2 E. rewrite H1, H2 in E.
  apply (f_equal (fun w => match w with WToken t => tk_uri t | WGarbage => "" end)) in E. exact E.
Qed.

Lemma deliver_spec_core m r j relay h :
  flows_ok m -> cfg_wf (mw_cfg m) -> jar_ok m j ->
  spec_deliver_core m r j relay h (project (deliver (mw_cfg m) (mw_clock m) r j relay h)) = true.
Proof.
  intros Hok Hcw Hj. destruct Hcw as (_ & _ & _ & Hwf).
  (* the interleaving clause *)
  assert (Hfaith : forall o, o = project (deliver (mw_cfg m) (mw_clock m) r j relay h) ->
            match faithful_delivery m r j relay with
            | Some f => o_sets_session o && location_eqb (or_loc o) (LUrl (fl_uri f))
            | None => true end = true).
  { intros o ->. destruct (faithful_delivery m r j relay) as [f|] eqn:Ef; [|reflexivity].
    rewrite (faithful_accepts m r j relay h f Hok Hwf Ef). simpl. rewrite String.eqb_refl. reflexivity. }
  unfold spec_deliver_core.
  destruct (deliver_cases (mw_cfg m) (mw_clock m) r j relay h) as [H|(Hv & Hcases)].
  - (* refused *)
    rewrite (Hfaith _ eq_refl). rewrite H. reflexivity.
  - assert (Hacc : forall uri cks, deliver (mw_cfg m) (mw_clock m) r j relay h = accept_reply (mw_cfg m) (mw_clock m) r h uri cks ->
              sets_session (snd (step m (Deliver r j relay h)))).
    { intros uri cks E. simpl. rewrite E. apply accept_sets_session. }
    rewrite (Hfaith _ eq_refl), andb_true_r.
    destruct (m_allow_idp (mw_cfg m)) eqn:Hidp.
    + (* IdP-initiated mode: outside the property; flags and status only *)
      destruct Hcases as [(_ & H)|[(_ & tr & _ & H)|(_ & _ & _ & H)]]; rewrite H; simpl;
        rewrite ?session_cookie_flags, ?clear_cookie_flags; reflexivity.
    + destruct (step m (Deliver r j relay h)) as [m' rp] eqn:Hstep.
      assert (Hrp : rp = deliver (mw_cfg m) (mw_clock m) r j relay h) by (simpl in Hstep; injection Hstep as _ <-; reflexivity).
      destruct Hcases as [(He & H)|[(Hne & tr & Hg & H)|(_ & _ & Ha & _)]]; [| |congruence].
      * (* no relay state *)
        assert (Hs : sets_session rp) by (rewrite Hrp, H; apply accept_sets_session).
        destruct (session_needs_own_tracking_cookie m r j relay h m' rp Hok Hj Hidp Hstep Hs)
          as (Hrok & Hfr & f & Hf & Hi & Hin & _ & Hl).
        rewrite H; simpl. rewrite session_cookie_flags.  rewrite Hrok, Hfr. simpl.
        subst relay. simpl. rewrite String.eqb_refl, andb_true_r.
        unfold own_flow_presented. apply existsb_exists. exists f. split; [exact Hf|].
        rewrite Hl, andb_true_r. apply andb_true_iff. split; [rewrite Hi; apply String.eqb_refl|].
        apply existsb_exists. eexists. split; [exact Hin|]. simpl. rewrite String.eqb_refl, wire_eqb_refl. reflexivity.
      * assert (Hs : sets_session rp) by (rewrite Hrp, H; apply accept_sets_session).
        destruct (session_needs_own_tracking_cookie m r j relay h m' rp Hok Hj Hidp Hstep Hs)
          as (Hrok & Hfr & f & Hf & Hi & Hin & _ & Hl).
        destruct (redirect_target m r j relay h m' rp Hok Hj Hidp Hstep Hs) as [_ Hrt].
        destruct (Hrt Hne) as (g & Hg_in & Hgi & Hgj & Hgl & Hloc & _).
        rewrite H; simpl. rewrite session_cookie_flags, clear_cookie_flags.  rewrite Hrok, Hfr. simpl.
        assert (Hown : own_flow_presented m j (r_irt r) = true).
        { unfold own_flow_presented. apply existsb_exists. exists f. split; [exact Hf|].
          rewrite Hl, andb_true_r. apply andb_true_iff. split; [rewrite Hi; apply String.eqb_refl|].
          apply existsb_exists. eexists. split; [exact Hin|]. simpl. rewrite String.eqb_refl, wire_eqb_refl. reflexivity. }
        rewrite Hown. simpl.
        assert (En : nonempty relay = true) by (apply nonempty_iff; exact Hne). rewrite En.
        unfold relay_flow. rewrite Hgj.
        destruct (find _ (mw_flows m)) as [g'|] eqn:Efind.
        -- apply find_some_in in Efind. destruct Efind as [Hg' Hp].
           apply andb_true_iff in Hp; destruct Hp as [Hp _]. apply andb_true_iff in Hp; destruct Hp as [_ Hw].
           apply wire_eqb_eq in Hw.
           assert (Eu : fl_uri g = fl_uri g') by (eapply flow_uri_of_cookie; [apply (Hok g Hg_in) | apply (Hok g' Hg') | exact Hw]).
           rewrite Hrp, H in Hloc. simpl in Hloc. injection Hloc as Hloc.
           rewrite Hloc, Eu, !String.eqb_refl. reflexivity.
        -- exfalso. eapply find_none in Efind; [|exact Hg_in]. simpl in Efind.
           rewrite Hgi, String.eqb_refl, wire_eqb_refl, Hgl in Efind. discriminate.
Qed.

(* a fresh valid answer to an own live flow without RelayState is accepted, to the default *)
Lemma own_presented_default m r j h :
  flows_ok m -> codec_wf (m_tcodec (mw_cfg m)) ->
  r_ok r = true -> response_fresh (mw_cfg m) (mw_clock m) r = true -> own_flow_presented m j (r_irt r) = true ->
  deliver (mw_cfg m) (mw_clock m) r j "" h
  = accept_reply (mw_cfg m) (mw_clock m) r h (m_default_redirect (mw_cfg m)) [].
Proof.
  intros Hok Hwf Hrok Hfr Hown. unfold own_flow_presented in Hown.
  apply existsb_exists in Hown. destruct Hown as (f & Hf & Hp).
  apply andb_true_iff in Hp; destruct Hp as [Hp Hl]. apply andb_true_iff in Hp; destruct Hp as [Hid Hin].
  apply String.eqb_eq in Hid. apply existsb_exists in Hin. destruct Hin as ([n w] & Hnw & Hq). simpl in Hq.
  apply andb_true_iff in Hq; destruct Hq as [Hn Hw]. apply String.eqb_eq in Hn. apply wire_eqb_eq in Hw. subst n w.
  destruct (Hok f Hf) as [Hc _].
  assert (Hdec : decode_tracking (m_tcodec (mw_cfg m)) (mw_clock m) (fl_cookie f) = Some (flow_tracked f)).
  { rewrite Hc. apply tracking_lifetime; [assumption|]. apply flow_live_iff, Hl. }
  assert (Hv : sp_verdict (mw_cfg m) (mw_clock m) (possible_ids (mw_cfg m) (mw_clock m) j) r = true).
  { unfold sp_verdict. rewrite Hrok, Hfr. simpl. apply orb_true_iff. right. apply mem_str_in.
    unfold possible_ids. apply in_or_app. right. rewrite <- Hid.
    apply in_map_iff. exists (flow_tracked f). split; [reflexivity|]. apply gtr_in.
    exists (m_prefix (mw_cfg m) +++ fl_index f), (fl_cookie f). split; [exact Hnw|].
    split; [apply prefixb_app|]. split; [exact Hdec|]. unfold index_of_name. rewrite drop_app. reflexivity. }
  unfold deliver. fold (possible_ids (mw_cfg m) (mw_clock m) j). rewrite Hv. reflexivity.
Qed.

Lemma deliver_spec m r j relay h :
  flows_ok m -> cfg_wf (mw_cfg m) -> jar_ok m j ->
  spec_step m (Deliver r j relay h) (project (deliver (mw_cfg m) (mw_clock m) r j relay h)) = true.
Proof.
  intros Hok Hcw Hj. cbn [spec_step]. rewrite deliver_spec_core by assumption. simpl.
  unfold default_delivery_clause.
  destruct (negb (nonempty relay) && r_ok r && response_fresh (mw_cfg m) (mw_clock m) r && own_flow_presented m j (r_irt r)) eqn:E; [|reflexivity].
  apply andb_true_iff in E; destruct E as [E Hown]. apply andb_true_iff in E; destruct E as [E Hfr].
  apply andb_true_iff in E; destruct E as [Hne Hrok]. apply negb_true_iff in Hne.
  assert (relay = "") as -> by (destruct relay; [reflexivity | discriminate Hne]).
  destruct Hcw as (_ & _ & _ & Hwf).
  rewrite (own_presented_default m r j h Hok Hwf Hrok Hfr Hown). simpl. rewrite String.eqb_refl. reflexivity.
Qed.

Lemma model_step_spec m act :
  flows_ok m -> cfg_wf (mw_cfg m) ->
  match act with
  | Deliver _ j _ _ => jar_ok m j
  | Start _ idx _ | Page _ _ idx _ => nonempty idx = true
  | Advance _ => True
  end ->
  spec_step m act (project (snd (step m act))) = true.
Proof.
  intros Hok Hcw Hj. destruct act as [u idx rid | u j idx rid | r j relay h | dt].
  - cbn [spec_step step].
    change (snd (let '(rp, fl) := start_flow (mw_cfg m) (mw_clock m) u idx rid in (issue m (rp_cookies rp) (Some fl), rp)))
      with (fst (start_flow (mw_cfg m) (mw_clock m) u idx rid)).
    apply start_flow_spec; assumption.
  - cbn [spec_step step]. destruct (get_session _ _ _ _) eqn:Eg.
    + reflexivity.
    + change (snd (let '(rp, fl) := start_flow (mw_cfg m) (mw_clock m) u idx rid in (issue m (rp_cookies rp) (Some fl), rp)))
        with (fst (start_flow (mw_cfg m) (mw_clock m) u idx rid)).
      exact (start_flow_spec (mw_cfg m) (mw_clock m) u idx rid Hcw Hj).
  - simpl step. simpl snd. apply deliver_spec; assumption.
  - reflexivity.
Qed.

(* ---------- scripts ---------- *)
Definition wsrc_ok (cfg : mwcfg) (s : wsrc) : bool :=
  match s with
  | FromIssued _ | Broken _ => true
  | Resigned _ k => negb (key_eqb k (c_key (m_tcodec cfg)))
  | Literal WGarbage => true
  | Literal _ => false
  end.
Definition saction_ok (cfg : mwcfg) (a : saction) : bool :=
  match a with
  | SPage _ j _ rnd _ => nonempty rnd && forallb (fun nv => wsrc_ok cfg (snd nv)) j
  | SDeliver _ j _ _ => forallb (fun nv => wsrc_ok cfg (snd nv)) j
  | SStart _ _ rnd _ => nonempty rnd        (* the random draw is 56 base64url characters *)
  | SAdvance _ => true
  end.

Definition issued_ok (m : mw) : Prop := forall w, In w (mw_issued m) -> wire_ok m w.

Lemma wire_ok_mono m m' w :
  mw_cfg m' = mw_cfg m -> (forall f, In f (mw_flows m) -> In f (mw_flows m')) -> wire_ok m w -> wire_ok m' w.
Proof.
  intros Hc Hf H. destruct H.
  - constructor.
  - apply wo_other_key. rewrite Hc. assumption.
  - apply wo_broken. assumption.
  - apply wo_issued. apply Hf. assumption.
  - apply wo_foreign. rewrite Hc. assumption.
  - apply wo_session.
Qed.

Lemma step_flows_mono m a f : In f (mw_flows m) -> In f (mw_flows (fst (step m a))).
Proof.
  destruct a; simpl; intro H; try assumption; try (right; assumption).
  destruct (get_session _ _ _ _); simpl; [assumption | right; assumption].
Qed.

Lemma step_issued_ok m a : issued_ok m -> issued_ok (fst (step m a)).
Proof.
  intros H w Hw.
  assert (Hold : forall w, In w (mw_issued m) -> wire_ok (fst (step m a)) w).
  { intros w0 H0. eapply wire_ok_mono; [apply step_cfg | intros f; apply step_flows_mono | apply H, H0]. }
  destruct a as [u idx rid | u j idx rid | r j relay h | dt]; simpl in *.
  - apply in_app_or in Hw. destruct Hw as [Hw|[<-|[]]]; [apply Hold, Hw|].
    apply (wo_issued _ (snd (start_flow (mw_cfg m) (mw_clock m) u idx rid))). left; reflexivity.
  - destruct (get_session _ _ _ _) eqn:Eg; simpl in *; [apply H, Hw|].
    apply in_app_or in Hw. destruct Hw as [Hw|[<-|[]]].
    + apply Hold, Hw.
    + apply (wo_issued _ (snd (start_flow (mw_cfg m) (mw_clock m) u idx rid))). left; reflexivity.
  - apply in_app_or in Hw. destruct Hw as [Hw|Hw]; [apply Hold, Hw|].
    apply in_map_iff in Hw. destruct Hw as (ck & <- & Hck).
    destruct (deliver_cases (mw_cfg m) (mw_clock m) r j relay h) as [E|(_ & [(_ & E)|[(_ & tr & _ & E)|(_ & _ & _ & E)]])];
      rewrite E in Hck; simpl in Hck.
    + contradiction.
    + destruct Hck as [<-|[]]. apply wo_session.
    + destruct Hck as [<-|[<-|[]]]; [apply wo_garbage | apply wo_session].
    + destruct Hck as [<-|[]]. apply wo_session.
  - apply Hold, Hw.
Qed.

Lemma nth_issued_ok m k : issued_ok m -> wire_ok m (nth k (mw_issued m) WGarbage).
Proof.
  intro H. destruct (nth_in_or_default k (mw_issued m) WGarbage) as [Hi0 | Hd]; [apply H, Hi0 | rewrite Hd; constructor].
Qed.

Lemma resolve_ok m s : issued_ok m -> wsrc_ok (mw_cfg m) s = true -> wire_ok m (resolve m s).
Proof.
  intros Hi Hs. destruct s as [k | k | k by_ | w]; simpl in *.
  - apply nth_issued_ok, Hi.
  - destruct (nth k (mw_issued m) WGarbage); simpl; [apply wo_broken; reflexivity | constructor].
  - destruct (nth k (mw_issued m) WGarbage); simpl; [|constructor].
    apply wo_other_key. simpl. intro E. rewrite E, key_eqb_refl in Hs. discriminate.
  - destruct w; [discriminate | constructor].
Qed.

Lemma resolve_jar_ok m j : issued_ok m -> forallb (fun nv => wsrc_ok (mw_cfg m) (snd nv)) j = true -> jar_ok m (resolve_jar m j).
Proof.
  intros Hi Hj n w Hin. unfold resolve_jar in Hin. apply in_map_iff in Hin. destruct Hin as ([n' s] & E & Hs).
  injection E as _ <-. rewrite forallb_forall in Hj. apply resolve_ok; [exact Hi | apply (Hj _ Hs)].
Qed.

(* C17 check soundness: on a well-formed script, agreement of every observed
   reply with the model implies the property monitor accepts every step *)
Theorem walk_sound s : forall m obs,
  flows_ok m -> cfg_wf (mw_cfg m) -> issued_ok m ->
  forallb (saction_ok (mw_cfg m)) s = true ->
  fst (walk m s obs) = true -> snd (walk m s obs) = true.
Proof.
  induction s as [|a s IH]; intros m obs Hok Hcw Hi Hs Hag.
  - destruct obs; reflexivity.
  - destruct obs as [|o obs]; [reflexivity|].
    simpl in Hs. apply andb_true_iff in Hs; destruct Hs as [Ha Hs].
    simpl in *. destruct (step m (resolve_action m a)) as [m' rp] eqn:Hstep.
    destruct (walk m' s obs) as [ag' sp'] eqn:Hw. simpl in *.
    apply andb_true_iff in Hag; destruct Hag as [Hag Hag'].
    apply oreply_eqb_eq in Hag. subst o.
    assert (Hm' : m' = fst (step m (resolve_action m a))) by (rewrite Hstep; reflexivity).
    assert (Hrp : rp = snd (step m (resolve_action m a))) by (rewrite Hstep; reflexivity).
    assert (Hc' : mw_cfg m' = mw_cfg m) by (rewrite Hm'; apply step_cfg).
    apply andb_true_iff. split.
    + rewrite Hrp. apply model_step_spec; try assumption.
      destruct a as [u c rnd rid | u j c rnd rid | r j relay h | dt]; simpl in *; try exact I.
      * apply track_index_nonempty, Ha.
      * apply andb_true_iff in Ha. apply track_index_nonempty, Ha.
      * apply resolve_jar_ok; assumption.
    + specialize (IH m' obs). rewrite Hw in IH. simpl in IH. apply IH; try assumption.
      * rewrite Hm'. apply step_flows_ok, Hok.
      * rewrite Hc'. exact Hcw.
      * rewrite Hm'. apply step_issued_ok, Hi.
      * rewrite Hc'. exact Hs.
Qed.

Theorem hcase_check_sound c :
  cfg_wf (hc_cfg c) -> forallb (saction_ok (hc_cfg c)) (hc_script c) = true ->
  hcase_agree c = true -> hcase_spec c = true.
Proof.
  intros Hcw Hs. unfold hcase_agree, hcase_spec. apply walk_sound; try assumption.
  - apply init_flows_ok.
  - intros w [].
Qed.
