(* MiddlewareProofs.v — theorems about Middleware.v (property C17). *)
From Saml Require Import Base Tokens TokensProofs Middleware.
From Coq Require Import Permutation.

(* ---------- strings: the cookie-name prefix ---------- *)
Lemma prefixb_app p s : prefixb p (p +++ s) = true.
Proof. induction p as [|a p IH]; simpl; [reflexivity|]. rewrite Ascii.eqb_refl. exact IH. Qed.
Lemma drop_app p s : drop (String.length p) (p +++ s) = s.
Proof. induction p as [|a p IH]; simpl; [destruct s; reflexivity | exact IH]. Qed.
Lemma prefixb_drop p n : prefixb p n = true -> n = p +++ drop (String.length p) n.
Proof.
  revert n; induction p as [|a p IH]; intros n H; simpl in *.
  - destruct n; reflexivity.
  - destruct n as [|b n]; [discriminate|]. apply andb_true_iff in H; destruct H as [H1 H2].
    apply Ascii.eqb_eq in H1; subst b. f_equal. apply IH, H2.
Qed.
Lemma app_inv_head_s p a b : p +++ a = p +++ b -> a = b.
Proof. induction p as [|c p IH]; simpl; intro H; [exact H | injection H as H; apply IH, H]. Qed.

Lemma mem_str_in x l : mem_str x l = true <-> In x l.
Proof.
  induction l as [|y r IH]; simpl; [split; [discriminate | tauto]|].
  unfold seqb. rewrite orb_true_iff, IH, String.eqb_eq. split; intros [H|H]; auto.
Qed.

Lemma jar_get_in n j w : jar_get n j = Some w -> In (n, w) j.
Proof.
  induction j as [|[n' w'] r IH]; simpl; [discriminate|].
  destruct (String.eqb n' n) eqn:E.
  - apply String.eqb_eq in E; subst. intro H; injection H as ->. left; reflexivity.
  - intro H; right; apply IH, H.
Qed.
Lemma jar_get_of_in n j w0 : In (n, w0) j -> exists w, jar_get n j = Some w /\ In (n, w) j.
Proof.
  induction j as [|[n' w'] r IH]; simpl; [tauto|]. intros [H|H].
  - injection H as -> ->. rewrite String.eqb_refl. exists w0; auto.
  - destruct (String.eqb n' n) eqn:E.
    + apply String.eqb_eq in E; subst. exists w'; auto.
    + destruct (IH H) as (w & Hg & Hi). exists w; auto.
Qed.

(* ---------- GetTrackedRequests ---------- *)
Lemma gtr_in cfg now j tr :
  In tr (get_tracked_requests cfg now j) <->
  exists n w, In (n, w) j /\ prefixb (m_prefix cfg) n = true
              /\ decode_tracking (m_tcodec cfg) now w = Some tr /\ index_of_name cfg n = tr_index tr.
Proof.
  induction j as [|[n w] r IH]; simpl.
  - split; [tauto | intros (n & w & [] & _)].
  - destruct (prefixb (m_prefix cfg) n) eqn:Ep; simpl.
    + destruct (decode_tracking (m_tcodec cfg) now w) as [tr'|] eqn:Ed.
      * destruct (String.eqb (index_of_name cfg n) (tr_index tr')) eqn:Ei.
        -- simpl. rewrite IH. split.
           ++ intros [<-|(n0 & w0 & Hi & H)]; [exists n, w; apply String.eqb_eq in Ei; auto | exists n0, w0; auto].
           ++ intros (n0 & w0 & [Hi|Hi] & Hp & Hd & Hx); [injection Hi as <- <-; left; congruence | right; exists n0, w0; auto].
        -- rewrite IH. split.
           ++ intros (n0 & w0 & Hi & H); exists n0, w0; auto.
           ++ intros (n0 & w0 & [Hi|Hi] & Hp & Hd & Hx); [|exists n0, w0; auto].
              injection Hi as <- <-. rewrite Ed in Hd. injection Hd as <-. rewrite Hx, String.eqb_refl in Ei. discriminate.
      * rewrite IH. split.
        -- intros (n0 & w0 & Hi & H); exists n0, w0; auto.
        -- intros (n0 & w0 & [Hi|Hi] & Hp & Hd & Hx); [injection Hi as <- <-; congruence | exists n0, w0; auto].
    + rewrite IH. split.
      * intros (n0 & w0 & Hi & H); exists n0, w0; auto.
      * intros (n0 & w0 & [Hi|Hi] & Hp & Hd & Hx); [injection Hi as <- <-; congruence | exists n0, w0; auto].
Qed.

(* ---------- invariants of reachable states ---------- *)
Definition flow_wf (cfg : mwcfg) (f : flow) : Prop :=
  fl_cookie f = WToken (mint_tracking (m_arr cfg) (m_tcodec cfg) (fl_start f) (flow_tracked f)).
Definition flows_ok (m : mw) : Prop :=
  forall f, In f (mw_flows m) -> flow_wf (mw_cfg m) f /\ fl_start f <= mw_clock m.

Lemma step_cfg m a : mw_cfg (fst (step m a)) = mw_cfg m.
Proof.
  destruct a; simpl; try reflexivity.
  destruct (get_session _ _ _ _); reflexivity.
Qed.

Lemma start_flow_wf cfg now u idx rid : flow_wf cfg (snd (start_flow cfg now u idx rid)).
Proof. reflexivity. Qed.

Lemma step_flows_ok m a : flows_ok m -> flows_ok (fst (step m a)).
Proof.
  intro H. destruct a; simpl.
  - intros f [<-|Hf]; [split; [apply start_flow_wf | simpl; lia] | apply H, Hf].
  - destruct (get_session _ _ _ _); simpl; [exact H|].
    intros f [<-|Hf]; [split; [apply start_flow_wf | simpl; lia] | apply H, Hf].
  - exact H.
  - intros f Hf. simpl in *. destruct (H f Hf) as [H1 H2]. split; [exact H1 | lia].
Qed.

Lemma run_cfg h : forall m, mw_cfg (run m h) = mw_cfg m.
Proof. induction h as [|a h IH]; intro m; simpl; [reflexivity|]. unfold run in *. simpl. rewrite IH. apply step_cfg. Qed.

Lemma run_flows_ok h : forall m, flows_ok m -> flows_ok (run m h).
Proof. induction h as [|a h IH]; intros m H; simpl; [exact H|]. unfold run in *; simpl. apply IH, step_flows_ok, H. Qed.

Lemma init_flows_ok cfg t0 : flows_ok (init cfg t0).
Proof. intros f []. Qed.

(* indices of the flows of a reachable state are pairwise distinct when the draws are *)
Lemma nodup_middle {A} (a : A) l1 l2 : NoDup (a :: l1 ++ l2) -> NoDup (l1 ++ a :: l2).
Proof. intro H. eapply Permutation_NoDup; [apply Permutation_middle | exact H]. Qed.

Lemma step_indices m a :
  NoDup (map fst (draws_of a) ++ map fl_index (mw_flows m)) ->
  NoDup (map fl_index (mw_flows (fst (step m a)))).
Proof.
  destruct a; simpl; intro H; try exact H.
  - destruct (get_session _ _ _ _); simpl; [inversion H; assumption | exact H].
Qed.

Lemma run_indices h : forall m,
  NoDup (map fst (flat_map draws_of h) ++ map fl_index (mw_flows m)) ->
  NoDup (map fl_index (mw_flows (run m h))).
Proof.
  induction h as [|a h IH]; intros m H; simpl in *; [exact H|].
  unfold run in *; simpl. apply IH.
  rewrite map_app, <- app_assoc in H.
  destruct a; simpl in *; try exact H.
  - apply nodup_middle in H. exact H.
  - destruct (get_session _ _ _ _); simpl.
    + inversion H; assumption.
    + apply nodup_middle in H. exact H.
Qed.

Lemma nodup_map_inj {A B} (g : A -> B) l x y :
  NoDup (map g l) -> In x l -> In y l -> g x = g y -> x = y.
Proof.
  induction l as [|a l IH]; simpl; intros Hn Hx Hy E; [tauto|].
  inversion Hn as [|? ? Hni Hn']; subst.
  destruct Hx as [<-|Hx], Hy as [<-|Hy]; auto.
  - exfalso; apply Hni. rewrite E. apply in_map, Hy.
  - exfalso; apply Hni. rewrite <- E. apply in_map, Hx.
Qed.

(* ---------- what can be in a jar ---------- *)
(* Dolev-Yao closure for the browser's cookie values, relative to the state m:
   garbage; anything signed with another key or with a broken signature;
   the tracking cookies THIS middleware has issued so far; tracking tokens of
   other deployments (differing in key, algorithm, audience or issuer);
   session tokens of anyone, this deployment included. *)
Inductive wire_ok (m : mw) : wire -> Prop :=
| wo_garbage : wire_ok m WGarbage
| wo_other_key t : tk_key t <> c_key (m_tcodec (mw_cfg m)) -> wire_ok m (WToken t)
| wo_broken t : tk_intact t = false -> wire_ok m (WToken t)
| wo_issued f : In f (mw_flows m) -> wire_ok m (fl_cookie f)
| wo_foreign arr c' t0 tr : codec_id c' <> codec_id (m_tcodec (mw_cfg m)) ->
                            wire_ok m (WToken (mint_tracking arr c' t0 tr))
| wo_session c' t0 a : wire_ok m (WToken (mint_session c' t0 a)).
Definition jar_ok (m : mw) (j : jar) : Prop := forall n w, In (n, w) j -> wire_ok m w.

Lemma flow_live_iff cfg now f :
  flow_live cfg now f = true <->
  sec (fl_start f) * tk_ns_per_s <= now < sec (fl_start f + c_max_age (m_tcodec cfg)) * tk_ns_per_s.
Proof. unfold flow_live. rewrite andb_true_iff, Z.leb_le, Z.ltb_lt. tauto. Qed.

(* a cookie value that decodes is an authentic, live cookie of one of our flows *)
Lemma decode_ok_is_flow m now w tr :
  flows_ok m -> wire_ok m w ->
  decode_tracking (m_tcodec (mw_cfg m)) now w = Some tr ->
  exists f, In f (mw_flows m) /\ w = fl_cookie f /\ tr = flow_tracked f /\ flow_live (mw_cfg m) now f = true.
Proof.
  intros Hok Hw Hd. destruct Hw as [ | t Hk | t Hb | f Hf | arr c' t0 tr' Hid | c' t0 a ].
  - discriminate Hd.
  - apply decode_tracking_some in Hd. destruct Hd as (_ & _ & Hs & _). apply verify_sig_true in Hs. destruct Hs; contradiction.
  - apply decode_tracking_some in Hd. destruct Hd as (_ & _ & Hs & _). apply verify_sig_true in Hs. destruct Hs; congruence.
  - destruct (Hok f Hf) as [Hwf _]. exists f. split; [exact Hf|]. split; [reflexivity|].
    rewrite Hwf in Hd. split.
    + exact (tracking_decode_none_or_tr (m_arr (mw_cfg m)) (m_tcodec (mw_cfg m)) (fl_start f) (flow_tracked f) now tr Hd).
    + apply flow_live_iff. apply decode_tracking_some in Hd. destruct Hd as (_ & _ & _ & Hv & _).
      apply reg_window in Hv. exact Hv.
  - exfalso. apply Hid. exact (tracking_mint_accepted_id arr (m_tcodec (mw_cfg m)) c' now t0 tr' tr Hd).
  - rewrite cross_codec_session_as_tracking in Hd. discriminate.
Qed.

(* ---------- deliver: shape of the reply ---------- *)
Definition possible_ids (cfg : mwcfg) (now : Z) (j : jar) : list string :=
  ((if m_allow_idp cfg then [""] else []) ++ map tr_req_id (get_tracked_requests cfg now j))%list.

Definition accept_reply (cfg : mwcfg) (now : Z) (r : response) (req_https : bool) (uri : string) (cks : list setcookie) : reply :=
  {| rp_status := 302; rp_location := LUrl uri; rp_relay := "";
     rp_cookies := (cks ++ [session_cookie cfg now (r_assertion r) req_https])%list; rp_ran := false |}.

Lemma deliver_cases cfg now r j relay h :
  deliver cfg now r j relay h = forbidden
  \/ (sp_verdict cfg now (possible_ids cfg now j) r = true
      /\ ((relay = "" /\ deliver cfg now r j relay h = accept_reply cfg now r h (m_default_redirect cfg) [])
          \/ (relay <> "" /\ exists tr, get_tracked_request cfg now j relay = Ok tr
                             /\ deliver cfg now r j relay h = accept_reply cfg now r h (tr_uri tr) [clear_cookie cfg relay])
          \/ (relay <> "" /\ get_tracked_request cfg now j relay = Err 1 /\ m_allow_idp cfg = true
              /\ deliver cfg now r j relay h = accept_reply cfg now r h relay []))).
Proof.
  unfold deliver. fold (possible_ids cfg now j).
  destruct (sp_verdict cfg now (possible_ids cfg now j) r) eqn:Ev; simpl; [|left; reflexivity].
  destruct (nonempty relay) eqn:En.
  - apply nonempty_iff in En.
    destruct (get_tracked_request cfg now j relay) as [tr|c|] eqn:Eg.
    + right. split; [reflexivity|]. right; left. split; [exact En|]. exists tr. split; reflexivity.
    + destruct c as [|p|p]; try (left; reflexivity).
      destruct p; try (left; reflexivity).
      destruct (m_allow_idp cfg) eqn:Ea; [|left; reflexivity].
      right. split; [reflexivity|]. right; right. repeat split; assumption.
    + left; reflexivity.
  - right. split; [reflexivity|]. left. split; [|reflexivity].
    destruct relay; [reflexivity | discriminate En].
Qed.

Lemma forbidden_no_session : ~ sets_session forbidden.
Proof. intros (ck & [] & _). Qed.

Lemma accept_sets_session cfg now r h uri cks : sets_session (accept_reply cfg now r h uri cks).
Proof. exists (session_cookie cfg now (r_assertion r) h). split; [apply in_or_app; right; left; reflexivity | reflexivity]. Qed.

(* every ACS reply is either the bare 403 or a 302 that sets the session cookie *)
Theorem deliver_dichotomy cfg now r j relay h :
  deliver cfg now r j relay h = forbidden
  \/ (sets_session (deliver cfg now r j relay h) /\ rp_status (deliver cfg now r j relay h) = 302).
Proof.
  destruct (deliver_cases cfg now r j relay h) as [H|(_ & [(_ & H)|[(_ & tr & _ & H)|(_ & _ & _ & H)]])];
    [left; exact H | right; rewrite H; split; [apply accept_sets_session | reflexivity] ..].
Qed.

(* ---------- C17_session_needs_own_tracking_cookie ---------- *)
Theorem session_needs_own_tracking_cookie m r j relay h m' rp :
  flows_ok m -> jar_ok m j -> m_allow_idp (mw_cfg m) = false ->
  step m (Deliver r j relay h) = (m', rp) -> sets_session rp ->
  r_ok r = true /\ response_fresh (mw_cfg m) (mw_clock m) r = true
  /\ exists f, In f (mw_flows m)
               /\ r_irt r = fl_req_id f
               /\ In (m_prefix (mw_cfg m) +++ fl_index f, fl_cookie f) j
               /\ fl_cookie f = WToken (mint_tracking (m_arr (mw_cfg m)) (m_tcodec (mw_cfg m)) (fl_start f) (flow_tracked f))
               /\ flow_live (mw_cfg m) (mw_clock m) f = true.
Proof.
  intros Hok Hj Hidp Hstep Hs. simpl in Hstep. injection Hstep as _ <-.
  set (cfg := mw_cfg m) in *. set (now := mw_clock m) in *.
  destruct (deliver_cases cfg now r j relay h) as [H|(Hv & _)].
  - rewrite H in Hs. exfalso; exact (forbidden_no_session Hs).
  - unfold sp_verdict in Hv. rewrite Hidp in Hv. simpl in Hv.
    apply andb_true_iff in Hv; destruct Hv as [Hv Hm]. apply andb_true_iff in Hv; destruct Hv as [Hrok Hfr].
    split; [exact Hrok|]. split; [exact Hfr|].
    apply mem_str_in in Hm. unfold possible_ids in Hm. rewrite Hidp in Hm. simpl in Hm.
    apply in_map_iff in Hm. destruct Hm as (tr & Hid & Hin).
    apply gtr_in in Hin. destruct Hin as (n & w & Hnw & Hp & Hd & Hx).
    destruct (decode_ok_is_flow m now w tr Hok (Hj n w Hnw) Hd) as (f & Hf & -> & -> & Hl).
    exists f. split; [exact Hf|]. split; [symmetry; exact Hid|].
    split.
    + apply prefixb_drop in Hp. unfold index_of_name in Hx. rewrite Hx in Hp. simpl in Hp. rewrite <- Hp. exact Hnw.
    + split; [apply (Hok f Hf) | exact Hl].
Qed.

(* ---------- C17_redirect_target ---------- *)
Theorem redirect_target m r j relay h m' rp :
  flows_ok m -> jar_ok m j -> m_allow_idp (mw_cfg m) = false ->
  step m (Deliver r j relay h) = (m', rp) -> sets_session rp ->
  (relay = "" -> rp_location rp = LUrl (m_default_redirect (mw_cfg m)))
  /\ (relay <> "" ->
      exists f, In f (mw_flows m) /\ fl_index f = relay
                /\ jar_get (m_prefix (mw_cfg m) +++ relay) j = Some (fl_cookie f)
                /\ flow_live (mw_cfg m) (mw_clock m) f = true
                /\ rp_location rp = LUrl (fl_uri f)
                /\ In (clear_cookie (mw_cfg m) relay) (rp_cookies rp)).
Proof.
  intros Hok Hj Hidp Hstep Hs. simpl in Hstep. injection Hstep as _ <-.
  set (cfg := mw_cfg m) in *. set (now := mw_clock m) in *.
  destruct (deliver_cases cfg now r j relay h) as [H|(Hv & [(He & H)|[(Hne & tr & Hg & H)|(Hne & _ & Ha & _)]])].
  - rewrite H in Hs. exfalso; exact (forbidden_no_session Hs).
  - rewrite H. split; [reflexivity | intro; contradiction].
  - rewrite H. split; [intro; contradiction|]. intros _.
    unfold get_tracked_request in Hg.
    destruct (jar_get (m_prefix cfg +++ relay) j) as [w|] eqn:Ej; [|discriminate].
    destruct (decode_tracking (m_tcodec cfg) now w) as [tr'|] eqn:Ed; [|discriminate].
    destruct (String.eqb (tr_index tr') relay) eqn:Ei; [|discriminate]. injection Hg as ->.
    apply String.eqb_eq in Ei.
    destruct (decode_ok_is_flow m now w tr Hok (Hj _ _ (jar_get_in _ _ _ Ej)) Ed) as (f & Hf & -> & -> & Hl).
    exists f. repeat split; try assumption. simpl. left; reflexivity.
  - congruence.
Qed.

(* the only strings that can reach Location are the default and URIs recorded at a flow start *)
Corollary location_never_attacker_text m r j relay h m' rp :
  flows_ok m -> jar_ok m j -> m_allow_idp (mw_cfg m) = false ->
  step m (Deliver r j relay h) = (m', rp) ->
  rp_location rp = LNone
  \/ rp_location rp = LUrl (m_default_redirect (mw_cfg m))
  \/ exists f, In f (mw_flows m) /\ rp_location rp = LUrl (fl_uri f).
Proof.
  intros Hok Hj Hidp Hstep.
  pose proof Hstep as Hstep'. simpl in Hstep'. injection Hstep' as _ Hrp.
  destruct (deliver_dichotomy (mw_cfg m) (mw_clock m) r j relay h) as [H|[Hs _]].
  - left. rewrite <- Hrp, H. reflexivity.
  - rewrite Hrp in Hs. destruct (redirect_target m r j relay h m' rp Hok Hj Hidp Hstep Hs) as [H1 H2].
    destruct relay as [|c s].
    + right; left. apply H1; reflexivity.
    + right; right. destruct H2 as (f & Hf & _ & _ & _ & Hl & _); [discriminate|]. exists f; auto.
Qed.

(* ---------- C17_refused_without_cookie ---------- *)
Theorem refused_without_cookie m r j relay h m' rp :
  flows_ok m -> jar_ok m j -> m_allow_idp (mw_cfg m) = false ->
  (forall f, In f (mw_flows m) -> r_irt r = fl_req_id f ->
             In (m_prefix (mw_cfg m) +++ fl_index f, fl_cookie f) j ->
             flow_live (mw_cfg m) (mw_clock m) f = false) ->
  step m (Deliver r j relay h) = (m', rp) ->
  rp = forbidden.
Proof.
  intros Hok Hj Hidp Hno Hstep.
  pose proof Hstep as Hstep'. simpl in Hstep'. injection Hstep' as _ Hrp.
  destruct (deliver_dichotomy (mw_cfg m) (mw_clock m) r j relay h) as [H|[Hs _]]; [congruence|].
  rewrite Hrp in Hs.
  destruct (session_needs_own_tracking_cookie m r j relay h m' rp Hok Hj Hidp Hstep Hs) as (_ & _ & f & Hf & Hi & Hin & _ & Hl).
  rewrite (Hno f Hf Hi Hin) in Hl. discriminate.
Qed.

(* ---------- C17_flags ---------- *)
Definition req_https_of (a : action) : bool := match a with Deliver _ _ _ h => h | _ => false end.
Definition cookie_ok (cfg : mwcfg) (req_https : bool) (ck : setcookie) : Prop :=
  match ck_kind ck with
  | CkSession => ck_httponly ck = true /\ ck_secure ck = (m_secure cfg || req_https) /\ ck_path ck = "/"
                 /\ ck_name ck = m_session_name cfg /\ ck_max_age ck = secs (m_session_cookie_age cfg)
  | CkTracking => ck_httponly ck = true /\ ck_secure ck = m_acs_https cfg /\ ck_path ck = m_acs_path cfg
                  /\ ck_max_age ck = secs (m_track_cookie_age cfg)
                  /\ exists now tr, ck_name ck = m_prefix cfg +++ tr_index tr
                                    /\ ck_value ck = WToken (mint_tracking (m_arr cfg) (m_tcodec cfg) now tr)
  | CkClear => ck_path ck = m_acs_path cfg /\ ck_value ck = WGarbage
  end.

Theorem flags m a m' rp :
  step m a = (m', rp) -> forall ck, In ck (rp_cookies rp) -> cookie_ok (mw_cfg m) (req_https_of a) ck.
Proof.
  intros Hstep ck Hin. destruct a; simpl in Hstep.
  - injection Hstep as _ <-. simpl in Hin. destruct Hin as [<-|[]].
    unfold cookie_ok; simpl. repeat split.
    exists (mw_clock m), {| tr_index := idx; tr_req_id := rid; tr_uri := u |}. split; reflexivity.
  - destruct (get_session _ _ _ _); injection Hstep as _ <-; simpl in Hin; [contradiction|].
    destruct Hin as [<-|[]]. unfold cookie_ok; simpl. repeat split.
    exists (mw_clock m), {| tr_index := idx; tr_req_id := rid; tr_uri := u |}. split; reflexivity.
  - injection Hstep as _ <-.
    destruct (deliver_cases (mw_cfg m) (mw_clock m) r j relay req_https) as [H|(_ & [(_ & H)|[(_ & tr & _ & H)|(_ & _ & _ & H)]])];
      rewrite H in Hin; simpl in Hin.
    + contradiction.
    + destruct Hin as [<-|[]]. unfold cookie_ok; simpl. repeat split.
    + destruct Hin as [<-|[<-|[]]]; unfold cookie_ok; simpl; repeat split.
    + destruct Hin as [<-|[]]. unfold cookie_ok; simpl. repeat split.
  - injection Hstep as _ <-. contradiction.
Qed.

(* ---------- C17_tracking_lifetime ---------- *)
Theorem tracking_lifetime_cfg o mid https acs allow dflt post :
  let cfg := default_cfg o mid https acs allow dflt post in
  c_max_age (m_tcodec cfg) = mid /\ m_track_cookie_age cfg = mid /\ m_mid cfg = mid.
Proof. simpl. auto. Qed.

(* the cookie of a flow started at t counts as a tracked request exactly while
   Unix(t) <= now < Unix(t + lifetime), to the nanosecond *)
Theorem tracking_cookie_window m now f :
  flows_ok m -> codec_wf (m_tcodec (mw_cfg m)) -> In f (mw_flows m) ->
  (In (flow_tracked f) (get_tracked_requests (mw_cfg m) now [(m_prefix (mw_cfg m) +++ fl_index f, fl_cookie f)])
   <-> sec (fl_start f) * tk_ns_per_s <= now < sec (fl_start f + c_max_age (m_tcodec (mw_cfg m))) * tk_ns_per_s).
Proof.
  intros Hok Hwf Hf. destruct (Hok f Hf) as [Hc _]. rewrite gtr_in. split.
  - intros (n & w & [Hi|[]] & _ & Hd & _). injection Hi as <- <-. rewrite Hc in Hd.
    apply decode_tracking_some in Hd. destruct Hd as (_ & _ & _ & Hv & _). apply reg_window in Hv. exact Hv.
  - intro Hw. eexists _, _. split; [left; reflexivity|]. split; [apply prefixb_app|]. split.
    + rewrite Hc. apply tracking_lifetime; assumption.
    + unfold index_of_name. rewrite drop_app. reflexivity.
Qed.

(* ---------- C17_interleaving ---------- *)
(* a jar in which every cookie carrying the tracking prefix is a cookie this
   middleware issued, under the name it was issued with *)
Definition honest_jar (m : mw) (j : jar) : Prop :=
  forall n w, In (n, w) j -> prefixb (m_prefix (mw_cfg m)) n = true ->
              exists f, In f (mw_flows m) /\ n = m_prefix (mw_cfg m) +++ fl_index f /\ w = fl_cookie f.

Theorem faithful_delivery_completes m r j h f :
  flows_ok m -> codec_wf (m_tcodec (mw_cfg m)) -> NoDup (map fl_index (mw_flows m)) ->
  In f (mw_flows m) -> fl_index f <> "" ->
  honest_jar m j -> In (m_prefix (mw_cfg m) +++ fl_index f, fl_cookie f) j ->
  flow_live (mw_cfg m) (mw_clock m) f = true ->
  r_ok r = true -> response_fresh (mw_cfg m) (mw_clock m) r = true -> r_irt r = fl_req_id f ->
  snd (step m (Deliver r j (fl_index f) h))
  = accept_reply (mw_cfg m) (mw_clock m) r h (fl_uri f) [clear_cookie (mw_cfg m) (fl_index f)].
Proof.
  intros Hok Hwf Hnd Hf Hne Hj Hin Hl Hrok Hfr Hirt. simpl.
  set (cfg := mw_cfg m) in *. set (now := mw_clock m) in *.
  destruct (Hok f Hf) as [Hc _].
  assert (Hdec : decode_tracking (m_tcodec cfg) now (fl_cookie f) = Some (flow_tracked f)).
  { rewrite Hc. apply tracking_lifetime; [assumption|]. apply flow_live_iff, Hl. }
  assert (Hposs : In (fl_req_id f) (map tr_req_id (get_tracked_requests cfg now j))).
  { apply in_map_iff. exists (flow_tracked f). split; [reflexivity|]. apply gtr_in.
    eexists _, _. split; [exact Hin|]. split; [apply prefixb_app|]. split; [exact Hdec|].
    unfold index_of_name. rewrite drop_app. reflexivity. }
  assert (Hv : sp_verdict cfg now (possible_ids cfg now j) r = true).
  { unfold sp_verdict. rewrite Hrok, Hfr. simpl. apply orb_true_iff. right. apply mem_str_in.
    unfold possible_ids. apply in_or_app. right. rewrite Hirt. exact Hposs. }
  assert (Hg : get_tracked_request cfg now j (fl_index f) = Ok (flow_tracked f)).
  { unfold get_tracked_request.
    destruct (jar_get_of_in _ _ _ Hin) as (w & Hget & Hw). rewrite Hget.
    destruct (Hj _ _ Hw (prefixb_app _ _)) as (f' & Hf' & Hn & ->).
    apply app_inv_head_s in Hn.
    assert (f = f') as <- by (eapply nodup_map_inj; eassumption).
    rewrite Hdec. simpl. rewrite String.eqb_refl. reflexivity. }
  unfold deliver. fold (possible_ids cfg now j). rewrite Hv. simpl.
  assert (En : nonempty (fl_index f) = true) by (apply nonempty_iff; exact Hne).
  rewrite En, Hg. reflexivity.
Qed.

(* the same over histories of any length: whatever was started, answered,
   delivered, requested and however long the clock was advanced before *)
Theorem interleaving cfg t0 hist r j h f :
  let m := run (init cfg t0) hist in
  fresh_draws hist -> codec_wf (m_tcodec cfg) ->
  In f (mw_flows m) -> fl_index f <> "" ->
  honest_jar m j -> In (m_prefix cfg +++ fl_index f, fl_cookie f) j ->
  flow_live cfg (mw_clock m) f = true ->
  r_ok r = true -> response_fresh cfg (mw_clock m) r = true -> r_irt r = fl_req_id f ->
  let rp := snd (step m (Deliver r j (fl_index f) h)) in
  rp_status rp = 302 /\ rp_location rp = LUrl (fl_uri f) /\ sets_session rp
  /\ In (clear_cookie cfg (fl_index f)) (rp_cookies rp).
Proof.
  intros m [Hfresh _] Hwf Hf Hne Hj Hin Hl Hrok Hfr Hirt rp.
  assert (Hcfg : mw_cfg m = cfg) by (unfold m; rewrite run_cfg; reflexivity).
  assert (Hok : flows_ok m) by (apply run_flows_ok, init_flows_ok).
  assert (Hnd : NoDup (map fl_index (mw_flows m))).
  { apply run_indices. simpl. rewrite app_nil_r. exact Hfresh. }
  unfold rp. rewrite (faithful_delivery_completes m r j h f); rewrite ?Hcfg; try assumption.
  simpl. repeat split; [apply accept_sets_session | left; reflexivity].
Qed.

(* reachable-state versions of the security theorems *)
Theorem reachable_session_needs_own_tracking_cookie cfg t0 hist r j relay h :
  let m := run (init cfg t0) hist in
  m_allow_idp cfg = false -> jar_ok m j ->
  sets_session (snd (step m (Deliver r j relay h))) ->
  exists f, In f (mw_flows m) /\ r_irt r = fl_req_id f
            /\ In (m_prefix cfg +++ fl_index f, fl_cookie f) j
            /\ fl_cookie f = WToken (mint_tracking (m_arr cfg) (m_tcodec cfg) (fl_start f) (flow_tracked f))
            /\ fl_start f <= mw_clock m
            /\ mw_clock m < sec (fl_start f + c_max_age (m_tcodec cfg)) * tk_ns_per_s.
Proof.
  intros m Hidp Hj Hs.
  assert (Hcfg : mw_cfg m = cfg) by (unfold m; rewrite run_cfg; reflexivity).
  assert (Hok : flows_ok m) by (apply run_flows_ok, init_flows_ok).
  destruct (step m (Deliver r j relay h)) as [m' rp] eqn:Hstep. simpl in Hs.
  rewrite <- Hcfg in Hidp.
  destruct (session_needs_own_tracking_cookie m r j relay h m' rp Hok Hj Hidp Hstep Hs) as (_ & _ & f & Hf & Hi & Hin & Hc & Hl).
  rewrite Hcfg in *. exists f. repeat split; try assumption.
  - apply (Hok f Hf).
  - apply flow_live_iff in Hl. apply Hl.
Qed.
