(* TokensProofs.v — lemmas and theorems about Tokens.v (property C16). *)
From Saml Require Import Base Tokens.

(* ---------- reflection of the boolean equalities ---------- *)
Lemma alg_eqb_eq a b : alg_eqb a b = true <-> a = b.
Proof. split; [destruct a, b; simpl; intro H; try reflexivity; discriminate H | intros ->; destruct b; reflexivity]. Qed.
Lemma alg_eqb_refl a : alg_eqb a a = true.
Proof. apply alg_eqb_eq; reflexivity. Qed.

Lemma kkind_eqb_eq a b : kkind_eqb a b = true <-> a = b.
Proof. destruct a, b; simpl; split; intro H; try reflexivity; discriminate H. Qed.

Lemma key_eqb_eq a b : key_eqb a b = true <-> a = b.
Proof.
  destruct a, b; simpl; split; intro H; try discriminate H; try reflexivity.
  - apply andb_true_iff in H; destruct H as [H1 H2]. apply kkind_eqb_eq in H1. apply Z.eqb_eq in H2. subst; reflexivity.
  - injection H as -> ->. apply andb_true_iff; split; [apply kkind_eqb_eq | apply Z.eqb_eq]; reflexivity.
  - apply String.eqb_eq in H; subst; reflexivity.
  - injection H as ->. apply String.eqb_refl.
Qed.
Lemma key_eqb_refl a : key_eqb a a = true.
Proof. apply key_eqb_eq; reflexivity. Qed.

Lemma list_eqb_eq {A} (e : A -> A -> bool) :
  (forall x y, e x y = true <-> x = y) -> forall a b, list_eqb e a b = true <-> a = b.
Proof.
  intros He a; induction a as [|x a IH]; intros [|y b]; simpl; split; intro H; try reflexivity; try discriminate H.
  - apply andb_true_iff in H; destruct H as [H1 H2]. apply He in H1. apply IH in H2. subst; reflexivity.
  - injection H as -> ->. apply andb_true_iff; split; [apply He | apply IH]; reflexivity.
Qed.
Lemma strs_eqb_eq a b : strs_eqb a b = true <-> a = b.
Proof. apply list_eqb_eq. intros; apply String.eqb_eq. Qed.
Lemma amap_eqb_eq a b : amap_eqb a b = true <-> a = b.
Proof.
  apply list_eqb_eq. intros [k v] [k' v']; simpl; split; intro H.
  - apply andb_true_iff in H; destruct H as [H1 H2]. apply String.eqb_eq in H1. apply strs_eqb_eq in H2. subst; reflexivity.
  - injection H as -> ->. apply andb_true_iff; split; [apply String.eqb_refl | apply strs_eqb_eq; reflexivity].
Qed.
Lemma optZ_eq_eq a b : optZ_eq a b = true <-> a = b.
Proof.
  destruct a, b; simpl; split; intro H; try reflexivity; try discriminate H.
  - apply Z.eqb_eq in H; subst; reflexivity.
  - injection H as ->; apply Z.eqb_refl.
Qed.
Lemma audv_eqb_eq a b : audv_eqb a b = true <-> a = b.
Proof.
  destruct a, b; simpl; split; intro H; try reflexivity; try discriminate H.
  - apply String.eqb_eq in H; subst; reflexivity.
  - injection H as ->; apply String.eqb_refl.
  - apply strs_eqb_eq in H; subst; reflexivity.
  - injection H as ->; apply strs_eqb_eq; reflexivity.
Qed.
Lemma bool_eqb_eq a b : Bool.eqb a b = true <-> a = b.
Proof. destruct a, b; simpl; split; intro H; try reflexivity; discriminate H. Qed.

Ltac split_andb H :=
  repeat match type of H with
         | (_ && _ = true) => let H1 := fresh H in apply andb_true_iff in H; destruct H as [H H1]
         end.

Lemma token_eqb_eq a b : token_eqb a b = true -> a = b.
Proof.
  destruct a, b; unfold token_eqb; simpl; intro H.
  repeat (apply andb_true_iff in H; let H' := fresh "E" in destruct H as [H H']).
  apply alg_eqb_eq in H. apply key_eqb_eq in E11. apply Bool.eqb_prop in E10. apply audv_eqb_eq in E9.
  apply String.eqb_eq in E8. apply String.eqb_eq in E7. apply optZ_eq_eq in E6. apply optZ_eq_eq in E5.
  apply optZ_eq_eq in E4. apply Bool.eqb_prop in E3. apply Bool.eqb_prop in E2. apply amap_eqb_eq in E1.
  apply String.eqb_eq in E0. apply String.eqb_eq in E. subst. reflexivity.
Qed.
Lemma token_eqb_refl a : token_eqb a a = true.
Proof.
  destruct a; unfold token_eqb; simpl.
  repeat (apply andb_true_iff; split);
    first [apply alg_eqb_refl | apply key_eqb_refl | apply bool_eqb_eq; reflexivity | apply audv_eqb_eq; reflexivity
          | apply String.eqb_refl | apply optZ_eq_eq; reflexivity | apply amap_eqb_eq; reflexivity].
Qed.

Lemma codec_eqb_eq a b : codec_eqb a b = true <-> a = b.
Proof.
  destruct a, b; unfold codec_eqb; simpl; split; intro H.
  - repeat (apply andb_true_iff in H; let H' := fresh "E" in destruct H as [H H']).
    apply alg_eqb_eq in H. apply key_eqb_eq in E2. apply String.eqb_eq in E1. apply String.eqb_eq in E0.
    apply Z.eqb_eq in E. subst; reflexivity.
  - injection H as -> -> -> -> ->.
    repeat (apply andb_true_iff; split);
      first [apply alg_eqb_refl | apply key_eqb_refl | apply String.eqb_refl | apply Z.eqb_refl].
Qed.
Lemma codec_id_eqb_eq a b : codec_id_eqb a b = true <-> codec_id a = codec_id b.
Proof.
  destruct a, b; unfold codec_id_eqb, codec_id; simpl; split; intro H.
  - repeat (apply andb_true_iff in H; let H' := fresh "E" in destruct H as [H H']).
    apply alg_eqb_eq in H. apply key_eqb_eq in E1. apply String.eqb_eq in E0. apply String.eqb_eq in E.
    subst; reflexivity.
  - injection H as -> -> -> ->.
    repeat (apply andb_true_iff; split);
      first [apply alg_eqb_refl | apply key_eqb_refl | apply String.eqb_refl].
Qed.

(* ---------- attribute maps ---------- *)
Lemma amap_get_append m k' v k :
  amap_get k (amap_append m k' v) =
  if String.eqb k' k then Some (amap_lookup k m ++ [v])%list else amap_get k m.
Proof.
  unfold amap_lookup. induction m as [|[k0 vs] r IH]; simpl.
  - destruct (String.eqb k' k); reflexivity.
  - destruct (String.eqb k0 k') eqn:E0; simpl.
    + apply String.eqb_eq in E0; subst k0. destruct (String.eqb k' k); reflexivity.
    + destruct (String.eqb k0 k) eqn:E1.
      * apply String.eqb_eq in E1; subst k0. rewrite String.eqb_sym, E0. reflexivity.
      * exact IH.
Qed.

Lemma amap_lookup_append m k' v k :
  amap_lookup k (amap_append m k' v) =
  if String.eqb k' k then (amap_lookup k m ++ [v])%list else amap_lookup k m.
Proof.
  unfold amap_lookup at 1. rewrite amap_get_append. destruct (String.eqb k' k); reflexivity.
Qed.

Lemma lookup_add_values k n vs : forall m,
  amap_lookup k (fold_left (fun m v => amap_append m n v) vs m) =
  (amap_lookup k m ++ (if String.eqb n k then vs else []))%list.
Proof.
  induction vs as [|v vs IH]; intro m; simpl.
  - destruct (String.eqb n k); rewrite app_nil_r; reflexivity.
  - rewrite IH, amap_lookup_append. destruct (String.eqb n k).
    + rewrite <- app_assoc. reflexivity.
    + reflexivity.
Qed.

Definition attr_pick (k : string) (a : attribute) : list string :=
  if String.eqb (claim_name a) k then at_values a else [].

Lemma lookup_add_attribute k a m :
  amap_lookup k (add_attribute m a) = (amap_lookup k m ++ attr_pick k a)%list.
Proof. unfold add_attribute, attr_pick. apply lookup_add_values. Qed.

Lemma lookup_add_statement k st : forall m,
  amap_lookup k (add_statement m st) = (amap_lookup k m ++ flat_map (attr_pick k) st)%list.
Proof.
  unfold add_statement. induction st as [|a st IH]; intro m; simpl.
  - rewrite app_nil_r; reflexivity.
  - rewrite IH, lookup_add_attribute, <- app_assoc. reflexivity.
Qed.

Lemma lookup_add_statements k sts : forall m,
  amap_lookup k (fold_left add_statement sts m) =
  (amap_lookup k m ++ flat_map (attr_pick k) (List.concat sts))%list.
Proof.
  induction sts as [|st sts IH]; intro m; simpl.
  - rewrite app_nil_r; reflexivity.
  - rewrite IH, lookup_add_statement, flat_map_app, <- app_assoc. reflexivity.
Qed.

(* what the application finds under every name is exactly the assertion's values *)
Lemma attrs_lookup k a : amap_lookup k (attrs_of_assertion a) = attr_values_spec k a.
Proof.
  unfold attrs_of_assertion, attr_values_spec.
  rewrite lookup_add_values, lookup_add_statements. reflexivity.
Qed.

(* keys stay distinct *)
Lemma keys_append m k v x :
  In x (map fst (amap_append m k v)) <-> x = k \/ In x (map fst m).
Proof.
  induction m as [|[k0 vs] r IH]; simpl.
  - intuition.
  - destruct (String.eqb k0 k) eqn:E; simpl.
    + apply String.eqb_eq in E; subst. intuition.
    + rewrite IH. intuition.
Qed.
Lemma nodup_append m k v : NoDup (map fst m) -> NoDup (map fst (amap_append m k v)).
Proof.
  induction m as [|[k0 vs] r IH]; simpl; intro H.
  - constructor; [intros [] | constructor].
  - inversion H as [|? ? Hn Hr]; subst. destruct (String.eqb k0 k) eqn:E; simpl.
    + constructor; assumption.
    + constructor; [|apply IH; assumption].
      intro Hi. apply keys_append in Hi. destruct Hi as [->|Hi]; [|contradiction].
      rewrite String.eqb_refl in E; discriminate.
Qed.
Lemma nodup_fold_append n vs : forall m, NoDup (map fst m) ->
  NoDup (map fst (fold_left (fun m v => amap_append m n v) vs m)).
Proof. induction vs; intros m H; simpl; [assumption | apply IHvs, nodup_append, H]. Qed.
Lemma nodup_add_statement st : forall m, NoDup (map fst m) -> NoDup (map fst (add_statement m st)).
Proof.
  unfold add_statement. induction st; intros m H; simpl; [assumption|].
  apply IHst. unfold add_attribute. apply nodup_fold_append, H.
Qed.
Lemma nodup_attrs a : NoDup (map fst (attrs_of_assertion a)).
Proof.
  unfold attrs_of_assertion. apply nodup_fold_append.
  assert (G : forall sts m, NoDup (map fst m) -> NoDup (map fst (fold_left add_statement sts m))).
  { induction sts as [|st sts IH]; intros m H; simpl; [exact H|]. apply IH, nodup_add_statement, H. }
  apply G. constructor.
Qed.

(* sorting the keys (encoding/json) does not change what is found under a name *)
Lemma keys_insert kv m x : In x (map fst (amap_insert kv m)) <-> x = fst kv \/ In x (map fst m).
Proof.
  induction m as [|kv' r IH]; simpl.
  - intuition.
  - destruct (String.leb (fst kv) (fst kv')); simpl; [intuition|]. rewrite IH. intuition.
Qed.
Lemma keys_sort m x : In x (map fst (amap_sort m)) <-> In x (map fst m).
Proof.
  induction m as [|kv r IH]; simpl; [reflexivity|].
  rewrite keys_insert, IH. intuition.
Qed.
Lemma get_insert kv m k : ~ In (fst kv) (map fst m) ->
  amap_get k (amap_insert kv m) = if String.eqb (fst kv) k then Some (snd kv) else amap_get k m.
Proof.
  induction m as [|kv' r IH]; intro Hn; simpl.
  - destruct kv; reflexivity.
  - destruct (String.leb (fst kv) (fst kv')); simpl.
    + destruct kv; reflexivity.
    + destruct kv' as [k' v']; simpl in *.
      rewrite IH by tauto.
      destruct (String.eqb k' k) eqn:E1; [|reflexivity].
      destruct (String.eqb (fst kv) k) eqn:E2; [|reflexivity].
      apply String.eqb_eq in E1, E2. subst. exfalso; apply Hn; left; reflexivity.
Qed.
Lemma get_sort m k : NoDup (map fst m) -> amap_get k (amap_sort m) = amap_get k m.
Proof.
  induction m as [|[k0 v0] r IH]; simpl; intro H; [reflexivity|].
  inversion H as [|? ? Hn Hr]; subst.
  rewrite get_insert by (rewrite keys_sort; exact Hn). simpl. rewrite IH by assumption. reflexivity.
Qed.
Lemma lookup_sort m k : NoDup (map fst m) -> amap_lookup k (amap_sort m) = amap_lookup k m.
Proof. intro H; unfold amap_lookup; rewrite get_sort by assumption; reflexivity. Qed.

Lemma session_attrs_exact k a :
  amap_lookup k (amap_sort (attrs_of_assertion a)) = attr_values_spec k a.
Proof. rewrite lookup_sort by apply nodup_attrs. apply attrs_lookup. Qed.

(* ---------- decoding: inversion ---------- *)
Lemma verify_sig_true k t : verify_sig k t = true -> tk_key t = k /\ tk_intact t = true.
Proof.
  unfold verify_sig. destruct (alg_family (tk_alg t)); try discriminate; destruct k as [[]| |]; try discriminate;
    intro H; apply andb_true_iff in H; destruct H as [H1 H2]; apply key_eqb_eq in H1; auto.
Qed.

Lemma nonempty_iff s : nonempty s = true <-> s <> "".
Proof. destruct s; simpl; split; intro H; try discriminate; try reflexivity. contradiction H; reflexivity. Qed.

Lemma verify_iss_true i c : verify_iss i c = true <-> i = c /\ i <> "".
Proof.
  unfold verify_iss. destruct (nonempty i) eqn:E.
  - apply nonempty_iff in E. rewrite String.eqb_eq. tauto.
  - split; [discriminate|]. intros [_ H]. apply nonempty_iff in H. congruence.
Qed.

Lemma verify_aud_single s c : verify_aud [s] c = true <-> s = c /\ s <> "".
Proof.
  unfold verify_aud. cbn [String.concat existsb]. destruct (nonempty s) eqn:E.
  - apply nonempty_iff in E. rewrite orb_false_r, String.eqb_eq. tauto.
  - split; [discriminate|]. intros [_ H]. apply nonempty_iff in H. congruence.
Qed.

Ltac break_ifs :=
  repeat match goal with
         | |- context [if negb ?b then _ else _] => destruct b eqn:?; cbn [negb]
         end.

Lemma decode_session_some c now t cl :
  decode_session c now (WToken t) = Some cl <->
  (session_json_ok t = true /\ alg_registered (tk_alg t) = true /\ alg_eqb (tk_alg t) (c_alg c) = true
   /\ verify_sig (c_key c) t = true /\ std_time_valid (sec now) t = true
   /\ verify_aud (std_aud (tk_aud t)) (c_aud c) = true /\ verify_iss (tk_iss t) (c_iss c) = true
   /\ tk_session_marker t = true /\ cl = {| cl_sub := tk_sub t; cl_attrs := tk_attrs t |}).
Proof.
  unfold decode_session, decode_session_o. break_ifs; simpl; split; intro H;
    try discriminate; try (injection H as <-); intuition (try discriminate; try congruence).
Qed.

Lemma decode_tracking_some c now t tr :
  decode_tracking c now (WToken t) = Some tr <->
  (alg_registered (tk_alg t) = true /\ alg_eqb (tk_alg t) (c_alg c) = true
   /\ verify_sig (c_key c) t = true /\ reg_time_valid now t = true
   /\ verify_aud (reg_aud (tk_aud t)) (c_aud c) = true /\ verify_iss (tk_iss t) (c_iss c) = true
   /\ tk_request_marker t = true
   /\ tr = {| tr_index := tk_sub t; tr_req_id := tk_req_id t; tr_uri := tk_uri t |}).
Proof.
  unfold decode_tracking, decode_tracking_o. break_ifs; simpl; split; intro H;
    try discriminate; try (injection H as <-); intuition (try discriminate; try congruence).
Qed.

Lemma decode_session_garbage c now : decode_session c now WGarbage = None.
Proof. reflexivity. Qed.
Lemma decode_tracking_garbage c now : decode_tracking c now WGarbage = None.
Proof. reflexivity. Qed.

(* ---------- time windows ---------- *)
Lemma omit0_pos z : 0 < z -> omit0 z = Some z.
Proof. intro H; unfold omit0. destruct (z =? 0) eqn:E; [apply Z.eqb_eq in E; lia | reflexivity]. Qed.

Lemma std_window c t0 a now_s :
  mint_time_ok c t0 ->
  (std_time_valid now_s (mint_session c t0 a) = true <-> sec t0 <= now_s < sec (t0 + c_max_age c)).
Proof.
  intros [H1 H2]. unfold std_time_valid; simpl. rewrite !omit0_pos by assumption. simpl.
  destruct (sec (t0 + c_max_age c) =? 0) eqn:E1; [apply Z.eqb_eq in E1; lia|].
  destruct (sec t0 =? 0) eqn:E2; [apply Z.eqb_eq in E2; lia|].
  rewrite !andb_true_iff, Z.ltb_lt, Z.leb_le. lia.
Qed.

Lemma reg_window arr c t0 tr now :
  reg_time_valid now (mint_tracking arr c t0 tr) = true <->
  sec t0 * tk_ns_per_s <= now < sec (t0 + c_max_age c) * tk_ns_per_s.
Proof.
  unfold reg_time_valid; simpl. rewrite !andb_true_iff, Z.ltb_lt, Z.leb_le. lia.
Qed.

(* ---------- the Dolev-Yao closure ---------- *)
(* Everything that can reach the session codec c of a deployment whose private
   key the attacker does not hold:
   - bytes that are not a well-formed token;
   - any token whatsoever whose signature was made with another key (another
     RSA/EC key, an HMAC secret such as the PEM/DER/modulus of the public key,
     no key at all for alg "none"), under any header algorithm;
   - any token whose signature no longer matches its header and claims (claims
     or header edited, signature truncated or bit-flipped);
   - replay of an honest session token: of this very codec, or of any other
     deployment, i.e. any codec differing in key, algorithm, audience or
     issuer — in particular the SAME key with another alg/audience/issuer;
   - replay of an honest request-tracking token of this or any other
     deployment (same key, issuer and audience included). *)
Inductive dy_session (c : codec) : wire -> Prop :=
| dys_garbage : dy_session c WGarbage
| dys_other_key t : tk_key t <> c_key c -> dy_session c (WToken t)
| dys_broken t : tk_intact t = false -> dy_session c (WToken t)
| dys_session c' t0 a : c' = c \/ codec_id c' <> codec_id c -> mint_time_ok c' t0 ->
                        dy_session c (WToken (mint_session c' t0 a))
| dys_tracking arr c' t0 tr : dy_session c (WToken (mint_tracking arr c' t0 tr)).

(* the same for the request-tracking codec c *)
Inductive dy_tracking (c : codec) : wire -> Prop :=
| dyt_garbage : dy_tracking c WGarbage
| dyt_other_key t : tk_key t <> c_key c -> dy_tracking c (WToken t)
| dyt_broken t : tk_intact t = false -> dy_tracking c (WToken t)
| dyt_tracking arr c' t0 tr : c' = c \/ codec_id c' <> codec_id c ->
                              dy_tracking c (WToken (mint_tracking arr c' t0 tr))
| dyt_session c' t0 a : dy_tracking c (WToken (mint_session c' t0 a)).

Lemma std_aud_omitempty s : std_aud (aud_omitempty s) = [s].
Proof. unfold aud_omitempty. destruct s; reflexivity. Qed.

(* a session token minted by c' that c accepts: c' has c's identity *)
Lemma session_mint_accepted_id c c' now t0 a cl :
  decode_session c now (WToken (mint_session c' t0 a)) = Some cl -> codec_id c' = codec_id c.
Proof.
  intro H. apply decode_session_some in H. simpl in H.
  destruct H as (_ & _ & Ha & Hs & _ & Hau & Hi & _).
  apply alg_eqb_eq in Ha. apply verify_sig_true in Hs; simpl in Hs; destruct Hs as [Hk _].
  rewrite std_aud_omitempty in Hau. apply verify_aud_single in Hau. apply verify_iss_true in Hi.
  unfold codec_id. destruct Hau as [-> _], Hi as [-> _]. rewrite Ha, Hk. reflexivity.
Qed.

Lemma tracking_mint_accepted_id arr c c' now t0 tr tr' :
  decode_tracking c now (WToken (mint_tracking arr c' t0 tr)) = Some tr' -> codec_id c' = codec_id c.
Proof.
  intro H. apply decode_tracking_some in H. simpl in H.
  destruct H as (_ & Ha & Hs & _ & Hau & Hi & _).
  apply alg_eqb_eq in Ha. apply verify_sig_true in Hs; simpl in Hs; destruct Hs as [Hk _].
  assert (Hau' : verify_aud [c_aud c'] (c_aud c) = true) by (destruct arr; exact Hau).
  apply verify_aud_single in Hau'. apply verify_iss_true in Hi.
  unfold codec_id. destruct Hau' as [-> _], Hi as [-> _]. rewrite Ha, Hk. reflexivity.
Qed.

(* C16: a session is recognised only for a token this codec minted, inside its lifetime,
   and the claims handed to the application are those of the assertion *)
Theorem session_only_if_minted c now w cl :
  dy_session c w -> decode_session c now w = Some cl ->
  exists a t0, w = WToken (mint_session c t0 a)
               /\ sec t0 <= sec now < sec (t0 + c_max_age c)
               /\ cl_sub cl = subject_of a
               /\ forall k, amap_lookup k (cl_attrs cl) = attr_values_spec k a.
Proof.
  intros Hdy Hdec. destruct Hdy as [ | t Hk | t Hb | c' t0 a Hid Ht | arr c' t0 tr ].
  - discriminate Hdec.
  - apply decode_session_some in Hdec. destruct Hdec as (_ & _ & _ & Hs & _).
    apply verify_sig_true in Hs. destruct Hs; contradiction.
  - apply decode_session_some in Hdec. destruct Hdec as (_ & _ & _ & Hs & _).
    apply verify_sig_true in Hs. destruct Hs; congruence.
  - assert (c' = c) as ->.
    { destruct Hid as [E|N]; [exact E|]. exfalso; apply N. eapply session_mint_accepted_id; eassumption. }
    exists a, t0. split; [reflexivity|].
    apply decode_session_some in Hdec. destruct Hdec as (_ & _ & _ & _ & Hv & _ & _ & _ & ->).
    apply std_window in Hv; [|assumption]. split; [exact Hv|]. split; [reflexivity|].
    intro k; simpl. apply session_attrs_exact.
  - apply decode_session_some in Hdec. simpl in Hdec. intuition discriminate.
Qed.

Theorem tracking_only_if_minted c now w got :
  dy_tracking c w -> decode_tracking c now w = Some got ->
  exists arr tr t0, w = WToken (mint_tracking arr c t0 tr)
                    /\ sec t0 * tk_ns_per_s <= now < sec (t0 + c_max_age c) * tk_ns_per_s
                    /\ got = tr.
Proof.
  intros Hdy Hdec. destruct Hdy as [ | t Hk | t Hb | arr c' t0 tr Hid | c' t0 a ].
  - discriminate Hdec.
  - apply decode_tracking_some in Hdec. destruct Hdec as (_ & _ & Hs & _).
    apply verify_sig_true in Hs. destruct Hs; contradiction.
  - apply decode_tracking_some in Hdec. destruct Hdec as (_ & _ & Hs & _).
    apply verify_sig_true in Hs. destruct Hs; congruence.
  - assert (c' = c) as ->.
    { destruct Hid as [E|N]; [exact E|]. exfalso; apply N. eapply tracking_mint_accepted_id; eassumption. }
    exists arr, tr, t0. split; [reflexivity|].
    apply decode_tracking_some in Hdec. destruct Hdec as (_ & _ & _ & Hv & _ & _ & _ & ->).
    apply reg_window in Hv. split; [exact Hv|]. destruct tr; reflexivity.
  - apply decode_tracking_some in Hdec. simpl in Hdec. intuition discriminate.
Qed.

(* ---------- lifetime ---------- *)
(* a codec as samlsp.New builds it: the algorithm fits the key, audience and issuer are not empty *)
Definition codec_wf (c : codec) : Prop :=
  verify_sig (c_key c) {| tk_alg := c_alg c; tk_key := c_key c; tk_intact := true; tk_aud := AudAbsent; tk_iss := "";
                          tk_sub := ""; tk_iat := None; tk_nbf := None; tk_exp := None; tk_session_marker := false;
                          tk_request_marker := false; tk_attrs := []; tk_req_id := ""; tk_uri := "" |} = true
  /\ c_aud c <> "" /\ c_iss c <> "".

Lemma codec_wf_sig c t : codec_wf c -> tk_alg t = c_alg c -> tk_key t = c_key c -> tk_intact t = true ->
  verify_sig (c_key c) t = true /\ alg_registered (tk_alg t) = true.
Proof.
  intros [H _] Ha Hk Hi. unfold verify_sig in *. simpl in H. rewrite Ha, Hk, Hi.
  split.
  - destruct (alg_family (c_alg c)), (c_key c) as [[]| |]; try discriminate H; rewrite key_eqb_refl; reflexivity.
  - destruct (c_alg c); try reflexivity; simpl in H; discriminate H.
Qed.

Theorem session_lifetime c t0 a now :
  codec_wf c -> mint_time_ok c t0 ->
  ((exists cl, decode_session c now (WToken (mint_session c t0 a)) = Some cl)
   <-> sec t0 <= sec now < sec (t0 + c_max_age c)).
Proof.
  intros Hwf Ht. split.
  - intros [cl H]. apply decode_session_some in H. destruct H as (_ & _ & _ & _ & Hv & _).
    apply std_window in Hv; assumption.
  - intro Hw. eexists. apply decode_session_some.
    destruct (codec_wf_sig c (mint_session c t0 a) Hwf eq_refl eq_refl eq_refl) as [Hs Hr].
    destruct Hwf as (_ & Hau & His).
    repeat split; try assumption.
    + unfold session_json_ok, mint_session, aud_omitempty; simpl. destruct (nonempty (c_aud c)); reflexivity.
    + apply alg_eqb_refl.
    + apply std_window; assumption.
    + simpl. rewrite std_aud_omitempty. apply verify_aud_single. tauto.
    + simpl. apply verify_iss_true. tauto.
Qed.

Theorem tracking_lifetime arr c t0 tr now :
  codec_wf c ->
  (decode_tracking c now (WToken (mint_tracking arr c t0 tr)) = Some tr
   <-> sec t0 * tk_ns_per_s <= now < sec (t0 + c_max_age c) * tk_ns_per_s).
Proof.
  intros Hwf. split.
  - intros H. apply decode_tracking_some in H. destruct H as (_ & _ & _ & Hv & _).
    apply reg_window in Hv; assumption.
  - intro Hw. apply decode_tracking_some.
    destruct (codec_wf_sig c (mint_tracking arr c t0 tr) Hwf eq_refl eq_refl eq_refl) as [Hs Hr].
    destruct Hwf as (_ & Hau & His).
    repeat split; try assumption.
    + apply alg_eqb_refl.
    + apply reg_window; assumption.
    + assert (G : verify_aud [c_aud c] (c_aud c) = true) by (apply verify_aud_single; tauto).
      simpl. destruct arr; exact G.
    + simpl. apply verify_iss_true. tauto.
    + destruct tr; reflexivity.
Qed.

Lemma tracking_decode_none_or_tr arr c t0 tr now got :
  decode_tracking c now (WToken (mint_tracking arr c t0 tr)) = Some got -> got = tr.
Proof.
  intro H. apply decode_tracking_some in H. destruct H as (_ & _ & _ & _ & _ & _ & _ & ->). destruct tr; reflexivity.
Qed.

(* ---------- claims ---------- *)
Theorem session_claims_exact c now t0 a cl :
  decode_session c now (WToken (mint_session c t0 a)) = Some cl ->
  cl_sub cl = subject_of a
  /\ cl_attrs cl = amap_sort (attrs_of_assertion a)
  /\ forall k, amap_lookup k (cl_attrs cl) = attr_values_spec k a.
Proof.
  intro H. apply decode_session_some in H. destruct H as (_ & _ & _ & _ & _ & _ & _ & _ & ->). simpl.
  split; [reflexivity|]. split; [reflexivity|]. intro k; apply session_attrs_exact.
Qed.

(* ---------- cross-codec ---------- *)
Theorem cross_codec_tracking_as_session arr c c' now t0 tr :
  decode_session c now (WToken (mint_tracking arr c' t0 tr)) = None.
Proof.
  destruct (decode_session c now (WToken (mint_tracking arr c' t0 tr))) eqn:E; [|reflexivity].
  apply decode_session_some in E. simpl in E. intuition discriminate.
Qed.
Theorem cross_codec_session_as_tracking c c' now t0 a :
  decode_tracking c now (WToken (mint_session c' t0 a)) = None.
Proof.
  destruct (decode_tracking c now (WToken (mint_session c' t0 a))) eqn:E; [|reflexivity].
  apply decode_tracking_some in E. simpl in E. intuition discriminate.
Qed.

(* ---------- named exclusions ---------- *)
Lemma session_reject_alg c now t : tk_alg t <> c_alg c -> decode_session c now (WToken t) = None.
Proof.
  intro H. destruct (decode_session c now (WToken t)) eqn:E; [|reflexivity].
  apply decode_session_some in E. destruct E as (_ & _ & Ha & _). apply alg_eqb_eq in Ha. contradiction.
Qed.
Lemma session_reject_key c now t : tk_key t <> c_key c -> decode_session c now (WToken t) = None.
Proof.
  intro H. destruct (decode_session c now (WToken t)) eqn:E; [|reflexivity].
  apply decode_session_some in E. destruct E as (_ & _ & _ & Hs & _). apply verify_sig_true in Hs. destruct Hs; contradiction.
Qed.
Lemma session_reject_altered c now t : tk_intact t = false -> decode_session c now (WToken t) = None.
Proof.
  intro H. destruct (decode_session c now (WToken t)) eqn:E; [|reflexivity].
  apply decode_session_some in E. destruct E as (_ & _ & _ & Hs & _). apply verify_sig_true in Hs. destruct Hs; congruence.
Qed.
(* alg "none" and the HMAC family never verify against a public key, whatever the allowed list says *)
Lemma session_reject_none_hmac c now t :
  alg_family (tk_alg t) = FNone \/ alg_family (tk_alg t) = FHmac -> decode_session c now (WToken t) = None.
Proof.
  intro H. destruct (decode_session c now (WToken t)) eqn:E; [|reflexivity].
  apply decode_session_some in E. destruct E as (_ & _ & _ & Hs & _). unfold verify_sig in Hs.
  destruct H as [H|H]; rewrite H in Hs; discriminate Hs.
Qed.
Lemma session_reject_no_marker c now t : tk_session_marker t = false -> decode_session c now (WToken t) = None.
Proof.
  intro H. destruct (decode_session c now (WToken t)) eqn:E; [|reflexivity].
  apply decode_session_some in E. intuition congruence.
Qed.
Lemma session_reject_audience c now t s : std_aud (tk_aud t) = [s] -> s <> c_aud c -> decode_session c now (WToken t) = None.
Proof.
  intros Hs H. destruct (decode_session c now (WToken t)) eqn:E; [|reflexivity].
  apply decode_session_some in E. destruct E as (_ & _ & _ & _ & _ & Ha & _). rewrite Hs in Ha.
  apply verify_aud_single in Ha. destruct Ha; contradiction.
Qed.
Lemma session_reject_issuer c now t : tk_iss t <> c_iss c -> decode_session c now (WToken t) = None.
Proof.
  intro H. destruct (decode_session c now (WToken t)) eqn:E; [|reflexivity].
  apply decode_session_some in E. destruct E as (_ & _ & _ & _ & _ & _ & Hi & _).
  apply verify_iss_true in Hi. destruct Hi; contradiction.
Qed.
Lemma session_reject_expired c now t e : tk_exp t = Some e -> e <> 0 -> e <= sec now -> decode_session c now (WToken t) = None.
Proof.
  intros He Hz Hle. destruct (decode_session c now (WToken t)) eqn:E; [|reflexivity].
  apply decode_session_some in E. destruct E as (_ & _ & _ & _ & Hv & _).
  unfold std_time_valid in Hv. rewrite He in Hv. simpl in Hv.
  destruct (e =? 0) eqn:E0; [apply Z.eqb_eq in E0; contradiction|].
  apply andb_true_iff in Hv; destruct Hv as [Hv _]. apply andb_true_iff in Hv; destruct Hv as [Hv _].
  apply Z.ltb_lt in Hv. lia.
Qed.
Lemma session_reject_not_yet c now t f :
  tk_nbf t = Some f \/ tk_iat t = Some f -> f <> 0 -> sec now < f -> decode_session c now (WToken t) = None.
Proof.
  intros Hf Hz Hlt. destruct (decode_session c now (WToken t)) eqn:E; [|reflexivity].
  apply decode_session_some in E. destruct E as (_ & _ & _ & _ & Hv & _).
  unfold std_time_valid in Hv. apply andb_true_iff in Hv; destruct Hv as [Hv Hn].
  apply andb_true_iff in Hv; destruct Hv as [_ Hi].
  destruct Hf as [Hf|Hf]; rewrite Hf in *; simpl in *;
    (destruct (f =? 0) eqn:E0; [apply Z.eqb_eq in E0; contradiction |]).
  - apply Z.leb_le in Hn. lia.
  - apply Z.leb_le in Hi. lia.
Qed.

(* ---------- deployments (samlsp/new.go) ---------- *)
Theorem other_deployment_rejected o1 o2 m1 m2 now t0 a :
  o_url o1 <> o_url o2 \/ o_key o1 <> o_key o2 ->
  decode_session (with_max_age (session_codec_of o2) m2) now
                 (WToken (mint_session (with_max_age (session_codec_of o1) m1) t0 a)) = None.
Proof.
  intro H.
  destruct (decode_session _ now _) eqn:E; [|reflexivity]. exfalso.
  apply session_mint_accepted_id in E. unfold codec_id in E.
  destruct m1, m2; simpl in E; injection E as _ Hk Hu _; destruct H; congruence.
Qed.

Lemma codec_of_opts_wf o k id m : o_key o = KPriv k id -> o_url o <> "" ->
  codec_wf (with_max_age (session_codec_of o) m).
Proof.
  intros Hk Hu. unfold codec_wf, verify_sig.
  assert (G : c_key (with_max_age (session_codec_of o) m) = KPriv k id) by (destruct m; exact Hk).
  assert (Ga : c_alg (with_max_age (session_codec_of o) m) = default_alg (KPriv k id)) by (destruct m; simpl; rewrite Hk; reflexivity).
  assert (Gu : c_aud (with_max_age (session_codec_of o) m) = o_url o) by (destruct m; reflexivity).
  assert (Gi : c_iss (with_max_age (session_codec_of o) m) = o_url o) by (destruct m; reflexivity).
  rewrite Gu, Gi. cbn [tk_alg tk_key tk_intact]. rewrite G, Ga, key_eqb_refl.
  destruct k; simpl; repeat split; assumption.
Qed.

(* ---------- the gate ---------- *)
Theorem gate_runs_iff name c now j cl :
  require_account name c now j = Ran cl <->
  exists w, jar_get name j = Some w /\ decode_session c now w = Some cl.
Proof.
  unfold require_account, get_session. destruct (jar_get name j) as [w|].
  - destruct (decode_session c now w) as [cl'|] eqn:E.
    + split; [intro H; injection H as ->; eauto | intros (w' & Hw & Hd); injection Hw as <-; congruence].
    + split; [discriminate | intros (w' & Hw & Hd); injection Hw as <-; congruence].
  - split; [discriminate | intros (w' & Hw & _); discriminate].
Qed.

Lemma existsb_eqb_in v vs : existsb (fun x => String.eqb x v) vs = true <-> In v vs.
Proof.
  rewrite existsb_exists. split.
  - intros (x & Hi & He). apply String.eqb_eq in He; subst; assumption.
  - intro H. exists v. split; [assumption | apply String.eqb_refl].
Qed.

Theorem attribute_gate_iff n v s :
  require_attribute n v s = true <-> exists cl, s = Some cl /\ In v (amap_lookup n (cl_attrs cl)).
Proof.
  unfold require_attribute, amap_lookup. destruct s as [cl|].
  - destruct (amap_get n (cl_attrs cl)) as [vs|] eqn:E.
    + rewrite existsb_eqb_in. split; [intro H; exists cl; rewrite E; auto | intros (cl' & Hc & Hi); injection Hc as <-; rewrite E in Hi; exact Hi].
    + split; [discriminate | intros (cl' & Hc & Hi); injection Hc as <-; rewrite E in Hi; contradiction].
  - split; [discriminate | intros (cl' & Hc & _); discriminate].
Qed.

(* ---------- the boolean forms evaluated by the correspondence check ---------- *)
Lemma wire_eqb_eq a b : wire_eqb a b = true -> a = b.
Proof. destruct a, b; simpl; intro H; try discriminate; [apply token_eqb_eq in H; subst|]; reflexivity. Qed.

Lemma mint_time_okb_ok c t0 : mint_time_okb c t0 = true <-> mint_time_ok c t0.
Proof. unfold mint_time_okb, mint_time_ok. rewrite andb_true_iff, !Z.ltb_lt. tauto. Qed.

Lemma dy_session_b_sound c o w : dy_session_b c o w = true -> dy_session c w.
Proof.
  destruct o as [c' t0 a | arr c' t0 tr | ], w as [t|]; simpl; intro H; try discriminate H.
  - apply andb_true_iff in H; destruct H as [H Ht]. apply andb_true_iff in H; destruct H as [He Hc].
    apply token_eqb_eq in He; subst t. apply mint_time_okb_ok in Ht. apply dys_session; [|assumption].
    apply orb_true_iff in Hc. destruct Hc as [Hc|Hc]; [left; apply codec_eqb_eq; assumption|].
    right. intro E. apply codec_id_eqb_eq in E. rewrite E in Hc; discriminate.
  - apply token_eqb_eq in H; subst t. apply dys_tracking.
  - apply orb_true_iff in H. destruct H as [H|H]; apply negb_true_iff in H.
    + apply dys_other_key. intro E. apply key_eqb_eq in E. congruence.
    + apply dys_broken. assumption.
  - constructor.
Qed.

Lemma dy_tracking_b_sound c o w : dy_tracking_b c o w = true -> dy_tracking c w.
Proof.
  destruct o as [c' t0 a | arr c' t0 tr | ], w as [t|]; simpl; intro H; try discriminate H.
  - apply token_eqb_eq in H; subst t. apply dyt_session.
  - apply andb_true_iff in H; destruct H as [He Hc].
    apply token_eqb_eq in He; subst t. apply dyt_tracking.
    apply orb_true_iff in Hc. destruct Hc as [Hc|Hc]; [left; apply codec_eqb_eq; assumption|].
    right. intro E. apply codec_id_eqb_eq in E. rewrite E in Hc; discriminate.
  - apply orb_true_iff in H. destruct H as [H|H]; apply negb_true_iff in H.
    + apply dyt_other_key. intro E. apply key_eqb_eq in E. congruence.
    + apply dyt_broken. assumption.
  - constructor.
Qed.

Lemma attrs_exact_b_sorted a : attrs_exact_b a (amap_sort (attrs_of_assertion a)) = true.
Proof.
  unfold attrs_exact_b. apply forallb_forall. intros k _. apply strs_eqb_eq, session_attrs_exact.
Qed.

(* what attrs_exact_b = true means *)
Lemma attrs_exact_b_sound a seen : attrs_exact_b a seen = true ->
  forall k, amap_lookup k seen = attr_values_spec k a.
Proof.
  unfold attrs_exact_b. rewrite forallb_forall. intros H k.
  destruct (in_dec string_dec k (map fst seen ++ keys_of_assertion a)%list) as [Hi|Hn].
  - apply strs_eqb_eq, H, Hi.
  - (* a name neither seen nor in the assertion: nothing on both sides *)
    assert (Hs : ~ In k (map fst seen)) by (intro; apply Hn, in_or_app; auto).
    assert (Hk : ~ In k (keys_of_assertion a)) by (intro; apply Hn, in_or_app; auto).
    assert (E1 : amap_lookup k seen = []).
    { unfold amap_lookup. clear -Hs. induction seen as [|[k0 v0] r IH]; simpl in *; [reflexivity|].
      destruct (String.eqb k0 k) eqn:E; [apply String.eqb_eq in E; subst; tauto | apply IH; tauto]. }
    rewrite E1. unfold attr_values_spec, keys_of_assertion in *. simpl in Hk.
    destruct (String.eqb session_index_name k) eqn:E; [apply String.eqb_eq in E; tauto|].
    rewrite app_nil_r. symmetry.
    assert (G : forall l, ~ In k (map claim_name l) ->
                flat_map (fun at_ => if String.eqb (claim_name at_) k then at_values at_ else []) l = []).
    { induction l as [|x l IH]; simpl; intro Hx; [reflexivity|].
      destruct (String.eqb (claim_name x) k) eqn:Ex; [apply String.eqb_eq in Ex; tauto|]. apply IH; tauto. }
    apply G. tauto.
Qed.

Lemma jar_get_single n n' w w' : jar_get n [(n', w)] = Some w' -> n' = n /\ w' = w.
Proof. simpl. destruct (String.eqb n' n) eqn:E; [|discriminate]. apply String.eqb_eq in E. intro H; injection H as <-. auto. Qed.

(* The main theorems in the form the check evaluates: whenever the
   implementation's observable equals the model's, the property's conclusion
   holds on it. *)
Lemma closure_session_b c o w :
  origin_wire_ok o w = true -> in_closure_session c o w = true -> dy_session_b c o w = true.
Proof.
  destruct o as [c' t0 a | arr c' t0 tr | ], w as [t|]; simpl; intros H1 H2; try discriminate H1; try exact H2; try exact H1.
  rewrite H1. exact H2.
Qed.
Lemma closure_tracking_b c o w :
  origin_wire_ok o w = true -> in_closure_tracking c o w = true -> dy_tracking_b c o w = true.
Proof.
  destruct o as [c' t0 a | arr c' t0 tr | ], w as [t|]; simpl; intros H1 H2; try discriminate H1; try exact H2; try exact H1.
  rewrite H1. exact H2.
Qed.

Theorem deccase_model_satisfies_spec d : deccase_agree d = true -> deccase_spec d = true.
Proof.
  unfold deccase_agree, deccase_spec. intro H. apply andb_true_iff in H; destruct H as [Horg H]. revert H.
  destruct (dc_session d) eqn:Ek.
  - set (c := dc_codec d). intro H. apply andb_true_iff in H; destruct H as [_ H].
    destruct (in_closure_session c (dc_origin d) (dc_wire d)) eqn:Ecl; [|reflexivity].
    pose proof (closure_session_b c _ _ Horg Ecl) as Edy.
    destruct (dc_ran d) eqn:Er; [|reflexivity]. simpl.
    destruct (require_account _ c (dc_now d) _) as [cl|] eqn:Eg; [|discriminate H].
    apply gate_runs_iff in Eg. destruct Eg as (w & Hj & Hd).
    apply jar_get_single in Hj. destruct Hj as [Hn ->].
    apply andb_true_iff in H; destruct H as [H Hat]. apply andb_true_iff in H; destruct H as [_ Hsub].
    apply String.eqb_eq in Hsub. apply amap_eqb_eq in Hat.
    destruct (dc_origin d) as [c' t0 a | arr c' t0 tr | ] eqn:Eo.
    + destruct (dc_wire d) as [t|] eqn:Ew; [|discriminate Edy]. simpl in Edy.
      apply andb_true_iff in Edy; destruct Edy as [Edy Ht]. apply andb_true_iff in Edy; destruct Edy as [He Hc].
      apply token_eqb_eq in He; subst t. apply mint_time_okb_ok in Ht.
      assert (c' = c) as ->.
      { apply orb_true_iff in Hc. destruct Hc as [Hc|Hc]; [apply codec_eqb_eq; assumption|].
        apply session_mint_accepted_id in Hd. apply codec_id_eqb_eq in Hd. rewrite Hd in Hc; discriminate. }
      pose proof Hd as Hd'. apply decode_session_some in Hd'. destruct Hd' as (_ & _ & _ & _ & Hv & _ & _ & _ & Hcl).
      apply std_window in Hv; [|assumption]. unfold session_accept_ok.
      rewrite Hn, String.eqb_refl, andb_true_r.
      assert (G1 : codec_eqb c c = true) by (apply codec_eqb_eq; reflexivity).
      assert (G2 : (sec t0 <=? sec (dc_now d)) = true) by (apply Z.leb_le; lia).
      assert (G3 : (sec (dc_now d) <? sec (t0 + c_max_age c)) = true) by (apply Z.ltb_lt; lia).
      assert (G4 : String.eqb (dc_sub d) (subject_of a) = true) by (rewrite <- Hsub, Hcl; apply String.eqb_refl).
      assert (G5 : attrs_exact_b a (dc_attrs d) = true) by (rewrite <- Hat, Hcl; apply attrs_exact_b_sorted).
      rewrite G1, G2, G3, G4, G5. reflexivity.
    + destruct (dc_wire d) as [t|] eqn:Ew; [|discriminate Edy]. simpl in Edy.
      apply token_eqb_eq in Edy; subst t. rewrite cross_codec_tracking_as_session in Hd. discriminate.
    + destruct (dc_wire d) as [t|] eqn:Ew; [|discriminate Hd]. simpl in Edy.
      apply orb_true_iff in Edy. destruct Edy as [E|E]; apply negb_true_iff in E.
      * rewrite session_reject_key in Hd; [discriminate|]. intro G. apply key_eqb_eq in G. congruence.
      * rewrite session_reject_altered in Hd; [discriminate | assumption].
  - set (c := dc_codec d). intro H. apply andb_true_iff in H; destruct H as [_ H].
    destruct (in_closure_tracking c (dc_origin d) (dc_wire d)) eqn:Ecl; [|reflexivity].
    pose proof (closure_tracking_b c _ _ Horg Ecl) as Edy.
    destruct (dc_ran d) eqn:Er; [|reflexivity]. simpl.
    destruct (decode_tracking c (dc_now d) (dc_wire d)) as [got|] eqn:Hd; [|discriminate H].
    apply andb_true_iff in H; destruct H as [H Hu]. apply andb_true_iff in H; destruct H as [H Hi].
    apply andb_true_iff in H; destruct H as [_ Hs].
    apply String.eqb_eq in Hu, Hi, Hs.
    destruct (dc_origin d) as [c' t0 a | arr c' t0 tr | ] eqn:Eo.
    + destruct (dc_wire d) as [t|] eqn:Ew; [|discriminate Edy]. simpl in Edy.
      apply token_eqb_eq in Edy; subst t. rewrite cross_codec_session_as_tracking in Hd. discriminate.
    + destruct (dc_wire d) as [t|] eqn:Ew; [|discriminate Edy]. simpl in Edy.
      apply andb_true_iff in Edy; destruct Edy as [He Hc].
      apply token_eqb_eq in He; subst t.
      assert (c' = c) as ->.
      { apply orb_true_iff in Hc. destruct Hc as [Hc|Hc]; [apply codec_eqb_eq; assumption|].
        apply tracking_mint_accepted_id in Hd. apply codec_id_eqb_eq in Hd. rewrite Hd in Hc; discriminate. }
      pose proof Hd as Hd'. apply decode_tracking_some in Hd'. destruct Hd' as (_ & _ & _ & Hv & _ & _ & _ & Hg).
      apply reg_window in Hv. unfold tracking_accept_ok. cbn [tr_index tr_req_id tr_uri].
      rewrite <- Hs, <- Hi, <- Hu, Hg. simpl.
      assert (G1 : codec_eqb c c = true) by (apply codec_eqb_eq; reflexivity).
      assert (G2 : (sec t0 * tk_ns_per_s <=? dc_now d) = true) by (apply Z.leb_le; lia).
      assert (G3 : (dc_now d <? sec (t0 + c_max_age c) * tk_ns_per_s) = true) by (apply Z.ltb_lt; lia).
      rewrite G1, G2, G3, !String.eqb_refl. reflexivity.
    + destruct (dc_wire d) as [t|] eqn:Ew; [|discriminate Hd]. simpl in Edy.
      apply decode_tracking_some in Hd. destruct Hd as (_ & _ & Hsig & _). apply verify_sig_true in Hsig.
      destruct Hsig as [Hk Hin]. apply orb_true_iff in Edy. destruct Edy as [E|E]; apply negb_true_iff in E.
      * rewrite Hk, key_eqb_refl in E. discriminate.
      * congruence.
Qed.

(* and what the boolean conclusion means *)
Theorem session_accept_ok_sound c now o sub seen :
  session_accept_ok c now o sub seen = true ->
  exists t0 a, o = OSession c t0 a /\ sec t0 <= sec now < sec (t0 + c_max_age c)
               /\ sub = subject_of a /\ forall k, amap_lookup k seen = attr_values_spec k a.
Proof.
  destruct o as [c' t0 a| |]; unfold session_accept_ok; try discriminate. intro H.
  do 4 (apply andb_true_iff in H; let H' := fresh "E" in destruct H as [H H']).
  apply codec_eqb_eq in H; subst c'. apply Z.leb_le in E2. apply Z.ltb_lt in E1. apply String.eqb_eq in E0.
  exists t0, a. repeat split; try assumption; try lia. apply attrs_exact_b_sound; assumption.
Qed.

Theorem mintcase_model_satisfies_spec m : mintcase_agree m = true -> mintcase_spec m = true.
Proof.
  unfold mintcase_agree, mintcase_spec, mint_model. intro H. apply wire_eqb_eq in H. rewrite <- H.
  destruct (mi_what m); simpl.
  - rewrite String.eqb_refl, attrs_exact_b_sorted. simpl.
    assert (G : forall o, optZ_eq o o = true) by (intro o; apply optZ_eq_eq; reflexivity).
    rewrite !G. reflexivity.
  - rewrite !String.eqb_refl, !Z.eqb_refl. reflexivity.
Qed.

Lemma mem_str_existsb v vs : mem_str v vs = existsb (fun x => String.eqb x v) vs.
Proof. induction vs as [|x r IH]; simpl; [reflexivity|]. unfold seqb. rewrite IH, String.eqb_sym. reflexivity. Qed.

Theorem gatecase_model_satisfies_spec g : gatecase_agree g = true -> gatecase_spec g = true.
Proof.
  unfold gatecase_agree, gatecase_spec, gc_claims, require_attribute, amap_lookup. intro H.
  apply Bool.eqb_prop in H. rewrite <- H. destruct (gc_session g) as [m|]; [|reflexivity]. simpl.
  destruct (amap_get (gc_name g) m); [rewrite mem_str_existsb|]; apply bool_eqb_eq; reflexivity.
Qed.

(* ---------- non-vacuity ---------- *)
Definition ex_key := KPriv KRsa 1.
Definition ex_opts := {| o_url := "https://sp.example.com/"; o_key := ex_key; o_cookie_name := "" |}.
Definition ex_codec := session_codec_of ex_opts.
Definition ex_tcodec := tracking_codec_of (90 * tk_ns_per_s) ex_opts.
Definition ex_assertion := {|
  as_subject := Some (Some "alice");
  as_attr_statements := [[ {| at_friendly := "uid"; at_name := "urn:oid:0.9.2342.19200300.100.1.1"; at_values := ["alice"] |};
                           {| at_friendly := ""; at_name := "groups"; at_values := ["staff"; "admins"] |} ];
                         [ {| at_friendly := "groups"; at_name := "urn:x"; at_values := ["auditors"] |} ]];
  as_authn_statements := ["idx-1"] |}.
Definition ex_t0 : Z := 1700000000 * tk_ns_per_s + 250000000.
Definition ex_token := mint_session ex_codec ex_t0 ex_assertion.

Example ex_session_accepted :
  decode_session ex_codec (ex_t0 + 10 * tk_ns_per_s) (WToken ex_token)
  = Some {| cl_sub := "alice";
            cl_attrs := [("SessionIndex", ["idx-1"]); ("groups", ["staff"; "admins"; "auditors"]); ("uid", ["alice"])] |}.
Proof. vm_compute. reflexivity. Qed.
Example ex_session_in_closure : dy_session ex_codec (WToken ex_token).
Proof. apply dys_session; [left; reflexivity | split; vm_compute; reflexivity]. Qed.
(* boundary: the last accepted instant is 1 ns before exp, the first rejected is exp *)
Example ex_lifetime_last :
  decode_session ex_codec ((1700000000 + 3600) * tk_ns_per_s - 1) (WToken ex_token) <> None
  /\ decode_session ex_codec ((1700000000 + 3600) * tk_ns_per_s) (WToken ex_token) = None
  /\ decode_session ex_codec (1700000000 * tk_ns_per_s) (WToken ex_token) <> None
  /\ decode_session ex_codec (1700000000 * tk_ns_per_s - 1) (WToken ex_token) = None.
Proof. vm_compute. repeat split; discriminate. Qed.
Example ex_gate_runs :
  require_account "token" ex_codec (ex_t0 + 1) [("other", WGarbage); ("token", WToken ex_token)]
  = Ran {| cl_sub := "alice";
           cl_attrs := [("SessionIndex", ["idx-1"]); ("groups", ["staff"; "admins"; "auditors"]); ("uid", ["alice"])] |}.
Proof. vm_compute. reflexivity. Qed.
Example ex_attribute_gate :
  require_attribute "groups" "auditors" (decode_session ex_codec (ex_t0 + 1) (WToken ex_token)) = true
  /\ require_attribute "groups" "root" (decode_session ex_codec (ex_t0 + 1) (WToken ex_token)) = false.
Proof. vm_compute. split; reflexivity. Qed.
Definition ex_tracked := {| tr_index := "idx"; tr_req_id := "id-1"; tr_uri := "/protected" |}.
Example ex_tracking_accepted :
  decode_tracking ex_tcodec (ex_t0 + 1) (WToken (mint_tracking true ex_tcodec ex_t0 ex_tracked)) = Some ex_tracked.
Proof. vm_compute. reflexivity. Qed.
(* the marker is what separates the codecs once the aud claim is a plain string *)
Example ex_cross_needs_marker :
  let t := mint_tracking false ex_tcodec ex_t0 ex_tracked in
  decode_session_o ex_codec (ex_t0 + 1) (WToken t) = Err 6
  /\ decode_session_o ex_codec (ex_t0 + 1) (WToken (mint_tracking true ex_tcodec ex_t0 ex_tracked)) = Err 1.
Proof. vm_compute. split; reflexivity. Qed.
Example ex_other_deployment :
  decode_session (session_codec_of {| o_url := "https://sp.example.com/payroll/"; o_key := ex_key; o_cookie_name := "" |})
                 (ex_t0 + 1) (WToken ex_token) = None.
Proof. vm_compute. reflexivity. Qed.
Example ex_codec_wf : codec_wf ex_codec.
Proof. unfold codec_wf. vm_compute. repeat split; discriminate. Qed.
