(* IdpServer.v — executable model of the bundled IdP server (samlidp/*.go and
   identity_provider.go ServeSSO / ServeIDPInitiated) as a state machine over
   its store, the in-memory service registry, a clock and a random stream (C19).

   Every handler is the sequence of Store calls the Go code makes; each call
   consumes one entry of a fault plan (NoFault | NotFound | IOErr), in call
   order.  bcrypt is abstract: a type H of stored hashes with [hash], [verify]
   and [empty_hash] (the zero-length HashedPassword of a user stored without a
   password); the hypotheses about them are in IdpServerProofs.v.
   Definitions only; lemmas are in IdpServerProofs.v. *)
From Saml Require Import Base.
Local Open Scope list_scope.

(* ---------- data ---------- *)
(* identity fields of samlidp.User copied into saml.Session at login *)
Record profile := { p_email : string; p_cn : string; p_surname : string; p_given : string;
                    p_scoped : string; p_groups : list string }.

(* SP metadata as far as this property looks at it: entity ID and the
   locations of its HTTP-POST assertion consumer services, in document order *)
Record spmeta := { md_entity : string; md_acs : list string }.

(* saml.Session as stored under /sessions/<id> *)
Record session := { se_id : string; se_user : string; se_nameid : string; se_prof : profile;
                    se_create : Z; se_expire : Z }.

(* what an emitted SAMLResponse says: for whom (uid / NameID / attributes),
   towards which SP (audience) and ACS location (form action) *)
Record assertion := { a_user : string; a_nameid : string; a_prof : profile; a_sp : string; a_acs : string }.

(* credentials presented with a request: form fields user/password and/or the
   session cookie.  The password path is taken iff the user field is non-empty. *)
Record creds := { cr_user : string; cr_pw : string; cr_cookie : option string }.
Definition NoCreds : creds := {| cr_user := ""; cr_pw := ""; cr_cookie := None |}.
Definition Cookie (id : string) : creds := {| cr_user := ""; cr_pw := ""; cr_cookie := Some id |}.
Definition Password (u pw : string) : creds := {| cr_user := u; cr_pw := pw; cr_cookie := None |}.

(* an AuthnRequest that is well-formed, fresh and addressed to this IdP (C05
   covers the rest of Validate): issuer and requested ACS URL ("" = none) *)
Record authnreq := { rq_issuer : string; rq_acs : string }.

(* the body of PUT /services/{id}: one EntityDescriptor, or an EntitiesDescriptor
   aggregate given by its top-level entities in document order, each with the
   flag "has an SPSSODescriptor" (nested aggregates are not searched) *)
Inductive mdbody := MdSingle (md : spmeta) | MdAggregate (ents : list (spmeta * bool)).
(* getSPMetadata: a single descriptor as it is; of an aggregate the FIRST entity
   that has an SPSSODescriptor; none is a bad request *)
Definition select_md (b : mdbody) : option spmeta :=
  match b with
  | MdSingle md => Some md
  | MdAggregate ents => match filter (fun e : spmeta * bool => snd e) ents with (md, _) :: _ => Some md | [] => None end
  end.

(* bcrypt.GenerateFromPassword refuses more than 72 bytes *)
Definition max_password_len : Z := 72.

Inductive fault := NoFault | NotFound | IOErr.
Definition faultplan := list fault.

(* sessionMaxAge = time.Hour; the clock counts nanoseconds *)
Definition session_max_age : Z := 3600000000000.

(* ---------- association lists ---------- *)
Fixpoint alookup {A} (k : string) (l : list (string * A)) : option A :=
  match l with [] => None | (k', v) :: r => if String.eqb k k' then Some v else alookup k r end.
Fixpoint aremove {A} (k : string) (l : list (string * A)) : list (string * A) :=
  match l with [] => [] | (k', v) :: r => if String.eqb k k' then aremove k r else (k', v) :: aremove k r end.
Definition ainsert {A} (k : string) (v : A) (l : list (string * A)) : list (string * A) :=
  (k, v) :: aremove k l.
Definition akeys {A} (l : list (string * A)) : list string := map fst l.

(* the n-th session identifier the random source yields *)
Definition sid (n : Z) : string := "S" +++ dec n.

Definition pop (fp : faultplan) : fault * faultplan :=
  match fp with [] => (NoFault, []) | f :: r => (f, r) end.

Inductive gres (A : Type) := GOk (a : A) | GNotFound | GErr.
Arguments GOk {A} a.
Arguments GNotFound {A}.
Arguments GErr {A}.

(* Store.Get: ErrNotFound if absent, another error on I/O failure.  Faults are
   honest: a store does not report ErrNotFound for a key it holds (a handler
   cannot detect that), so a NotFound fault on a Get of a present key is an
   I/O error; on an absent key it is what the store says anyway. *)
Definition store_get {A} (tbl : list (string * A)) (k : string) (fp : faultplan) : gres A * faultplan :=
  let '(f, fp') := pop fp in
  (match f with
   | NoFault => match alookup k tbl with Some a => GOk a | None => GNotFound end
   | NotFound => match alookup k tbl with Some _ => GErr | None => GNotFound end
   | IOErr => GErr
   end, fp').
(* Store.Put / Delete / List: succeed unless a fault is injected (then nothing is done) *)
Definition store_mut (fp : faultplan) : bool * faultplan :=
  let '(f, fp') := pop fp in (match f with NoFault => true | _ => false end, fp').

Section Model.
Variable H : Type.                       (* stored password hashes *)
Variable hash : string -> H.             (* bcrypt.GenerateFromPassword *)
Variable verify : H -> string -> bool.   (* bcrypt.CompareHashAndPassword = nil *)
Variable empty_hash : H.                 (* len(HashedPassword) = 0 *)

Record user := { u_name : string; u_hash : H; u_prof : profile }.

Inductive rbody :=
| BEmpty                       (* no body (204) *)
| BError                       (* http.Error text *)
| BLoginForm                   (* the login form: no session was obtained *)
| BAssertion (a : assertion)   (* the auto-submitting SAMLResponse form *)
| BSession (se : session)      (* JSON session (POST /login, GET /sessions/id) *)
| BUser (u : user)             (* JSON user (GET /users/id) *)
| BNames (l : list string).    (* JSON list *)

Record reply := { r_status : Z; r_body : rbody; r_cookie : option string }.

Record sstate := {
  users : list (string * user);          (* /users/*     *)
  sessions : list (string * session);    (* /sessions/*  *)
  services : list (string * spmeta);     (* /services/*  keyed by service id *)
  shortcuts : list (string * string);    (* /shortcuts/* name -> SP entity ID *)
  registry : list (string * spmeta);     (* Server.serviceProviders, keyed by entity ID (in memory) *)
  clock : Z;                             (* nanoseconds *)
  rand : Z;                              (* sessions created so far: next identifier is sid rand *)
  authlog : list (string * string)       (* ghost: (session id, user) of every successful password authentication *)
}.

(* the store-backed collections with a listing handler (GET /users/ etc.) *)
Inductive coll := CUsers | CServices | CShortcuts | CSessions.

Inductive op :=
| PutUser (n : string) (pw : option string) (pr : profile)
| DelUser (n : string)
| GetUser (n : string)
| ListKeys (cl : coll)
| PutService (id : string) (b : mdbody)
| DelService (id : string)
| PutShortcut (n : string) (sp : string)
| DelShortcut (n : string)
| Login (c : creds)
| Sso (rq : authnreq) (c : creds)
| Launch (n : string) (c : creds)
| GetSess (id : string)
| DelSession (id : string)
| Advance (dt : Z)
| Restart.

Definition init_state (now : Z) : sstate :=
  {| users := []; sessions := []; services := []; shortcuts := []; registry := [];
     clock := now; rand := 0; authlog := [] |}.

Definition rerr (code : Z) : reply := {| r_status := code; r_body := BError; r_cookie := None |}.
Definition rnocontent : reply := {| r_status := 204; r_body := BEmpty; r_cookie := None |}.
Definition rlogin : reply := {| r_status := 200; r_body := BLoginForm; r_cookie := None |}.

Definition set_users (s : sstate) v := {| users := v; sessions := sessions s; services := services s; shortcuts := shortcuts s; registry := registry s; clock := clock s; rand := rand s; authlog := authlog s |}.
Definition set_sessions (s : sstate) v := {| users := users s; sessions := v; services := services s; shortcuts := shortcuts s; registry := registry s; clock := clock s; rand := rand s; authlog := authlog s |}.
Definition set_shortcuts (s : sstate) v := {| users := users s; sessions := sessions s; services := services s; shortcuts := v; registry := registry s; clock := clock s; rand := rand s; authlog := authlog s |}.
Definition set_services (s : sstate) v reg := {| users := users s; sessions := sessions s; services := v; shortcuts := shortcuts s; registry := reg; clock := clock s; rand := rand s; authlog := authlog s |}.
Definition set_registry (s : sstate) reg := {| users := users s; sessions := sessions s; services := services s; shortcuts := shortcuts s; registry := reg; clock := clock s; rand := rand s; authlog := authlog s |}.
Definition set_clock (s : sstate) t := {| users := users s; sessions := sessions s; services := services s; shortcuts := shortcuts s; registry := registry s; clock := t; rand := rand s; authlog := authlog s |}.

(* ---------- session.go: GetSession ---------- *)
(* [parsed]: the handler called r.ParseForm (POST /login, POST /sso); the
   IdP-initiated handler does not, so form credentials are not seen there.
   Result: the reply already written (no session), or the session and the
   cookie that was set. *)
Definition new_session (s : sstate) (u : user) : session :=
  {| se_id := sid (rand s); se_user := u_name u; se_nameid := p_email (u_prof u); se_prof := u_prof u;
     se_create := clock s; se_expire := clock s + session_max_age |}.

Definition get_session (s : sstate) (parsed : bool) (c : creds) (fp : faultplan)
  : sstate * (reply + session * option string) * faultplan :=
  if parsed && nonempty (cr_user c) then
    let '(g, fp1) := store_get (users s) (cr_user c) fp in
    match g with
    | GOk u =>
        if verify (u_hash u) (cr_pw c) then
          let se := new_session s u in
          let '(ok, fp2) := store_mut fp1 in
          if ok then
            ({| users := users s; sessions := ainsert (se_id se) se (sessions s); services := services s;
                shortcuts := shortcuts s; registry := registry s; clock := clock s; rand := rand s + 1;
                authlog := (se_id se, u_name u) :: authlog s |},
             inr (se, Some (se_id se)), fp2)
          else (s, inl (rerr 500), fp2)
        else (s, inl rlogin, fp1)
    | _ => (s, inl rlogin, fp1)
    end
  else
    match cr_cookie c with
    | Some id =>
        let '(g, fp1) := store_get (sessions s) id fp in
        match g with
        | GOk se => if se_expire se <? clock s then (s, inl rlogin, fp1) else (s, inr (se, None), fp1)
        | GNotFound => (s, inl rlogin, fp1)
        | GErr => (s, inl (rerr 500), fp1)
        end
    | None => (s, inl rlogin, fp)
    end.

Definition mk_assertion (se : session) (md : spmeta) (acs : string) : assertion :=
  {| a_user := se_user se; a_nameid := se_nameid se; a_prof := se_prof se; a_sp := md_entity md; a_acs := acs |}.

(* getACSEndpoint restricted to what this model distinguishes: a requested
   URL must be one of the registered locations; without one the first is used *)
Definition acs_select (md : spmeta) (rq : authnreq) : option string :=
  if nonempty (rq_acs rq)
  then (if mem_str (rq_acs rq) (md_acs md) then Some (rq_acs rq) else None)
  else match md_acs md with a :: _ => Some a | [] => None end.

(* identity_provider.go: ServeSSO *)
Definition sso (s : sstate) (rq : authnreq) (c : creds) (fp : faultplan) : sstate * list reply * faultplan :=
  match alookup (rq_issuer rq) (registry s) with
  | None => (s, [rerr 400], fp)                                   (* Validate: unknown service provider *)
  | Some md =>
      match acs_select md rq with
      | None => (s, [rerr 400], fp)                               (* Validate: no such ACS endpoint *)
      | Some acs =>
          let '(s1, r, fp1) := get_session s true c fp in
          match r with
          | inl rep => (s1, [rep], fp1)
          | inr (se, ck) => (s1, [{| r_status := 200; r_body := BAssertion (mk_assertion se md acs); r_cookie := ck |}], fp1)
          end
      end
  end.

(* shortcut.go: HandleIDPInitiated + identity_provider.go: ServeIDPInitiated *)
Definition launch (s : sstate) (n : string) (c : creds) (fp : faultplan) : sstate * list reply * faultplan :=
  let '(g, fp1) := store_get (shortcuts s) n fp in
  match g with
  | GOk sp =>
      let '(s1, r, fp2) := get_session s false c fp1 in
      match r with
      | inl rep => (s1, [rep], fp2)
      | inr (se, ck) =>
          match alookup sp (registry s1) with
          | None => (s1, [{| r_status := 404; r_body := BError; r_cookie := ck |}], fp2)
          | Some md =>
              match md_acs md with
              | [] => (s1, [{| r_status := 500; r_body := BError; r_cookie := ck |}], fp2)
              | acs :: _ => (s1, [{| r_status := 200; r_body := BAssertion (mk_assertion se md acs); r_cookie := ck |}], fp2)
              end
          end
      end
  | _ => (s, [rerr 500], fp1)
  end.

(* session.go: HandleLogin *)
Definition login (s : sstate) (c : creds) (fp : faultplan) : sstate * list reply * faultplan :=
  let '(s1, r, fp1) := get_session s true c fp in
  match r with
  | inl rep => (s1, [rep], fp1)
  | inr (se, ck) => (s1, [{| r_status := 200; r_body := BSession se; r_cookie := ck |}], fp1)
  end.

(* user.go *)
Definition put_user (s : sstate) (n : string) (pw : option string) (pr : profile) (fp : faultplan)
  : sstate * list reply * faultplan :=
  let store (h : H) (fp1 : faultplan) :=
    let '(ok, fp2) := store_mut fp1 in
    if ok then (set_users s (ainsert n {| u_name := n; u_hash := h; u_prof := pr |} (users s)), [rnocontent], fp2)
    else (s, [rerr 500], fp2) in
  match pw with
  | Some p => if max_password_len <? slen p then (s, [rerr 500], fp)   (* ErrPasswordTooLong: nothing stored *)
              else store (hash p) fp
  | None =>
      let '(g, fp1) := store_get (users s) n fp in
      match g with
      | GOk old => store (u_hash old) fp1
      | GNotFound => store empty_hash fp1
      | GErr => (s, [rerr 500], fp1)
      end
  end.

Definition del_user (s : sstate) (n : string) (fp : faultplan) : sstate * list reply * faultplan :=
  let '(ok, fp1) := store_mut fp in
  if ok then (set_users s (aremove n (users s)), [rnocontent], fp1) else (s, [rerr 500], fp1).

Definition get_user (s : sstate) (n : string) (fp : faultplan) : sstate * list reply * faultplan :=
  let '(g, fp1) := store_get (users s) n fp in
  match g with
  | GOk u => (s, [{| r_status := 200; r_body := BUser {| u_name := u_name u; u_hash := empty_hash; u_prof := u_prof u |};
                     r_cookie := None |}], fp1)
  | _ => (s, [rerr 500], fp1)
  end.

Definition list_keys (s : sstate) (cl : coll) (fp : faultplan) : sstate * list reply * faultplan :=
  let '(ok, fp1) := store_mut fp in
  if ok then (s, [{| r_status := 200;
                     r_body := BNames (match cl with
                                       | CUsers => akeys (users s)
                                       | CServices => akeys (services s)
                                       | CShortcuts => akeys (shortcuts s)
                                       | CSessions => akeys (sessions s)
                                       end);
                     r_cookie := None |}], fp1)
  else (s, [rerr 500], fp1).

(* service.go *)
Definition put_service_md (s : sstate) (id : string) (md : spmeta) (fp : faultplan) : sstate * list reply * faultplan :=
  let '(g, fp1) := store_get (services s) id fp in         (* previous service: only ErrNotFound means "none" *)
  match g with
  | GErr => (s, [rerr 500], fp1)
  | _ =>
      let '(ok, fp2) := store_mut fp1 in
      if ok then
        let reg1 := match g with
                    | GOk prev => if String.eqb (md_entity prev) (md_entity md) then registry s
                                  else aremove (md_entity prev) (registry s)
                    | _ => registry s
                    end in
        (set_services s (ainsert id md (services s)) (ainsert (md_entity md) md reg1), [rnocontent], fp2)
      else (s, [rerr 500], fp2)
  end.

Definition put_service (s : sstate) (id : string) (b : mdbody) (fp : faultplan) : sstate * list reply * faultplan :=
  match select_md b with
  | Some md => put_service_md s id md fp
  | None => (s, [rerr 400], fp)                            (* getSPMetadata failed: bad request, no store call *)
  end.

Definition del_service (s : sstate) (id : string) (fp : faultplan) : sstate * list reply * faultplan :=
  let '(g, fp1) := store_get (services s) id fp in
  match g with
  | GOk md =>
      let '(ok, fp2) := store_mut fp1 in
      if ok then (set_services s (aremove id (services s)) (aremove (md_entity md) (registry s)), [rnocontent], fp2)
      else (s, [rerr 500], fp2)
  | _ => (s, [rerr 500], fp1)
  end.

(* initializeServices: what a new Server over the same store registers *)
Definition registry_of_store (svcs : list (string * spmeta)) : list (string * spmeta) :=
  fold_right (fun (kv : string * spmeta) reg => ainsert (md_entity (snd kv)) (snd kv) reg) [] svcs.

(* shortcut.go, session.go *)
Definition put_shortcut (s : sstate) (n sp : string) (fp : faultplan) : sstate * list reply * faultplan :=
  let '(ok, fp1) := store_mut fp in
  if ok then (set_shortcuts s (ainsert n sp (shortcuts s)), [rnocontent], fp1) else (s, [rerr 500], fp1).
Definition del_shortcut (s : sstate) (n : string) (fp : faultplan) : sstate * list reply * faultplan :=
  let '(ok, fp1) := store_mut fp in
  if ok then (set_shortcuts s (aremove n (shortcuts s)), [rnocontent], fp1) else (s, [rerr 500], fp1).
Definition get_sess (s : sstate) (id : string) (fp : faultplan) : sstate * list reply * faultplan :=
  let '(g, fp1) := store_get (sessions s) id fp in
  match g with
  | GOk se => (s, [{| r_status := 200; r_body := BSession se; r_cookie := None |}], fp1)
  | _ => (s, [rerr 500], fp1)
  end.
Definition del_session (s : sstate) (id : string) (fp : faultplan) : sstate * list reply * faultplan :=
  let '(ok, fp1) := store_mut fp in
  if ok then (set_sessions s (aremove id (sessions s)), [rnocontent], fp1) else (s, [rerr 500], fp1).

(* ---------- the state machine ---------- *)
(* the list holds every reply the handler starts; C19_one_reply proves it is a
   singleton for requests (Advance and Restart are not requests) *)
Definition step (s : sstate) (o : op) (fp : faultplan) : sstate * list reply * faultplan :=
  match o with
  | PutUser n pw pr => put_user s n pw pr fp
  | DelUser n => del_user s n fp
  | GetUser n => get_user s n fp
  | ListKeys cl => list_keys s cl fp
  | PutService id b => put_service s id b fp
  | DelService id => del_service s id fp
  | PutShortcut n sp => put_shortcut s n sp fp
  | DelShortcut n => del_shortcut s n fp
  | Login c => login s c fp
  | Sso rq c => sso s rq c fp
  | Launch n c => launch s n c fp
  | GetSess id => get_sess s id fp
  | DelSession id => del_session s id fp
  | Advance dt => (set_clock s (clock s + dt), [], fp)
  | Restart => (set_registry s (registry_of_store (services s)), [], fp)
  end.

Definition is_request (o : op) : bool := match o with Advance _ | Restart => false | _ => true end.

(* a history: state and remaining fault plan threaded through [step] *)
Definition step_acc (acc : sstate * faultplan) (o : op) : sstate * faultplan :=
  let '(s, fp) := acc in let '(s', _, fp') := step s o fp in (s', fp').
Definition run_hist (s : sstate) (h : list op) (fp : faultplan) : sstate * faultplan :=
  fold_left step_acc h (s, fp).

(* the same with the trace kept: (state before, op, plan before, replies) per step *)
Fixpoint trace (s : sstate) (h : list op) (fp : faultplan) : list (sstate * op * faultplan * list reply) :=
  match h with
  | [] => []
  | o :: r => let '(s', rs, fp') := step s o fp in (s, o, fp, rs) :: trace s' r fp'
  end.
Definition replies (s : sstate) (h : list op) (fp : faultplan) : list (list reply) :=
  map (fun x => snd x) (trace s h fp).

(* ---------- boolean form of the property's conclusions ---------- *)
Definition creds_of (o : op) : option (bool * creds) :=   (* (form parsed, credentials) *)
  match o with
  | Login c => Some (true, c)
  | Sso _ c => Some (true, c)
  | Launch _ c => Some (false, c)
  | _ => None
  end.

Fixpoint mem_pair (a b : string) (l : list (string * string)) : bool :=
  match l with [] => false | (x, y) :: r => (String.eqb a x && String.eqb b y) || mem_pair a b r end.

Fixpoint strs_eqb (a b : list string) : bool :=
  match a, b with
  | [], [] => true
  | x :: a', y :: b' => String.eqb x y && strs_eqb a' b'
  | _, _ => false
  end.
Definition profile_eqb (a b : profile) : bool :=
  String.eqb (p_email a) (p_email b) && String.eqb (p_cn a) (p_cn b) && String.eqb (p_surname a) (p_surname b) &&
  String.eqb (p_given a) (p_given b) && String.eqb (p_scoped a) (p_scoped b) && strs_eqb (p_groups a) (p_groups b).

(* the request that obtained assertion [a] in state [s] was authenticated:
   it presented a's user's current password, or the cookie of a stored,
   unexpired session of that user that a password authentication created;
   and the assertion describes the user as at that login *)
Definition auth_okb (s : sstate) (o : op) (a : assertion) : bool :=
  match creds_of o with
  | None => false
  | Some (parsed, c) =>
      if parsed && nonempty (cr_user c) then
        match alookup (cr_user c) (users s) with
        | Some u => verify (u_hash u) (cr_pw c) && String.eqb (a_user a) (u_name u) &&
                    String.eqb (a_nameid a) (p_email (u_prof u)) && profile_eqb (a_prof a) (u_prof u)
        | None => false
        end
      else
        match cr_cookie c with
        | Some id =>
            match alookup id (sessions s) with
            | Some se => (clock s <=? se_expire se) && mem_pair id (se_user se) (authlog s) &&
                         String.eqb (a_user a) (se_user se) && String.eqb (a_nameid a) (se_nameid se) &&
                         profile_eqb (a_prof a) (se_prof se)
            | None => false
            end
        | None => false
        end
  end.

(* the assertion goes to an SP registered at that moment, at one of its ACS locations *)
Definition registered_okb (s : sstate) (o : op) (a : assertion) : bool :=
  match alookup (a_sp a) (registry s) with
  | Some md =>
      String.eqb (md_entity md) (a_sp a) && mem_str (a_acs a) (md_acs md) &&
      match o with
      | Sso rq _ => String.eqb (rq_issuer rq) (a_sp a) && (negb (nonempty (rq_acs rq)) || String.eqb (rq_acs rq) (a_acs a))
      | Launch n _ => match alookup n (shortcuts s) with Some sp => String.eqb sp (a_sp a) | None => false end
      | _ => false
      end
  | None => false
  end.

End Model.

Arguments BEmpty {H}.
Arguments BError {H}.
Arguments BLoginForm {H}.
Arguments BAssertion {H} a.
Arguments BSession {H} se.
Arguments BUser {H} u.
Arguments BNames {H} l.
Arguments u_name {H} u.
Arguments u_hash {H} u.
Arguments u_prof {H} u.
Arguments r_status {H} r.
Arguments r_body {H} r.
Arguments r_cookie {H} r.
Arguments users {H} s.
Arguments sessions {H} s.
Arguments services {H} s.
Arguments shortcuts {H} s.
Arguments registry {H} s.
Arguments clock {H} s.
Arguments rand {H} s.
Arguments authlog {H} s.
Arguments rerr {H} code.
Arguments rnocontent {H}.
Arguments rlogin {H}.
Arguments set_users {H} s v.
Arguments set_sessions {H} s v.
Arguments set_shortcuts {H} s v.
Arguments set_services {H} s v reg.
Arguments set_registry {H} s reg.
Arguments set_clock {H} s t.
Arguments new_session {H} s u.
Arguments get_session {H} verify s parsed c fp.
Arguments sso {H} verify s rq c fp.
Arguments launch {H} verify s n c fp.
Arguments login {H} verify s c fp.
Arguments put_user {H} hash empty_hash s n pw pr fp.
Arguments del_user {H} s n fp.
Arguments get_user {H} empty_hash s n fp.
Arguments list_keys {H} s cl fp.
Arguments put_service_md {H} s id md fp.
Arguments put_service {H} s id b fp.
Arguments del_service {H} s id fp.
Arguments put_shortcut {H} s n sp fp.
Arguments del_shortcut {H} s n fp.
Arguments get_sess {H} s id fp.
Arguments del_session {H} s id fp.
Arguments step {H} hash verify empty_hash s o fp.
Arguments step_acc {H} hash verify empty_hash acc o.
Arguments run_hist {H} hash verify empty_hash s h fp.
Arguments trace {H} hash verify empty_hash s h fp.
Arguments replies {H} hash verify empty_hash s h fp.
Arguments auth_okb {H} verify s o a.
Arguments registered_okb {H} s o a.

(* ---------- correspondence-check entry points ---------- *)
(* The symbolic instance evaluated against the implementation: the "hash" of
   p is Some p, the empty hash None.  (bcrypt is salted; only its behaviour
   under verify is compared, and a disclosed hash is reported by the harness
   as Some "...".) *)
(* bcrypt keys the cipher with the password followed by a NUL byte, repeated to
   72 bytes: two passwords verify alike exactly when these 72 bytes agree (bytes
   beyond 72 are ignored by CompareHashAndPassword; "ab" and "ab\000ab" collide) *)
Fixpoint bfill (n : nat) (k cur : string) : string :=
  match n with
  | O => EmptyString
  | S m =>
      match cur with
      | String c r => String c (bfill m k r)
      | EmptyString => match k with String c r => String c (bfill m k r) | EmptyString => EmptyString end
      end
  end.
Definition norm0 (p : string) : string := let k := p +++ String (chr 0) EmptyString in bfill 72 k k.
Definition H0 := option string.
Definition hash0 (p : string) : H0 := Some (norm0 p).
Definition verify0 (h : H0) (p : string) : bool := match h with Some q => String.eqb q (norm0 p) | None => false end.
Definition empty0 : H0 := None.

(* what the harness observed for one operation: how many replies the handler
   started, the (first) reply, and whether any stored bcrypt hash occurs in the body *)
Record oreply := { o_n : Z; o_rep : reply H0; o_hash : bool }.

Definition opt_eqb (a b : option string) : bool :=
  match a, b with None, None => true | Some x, Some y => String.eqb x y | _, _ => false end.
Definition session_eqb (a b : session) : bool :=
  String.eqb (se_id a) (se_id b) && String.eqb (se_user a) (se_user b) && String.eqb (se_nameid a) (se_nameid b) &&
  profile_eqb (se_prof a) (se_prof b) && (se_create a =? se_create b) && (se_expire a =? se_expire b).
Definition assertion_eqb (a b : assertion) : bool :=
  String.eqb (a_user a) (a_user b) && String.eqb (a_nameid a) (a_nameid b) && profile_eqb (a_prof a) (a_prof b) &&
  String.eqb (a_sp a) (a_sp b) && String.eqb (a_acs a) (a_acs b).
Fixpoint ins_str (s : string) (l : list string) : list string :=
  match l with
  | [] => [s]
  | x :: r => match String.compare s x with Gt => x :: ins_str s r | _ => s :: l end
  end.
Definition isort_str (l : list string) : list string := fold_right ins_str [] l.
Definition body_eqb (a b : rbody H0) : bool :=
  match a, b with
  | BEmpty, BEmpty => true
  | BError, BError => true
  | BLoginForm, BLoginForm => true
  | BAssertion x, BAssertion y => assertion_eqb x y
  | BSession x, BSession y => session_eqb x y
  | BUser x, BUser y => String.eqb (u_name x) (u_name y) && opt_eqb (u_hash x) (u_hash y) &&
                          profile_eqb (u_prof x) (u_prof y)
  | BNames x, BNames y => strs_eqb (isort_str x) (isort_str y)      (* List order is map order *)
  | _, _ => false
  end.
Definition reply_eqb (a b : reply H0) : bool :=
  (r_status a =? r_status b) && body_eqb (r_body a) (r_body b) && opt_eqb (r_cookie a) (r_cookie b).

(* model replies as observations: the model never discloses a hash *)
Definition obs_of_model (rs : list (reply H0)) : oreply :=
  match rs with
  | [] => {| o_n := 0; o_rep := rerr 0; o_hash := false |}
  | r :: _ => {| o_n := Z.of_nat (List.length rs); o_rep := r; o_hash := false |}
  end.
Definition oreply_eqb (a b : oreply) : bool :=
  (o_n a =? o_n b) && reply_eqb (o_rep a) (o_rep b) && Bool.eqb (o_hash a) (o_hash b).

Definition step0 := step hash0 verify0 empty0.

(* the property's conclusions on one observed reply, against the model state before the step *)
Definition spec_step (s : sstate H0) (o : op) (ob : oreply) : bool :=
  (o_n ob =? (if is_request o then 1 else 0)) &&                         (* C19_one_reply *)
  negb (o_hash ob) &&                                                    (* C19_hash_never_disclosed *)
  match r_body (o_rep ob) with
  | BUser u => match u_hash u with None => true | Some _ => false end
  | BAssertion a => auth_okb verify0 s o a && registered_okb s o a  (* C19_assertion_only_if_authenticated, _registered_now, _user_as_at_login *)
  | _ => true
  end.

(* short constructors for the generated case files *)
Definition mkp (email cn sn given scoped : string) (groups : list string) : profile :=
  {| p_email := email; p_cn := cn; p_surname := sn; p_given := given; p_scoped := scoped; p_groups := groups |}.
Definition mko (n status : Z) (b : rbody H0) (ck : option string) (h : bool) : oreply :=
  {| o_n := n; o_rep := {| r_status := status; r_body := b; r_cookie := ck |}; o_hash := h |}.
Definition mkcr (u pw : string) (ck : option string) : creds := {| cr_user := u; cr_pw := pw; cr_cookie := ck |}.
Definition mkmd (e : string) (acs : list string) : spmeta := {| md_entity := e; md_acs := acs |}.
Definition mkrq (iss acs : string) : authnreq := {| rq_issuer := iss; rq_acs := acs |}.
Definition mkse (id u nameid : string) (p : profile) (cr ex : Z) : session :=
  {| se_id := id; se_user := u; se_nameid := nameid; se_prof := p; se_create := cr; se_expire := ex |}.
Definition mka (u nameid : string) (p : profile) (sp acs : string) : assertion :=
  {| a_user := u; a_nameid := nameid; a_prof := p; a_sp := sp; a_acs := acs |}.
Definition mku (n : string) (h : H0) (p : profile) : user H0 := {| u_name := n; u_hash := h; u_prof := p |}.

Record hcase := { hc_now : Z; hc_ops : list op; hc_plan : faultplan; hc_obs : list oreply }.

Fixpoint agree_run (s : sstate H0) (h : list op) (fp : faultplan) (obs : list oreply) : bool :=
  match h, obs with
  | [], [] => true
  | o :: h', ob :: obs' =>
      let '(s', rs, fp') := step0 s o fp in
      oreply_eqb (obs_of_model rs) ob && agree_run s' h' fp' obs'
  | _, _ => false
  end.
(* the converse direction, on the observed reply: where the model issues an
   assertion (valid credentials, registered SP, no fault — see
   IdpServerProofs.sso_issues / launch_issues) the implementation must issue the
   same one; a refusal, an error or no reply there fails the property's "a session
   is valid until it expires / the form goes to the registered POST endpoint" *)
Definition issue_okb (rs : list (reply H0)) (ob : oreply) : bool :=
  match rs with
  | r :: _ =>
      match r_body r with
      | BAssertion a => match r_body (o_rep ob) with BAssertion a' => assertion_eqb a a' | _ => false end
      | _ => true
      end
  | [] => true
  end.

Fixpoint spec_run (s : sstate H0) (h : list op) (fp : faultplan) (obs : list oreply) : bool :=
  match h, obs with
  | o :: h', ob :: obs' =>
      let '(s', rs, fp') := step0 s o fp in
      spec_step s o ob && issue_okb rs ob && spec_run s' h' fp' obs'
  | _, _ => true
  end.

Definition hcase_agree (c : hcase) : bool := agree_run (init_state H0 (hc_now c)) (hc_ops c) (hc_plan c) (hc_obs c).
Definition hcase_spec (c : hcase) : bool := spec_run (init_state H0 (hc_now c)) (hc_ops c) (hc_plan c) (hc_obs c).
Definition check_hcases := check_cases hcase_agree hcase_spec.

(* restart refinement observed on the implementation: the same history with a
   Restart (new Server over the same store) inserted; the replies after the
   insertion point must be those of the original run *)
Record rcase := { rc_obs_orig : list oreply; rc_obs_restarted : list oreply }.
Fixpoint oreplies_eqb (a b : list oreply) : bool :=
  match a, b with
  | [], [] => true
  | x :: a', y :: b' => oreply_eqb x y && oreplies_eqb a' b'
  | _, _ => false
  end.
Definition rcase_spec (c : rcase) : bool := oreplies_eqb (rc_obs_orig c) (rc_obs_restarted c).
Definition check_rcases := check_cases (fun _ : rcase => true) rcase_spec.
