(* Base.v — shared definitions: outcomes, byte strings, hex literals, decimal
   digits.  Definitions only; lemmas are in BaseProofs.v so that the models
   still evaluate when a proof breaks. *)
From Coq Require Export List ZArith Lia Bool String Ascii.
Export ListNotations.
Open Scope string_scope.
Open Scope Z_scope.

Infix "+++" := String.append (right associativity, at level 60).

(* ---------- outcomes ---------- *)
(* Every modelled Go function returns a value, an error (with a small class
   code; 0 = unclassified) or panics.  [Panic] is an explicit constructor so
   that "never panics" is a non-vacuous statement. *)
Inductive outcome (A : Type) : Type :=
| Ok (a : A)
| Err (c : Z)
| Panic.
Arguments Ok {A} a.
Arguments Err {A} c.
Arguments Panic {A}.

Definition bind {A B} (o : outcome A) (f : A -> outcome B) : outcome B :=
  match o with Ok a => f a | Err c => Err c | Panic => Panic end.
Notation "'do' x <- o ; k" := (bind o (fun x => k))
  (at level 200, x pattern, o at level 100, k at level 200, right associativity).

Definition is_ok {A} (o : outcome A) : bool := match o with Ok _ => true | _ => false end.
Definition is_err {A} (o : outcome A) : bool := match o with Err _ => true | _ => false end.
Definition is_panic {A} (o : outcome A) : bool := match o with Panic => true | _ => false end.

(* observable class of an outcome: 0 ok, 1 error, 2 panic *)
Definition ocls {A} (o : outcome A) : Z :=
  match o with Ok _ => 0 | Err _ => 1 | Panic => 2 end.

(* ---------- characters and strings ---------- *)
Definition code (c : ascii) : Z := Z.of_N (N_of_ascii c).
Definition chr (z : Z) : ascii := ascii_of_N (Z.to_N (z mod 256)).

Definition is_digit (c : ascii) : bool := (48 <=? code c) && (code c <=? 57).
Definition digit_val (c : ascii) : Z := code c - 48.
Definition digit_chr (d : Z) : ascii := chr (48 + d).

Fixpoint str_list (s : string) : list ascii :=
  match s with EmptyString => [] | String c r => c :: str_list r end.
Fixpoint list_str (l : list ascii) : string :=
  match l with [] => EmptyString | c :: r => String c (list_str r) end.

Definition slen (s : string) : Z := Z.of_nat (String.length s).

Fixpoint all_chars (p : ascii -> bool) (s : string) : bool :=
  match s with EmptyString => true | String c r => p c && all_chars p r end.

Fixpoint srepeat (c : ascii) (n : nat) : string :=
  match n with O => EmptyString | S k => String c (srepeat c k) end.

Fixpoint srev_acc (s acc : string) : string :=
  match s with EmptyString => acc | String c r => srev_acc r (String c acc) end.
Definition srev (s : string) : string := srev_acc s EmptyString.

Fixpoint take (n : nat) (s : string) : string :=
  match n, s with
  | O, _ => EmptyString
  | S k, EmptyString => EmptyString
  | S k, String c r => String c (take k r)
  end.
Fixpoint drop (n : nat) (s : string) : string :=
  match n, s with
  | O, _ => s
  | S k, EmptyString => EmptyString
  | S k, String c r => drop k r
  end.

Fixpoint prefixb (p s : string) : bool :=
  match p, s with
  | EmptyString, _ => true
  | String a p', String b s' => Ascii.eqb a b && prefixb p' s'
  | _, _ => false
  end.

Definition seqb (a b : string) : bool := String.eqb a b.
Definition nonempty (s : string) : bool := match s with EmptyString => false | _ => true end.

(* maximal prefix satisfying p, and the rest *)
Fixpoint span (p : ascii -> bool) (s : string) : string * string :=
  match s with
  | EmptyString => (EmptyString, EmptyString)
  | String c r => if p c then let '(a, b) := span p r in (String c a, b)
                  else (EmptyString, s)
  end.

(* ---------- hex literals (how the harness passes arbitrary bytes) ---------- *)
Definition hexval (c : ascii) : Z :=
  let n := code c in
  if (48 <=? n) && (n <=? 57) then n - 48
  else if (97 <=? n) && (n <=? 102) then n - 87
  else if (65 <=? n) && (n <=? 70) then n - 55 else 0.
Fixpoint hx (s : string) : string :=
  match s with
  | String a (String b r) => String (chr (16 * hexval a + hexval b)) (hx r)
  | _ => EmptyString
  end.
Definition hexdigit (d : Z) : ascii := if d <? 10 then chr (48 + d) else chr (87 + d).
Fixpoint to_hex (s : string) : string :=
  match s with
  | EmptyString => EmptyString
  | String c r => String (hexdigit (code c / 16)) (String (hexdigit (code c mod 16)) (to_hex r))
  end.

(* bytes as numbers, for the cipher models *)
Definition bytes := list Z.
Definition bytes_of (s : string) : bytes := map code (str_list s).
Definition str_of_bytes (b : bytes) : string := list_str (map chr b).

(* ---------- decimal numbers ---------- *)
(* value of a digit string, computed the way strconv.Atoi does: n = n*10 + d *)
Fixpoint dval_acc (s : string) (acc : Z) : Z :=
  match s with EmptyString => acc | String c r => dval_acc r (10 * acc + digit_val c) end.
Definition dval (s : string) : Z := dval_acc s 0.

(* fixed-width decimal rendering, most significant digit first *)
Fixpoint fixw (k : nat) (n : Z) : string :=
  match k with
  | O => EmptyString
  | S k' => fixw k' (n / 10) ++ String (digit_chr (n mod 10)) EmptyString
  end.

Fixpoint strip0 (s : string) : string :=
  match s with
  | String c (String _ _ as r) => if Ascii.eqb c "0" then strip0 r else s
  | _ => s
  end.

(* strings.TrimRight(s, "0") *)
Fixpoint trim0r (s : string) : string :=
  match s with
  | EmptyString => EmptyString
  | String c r =>
      match trim0r r with
      | EmptyString => if Ascii.eqb c "0" then EmptyString else String c EmptyString
      | r' => String c r'
      end
  end.

(* minimal-width decimal rendering of 0 <= n < 10^20 (covers uint64) *)
Definition dec (n : Z) : string := strip0 (fixw 20 n).

Definition int64_max : Z := 9223372036854775807.
Definition int64_min : Z := -9223372036854775808.
Definition two64 : Z := 18446744073709551616.
(* two's complement wrap-around of Go's int64 arithmetic *)
Definition wrap64 (z : Z) : Z := (z + 9223372036854775808) mod two64 - 9223372036854775808.
Definition in_int64 (z : Z) : Prop := int64_min <= z <= int64_max.

(* strconv.Atoi on a non-empty string of ASCII digits: range error above MaxInt64.
   (Callers in the models only pass digit strings; anything else is an error.) *)
Definition atoi (s : string) : outcome Z :=
  if nonempty s && all_chars is_digit s
  then (if dval s <=? int64_max then Ok (dval s) else Err 0)
  else Err 0.

(* list helpers *)
Fixpoint find_index {A} (p : A -> bool) (l : list A) (i : Z) : option (Z * A) :=
  match l with [] => None | x :: r => if p x then Some (i, x) else find_index p r (i + 1) end.

Fixpoint mem_str (x : string) (l : list string) : bool :=
  match l with [] => false | y :: r => seqb x y || mem_str x r end.

Definition opt_str (o : option string) : string := match o with Some s => s | None => "" end.

(* generic case checker used by the generated Cases_*.v files: returns the
   (position, code) of every failing case; code bit 0 = model and
   implementation disagree, bit 1 = the property's conclusion (spec) is false
   on the implementation's output. *)
Fixpoint check_from {A} (agree spec : A -> bool) (l : list A) (i : Z) : list (Z * Z) :=
  match l with
  | [] => []
  | x :: r =>
      let code := (if agree x then 0 else 1) + (if spec x then 0 else 2) in
      if code =? 0 then check_from agree spec r (i + 1)
      else (i, code) :: check_from agree spec r (i + 1)
  end.
Definition check_cases {A} (agree spec : A -> bool) (l : list A) : list (Z * Z) :=
  check_from agree spec l 0.

(* checks evaluated by the harness on the implementation alone (e.g. interoperation
   with an independent implementation): the case is the verdict *)
Definition check_bools := check_cases (fun _ : bool => true) (fun b : bool => b).
