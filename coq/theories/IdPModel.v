(* IdPModel.v — executable model of the Identity-Provider side of crewjam/saml
   (identity_provider.go): request decoding and IdpAuthnRequest.Validate,
   getACSEndpoint, the IdP-initiated routing loop, DefaultAssertionMaker.MakeAssertion,
   getSPEncryptionCert / MakeAssertionEl, MakeResponse, PostBinding, and the two
   HTTP entry points ServeSSO / ServeIDPInitiated.  Definitions only; lemmas are in
   IdPModelProofs.v.

   Conventions (DESIGN.md §3): strings are bytes, instants and durations are Z
   nanoseconds, every early return of the Go code is an [Err] with a small code,
   cryptography is symbolic (a signature is a record naming signer, reference and
   the content it covers; an encrypted assertion is a record naming the recipient
   key and the slices of the random stream used as content key and IV). *)
From Saml Require Import Base TimeModel.

(* ------------------------------------------------------------------------- *)
(* configuration: the fields of saml.IdentityProvider and the package
   variables that the modelled functions read                                 *)
Record idpcfg := {
  sso_url         : string;    (* idp.SSOURL.String() *)
  idp_entity      : string;    (* idp.MetadataURL.String() = idp.Metadata().EntityID *)
  max_issue_delay : Z;         (* package variable MaxIssueDelay *)
  max_clock_skew  : Z;         (* package variable MaxClockSkew *)
  sig_method      : string;    (* idp.SignatureMethod *)
  idp_key         : Z;         (* idp.Key   (identifier of the key pair) *)
  idp_signer      : option Z;  (* idp.Signer (takes precedence when set) *)
  idp_signer_ecdsa : bool      (* the Signer's public key is an ECDSA key (idp.Key is always RSA: the key store asserts it) *)
}.

(* ------------------------------------------------------------------------- *)
(* SP metadata as held by the ServiceProviderProvider                          *)
Record endpoint := { ep_binding : string; ep_location : string; ep_index : Z; ep_default : option bool }.
Record keydesc  := { kd_use : string; kd_certs : list string }.      (* X509Certificate/Data strings *)
(* ra_values: the texts of the AttributeValue children the SP put into the metadata's
   RequestedAttribute ("the values requested"); the IdP must not echo them *)
Record reqattr  := { ra_friendly : string; ra_name : string; ra_format : string; ra_values : list string }.
Record attrsvc  := { as_default : option bool; as_requested : list reqattr }.
Record spsso    := { acs : list endpoint; kds : list keydesc; attr_services : list attrsvc }.
Record spmeta   := { md_entity : string; descriptors : list spsso }.

(* an AssertionConsumerService element as written in a metadata document, and what
   IndexedEndpoint.UnmarshalXML (checkEndpointLocation) makes of it when the
   document parses: the Location of an endpoint whose binding the parser does
   not know is blanked; ResponseLocation (checked, kept or dropped) never
   reaches Location.  (A known binding with a Location that is not an http(s)
   URL makes the whole document fail to parse; such documents are not registered.) *)
Record rawendpoint := { re_binding : string; re_location : string; re_response_location : option string;
                        re_index : Z; re_default : option bool }.
Definition known_bindings : list string :=
  [ "urn:oasis:names:tc:SAML:2.0:bindings:HTTP-POST"; "urn:oasis:names:tc:SAML:2.0:bindings:HTTP-Redirect";
    "urn:oasis:names:tc:SAML:2.0:bindings:HTTP-Artifact"; "urn:oasis:names:tc:SAML:2.0:bindings:SOAP";
    "urn:oasis:names:tc:SAML:1.0:bindings:SOAP-binding" ].
Definition parse_endpoint (r : rawendpoint) : endpoint :=
  {| ep_binding := re_binding r;
     ep_location := if mem_str (re_binding r) known_bindings then re_location r else "";
     ep_index := re_index r; ep_default := re_default r |}.

Inductive reglookup := Found (md : spmeta) | NotExist | LookupErr.
Definition registry := string -> reglookup.

Fixpoint reg_of_list (l : list (string * reglookup)) (id : string) : reglookup :=
  match l with
  | [] => NotExist
  | (k, v) :: r => if seqb k id then v else reg_of_list r id
  end.

(* ------------------------------------------------------------------------- *)
(* the authentication request after xml.Unmarshal                              *)
Record authnreq := {
  rq_id : string; rq_version : string; rq_issue : Z; rq_destination : string;
  rq_issuer : option string;       (* None: no <Issuer> element *)
  rq_acs_url : string; rq_acs_index : string
}.

(* the request as written on the wire: absent attributes are "" (Go cannot tell
   the difference), IssueInstant is text (None: attribute absent)             *)
Record wirereq := {
  w_id : string; w_version : string; w_issue : option string; w_destination : string;
  w_issuer : option string; w_acs_url : string; w_acs_index : string
}.
(* what reached the IdP: something NewIdpAuthnRequest / xrv.Validate / xml.Unmarshal
   refuse (bad base64, bad deflate, not XML, wrong root), or a decodable request *)
Inductive framed := Undecodable | Decoded (w : wirereq).

(* xml.Unmarshal of the IssueInstant attribute is RelaxedTime.UnmarshalText *)
Definition decode_req (f : framed) : outcome authnreq :=
  match f with
  | Undecodable => Err 1
  | Decoded w =>
      do t <- match w_issue w with None => Ok zero_time | Some s => parse_relaxed s end;
      Ok {| rq_id := w_id w; rq_version := w_version w; rq_issue := t;
            rq_destination := w_destination w; rq_issuer := w_issuer w;
            rq_acs_url := w_acs_url w; rq_acs_index := w_acs_index w |}
  end.

Definition post_binding     := "urn:oasis:names:tc:SAML:2.0:bindings:HTTP-POST".
Definition redirect_binding := "urn:oasis:names:tc:SAML:2.0:bindings:HTTP-Redirect".

(* strconv.Itoa *)
Definition itoa (z : Z) : string := if z <? 0 then String "-" (dec (- z)) else dec z.

(* the doubly nested "first match wins" loop shared by all four stages:
     for _, d := range md.SPSSODescriptors { for _, e := range d.AssertionConsumerServices { if p(e) { return d, e } } }
   with the positions of the match *)
Fixpoint find_acs (p : endpoint -> bool) (ds : list spsso) (di : Z) : option (Z * Z * spsso * endpoint) :=
  match ds with
  | [] => None
  | d :: r =>
      match find_index p (acs d) 0 with
      | Some (ei, e) => Some (di, ei, d, e)
      | None => find_acs p r (di + 1)
      end
  end.

Definition is_default (e : endpoint) : bool :=
  match ep_default e with Some true => true | _ => false end.
Definition browser_binding (b : string) : bool := seqb b post_binding || seqb b redirect_binding.

Definition p_index (idx : string) (e : endpoint) : bool := seqb (itoa (ep_index e)) idx.
Definition p_url (url : string) (e : endpoint) : bool := seqb (ep_location e) url.
Definition p_default (e : endpoint) : bool := is_default e && browser_binding (ep_binding e).
Definition p_browser (e : endpoint) : bool := browser_binding (ep_binding e).
Definition p_post (e : endpoint) : bool := seqb (ep_binding e) post_binding.

(* IdpAuthnRequest.getACSEndpoint *)
Definition get_acs_endpoint (md : spmeta) (rq : authnreq) : option (Z * Z * spsso * endpoint) :=
  let ds := descriptors md in
  match (if nonempty (rq_acs_index rq) then find_acs (p_index (rq_acs_index rq)) ds 0 else None) with
  | Some r => Some r
  | None =>
      match (if nonempty (rq_acs_url rq) then find_acs (p_url (rq_acs_url rq)) ds 0 else None) with
      | Some r => Some r
      | None =>
          if negb (nonempty (rq_acs_url rq)) && negb (nonempty (rq_acs_index rq)) then
            match find_acs p_default ds 0 with
            | Some r => Some r
            | None => find_acs p_browser ds 0
            end
          else None
      end
  end.

(* the loop in ServeIDPInitiated: first HTTP-POST endpoint *)
Definition idp_initiated_route (md : spmeta) : option (Z * Z * spsso * endpoint) :=
  find_acs p_post (descriptors md) 0.

Record routing := { rt_md : spmeta; rt_di : Z; rt_ei : Z; rt_desc : spsso; rt_ep : endpoint }.
Definition mk_routing (md : spmeta) (r : Z * Z * spsso * endpoint) : routing :=
  let '(di, ei, d, e) := r in {| rt_md := md; rt_di := di; rt_ei := ei; rt_desc := d; rt_ep := e |}.

(* IdpAuthnRequest.Validate after decoding, statement by statement.
   (Metadata() always has exactly one IDPSSODescriptor and never sets
   WantAuthnRequestsSigned, so those two branches are dead.) *)
Definition validate (cfg : idpcfg) (reg : registry) (now : Z) (rq : authnreq) : outcome routing :=
  if nonempty (rq_destination rq) && negb (seqb (rq_destination rq) (sso_url cfg)) then Err 2 else
  if rq_issue rq + max_issue_delay cfg <? now then Err 3 else
  if negb (seqb (rq_version rq) "2.0") then Err 4 else
  match rq_issuer rq with
  | None => Err 5
  | Some iss =>
      match reg iss with
      | NotExist => Err 6
      | LookupErr => Err 7
      | Found md =>
          match get_acs_endpoint md rq with
          | None => Err 8
          | Some r => Ok (mk_routing md r)
          end
      end
  end.

Definition validate_framed (cfg : idpcfg) (reg : registry) (now : Z) (f : framed) : outcome routing :=
  do rq <- decode_req f; validate cfg reg now rq.

(* ------------------------------------------------------------------------- *)
(* sessions and assertions                                                      *)
Record nameid := { ni_format : string; ni_name_qualifier : string; ni_sp_name_qualifier : string; ni_value : string }.
(* AttributeValue: xsi:type, character data and, optionally, a NameID child (the struct
   carries both; Element() writes the child and the text) *)
Record attrvalue := { av_type : string; av_value : string; av_nameid : option nameid }.
Record attribute := { at_friendly : string; at_name : string; at_format : string; at_values : list attrvalue }.

Record session := {
  ss_create : Z; ss_index : string; ss_nameid : string; ss_nameid_format : string; ss_subject_id : string;
  ss_groups : list string; ss_user_name : string; ss_email : string; ss_common_name : string;
  ss_surname : string; ss_given_name : string; ss_scoped_aff : string; ss_eppn : string;
  ss_custom : list attribute
}.


Record assertion := {
  a_id : string; a_issue_instant : Z; a_issuer : string; a_issuer_format : string;
  a_nameid : nameid;
  a_conf_method : string; a_conf_address : string; a_conf_in_response_to : string;
  a_conf_noa : Z; a_conf_recipient : string;
  a_not_before : Z; a_noa : Z; a_audiences : list string;
  a_authn_instant : Z; a_session_index : string; a_locality : string; a_class_ref : string;
  a_attributes : list attribute
}.

Definition is_alnum (c : ascii) : bool :=
  let n := code c in
  ((48 <=? n) && (n <=? 57)) || ((65 <=? n) && (n <=? 90)) || ((97 <=? n) && (n <=? 122)).
(* regexp.MustCompile("[^A-Za-z0-9]+").ReplaceAllString(name, "") *)
Fixpoint strip_non_alnum (s : string) : string :=
  match s with
  | EmptyString => EmptyString
  | String c r => if is_alnum c then String c (strip_non_alnum r) else strip_non_alnum r
  end.

Definition fmt_basic := "urn:oasis:names:tc:SAML:2.0:attrname-format:basic".
Definition fmt_unspecified := "urn:oasis:names:tc:SAML:2.0:attrname-format:unspecified".
Definition fmt_uri := "urn:oasis:names:tc:SAML:2.0:attrname-format:uri".

Definition xs_val (v : string) : attrvalue := {| av_type := "xs:string"; av_value := v; av_nameid := None |}.

(* the switch on the normalised requested-attribute name *)
Definition requested_value (s : session) (n : string) : option string :=
  if mem_str n ["email"; "emailaddress"] then Some (ss_email s) else
  if mem_str n ["name"; "fullname"; "cn"; "commonname"] then Some (ss_common_name s) else
  if mem_str n ["givenname"; "firstname"] then Some (ss_given_name s) else
  if mem_str n ["surname"; "lastname"; "familyname"] then Some (ss_surname s) else
  if mem_str n ["uid"; "user"; "userid"] then Some (ss_user_name s) else None.

Fixpoint requested_attrs (s : session) (ras : list reqattr) : list attribute :=
  match ras with
  | [] => []
  | ra :: r =>
      (if seqb (ra_format ra) fmt_basic || seqb (ra_format ra) fmt_unspecified then
         match requested_value s (strip_non_alnum (ra_name ra)) with
         | Some v => [ {| at_friendly := ra_friendly ra; at_name := ra_name ra;
                          at_format := ra_format ra; at_values := [xs_val v] |} ]
         | None => []
         end
       else []) ++ requested_attrs s r
  end.

(* first AttributeConsumingService with isDefault=true, else the first, else an empty one *)
Definition svc_is_default (a : attrsvc) : bool := match as_default a with Some true => true | _ => false end.
Definition choose_attr_service (l : list attrsvc) : attrsvc :=
  match find svc_is_default l with
  | Some a => a
  | None => match l with a :: _ => a | [] => {| as_default := None; as_requested := [] |} end
  end.

Definition uri_attr (friendly name : string) (vals : list attrvalue) : attribute :=
  {| at_friendly := friendly; at_name := name; at_format := fmt_uri; at_values := vals |}.
Definition opt_attr (cond : bool) (a : attribute) : list attribute := if cond then [a] else [].

Definition session_attributes (svc : attrsvc) (s : session) : list attribute :=
  requested_attrs s (as_requested svc)
  ++ opt_attr (nonempty (ss_user_name s)) (uri_attr "uid" "urn:oid:0.9.2342.19200300.100.1.1" [xs_val (ss_user_name s)])
  ++ opt_attr (nonempty (ss_email s)) (uri_attr "mail" "urn:oid:0.9.2342.19200300.100.1.3" [xs_val (ss_email s)])
  ++ opt_attr (nonempty (ss_eppn s) || nonempty (ss_email s))
       (uri_attr "eduPersonPrincipalName" "urn:oid:1.3.6.1.4.1.5923.1.1.1.6"
          [xs_val (if nonempty (ss_eppn s) then ss_eppn s else ss_email s)])
  ++ opt_attr (nonempty (ss_surname s)) (uri_attr "sn" "urn:oid:2.5.4.4" [xs_val (ss_surname s)])
  ++ opt_attr (nonempty (ss_given_name s)) (uri_attr "givenName" "urn:oid:2.5.4.42" [xs_val (ss_given_name s)])
  ++ opt_attr (nonempty (ss_common_name s)) (uri_attr "cn" "urn:oid:2.5.4.3" [xs_val (ss_common_name s)])
  ++ opt_attr (nonempty (ss_scoped_aff s))
       (uri_attr "scopedAffiliation" "urn:oid:1.3.6.1.4.1.5923.1.1.1.9" [xs_val (ss_scoped_aff s)])
  ++ ss_custom s
  ++ opt_attr (match ss_groups s with [] => false | _ => true end)
       (uri_attr "eduPersonAffiliation" "urn:oid:1.3.6.1.4.1.5923.1.1.1.1" (map xs_val (ss_groups s)))
  ++ opt_attr (nonempty (ss_subject_id s))
       (uri_attr "" "urn:oasis:names:tc:SAML:attribute:subject-id" [xs_val (ss_subject_id s)]).

(* Conditions window: anchored at the IdP clock minus the skew unless the
   request's IssueInstant is later *)
Definition cond_window (cfg : idpcfg) (now issue : Z) : Z * Z :=
  let nb := now - max_clock_skew cfg in
  if nb <? issue then (issue, issue + max_issue_delay cfg) else (nb, now + max_issue_delay cfg).

Definition fmt_transient := "urn:oasis:names:tc:SAML:2.0:nameid-format:transient".
Definition fmt_entity := "urn:oasis:names:tc:SAML:2.0:nameid-format:entity".
Definition cm_bearer := "urn:oasis:names:tc:SAML:2.0:cm:bearer".
Definition class_ppt := "urn:oasis:names:tc:SAML:2.0:ac:classes:PasswordProtectedTransport".
Definition status_success := "urn:oasis:names:tc:SAML:2.0:status:Success".

(* fmt.Sprintf("id-%x", randomBytes(20)) on the stream of saml.RandReader *)
Definition draw_id (rand : string) : string * string :=
  ("id-" +++ to_hex (take 20 rand), drop 20 rand).

(* DefaultAssertionMaker.MakeAssertion.  [now] is req.Now, [tnow] the value of
   TimeNow() when the assertion is built, [addr] req.HTTPRequest.RemoteAddr.
   For an IdP-initiated launch [rq] is the zero AuthnRequest ([empty_request]). *)
Definition make_assertion (cfg : idpcfg) (rt : routing) (rq : authnreq) (s : session)
           (now tnow : Z) (addr : string) (rand : string) : assertion * string :=
  let '(id, rand') := draw_id rand in
  let '(nb, noa) := cond_window cfg now (rq_issue rq) in
  ({| a_id := id; a_issue_instant := tnow; a_issuer := idp_entity cfg; a_issuer_format := fmt_entity;
      a_nameid := {| ni_format := if nonempty (ss_nameid_format s) then ss_nameid_format s else fmt_transient;
                     ni_name_qualifier := idp_entity cfg;
                     ni_sp_name_qualifier := md_entity (rt_md rt);
                     ni_value := ss_nameid s |};
      a_conf_method := cm_bearer; a_conf_address := addr; a_conf_in_response_to := rq_id rq;
      a_conf_noa := now + max_issue_delay cfg; a_conf_recipient := ep_location (rt_ep rt);
      a_not_before := nb; a_noa := noa; a_audiences := [md_entity (rt_md rt)];
      a_authn_instant := ss_create s; a_session_index := ss_index s; a_locality := addr;
      a_class_ref := class_ppt;
      a_attributes := session_attributes (choose_attr_service (attr_services (rt_desc rt))) s |}, rand').

Definition empty_request : authnreq :=
  {| rq_id := ""; rq_version := ""; rq_issue := zero_time; rq_destination := ""; rq_issuer := None;
     rq_acs_url := ""; rq_acs_index := "" |}.

(* ------------------------------------------------------------------------- *)
(* encryption decision: getSPEncryptionCert                                     *)
(* what  base64 decode ; x509.ParseCertificate ; RSA public key?  make of a
   certificate string from which ALL white space has been removed (external;
   supplied as a function [cp]); the white-space removal itself is modelled *)
Inductive certres := CertBad | CertNotRsa | CertRsaKey (id : Z).

(* regexp.MustCompile(`\s+`).ReplaceAllString(certStr, ""): RE2's \s is [\t\n\f\r ] *)
Definition is_ws (c : ascii) : bool :=
  let n := code c in (n =? 9) || (n =? 10) || (n =? 12) || (n =? 13) || (n =? 32).
Fixpoint strip_ws (s : string) : string :=
  match s with
  | EmptyString => EmptyString
  | String c r => if is_ws c then strip_ws r else String c (strip_ws r)
  end.
Inductive encdec := Plain | EncryptTo (id : Z) | EncErr | EncPanic.

Definition first_cert (k : keydesc) : option string :=
  match kd_certs k with [] => None | c :: _ => Some c end.

(* first loop: the first descriptor with use="encryption" decides *)
Fixpoint enc_loop (l : list keydesc) : outcome string :=
  match l with
  | [] => Ok ""
  | k :: r =>
      if seqb (kd_use k) "encryption" then
        match first_cert k with
        | None => Err 30                 (* after fix F6; before it: index out of range *)
        | Some c => if nonempty c then Ok c else Err 30   (* after fix F17; before it: Ok "" and, in the end, plaintext *)
        end
      else enc_loop r
  end.
(* second loop: first descriptor without use whose first certificate is non-empty *)
Fixpoint unspec_loop (l : list keydesc) : string :=
  match l with
  | [] => ""
  | k :: r =>
      if negb (nonempty (kd_use k)) then
        match first_cert k with
        | Some c => if nonempty c then c else unspec_loop r
        | None => unspec_loop r
        end
      else unspec_loop r
  end.

(* Ok None = os.ErrNotExist *)
Definition choose_cert_str (l : list keydesc) : outcome (option string) :=
  do c <- enc_loop l;
  let c := if nonempty c then c else unspec_loop l in
  if nonempty c then Ok (Some c) else Ok None.

Definition enc_decision (cp : string -> certres) (l : list keydesc) : encdec :=
  match choose_cert_str l with
  | Panic => EncPanic
  | Err _ => EncErr
  | Ok None => Plain
  | Ok (Some c) =>
      match cp (strip_ws c) with
      | CertRsaKey id => EncryptTo id
      | _ => EncErr                      (* bad base64 / bad DER: getSPEncryptionCert fails; non-RSA key: Encrypt fails *)
      end
  end.

(* ------------------------------------------------------------------------- *)
(* symbolic signatures and encryption                                           *)
Record sigrec (A : Type) := { sg_signer : Z; sg_method : string; sg_ref : string; sg_over : A }.
Arguments sg_signer {A} s. Arguments sg_method {A} s. Arguments sg_ref {A} s. Arguments sg_over {A} s.
Arguments Build_sigrec {A} sg_signer sg_method sg_ref sg_over.

(* xmlenc.OAEP().Encrypt with AES128-CBC: consecutive draws from xmlenc.RandReader:
   content key (16), EncryptedKey Id (16), OAEP seed ([wrapn] bytes, inside
   rsa.EncryptOAEP), EncryptedData Id (16), IV (16) *)
Record encrec := {
  en_recipient : Z;                 (* key pair able to unwrap the content key *)
  en_key : string; en_key_id : string; en_data_id : string; en_iv : string;
  en_plain : assertion * sigrec assertion   (* visible only to en_recipient *)
}.
Definition slice (off n : nat) (s : string) : string := take n (drop off s).
Definition enc_consumed (wrapn : nat) : nat := (64 + wrapn)%nat.
Definition encrypt_assertion (recipient : Z) (wrapn : nat) (rand : string)
           (p : assertion * sigrec assertion) : encrec * string :=
  ({| en_recipient := recipient;
      en_key := slice 0 16 rand; en_key_id := slice 16 16 rand;
      en_data_id := slice (32 + wrapn) 16 rand; en_iv := slice (48 + wrapn) 16 rand;
      en_plain := p |}, drop (enc_consumed wrapn) rand).

Inductive assertion_el := APlain (a : assertion) (s : sigrec assertion) | AEnc (e : encrec).

Record respbody := {
  rs_id : string; rs_in_response_to : string; rs_issue_instant : Z; rs_destination : string;
  rs_issuer : string; rs_issuer_format : string; rs_status : string; rs_assertion : assertion_el
}.
Record response := { rs_body : respbody; rs_sig : sigrec respbody }.

Definition rsa_sha1   := "http://www.w3.org/2000/09/xmldsig#rsa-sha1".
Definition rsa_sha256 := "http://www.w3.org/2001/04/xmldsig-more#rsa-sha256".
Definition rsa_sha384 := "http://www.w3.org/2001/04/xmldsig-more#rsa-sha384".
Definition rsa_sha512 := "http://www.w3.org/2001/04/xmldsig-more#rsa-sha512".
Definition rsa_methods := [rsa_sha1; rsa_sha256; rsa_sha384; rsa_sha512].
Definition ecdsa_sha1   := "http://www.w3.org/2001/04/xmldsig-more#ecdsa-sha1".
Definition ecdsa_sha256 := "http://www.w3.org/2001/04/xmldsig-more#ecdsa-sha256".
Definition ecdsa_sha384 := "http://www.w3.org/2001/04/xmldsig-more#ecdsa-sha384".
Definition ecdsa_sha512 := "http://www.w3.org/2001/04/xmldsig-more#ecdsa-sha512".
Definition ecdsa_methods := [ecdsa_sha1; ecdsa_sha256; ecdsa_sha384; ecdsa_sha512].
Definition all_methods := (rsa_methods ++ ecdsa_methods)%list.

Definition effective_method (cfg : idpcfg) : string :=
  if nonempty (sig_method cfg) then sig_method cfg else rsa_sha1.
Definition signer_key (cfg : idpcfg) : Z :=
  match idp_signer cfg with Some k => k | None => idp_key cfg end.

(* signingContext(): SetSignatureMethod accepts exactly the methods of the
   signing key's algorithm — RSA for idp.Key (through the TLS key store) and for
   an RSA crypto.Signer (a *rsa.PrivateKey or an opaque wrapper), ECDSA for an
   ECDSA crypto.Signer *)
Definition allowed_methods (cfg : idpcfg) : list string :=
  match idp_signer cfg with
  | Some _ => if idp_signer_ecdsa cfg then ecdsa_methods else rsa_methods
  | None => rsa_methods
  end.
Definition signing_context (cfg : idpcfg) : outcome (Z * string) :=
  if mem_str (effective_method cfg) (allowed_methods cfg) then Ok (signer_key cfg, effective_method cfg) else Err 20.

Definition sign {A} (ctx : Z * string) (id : string) (content : A) : sigrec A :=
  {| sg_signer := fst ctx; sg_method := snd ctx; sg_ref := "#" +++ id; sg_over := content |}.

(* the two random sources: saml.RandReader (IDs) and xmlenc.RandReader *)
Record rands := { rnd_saml : string; rnd_enc : string; rnd_wrapn : nat }.

(* MakeAssertionEl *)
Definition make_assertion_el (cfg : idpcfg) (cp : string -> certres) (rt : routing) (a : assertion)
           (rnd : rands) : outcome assertion_el :=
  do ctx <- signing_context cfg;
  let sg := sign ctx (a_id a) a in
  match enc_decision cp (kds (rt_desc rt)) with
  | Plain => Ok (APlain a sg)
  | EncErr => Err 21
  | EncPanic => Panic
  | EncryptTo id => Ok (AEnc (fst (encrypt_assertion id (rnd_wrapn rnd) (rnd_enc rnd) (a, sg))))
  end.

(* MakeResponse; [rand] is what is left of saml.RandReader after the assertion ID *)
Definition make_response (cfg : idpcfg) (rt : routing) (rq : authnreq) (now : Z)
           (ael : assertion_el) (rand : string) : outcome response :=
  let '(id, _) := draw_id rand in
  let body := {| rs_id := id; rs_in_response_to := rq_id rq; rs_issue_instant := now;
                 rs_destination := ep_location (rt_ep rt); rs_issuer := idp_entity cfg;
                 rs_issuer_format := fmt_entity; rs_status := status_success; rs_assertion := ael |} in
  do ctx <- signing_context cfg;
  Ok {| rs_body := body; rs_sig := sign ctx id body |}.

(* PostBinding: (form action, response, relay state) *)
Definition post_form (rt : routing) (resp : response) (relay : string) : outcome (string * response * string) :=
  if negb (seqb (ep_binding (rt_ep rt)) post_binding) then Err 22
  else Ok (ep_location (rt_ep rt), resp, relay).

(* MakeAssertion ; WriteResponse  — the tail shared by ServeSSO and ServeIDPInitiated *)
Definition respond (cfg : idpcfg) (cp : string -> certres) (rt : routing) (rq : authnreq) (s : session)
           (now tnow : Z) (addr relay : string) (rnd : rands) : outcome (string * response * string) :=
  let '(a, rand') := make_assertion cfg rt rq s now tnow addr (rnd_saml rnd) in
  do ael <- make_assertion_el cfg cp rt a rnd;
  do resp <- make_response cfg rt rq now ael rand';
  post_form rt resp relay.

(* ------------------------------------------------------------------------- *)
(* HTTP entry points: status class and form action                              *)
Inductive httpobs := H400 | H404 | H500 | HForm (action : string) | HPanic.

Definition http_of_respond (o : outcome (string * response * string)) : httpobs :=
  match o with Ok (action, _, _) => HForm action | Err _ => H500 | Panic => HPanic end.

Definition serve_sso (cfg : idpcfg) (cp : string -> certres) (reg : registry) (now : Z) (f : framed)
           (s : session) (addr relay : string) (rnd : rands) : httpobs :=
  match decode_req f with
  | Panic => HPanic
  | Err _ => H400
  | Ok rq =>
      match validate cfg reg now rq with
      | Panic => HPanic
      | Err _ => H400
      | Ok rt => http_of_respond (respond cfg cp rt rq s now now addr relay rnd)
      end
  end.

Definition serve_idp_initiated (cfg : idpcfg) (cp : string -> certres) (reg : registry) (now : Z)
           (spid : string) (s : session) (addr relay : string) (rnd : rands) : httpobs :=
  match reg spid with
  | NotExist => H404
  | LookupErr => H500
  | Found md =>
      match idp_initiated_route md with
      | None => H500
      | Some r => http_of_respond (respond cfg cp (mk_routing md r) empty_request s now now addr relay rnd)
      end
  end.

(* ========================================================================= *)
(* boolean forms of the C05 conclusions (evaluated on the implementation's output) *)

Definition valid_request_b (cfg : idpcfg) (reg : registry) (now : Z) (rq : authnreq) : bool :=
  (now <=? rq_issue rq + max_issue_delay cfg)
  && seqb (rq_version rq) "2.0"
  && (negb (nonempty (rq_destination rq)) || seqb (rq_destination rq) (sso_url cfg))
  && match rq_issuer rq with
     | Some iss => match reg iss with Found _ => true | _ => false end
     | None => false
     end.

Definition registered_md (reg : registry) (rq : authnreq) : option spmeta :=
  match rq_issuer rq with
  | Some iss => match reg iss with Found md => Some md | _ => None end
  | None => None
  end.

Fixpoint nth_z {A} (l : list A) (i : Z) : option A :=
  match l with
  | [] => None
  | x :: r => if i =? 0 then Some x else if i <? 0 then None else nth_z r (i - 1)
  end.

Definition endpoint_at (md : spmeta) (di ei : Z) : option endpoint :=
  match nth_z (descriptors md) di with Some d => nth_z (acs d) ei | None => None end.

Definition pos_eqb (a : option (Z * Z * spsso * endpoint)) (di ei : Z) : bool :=
  match a with Some (di', ei', _, _) => (di' =? di) && (ei' =? ei) | None => false end.

(* observation of Validate: error, panic, or accepted with the position
   (descriptor, endpoint) of req.ACSEndpoint in the registered metadata *)
Inductive vobs := VErr | VPanic | VOk (di ei : Z).
Definition vobs_of (o : outcome routing) : vobs :=
  match o with Ok rt => VOk (rt_di rt) (rt_ei rt) | Err _ => VErr | Panic => VPanic end.
Definition vobs_eqb (a b : vobs) : bool :=
  match a, b with
  | VErr, VErr | VPanic, VPanic => true
  | VOk a1 a2, VOk b1 b2 => (a1 =? b1) && (a2 =? b2)
  | _, _ => false
  end.
Definition httpobs_eqb (a b : httpobs) : bool :=
  match a, b with
  | H400, H400 | H404, H404 | H500, H500 | HPanic, HPanic => true
  | HForm x, HForm y => seqb x y
  | _, _ => false
  end.

(* a certificate table supplied by the harness (its own whitespace strip,
   base64 decode and x509 parse of every certificate string in the metadata) *)
Fixpoint cp_of_list (l : list (string * certres)) (s : string) : certres :=
  match l with [] => CertBad | (k, v) :: r => if seqb k s then v else cp_of_list r s end.

(* ---- C05 case: one request through Validate and through ServeSSO ---- *)
Record c05case := {
  c5_cfg : idpcfg; c5_reg : list (string * reglookup); c5_now : Z; c5_req : framed;
  c5_obs : vobs;            (* NewIdpAuthnRequest + Validate *)
  c5_http : httpobs         (* ServeSSO with a logged-in session *)
}.

Definition dummy_session : session :=
  {| ss_create := 0; ss_index := ""; ss_nameid := ""; ss_nameid_format := ""; ss_subject_id := "";
     ss_groups := []; ss_user_name := ""; ss_email := ""; ss_common_name := ""; ss_surname := "";
     ss_given_name := ""; ss_scoped_aff := ""; ss_eppn := ""; ss_custom := [] |}.
Definition no_rands : rands := {| rnd_saml := ""; rnd_enc := ""; rnd_wrapn := O |}.

Definition c05_agree (c : c05case) : bool :=
  let reg := reg_of_list (c5_reg c) in
  vobs_eqb (vobs_of (validate_framed (c5_cfg c) reg (c5_now c) (c5_req c))) (c5_obs c)
  && httpobs_eqb (serve_sso (c5_cfg c) (cp_of_list []) reg (c5_now c) (c5_req c) dummy_session "" "" no_rands)
                 (c5_http c).

(* the property on the implementation's own output: never a panic; acceptance
   only of a decodable, fresh, 2.0, correctly addressed request of a registered
   issuer; the selected endpoint is the one the priority rule names, at a
   position inside the registered metadata; a form is written only after
   acceptance, and its action is the location of that registered endpoint,
   whose binding is HTTP-POST *)
Definition c05_spec (c : c05case) : bool :=
  let reg := reg_of_list (c5_reg c) in
  let cfg := c5_cfg c in
  match c5_obs c with
  | VPanic => false
  | VErr => match c5_http c with HForm _ | HPanic => false | _ => true end
  | VOk di ei =>
      match decode_req (c5_req c) with
      | Ok rq =>
          valid_request_b cfg reg (c5_now c) rq
          && match registered_md reg rq with
             | None => false
             | Some md =>
                 pos_eqb (get_acs_endpoint md rq) di ei
                 && match endpoint_at md di ei with
                    | None => false
                    | Some e =>
                        match c5_http c with
                        | HForm action => seqb action (ep_location e) && seqb (ep_binding e) post_binding
                        | HPanic => false
                        | _ => true
                        end
                    end
             end
      | _ => false
      end
  end.
Definition check_c05 := check_cases c05_agree c05_spec.

(* ---- C05 case: IdP-initiated launch through ServeIDPInitiated ---- *)
Record c05icase := {
  c5i_cfg : idpcfg; c5i_reg : list (string * reglookup); c5i_spid : string;
  c5i_http : httpobs; c5i_pos : option (Z * Z)   (* position of the endpoint named by Recipient's tag *)
}.
Definition c05i_agree (c : c05icase) : bool :=
  httpobs_eqb (serve_idp_initiated (c5i_cfg c) (cp_of_list []) (reg_of_list (c5i_reg c)) 0 (c5i_spid c)
                                   dummy_session "" "" no_rands) (c5i_http c).
Definition c05i_spec (c : c05icase) : bool :=
  match c5i_http c with
  | HPanic => false
  | HForm action =>
      match reg_of_list (c5i_reg c) (c5i_spid c) with
      | Found md =>
          match idp_initiated_route md with
          | Some (di, ei, _, e) =>
              seqb action (ep_location e) && seqb (ep_binding e) post_binding
              && match c5i_pos c with Some (a, b) => (a =? di) && (b =? ei) | None => true end
          | None => false
          end
      | _ => false
      end
  | _ => true
  end.
Definition check_c05i := check_cases c05i_agree c05i_spec.

(* ========================================================================= *)
(* C06: decidable equality of the emitted structures and the monitor           *)
Fixpoint list_eqb {A} (eq : A -> A -> bool) (a b : list A) : bool :=
  match a, b with
  | [], [] => true
  | x :: a', y :: b' => eq x y && list_eqb eq a' b'
  | _, _ => false
  end.
Definition nameid_eqb (a b : nameid) : bool :=
  seqb (ni_format a) (ni_format b) && seqb (ni_name_qualifier a) (ni_name_qualifier b)
  && seqb (ni_sp_name_qualifier a) (ni_sp_name_qualifier b) && seqb (ni_value a) (ni_value b).
Definition attrvalue_eqb (a b : attrvalue) : bool :=
  seqb (av_type a) (av_type b) && seqb (av_value a) (av_value b)
  && match av_nameid a, av_nameid b with
     | None, None => true
     | Some x, Some y => nameid_eqb x y
     | _, _ => false
     end.
Definition attribute_eqb (a b : attribute) : bool :=
  seqb (at_friendly a) (at_friendly b) && seqb (at_name a) (at_name b) && seqb (at_format a) (at_format b)
  && list_eqb attrvalue_eqb (at_values a) (at_values b).
Definition assertion_eqb (a b : assertion) : bool :=
  seqb (a_id a) (a_id b) && (a_issue_instant a =? a_issue_instant b) && seqb (a_issuer a) (a_issuer b)
  && seqb (a_issuer_format a) (a_issuer_format b) && nameid_eqb (a_nameid a) (a_nameid b)
  && seqb (a_conf_method a) (a_conf_method b) && seqb (a_conf_address a) (a_conf_address b)
  && seqb (a_conf_in_response_to a) (a_conf_in_response_to b) && (a_conf_noa a =? a_conf_noa b)
  && seqb (a_conf_recipient a) (a_conf_recipient b) && (a_not_before a =? a_not_before b) && (a_noa a =? a_noa b)
  && list_eqb seqb (a_audiences a) (a_audiences b) && (a_authn_instant a =? a_authn_instant b)
  && seqb (a_session_index a) (a_session_index b) && seqb (a_locality a) (a_locality b)
  && seqb (a_class_ref a) (a_class_ref b) && list_eqb attribute_eqb (a_attributes a) (a_attributes b).
Definition sig_eqb {A} (eq : A -> A -> bool) (x y : sigrec A) : bool :=
  (sg_signer x =? sg_signer y) && seqb (sg_method x) (sg_method y) && seqb (sg_ref x) (sg_ref y)
  && eq (sg_over x) (sg_over y).
Definition encrec_eqb (x y : encrec) : bool :=
  (en_recipient x =? en_recipient y) && seqb (en_key x) (en_key y) && seqb (en_key_id x) (en_key_id y)
  && seqb (en_data_id x) (en_data_id y) && seqb (en_iv x) (en_iv y)
  && assertion_eqb (fst (en_plain x)) (fst (en_plain y)) && sig_eqb assertion_eqb (snd (en_plain x)) (snd (en_plain y)).
Definition ael_eqb (x y : assertion_el) : bool :=
  match x, y with
  | APlain a s, APlain b t => assertion_eqb a b && sig_eqb assertion_eqb s t
  | AEnc e, AEnc f => encrec_eqb e f
  | _, _ => false
  end.
Definition respbody_eqb (x y : respbody) : bool :=
  seqb (rs_id x) (rs_id y) && seqb (rs_in_response_to x) (rs_in_response_to y)
  && (rs_issue_instant x =? rs_issue_instant y) && seqb (rs_destination x) (rs_destination y)
  && seqb (rs_issuer x) (rs_issuer y) && seqb (rs_issuer_format x) (rs_issuer_format y)
  && seqb (rs_status x) (rs_status y) && ael_eqb (rs_assertion x) (rs_assertion y).
Definition response_eqb (x y : response) : bool :=
  respbody_eqb (rs_body x) (rs_body y) && sig_eqb respbody_eqb (rs_sig x) (rs_sig y).

(* what the harness observed of one response: nothing emitted (error), a panic, or
   the written form: action, the decoded (and, when encrypted, decrypted with the
   key pair named en_recipient) response, the relay state.  A signature record
   in an observation names the key pair under whose certificate the harness's own
   digest + RSA verification of the emitted element succeeded (0: none did); its
   sg_over is the content of the enclosing element as emitted. *)
Inductive formobs := O6Err | O6Panic | O6Form (action : string) (resp : response) (relay : string).
Definition formobs_of (o : outcome (string * response * string)) : formobs :=
  match o with Ok (a, r, s) => O6Form a r s | Err _ => O6Err | Panic => O6Panic end.
Definition formobs_eqb (a b : formobs) : bool :=
  match a, b with
  | O6Err, O6Err | O6Panic, O6Panic => true
  | O6Form a1 r1 s1, O6Form a2 r2 s2 => seqb a1 a2 && response_eqb r1 r2 && seqb s1 s2
  | _, _ => false
  end.

Record c06case := {
  c6_cfg : idpcfg; c6_md : spmeta; c6_certs : list (string * certres);
  c6_rq : option authnreq;            (* None: IdP-initiated launch *)
  c6_sess : session; c6_now : Z; c6_tnow : Z; c6_addr : string; c6_relay : string; c6_rnd : rands;
  c6_obs : formobs
}.

Definition c06_request (c : c06case) : authnreq :=
  match c6_rq c with Some r => r | None => empty_request end.
Definition c06_route (c : c06case) : option (Z * Z * spsso * endpoint) :=
  match c6_rq c with Some r => get_acs_endpoint (c6_md c) r | None => idp_initiated_route (c6_md c) end.
Definition c06_model (c : c06case) : outcome (string * response * string) :=
  match c06_route c with
  | None => Err 8
  | Some r => respond (c6_cfg c) (cp_of_list (c6_certs c)) (mk_routing (c6_md c) r) (c06_request c) (c6_sess c)
                      (c6_now c) (c6_tnow c) (c6_addr c) (c6_relay c) (c6_rnd c)
  end.
Definition c06_agree (c : c06case) : bool := formobs_eqb (formobs_of (c06_model c)) (c6_obs c).

(* the assertion carried by a response, with its signature (inside the
   ciphertext when encrypted) *)
Definition inner_assertion (r : response) : assertion * sigrec assertion :=
  match rs_assertion (rs_body r) with APlain a s => (a, s) | AEnc e => en_plain e end.

Definition scoping_b (cfg : idpcfg) (md : spmeta) (e : endpoint) (rq : authnreq) (relay : string)
           (action : string) (resp : response) (orelay : string) : bool :=
  let a := fst (inner_assertion resp) in
  let b := rs_body resp in
  seqb (ep_binding e) post_binding
  && seqb action (ep_location e) && seqb (rs_destination b) (ep_location e)
  && seqb (a_conf_recipient a) (ep_location e)
  && list_eqb seqb (a_audiences a) [md_entity md]
  && seqb (rs_in_response_to b) (rq_id rq) && seqb (a_conf_in_response_to a) (rq_id rq)
  && seqb (rs_issuer b) (idp_entity cfg) && seqb (a_issuer a) (idp_entity cfg)
  && seqb (a_conf_method a) cm_bearer && seqb (rs_status b) status_success
  && seqb orelay relay.

Definition times_b (cfg : idpcfg) (rq : authnreq) (now tnow : Z) (resp : response) : bool :=
  let a := fst (inner_assertion resp) in
  (now - max_clock_skew cfg <=? a_not_before a)
  && (if now - max_clock_skew cfg <? rq_issue rq
      then (a_not_before a =? rq_issue rq) && (a_noa a =? rq_issue rq + max_issue_delay cfg)
      else (a_not_before a =? now - max_clock_skew cfg) && (a_noa a =? now + max_issue_delay cfg))
  && (a_conf_noa a =? now + max_issue_delay cfg)
  && (rs_issue_instant (rs_body resp) =? now) && (a_issue_instant a =? tnow).

Definition session_values (s : session) : list string :=
  [ss_email s; ss_common_name s; ss_given_name s; ss_surname s; ss_user_name s; ss_eppn s;
   ss_scoped_aff s; ss_subject_id s] ++ ss_groups s
  ++ flat_map (fun a => flat_map (fun v => av_value v :: match av_nameid v with Some n => [ni_value n] | None => [] end)
                                 (at_values a)) (ss_custom s).

Fixpoint subseq_b {A} (eq : A -> A -> bool) (small big : list A) : bool :=
  match small, big with
  | [], _ => true
  | _ :: _, [] => false
  | x :: s', y :: b' => if eq x y then subseq_b eq s' b' else subseq_b eq small b'
  end.

Definition group_attr_ok (s : session) (attrs : list attribute) : bool :=
  match ss_groups s with
  | [] => true
  | g => existsb (fun a => seqb (at_name a) "urn:oid:1.3.6.1.4.1.5923.1.1.1.1"
                           && list_eqb attrvalue_eqb (at_values a) (map xs_val g)) attrs
  end.

Definition attrs_b (s : session) (resp : response) : bool :=
  let a := fst (inner_assertion resp) in
  seqb (ni_value (a_nameid a)) (ss_nameid s)
  && seqb (a_session_index a) (ss_index s) && (a_authn_instant a =? ss_create s)
  && forallb (fun x => forallb (fun v => mem_str (av_value v) (session_values s)
                                         && match av_nameid v with Some n => mem_str (ni_value n) (session_values s) | None => true end)
                               (at_values x)) (a_attributes a)
  && subseq_b attribute_eqb (ss_custom s) (a_attributes a)
  && group_attr_ok s (a_attributes a).

(* the attribute statement is exactly the list MakeAssertion builds from this session for the
   routed descriptor — names, friendly names, formats, value lists (an attribute with no value is
   a difference), order; in particular eduPersonPrincipalName falls back to the mail only when
   the session has no principal name *)
Definition attrs_exact_b (d : spsso) (s : session) (resp : response) : bool :=
  list_eqb attribute_eqb (a_attributes (fst (inner_assertion resp)))
           (session_attributes (choose_attr_service (attr_services d)) s).

Definition signed_b (cfg : idpcfg) (resp : response) : bool :=
  let '(a, sa) := inner_assertion resp in
  let sr := rs_sig resp in
  (sg_signer sr =? signer_key cfg) && seqb (sg_method sr) (effective_method cfg)
  && seqb (sg_ref sr) ("#" +++ rs_id (rs_body resp)) && respbody_eqb (sg_over sr) (rs_body resp)
  && (sg_signer sa =? signer_key cfg) && seqb (sg_method sa) (effective_method cfg)
  && seqb (sg_ref sa) ("#" +++ a_id a) && assertion_eqb (sg_over sa) a
  && mem_str (effective_method cfg) (allowed_methods cfg).

Definition c06_spec (c : c06case) : bool :=
  match c6_obs c with
  | O6Panic => false
  | O6Err => negb (is_ok (c06_model c))   (* nothing emitted although a (signed) response is due *)
  | O6Form action resp relay =>
      match c06_route c with
      | None => false
      | Some (_, _, d, e) =>
          scoping_b (c6_cfg c) (c6_md c) e (c06_request c) (c6_relay c) action resp relay
          && times_b (c6_cfg c) (c06_request c) (c6_now c) (c6_tnow c) resp
          && (attrs_b (c6_sess c) resp && signed_b (c6_cfg c) resp && attrs_exact_b d (c6_sess c) resp)
      end
  end.
Definition check_c06 := check_cases c06_agree c06_spec.

(* ========================================================================= *)
(* C08: declarative form of the encryption decision, symbolic decryption, monitor *)
Definition is_enc_kd (k : keydesc) : bool := seqb (kd_use k) "encryption".
Definition is_usable_unspec (k : keydesc) : bool :=
  negb (nonempty (kd_use k)) && match first_cert k with Some c => nonempty c | None => false end.
Definition first_enc (l : list keydesc) : option keydesc := find is_enc_kd l.
Definition first_unspec (l : list keydesc) : option keydesc := find is_usable_unspec l.

Definition of_cert (r : certres) : encdec := match r with CertRsaKey id => EncryptTo id | _ => EncErr end.
Definition fallback_decision (cp : string -> certres) (l : list keydesc) : encdec :=
  match first_unspec l with
  | Some k => of_cert (cp (strip_ws (opt_str (first_cert k))))
  | None => Plain
  end.
(* what getSPEncryptionCert + Encrypt decide, read off the metadata:
   the FIRST use="encryption" descriptor decides (no certificate element or an
   empty one: error — fixes F6, F17); when there is none, the first descriptor
   without use and with a non-empty first certificate; else no encryption *)
Definition enc_decision_decl (cp : string -> certres) (l : list keydesc) : encdec :=
  match first_enc l with
  | Some k =>
      match first_cert k with
      | None => EncErr
      | Some c => if nonempty c then of_cert (cp (strip_ws c)) else EncErr
      end
  | None => fallback_decision cp l
  end.

(* "the metadata advertises an encryption key": some descriptor has
   use="encryption" (whatever its certificate looks like), or some use-less
   descriptor has a non-empty first certificate *)
Definition advertises_key_b (l : list keydesc) : bool :=
  match first_enc l with Some _ => true | None => false end
  || match first_unspec l with Some _ => true | None => false end.

(* symbolic decryption: only the recipient's private key opens the record *)
Definition sym_decrypt (key : Z) (e : encrec) : option (assertion * sigrec assertion) :=
  if key =? en_recipient e then Some (en_plain e) else None.

Definition is_enc (a : assertion_el) : bool := match a with AEnc _ => true | APlain _ _ => false end.

(* monitor on an observed response (same case type as C06): never a panic; when
   the decision is an error nothing is emitted; when a key is advertised the
   assertion is inside an EncryptedAssertion for exactly the advertised key, and
   the content key / Ids / IV are the slices of this call's random stream *)
Definition c08_kds (c : c06case) : option (list keydesc) :=
  match c06_route c with Some (_, _, d, _) => Some (kds d) | None => None end.
Definition c08_spec (c : c06case) : bool :=
  match c6_obs c with
  | O6Panic => false
  | O6Err =>
      (* nothing emitted: fine unless the model says a response encrypted to a usable
         advertised key is due (e.g. a certificate whose text is wrapped or indented) *)
      match c06_model c, c08_kds c with
      | Ok _, Some l => match enc_decision_decl (cp_of_list (c6_certs c)) l with EncryptTo _ => false | _ => true end
      | _, _ => true
      end
  | O6Form _ resp _ =>
      (* what is recovered (with the SP key, when encrypted) verifies and is the session's *)
      match c06_route c with
      | Some (_, _, d, _) => attrs_b (c6_sess c) resp && signed_b (c6_cfg c) resp && attrs_exact_b d (c6_sess c) resp
      | None => false
      end
      &&
      match c08_kds c with
      | None => false
      | Some l =>
          match rs_assertion (rs_body resp) with
          | APlain _ _ => negb (advertises_key_b l)
          | AEnc e =>
              match enc_decision_decl (cp_of_list (c6_certs c)) l with
              | EncryptTo id =>
                  let w := rnd_wrapn (c6_rnd c) in
                  let r := rnd_enc (c6_rnd c) in
                  (en_recipient e =? id)
                  && seqb (en_key e) (slice 0 16 r) && seqb (en_key_id e) (slice 16 16 r)
                  && seqb (en_data_id e) (slice (32 + w) 16 r) && seqb (en_iv e) (slice (48 + w) 16 r)
              | _ => false
              end
          end
      end
  end.
Definition check_c08 := check_cases c06_agree c08_spec.

(* ========================================================================= *)
(* C07: the SP side needed for the round trip (a small acceptance function
   following ServiceProvider.parseResponse / validateAssertion on the abstract
   response record; the coordinator's SPModel.v is the full SP model), the SP's
   published metadata, and the byte-level transport of every session string    *)
Record spcfg := {
  sp_entity : string;            (* firstSet(sp.EntityID, sp.MetadataURL) *)
  sp_acs : string;               (* sp.AcsURL *)
  sp_key : option Z;             (* Some k: sp.Certificate is set (key pair k) *)
  sp_key_rsa : bool;             (* the certificate's public key is an RSA key (only then is it advertised for encryption: fix F18) *)
  sp_signs : bool;               (* sp.SignatureMethod != "" *)
  sp_idp_entity : string;        (* sp.IDPMetadata.EntityID *)
  sp_idp_key : Z;                (* the signing key published in the IdP metadata *)
  sp_allow_initiated : bool
}.

Definition sig_valid {A} (eq : A -> A -> bool) (key : Z) (sg : sigrec A) (content : A) (id : string) : bool :=
  (sg_signer sg =? key) && seqb (sg_ref sg) ("#" +++ id) && eq (sg_over sg) content
  && mem_str (sg_method sg) all_methods.

(* validateAssertion *)
Definition sp_validate_assertion (sp : spcfg) (delay skew now : Z) (ids : list string) (a : assertion) : outcome assertion :=
  if a_issue_instant a + delay <? now then Err 11 else
  if negb (seqb (a_issuer a) (sp_idp_entity sp)) then Err 12 else
  if negb (sp_allow_initiated sp || mem_str (a_conf_in_response_to a) ids) then Err 13 else
  if negb (seqb (a_conf_recipient a) (sp_acs sp)) then Err 14 else
  if a_conf_noa a + skew <? now then Err 15 else
  if now <? a_not_before a - skew then Err 16 else
  if a_noa a + skew <? now then Err 17 else
  if negb (match a_audiences a with [] => true | l => mem_str (sp_entity sp) l end) then Err 18 else
  Ok a.

(* parseResponse for a response that carries a Response-level signature *)
Definition sp_accept (sp : spcfg) (delay skew now : Z) (ids : list string) (resp : response) : outcome assertion :=
  let b := rs_body resp in
  let sig_ok := sig_valid respbody_eqb (sp_idp_key sp) (rs_sig resp) b (rs_id b) in
  if negb (seqb (rs_destination b) (sp_acs sp)) then Err 2 else
  if negb (sp_allow_initiated sp || mem_str (rs_in_response_to b) ids) then Err 3 else
  if rs_issue_instant b + delay <? now then Err 4 else
  if negb (seqb (rs_issuer b) (sp_idp_entity sp)) then Err 5 else
  if negb (seqb (rs_status b) status_success) then Err 6 else
  if negb sig_ok then Err 1 else
  do a <- match rs_assertion b with
          | APlain a _ => Ok a
          | AEnc e => match sp_key sp with
                      | Some k => match sym_decrypt k e with Some (a, _) => Ok a | None => Err 7 end
                      | None => Err 7
                      end
          end;
  sp_validate_assertion sp delay skew now ids a.

(* ServiceProvider.Metadata() as the IdP sees it after XML serialisation and re-parsing *)
Definition artifact_binding := "urn:oasis:names:tc:SAML:2.0:bindings:HTTP-Artifact".
Definition sp_metadata (sp : spcfg) (cert : string) : spmeta :=
  {| md_entity := sp_entity sp;
     descriptors := [ {| acs := [ {| ep_binding := post_binding; ep_location := sp_acs sp; ep_index := 1; ep_default := None |};
                                  {| ep_binding := artifact_binding; ep_location := sp_acs sp; ep_index := 2; ep_default := None |} ];
                         kds := match sp_key sp with
                                | Some _ => (if sp_key_rsa sp then [ {| kd_use := "encryption"; kd_certs := [cert] |} ] else [])
                                            ++ (if sp_signs sp then [ {| kd_use := "signing"; kd_certs := [cert] |} ] else [])
                                | None => []
                                end;
                         attr_services := [] |} ] |}.
(* MakeAuthenticationRequest: AssertionConsumerServiceURL = sp.AcsURL, no index *)
Definition sp_request (sp : spcfg) (id : string) (issue : Z) (dest : string) : authnreq :=
  {| rq_id := id; rq_version := "2.0"; rq_issue := issue; rq_destination := dest;
     rq_issuer := Some (sp_entity sp); rq_acs_url := sp_acs sp; rq_acs_index := "" |}.

(* ---------- C07: byte-level transport of the session strings ---------- *)
From Saml Require Import XmlText.

(* one serialise -> parse hop with the canonical write settings (all three hops
   of the pipeline use them since fix F14; a second hop changes nothing more) *)
Definition tr_text (s : string) : option string := xml_read_text (etree_escape EscCanonText s).
Definition tr_attr (s : string) : option string := xml_read_attr (etree_escape EscCanonAttr s).

Fixpoint tr_list {A} (f : A -> option A) (l : list A) : option (list A) :=
  match l with
  | [] => Some []
  | x :: r => match f x, tr_list f r with Some y, Some r' => Some (y :: r') | _, _ => None end
  end.
Definition tr_nameid (n : nameid) : option nameid :=
  match tr_attr (ni_format n), tr_attr (ni_name_qualifier n), tr_attr (ni_sp_name_qualifier n), tr_text (ni_value n) with
  | Some f, Some q, Some sq, Some v => Some {| ni_format := f; ni_name_qualifier := q; ni_sp_name_qualifier := sq; ni_value := v |}
  | _, _, _, _ => None
  end.
Definition tr_value (v : attrvalue) : option attrvalue :=
  match tr_attr (av_type v), tr_text (av_value v),
        match av_nameid v with None => Some None | Some n => option_map Some (tr_nameid n) end with
  | Some t, Some x, Some n => Some {| av_type := t; av_value := x; av_nameid := n |}
  | _, _, _ => None
  end.
Definition tr_attribute (a : attribute) : option attribute :=
  match tr_attr (at_friendly a), tr_attr (at_name a), tr_attr (at_format a), tr_list tr_value (at_values a) with
  | Some f, Some n, Some fm, Some vs => Some {| at_friendly := f; at_name := n; at_format := fm; at_values := vs |}
  | _, _, _, _ => None
  end.

Definition empty_svc : attrsvc := {| as_default := None; as_requested := [] |}.

(* what the SP returns for a session: None = the response is refused (some
   string does not survive as XML), Some (NameID, attributes) otherwise *)
Definition c07_expect (s : session) : option (string * list attribute) :=
  match tr_attr (ss_index s), tr_attr (ss_nameid_format s), tr_text (ss_nameid s),
        tr_list tr_attribute (session_attributes empty_svc s) with
  | Some _, Some _, Some n, Some l => Some (n, l)
  | _, _, _, _ => None
  end.

Definition attr_pos_ok (s : string) : bool := valid_xml_chars s && negb (has_cdata_end s).
Definition nameid_clean (n : nameid) : bool :=
  attr_pos_ok (ni_format n) && attr_pos_ok (ni_name_qualifier n) && attr_pos_ok (ni_sp_name_qualifier n)
  && valid_xml_chars (ni_value n).
Definition value_clean (v : attrvalue) : bool :=
  attr_pos_ok (av_type v) && valid_xml_chars (av_value v)
  && match av_nameid v with Some n => nameid_clean n | None => true end.
Definition attribute_clean (a : attribute) : bool :=
  attr_pos_ok (at_friendly a) && attr_pos_ok (at_name a) && attr_pos_ok (at_format a)
  && forallb value_clean (at_values a).
(* every session string consists of XML characters, and those that travel as XML
   attribute values (session index, NameID format, attribute names / friendly
   names / name formats / value types) do not contain "]]>" *)
Definition session_clean (s : session) : bool :=
  attr_pos_ok (ss_index s) && attr_pos_ok (ss_nameid_format s) && valid_xml_chars (ss_nameid s)
  && forallb attribute_clean (session_attributes empty_svc s).

(* pipeline case: the session given to the IdP, what the SP returned *)
Record c07case := { c7_sess : session; c7_accepted : bool; c7_nameid : string; c7_attrs : list attribute }.
Definition c07_agree (c : c07case) : bool :=
  match c07_expect (c7_sess c) with
  | None => negb (c7_accepted c)
  | Some (n, l) => c7_accepted c && seqb n (c7_nameid c) && list_eqb attribute_eqb l (c7_attrs c)
  end.
(* every session string consists of XML characters (the property's quantifier) *)
Definition value_valid (v : attrvalue) : bool :=
  valid_xml_chars (av_type v) && valid_xml_chars (av_value v)
  && match av_nameid v with
     | Some n => valid_xml_chars (ni_format n) && valid_xml_chars (ni_name_qualifier n)
                 && valid_xml_chars (ni_sp_name_qualifier n) && valid_xml_chars (ni_value n)
     | None => true
     end.
Definition attribute_valid (a : attribute) : bool :=
  valid_xml_chars (at_friendly a) && valid_xml_chars (at_name a) && valid_xml_chars (at_format a)
  && forallb value_valid (at_values a).
Definition session_valid (s : session) : bool :=
  valid_xml_chars (ss_index s) && valid_xml_chars (ss_nameid_format s) && valid_xml_chars (ss_nameid s)
  && forallb attribute_valid (session_attributes empty_svc s).
(* the property on the implementation's output.  Sessions that are valid but
   not clean ("]]>" in a string that travels as an XML attribute) fail it: known
   finding K4, labelled string_class=cdata-end-in-attribute by the harness *)
Definition c07_spec (c : c07case) : bool :=
  if session_valid (c7_sess c)
  then c7_accepted c && seqb (c7_nameid c) (ss_nameid (c7_sess c))
       && list_eqb attribute_eqb (c7_attrs c) (session_attributes empty_svc (c7_sess c))
  else true.
Definition check_c07 := check_cases c07_agree c07_spec.

(* registration case: the SP's published metadata (serialised, re-parsed, as
   handed to the IdP), the request the SP built, and what the SP is configured with *)
Record c07rcase := { c7r_md : spmeta; c7r_certs : list (string * certres); c7r_rq : authnreq;
                     c7r_acs : string; c7r_key : option Z }.
Definition c07r_spec (c : c07rcase) : bool :=
  match get_acs_endpoint (c7r_md c) (c7r_rq c) with
  | Some (_, _, d, e) =>
      seqb (ep_location e) (c7r_acs c) && seqb (ep_binding e) post_binding
      && match enc_decision (cp_of_list (c7r_certs c)) (kds d), c7r_key c with
         | EncryptTo id, Some k => id =? k
         | Plain, None => true
         | _, _ => false
         end
  | None => false
  end.
Definition check_c07r := check_cases (fun _ : c07rcase => true) c07r_spec.

(* ========================================================================= *)
(* C08: the request OBJECT across the step API.  MakeAssertionEl, MakeResponse
   and PostBinding/WriteResponse keep their results in req.AssertionEl and
   req.ResponseEl and call each other when a field is still nil; a caller may
   ignore an error and go on.  An error on the way must leave both fields nil. *)
Record reqstate := { st_ael : option assertion_el; st_resp : option response }.
Definition st_empty : reqstate := {| st_ael := None; st_resp := None |}.
Inductive step := SMakeAssertionEl | SMakeResponse | SPostBinding.
Record stepctx := {
  sx_cfg : idpcfg; sx_cp : string -> certres; sx_rt : routing; sx_rq : authnreq; sx_now : Z;
  sx_a : assertion;        (* req.Assertion, made by MakeAssertion *)
  sx_rand : string;        (* what is left of saml.RandReader *)
  sx_rnd : rands
}.

(* MakeAssertionEl: assigns req.AssertionEl only on its two success exits *)
Definition do_make_ael (x : stepctx) (st : reqstate) : reqstate * outcome unit :=
  match make_assertion_el (sx_cfg x) (sx_cp x) (sx_rt x) (sx_a x) (sx_rnd x) with
  | Ok ael => ({| st_ael := Some ael; st_resp := st_resp st |}, Ok tt)
  | Err c => (st, Err c)
  | Panic => (st, Panic)
  end.
(* MakeResponse: if req.AssertionEl == nil { MakeAssertionEl } ; build and sign the response *)
Definition do_make_response (x : stepctx) (st : reqstate) : reqstate * outcome unit :=
  let '(st1, r1) := match st_ael st with None => do_make_ael x st | Some _ => (st, Ok tt) end in
  match r1 with
  | Ok _ =>
      match st_ael st1 with
      | Some ael =>
          match make_response (sx_cfg x) (sx_rt x) (sx_rq x) (sx_now x) ael (sx_rand x) with
          | Ok resp => ({| st_ael := st_ael st1; st_resp := Some resp |}, Ok tt)
          | Err c => (st1, Err c)
          | Panic => (st1, Panic)
          end
      | None => (st1, Panic)          (* responseEl.AddChild(nil): not reachable *)
      end
  | _ => (st1, r1)
  end.
(* PostBinding / WriteResponse: if req.ResponseEl == nil { MakeResponse } ; binding check *)
Definition do_post_binding (x : stepctx) (st : reqstate) : reqstate * outcome unit :=
  let '(st1, r1) := match st_resp st with None => do_make_response x st | Some _ => (st, Ok tt) end in
  match r1 with
  | Ok _ => (st1, if negb (seqb (ep_binding (rt_ep (sx_rt x))) post_binding) then Err 22 else Ok tt)
  | _ => (st1, r1)
  end.
Definition do_step (x : stepctx) (s : step) (st : reqstate) : reqstate * outcome unit :=
  match s with
  | SMakeAssertionEl => do_make_ael x st
  | SMakeResponse => do_make_response x st
  | SPostBinding => do_post_binding x st
  end.
Fixpoint run_steps (x : stepctx) (l : list step) (st : reqstate) : reqstate * list Z :=
  match l with
  | [] => (st, [])
  | s :: r => let '(st1, o) := do_step x s st in
              let '(st2, os) := run_steps x r st1 in (st2, ocls o :: os)
  end.

Definition step_of (z : Z) : step :=
  if z =? 0 then SMakeAssertionEl else if z =? 1 then SMakeResponse else SPostBinding.
Definition is_some {A} (o : option A) : bool := match o with Some _ => true | None => false end.

(* step case: the inputs of a response case, the calls a stubborn caller makes
   (0 MakeAssertionEl, 1 MakeResponse, 2 WriteResponse), their outcome classes,
   and whether req.AssertionEl / req.ResponseEl are set afterwards *)
Record c08scase := { s8_base : c06case; s8_steps : list Z; s8_results : list Z; s8_ael_set : bool; s8_resp_set : bool }.
Definition c08s_ctx (c : c06case) (r : Z * Z * spsso * endpoint) : stepctx :=
  let rt := mk_routing (c6_md c) r in
  let '(a, rand') := make_assertion (c6_cfg c) rt (c06_request c) (c6_sess c) (c6_now c) (c6_tnow c) (c6_addr c)
                                    (rnd_saml (c6_rnd c)) in
  {| sx_cfg := c6_cfg c; sx_cp := cp_of_list (c6_certs c); sx_rt := rt; sx_rq := c06_request c; sx_now := c6_now c;
     sx_a := a; sx_rand := rand'; sx_rnd := c6_rnd c |}.
Definition c08s_agree (c : c08scase) : bool :=
  match c06_route (s8_base c) with
  | None => true
  | Some r =>
      let '(st, os) := run_steps (c08s_ctx (s8_base c) r) (map step_of (s8_steps c)) st_empty in
      list_eqb Z.eqb os (s8_results c) && Bool.eqb (is_some (st_ael st)) (s8_ael_set c)
      && Bool.eqb (is_some (st_resp st)) (s8_resp_set c)
  end.
(* when the encryption decision is an error, every call is an error and the
   request object holds neither an assertion element nor a response *)
Definition c08s_spec (c : c08scase) : bool :=
  forallb (fun z => negb (z =? 2)) (s8_results c)
  && match c08_kds (s8_base c) with
     | None => true
     | Some l =>
         match enc_decision_decl (cp_of_list (c6_certs (s8_base c))) l with
         | EncErr => forallb (fun z => z =? 1) (s8_results c) && negb (s8_ael_set c) && negb (s8_resp_set c)
         | _ => true
         end
     end.
Definition check_c08s := check_cases c08s_agree c08s_spec.

(* ---- C06 on the step API: a POST form is written only to HTTP-POST endpoints,
   whichever of MakeAssertionEl / MakeResponse the caller ran before WriteResponse ---- *)
Fixpoint posts_only_to_post (binding : string) (steps results : list Z) : bool :=
  match steps, results with
  | s :: sr, r :: rr =>
      (negb ((s =? 2) && (r =? 0)) || seqb binding post_binding) && posts_only_to_post binding sr rr
  | _, _ => true
  end.
Definition c06s_spec (c : c08scase) : bool :=
  forallb (fun z => negb (z =? 2)) (s8_results c)
  && match c06_route (s8_base c) with
     | Some (_, _, _, e) => posts_only_to_post (ep_binding e) (s8_steps c) (s8_results c)
     | None => true
     end.
Definition check_c06s := check_cases c08s_agree c06s_spec.
