(* Metadata.v — executable model of metadata.go's endpoint location check
   (checkEndpointLocation, Endpoint.UnmarshalXML, IndexedEndpoint.UnmarshalXML)
   together with the part of net/url (go1.23) that decides it: url.Parse's
   error conditions and getScheme; and an abstract EntityDescriptor with
   [norm] = one xml.Marshal / xml.Unmarshal generation.
   Definitions only; lemmas are in MetadataProofs.v. *)
From Saml Require Import Base UrlEnc TimeModel DurationModel.

(* ---------- net/url: getScheme ---------- *)
Definition scheme_tail_char (c : ascii) : bool :=
  is_digit c || (code c =? 43) || (code c =? 45) || (code c =? 46).     (* 0-9 + - . *)

(* Ok None: no scheme (rest is the whole input); Ok (Some (scheme, rest)); Err: "missing protocol scheme" *)
Fixpoint get_scheme_from (first : bool) (s : string) : outcome (option (string * string)) :=
  match s with
  | EmptyString => Ok None
  | String c r =>
      if is_alpha c || (scheme_tail_char c && negb first) then
        match get_scheme_from false r with
        | Ok (Some (sc, rest)) => Ok (Some (String c sc, rest))
        | x => x
        end
      else if scheme_tail_char c then Ok None                       (* i == 0 *)
      else if code c =? 58 then (if first then Err 1 else Ok (Some (EmptyString, r)))
      else Ok None                                                   (* invalid character: no scheme *)
  end.

Definition get_scheme (u : string) : outcome (string * string) :=
  match get_scheme_from true u with
  | Ok None => Ok (EmptyString, u)
  | Ok (Some p) => Ok p
  | Err e => Err e
  | Panic => Panic
  end.

Fixpoint lower_str (s : string) : string :=
  match s with
  | EmptyString => EmptyString
  | String c r => String (if is_upper c then chr (code c + 32) else c) (lower_str r)
  end.

(* ---------- net/url: unescape error conditions per mode ---------- *)
Inductive umode := MHost | MZone | MUserPassword | MPath | MFragment.

(* shouldEscape(c, encodeHost) = shouldEscape(c, encodeZone) *)
Definition host_sub_delim (c : ascii) : bool :=
  let n := code c in
  (n =? 33) || (n =? 36) || (n =? 38) || (n =? 39) || (n =? 40) || (n =? 41) || (n =? 42) || (n =? 43)
  || (n =? 44) || (n =? 59) || (n =? 61) || (n =? 58) || (n =? 91) || (n =? 93) || (n =? 60) || (n =? 62) || (n =? 34).
Definition should_escape_host (c : ascii) : bool := negb (is_alnum c || host_sub_delim c || is_mark c).

Definition is_host_mode (m : umode) : bool := match m with MHost | MZone => true | _ => false end.

(* true iff unescape(s, mode) returns no error *)
Fixpoint unescape_ok (m : umode) (s : string) : bool :=
  match s with
  | EmptyString => true
  | String c r =>
      if code c =? 37 then
        match r with
        | String a (String b r') =>
            if ishex a && ishex b then
              let v := 16 * unhex a + unhex b in
              let is25 := (code a =? 50) && (code b =? 53) in
              match m with
              | MHost => if (unhex a <? 8) && negb is25 then false else unescape_ok m r'
              | MZone => if negb is25 && negb (v =? 32) && should_escape_host (chr v) then false else unescape_ok m r'
              | _ => unescape_ok m r'
              end
            else false
        | _ => false
        end
      else if is_host_mode m && (code c <? 128) && negb (code c =? 43) && should_escape_host c then false
      else unescape_ok m r
  end.

(* ---------- net/url: parseHost / parseAuthority ---------- *)
Definition valid_optional_port (p : string) : bool :=
  match p with
  | EmptyString => true
  | String c r => (code c =? 58) && all_chars is_digit r
  end.

(* text before / from the last occurrence of byte d; None when absent *)
Fixpoint last_cut (d : Z) (s : string) : option (string * string) :=
  match s with
  | EmptyString => None
  | String c r =>
      match last_cut d r with
      | Some (a, b) => Some (String c a, b)
      | None => if code c =? d then Some (EmptyString, s) else None
      end
  end.

(* strings.Index(s, "%25"): text before / from the first occurrence *)
Fixpoint index_pct25 (s : string) : option (string * string) :=
  if prefixb "%25" s then Some (EmptyString, s)
  else match s with
       | EmptyString => None
       | String c r => match index_pct25 r with Some (a, b) => Some (String c a, b) | None => None end
       end.

Definition parse_host_ok (host : string) : bool :=
  if prefixb "[" host then
    match last_cut 93 host with                         (* ']' *)
    | None => false                                     (* missing ']' in host *)
    | Some (before, from) =>                            (* from = "]..." *)
        if negb (valid_optional_port (drop 1 from)) then false
        else match index_pct25 before with
             | Some (h1, h2) => unescape_ok MHost h1 && unescape_ok MZone h2 && unescape_ok MHost from
             | None => unescape_ok MHost host
             end
    end
  else
    match last_cut 58 host with                         (* ':' *)
    | Some (_, colon_port) => if negb (valid_optional_port colon_port) then false else unescape_ok MHost host
    | None => unescape_ok MHost host
    end.

Definition userinfo_char (c : ascii) : bool :=
  let n := code c in
  is_alnum c || (n =? 45) || (n =? 46) || (n =? 95) || (n =? 58) || (n =? 126) || (n =? 33) || (n =? 36)
  || (n =? 38) || (n =? 39) || (n =? 40) || (n =? 41) || (n =? 42) || (n =? 43) || (n =? 44) || (n =? 59)
  || (n =? 61) || (n =? 37) || (n =? 64).

Definition parse_authority_ok (authority : string) : bool :=
  match last_cut 64 authority with                      (* '@' *)
  | None => parse_host_ok authority
  | Some (userinfo, at_host) =>
      parse_host_ok (drop 1 at_host)
      && all_chars userinfo_char userinfo
      && (if contains_chr 58 userinfo
          then let '(u, p) := cut_chr 58 userinfo in unescape_ok MUserPassword u && unescape_ok MUserPassword p
          else unescape_ok MUserPassword userinfo)
  end.

(* ---------- net/url: Parse (error or scheme) ---------- *)
Definition is_ctl (c : ascii) : bool := (code c <? 32) || (code c =? 127).
Fixpoint has_ctl (s : string) : bool :=
  match s with EmptyString => false | String c r => is_ctl c || has_ctl r end.

Fixpoint count_chr (d : Z) (s : string) : Z :=
  match s with EmptyString => 0 | String c r => (if code c =? d then 1 else 0) + count_chr d r end.
Fixpoint ends_with_chr (d : Z) (s : string) : bool :=
  match s with
  | EmptyString => false
  | String c EmptyString => code c =? d
  | String _ r => ends_with_chr d r
  end.
Fixpoint drop_last (s : string) : string :=
  match s with
  | EmptyString => EmptyString
  | String _ EmptyString => EmptyString
  | String c r => String c (drop_last r)
  end.

(* parse(rawURL, viaRequest = false): Ok scheme (lower-cased) | Err *)
Definition url_parse_nofrag (u : string) : outcome string :=
  if has_ctl u then Err 1                                           (* invalid control character in URL *)
  else if seqb u "*" then Ok EmptyString
  else
    do (sch, rest) <- get_scheme u;
    let scheme := lower_str sch in
    let rest :=
      if ends_with_chr 63 rest && (count_chr 63 rest =? 1) then drop_last rest   (* ForceQuery *)
      else fst (cut_chr 63 rest) in
    if negb (prefixb "/" rest) && nonempty scheme then Ok scheme     (* opaque *)
    else if negb (prefixb "/" rest) && contains_chr 58 (fst (cut_chr 47 rest))
    then Err 2                                                        (* first path segment in URL cannot contain colon *)
    else
      let with_auth := (nonempty scheme || negb (prefixb "///" rest)) && prefixb "//" rest in
      let authority := if with_auth then fst (cut_chr 47 (drop 2 rest)) else EmptyString in
      let path :=
        if with_auth
        then (if contains_chr 47 (drop 2 rest) then "/" +++ snd (cut_chr 47 (drop 2 rest)) else EmptyString)
        else rest in
      if with_auth && negb (parse_authority_ok authority) then Err 3
      else if negb (unescape_ok MPath path) then Err 4               (* setPath *)
      else Ok scheme.

(* url.Parse: "#frag" is cut first; setFragment fails on a bad escape *)
Definition url_parse (loc : string) : outcome string :=
  let '(u, frag) := cut_chr 35 loc in
  do scheme <- url_parse_nofrag u;
  if nonempty frag && negb (unescape_ok MFragment frag) then Err 5 else Ok scheme.

(* ---------- metadata.go ---------- *)
Definition HTTP_POST_BINDING := "urn:oasis:names:tc:SAML:2.0:bindings:HTTP-POST".
Definition HTTP_REDIRECT_BINDING := "urn:oasis:names:tc:SAML:2.0:bindings:HTTP-Redirect".
Definition HTTP_ARTIFACT_BINDING := "urn:oasis:names:tc:SAML:2.0:bindings:HTTP-Artifact".
Definition SOAP_BINDING := "urn:oasis:names:tc:SAML:2.0:bindings:SOAP".
Definition SOAP_BINDING_V1 := "urn:oasis:names:tc:SAML:1.0:bindings:SOAP-binding".
Definition standard_bindings :=
  [HTTP_POST_BINDING; HTTP_REDIRECT_BINDING; HTTP_ARTIFACT_BINDING; SOAP_BINDING; SOAP_BINDING_V1].
Definition standard (b : string) : bool := mem_str b standard_bindings.

(* checkEndpointLocation: Err 1 = invalid url, Err 2 = invalid url scheme *)
Definition check_endpoint_location (b loc : string) : outcome string :=
  if standard b then
    match url_parse loc with
    | Ok scheme => if seqb scheme "http" || seqb scheme "https" then Ok loc else Err 2
    | Err _ => Err 1
    | Panic => Panic
    end
  else Ok EmptyString.

(* the scheme as getScheme sees it in the text before '#', lower-cased ("" when none) *)
Definition scheme_of (loc : string) : string :=
  match get_scheme (fst (cut_chr 35 loc)) with
  | Ok (sch, _) => lower_str sch
  | _ => EmptyString
  end.

Record endpoint := { ep_binding : string; ep_location : string; ep_response : string }.

(* Endpoint.UnmarshalXML after DecodeElement *)
Definition endpoint_check (e : endpoint) : outcome endpoint :=
  do loc <- check_endpoint_location (ep_binding e) (ep_location e);
  if nonempty (ep_response e)
  then do rl <- check_endpoint_location (ep_binding e) (ep_response e);
       Ok {| ep_binding := ep_binding e; ep_location := loc; ep_response := rl |}
  else Ok {| ep_binding := ep_binding e; ep_location := loc; ep_response := EmptyString |}.

Record indexed_endpoint := {
  ie_binding : string; ie_location : string; ie_response : option string;
  ie_index : Z; ie_default : option bool }.

(* IndexedEndpoint.UnmarshalXML after DecodeElement *)
Definition indexed_endpoint_check (e : indexed_endpoint) : outcome indexed_endpoint :=
  do loc <- check_endpoint_location (ie_binding e) (ie_location e);
  match ie_response e with
  | Some r =>
      do rl <- check_endpoint_location (ie_binding e) r;
      Ok {| ie_binding := ie_binding e; ie_location := loc;
            ie_response := if nonempty rl then Some rl else None;
            ie_index := ie_index e; ie_default := ie_default e |}
  | None =>
      Ok {| ie_binding := ie_binding e; ie_location := loc; ie_response := None;
            ie_index := ie_index e; ie_default := ie_default e |}
  end.

(* ---------- abstract EntityDescriptor and one marshal/unmarshal generation ---------- *)
Inductive any_endpoint := EPlain (e : endpoint) | EIndexed (e : indexed_endpoint).

Record key_descriptor := { kd_use : string; kd_certs : list string; kd_methods : list string }.

(* every endpoint-bearing element and every key descriptor is labelled by the
   path of its slot in the document (role kind, role number, element name) *)
Record entity_descriptor := {
  ed_entity_id : string;
  ed_valid_until : Z;            (* ns since the epoch; EntityDescriptor.ValidUntil (always written) *)
  ed_cache_duration : Z;         (* ns; omitted when 0 *)
  ed_role_valid_until : list (string * option Z);   (* RoleDescriptor.ValidUntil *time.Time: RFC 3339 Nano, exact *)
  ed_role_cache : list (string * Z);                (* RoleDescriptor.CacheDuration: decimal integer attribute *)
  ed_keys : list (string * key_descriptor);
  ed_endpoints : list (string * any_endpoint) }.

Definition norm_instant (t : Z) : outcome Z := parse_relaxed (format_relaxed t).
Definition norm_duration (d : Z) : outcome Z :=
  match dur_marshal d with
  | None => Ok d                          (* attribute omitted (omitempty): the field keeps its zero value *)
  | Some t => dur_unmarshal (Some t)
  end.

Definition any_endpoint_check (x : any_endpoint) : outcome any_endpoint :=
  match x with
  | EPlain e => do e' <- endpoint_check e; Ok (EPlain e')
  | EIndexed e => do e' <- indexed_endpoint_check e; Ok (EIndexed e')
  end.

Fixpoint norm_endpoints (l : list (string * any_endpoint)) : outcome (list (string * any_endpoint)) :=
  match l with
  | [] => Ok []
  | (p, x) :: r =>
      do x' <- any_endpoint_check x;
      do r' <- norm_endpoints r;
      Ok ((p, x') :: r')
  end.

Definition norm (m : entity_descriptor) : outcome entity_descriptor :=
  do vu <- norm_instant (ed_valid_until m);
  do cd <- norm_duration (ed_cache_duration m);
  do eps <- norm_endpoints (ed_endpoints m);
  Ok {| ed_entity_id := ed_entity_id m; ed_valid_until := vu; ed_cache_duration := cd;
        ed_role_valid_until := ed_role_valid_until m; ed_role_cache := ed_role_cache m;
        ed_keys := ed_keys m; ed_endpoints := eps |}.

(* ---------- correspondence-check entry points ---------- *)
(* location case: binding, location; observed: accepted?, resulting location *)
Record loccase := { lc_binding : string; lc_loc : string; lc_ok : bool; lc_out : string }.
Definition loccase_agree (c : loccase) : bool :=
  match check_endpoint_location (lc_binding c) (lc_loc c) with
  | Ok l => lc_ok c && seqb l (lc_out c)
  | _ => negb (lc_ok c)
  end.
Definition starts_ci (p s : string) : bool := prefixb p (lower_str (take (String.length p) s)).
(* accepted => standard binding: unchanged and literally starting with http: / https:
   (case-insensitively); other binding: blanked *)
Definition loccase_spec (c : loccase) : bool :=
  if lc_ok c then
    if standard (lc_binding c)
    then seqb (lc_out c) (lc_loc c) && (starts_ci "http:" (lc_loc c) || starts_ci "https:" (lc_loc c))
    else negb (nonempty (lc_out c))
  else standard (lc_binding c).
Definition check_loccases := check_cases loccase_agree loccase_spec.

(* url.Parse case: text; observed: error?, scheme *)
Record upcase := { up_s : string; up_ok : bool; up_scheme : string }.
Definition upcase_agree (c : upcase) : bool :=
  match url_parse (up_s c) with
  | Ok sc => up_ok c && seqb sc (up_scheme c)
  | _ => negb (up_ok c)
  end.
Definition check_upcases := check_cases upcase_agree (fun _ => true).

(* endpoint element case: which element type, the attributes, observed result after xml.Unmarshal *)
Definition opt_str_eq (a b : option string) : bool :=
  match a, b with None, None => true | Some x, Some y => seqb x y | _, _ => false end.
Record epcase := {
  ec_indexed : bool; ec_binding : string; ec_loc : string; ec_resp : option string;
  ec_ok : bool; ec_loc_out : string; ec_resp_out : option string }.
Definition epcase_model (c : epcase) : outcome (string * option string) :=
  if ec_indexed c then
    do e <- indexed_endpoint_check {| ie_binding := ec_binding c; ie_location := ec_loc c; ie_response := ec_resp c;
                                      ie_index := 0; ie_default := None |};
    Ok (ie_location e, ie_response e)
  else
    do e <- endpoint_check {| ep_binding := ec_binding c; ep_location := ec_loc c; ep_response := opt_str (ec_resp c) |};
    Ok (ep_location e, if nonempty (ep_response e) then Some (ep_response e) else None).
Definition epcase_agree (c : epcase) : bool :=
  match epcase_model c with
  | Ok (l, r) => ec_ok c && seqb l (ec_loc_out c) && opt_str_eq r (ec_resp_out c)
  | _ => negb (ec_ok c)
  end.
Definition http_only (s : string) : bool := starts_ci "http:" s || starts_ci "https:" s.
Definition epcase_spec (c : epcase) : bool :=
  if ec_ok c then
    if standard (ec_binding c)
    then seqb (ec_loc_out c) (ec_loc c) && http_only (ec_loc_out c)
         && match ec_resp_out c with
            | Some r => http_only r && opt_str_eq (Some r) (ec_resp c)
            | None => match ec_resp c with None => true | Some r => negb (nonempty r) && negb (ec_indexed c) end
            end
    else negb (nonempty (ec_loc_out c)) && match ec_resp_out c with None => true | Some _ => false end
  else standard (ec_binding c).
Definition check_epcases := check_cases epcase_agree epcase_spec.

(* metadata generation case: a descriptor, the descriptor after one
   Marshal/Unmarshal (None = unmarshal error), and after a second one *)
Definition opt_b_eq (a b : option bool) : bool :=
  match a, b with None, None => true | Some x, Some y => Bool.eqb x y | _, _ => false end.
Definition endpoint_eqb (a b : endpoint) : bool :=
  seqb (ep_binding a) (ep_binding b) && seqb (ep_location a) (ep_location b) && seqb (ep_response a) (ep_response b).
Definition indexed_eqb (a b : indexed_endpoint) : bool :=
  seqb (ie_binding a) (ie_binding b) && seqb (ie_location a) (ie_location b) && opt_str_eq (ie_response a) (ie_response b)
  && (ie_index a =? ie_index b) && opt_b_eq (ie_default a) (ie_default b).
Definition any_eqb (a b : any_endpoint) : bool :=
  match a, b with
  | EPlain x, EPlain y => endpoint_eqb x y
  | EIndexed x, EIndexed y => indexed_eqb x y
  | _, _ => false
  end.
Fixpoint list_eqb {A} (eq : A -> A -> bool) (a b : list A) : bool :=
  match a, b with
  | [], [] => true
  | x :: a', y :: b' => eq x y && list_eqb eq a' b'
  | _, _ => false
  end.
Definition kd_eqb (a b : key_descriptor) : bool :=
  seqb (kd_use a) (kd_use b) && list_eqb seqb (kd_certs a) (kd_certs b) && list_eqb seqb (kd_methods a) (kd_methods b).
Definition opt_Z_eq (a b : option Z) : bool :=
  match a, b with None, None => true | Some x, Some y => x =? y | _, _ => false end.
Definition ed_eqb (a b : entity_descriptor) : bool :=
  seqb (ed_entity_id a) (ed_entity_id b) && (ed_valid_until a =? ed_valid_until b)
  && (ed_cache_duration a =? ed_cache_duration b)
  && list_eqb (fun x y => seqb (fst x) (fst y) && opt_Z_eq (snd x) (snd y)) (ed_role_valid_until a) (ed_role_valid_until b)
  && list_eqb (fun x y => seqb (fst x) (fst y) && (snd x =? snd y)) (ed_role_cache a) (ed_role_cache b)
  && list_eqb (fun x y => seqb (fst x) (fst y) && kd_eqb (snd x) (snd y)) (ed_keys a) (ed_keys b)
  && list_eqb (fun x y => seqb (fst x) (fst y) && any_eqb (snd x) (snd y)) (ed_endpoints a) (ed_endpoints b).
Definition opt_ed_eq (a b : option entity_descriptor) : bool :=
  match a, b with None, None => true | Some x, Some y => ed_eqb x y | _, _ => false end.
Definition ed_obs (o : outcome entity_descriptor) : option entity_descriptor :=
  match o with Ok m => Some m | _ => None end.

Definition binding_of_any (x : any_endpoint) : string :=
  match x with EPlain e => ep_binding e | EIndexed e => ie_binding e end.

(* an endpoint after one generation: unchanged when its binding is standard
   (its locations were then accepted as http/https), blanked otherwise *)
Definition ep_preserved (a b : string * any_endpoint) : bool :=
  seqb (fst a) (fst b) &&
  if standard (binding_of_any (snd a)) then any_eqb (snd a) (snd b)
  else seqb (binding_of_any (snd a)) (binding_of_any (snd b)) &&
       match snd b with
       | EPlain e => negb (nonempty (ep_location e)) && negb (nonempty (ep_response e))
       | EIndexed e => negb (nonempty (ie_location e)) && match ie_response e with None => true | Some _ => false end
       end.

Record mgcase := { mg_in : entity_descriptor; mg_gen1 : option entity_descriptor; mg_gen2 : option entity_descriptor }.
Definition mgcase_agree (c : mgcase) : bool := opt_ed_eq (ed_obs (norm (mg_in c))) (mg_gen1 c).
(* the implementation's first generation is a fixed point of the implementation *)
Definition mgcase_spec (c : mgcase) : bool :=
  match mg_gen1 c with
  | Some m1 => opt_ed_eq (mg_gen2 c) (Some m1)
               && seqb (ed_entity_id m1) (ed_entity_id (mg_in c))
               && (ed_valid_until m1 =? round_ms (ed_valid_until (mg_in c)))
               && (ed_cache_duration m1 =? ed_cache_duration (mg_in c))
               && list_eqb (fun x y => seqb (fst x) (fst y) && kd_eqb (snd x) (snd y)) (ed_keys m1) (ed_keys (mg_in c))
               && list_eqb ep_preserved (ed_endpoints (mg_in c)) (ed_endpoints m1)
  | None => true
  end.
Definition check_mgcases := check_cases mgcase_agree mgcase_spec.

(* ---------- EntitiesDescriptor: the group-level validUntil / cacheDuration ---------- *)
(* *time.Time through RelaxedTime and *time.Duration through Duration (alias
   struct of EntitiesDescriptor.MarshalXML / UnmarshalXML); nil stays nil *)
Definition norm_opt_instant (o : option Z) : outcome (option Z) :=
  match o with None => Ok None | Some t => do t' <- norm_instant t; Ok (Some t') end.
Definition norm_opt_duration (o : option Z) : outcome (option Z) :=
  match o with None => Ok None | Some d => do d' <- norm_duration d; Ok (Some d') end.

(* group case: the two scalars of an EntitiesDescriptor; observed after
   xml.Marshal BY VALUE -> xml.Unmarshal: re-parsed?, the scalars; whether the
   by-value and by-pointer encodings are the same bytes at top level, nested in
   a slice and as a struct field; whether every contained EntityDescriptor came
   back as its own one-generation value *)
Record egcase := {
  eg_valid_until : option Z; eg_cache : option Z;
  eg_ok : bool; eg_valid_until_out : option Z; eg_cache_out : option Z;
  eg_same_bytes : bool; eg_members_ok : bool }.
Definition opt_oZ_eq (a : outcome (option Z)) (ok : bool) (b : option Z) : bool :=
  match a with Ok x => ok && opt_Z_eq x b | _ => negb ok end.
Definition egcase_agree (c : egcase) : bool :=
  match norm_opt_instant (eg_valid_until c), norm_opt_duration (eg_cache c) with
  | Ok v, Ok d => eg_ok c && opt_Z_eq v (eg_valid_until_out c) && opt_Z_eq d (eg_cache_out c)
  | _, _ => negb (eg_ok c)
  end.
(* the group round-trips: instant to the millisecond, duration exactly, every
   encoding route gives the same text, members are their own generation *)
Definition egcase_spec (c : egcase) : bool :=
  eg_ok c
  && opt_Z_eq (eg_valid_until_out c) (option_map round_ms (eg_valid_until c))
  && opt_Z_eq (eg_cache_out c) (eg_cache c)
  && eg_same_bytes c && eg_members_ok c.
Definition check_egcases := check_cases egcase_agree egcase_spec.
