(* Xmlenc.v — executable model of the xmlenc package (cbc.go, gcm.go, pubkey.go,
   decrypt.go, digest.go).

   Bytes are lists of Z.  Places where the Go code would panic if a guard were
   missing (CryptBlocks on unaligned input, slicing past the end, Seal with a
   bad nonce) are explicit [Panic] results of the primitive wrappers below, so
   that totality of Decrypt is a real statement about the guards.

   Cryptographic primitives are a record of functions [prims].  In theorems they
   are universally quantified (with round-trip hypotheses where needed); in the
   correspondence check the harness supplies, per case, the finite table of the
   primitive calls that case makes, computed with Go's crypto/cipher and
   crypto/rsa directly (never through xmlenc). *)
From Saml Require Import Base.

Definition blen (b : bytes) : Z := Z.of_nat (List.length b).
Definition btake (n : Z) (b : bytes) : bytes := firstn (Z.to_nat n) b.
Definition bdrop (n : Z) (b : bytes) : bytes := skipn (Z.to_nat n) b.
Fixpoint zeros (n : nat) : bytes := match n with O => [] | S k => 0 :: zeros k end.

(* ---- padding (cbc.go appendPadding / stripPadding) ---- *)
Definition append_padding (bs : Z) (p : bytes) : bytes :=
  let n := bs - blen p mod bs in
  (p ++ zeros (Z.to_nat (n - 1)) ++ [n])%list.

Definition strip_padding (buf : bytes) : outcome bytes :=
  if blen buf <? 1 then Err 1 else
  let n := last buf 0 in
  if blen buf <? n then Err 1 else
  if n <? 1 then Err 2 else
  Ok (btake (blen buf - n) buf).

(* ---- algorithm tables ---- *)
Inductive blockalg := Aes128Cbc | Aes192Cbc | Aes256Cbc | TripleDesCbc | Aes128Gcm.
Definition block_uri (a : blockalg) : string :=
  match a with
  | Aes128Cbc => "http://www.w3.org/2001/04/xmlenc#aes128-cbc"
  | Aes192Cbc => "http://www.w3.org/2001/04/xmlenc#aes192-cbc"
  | Aes256Cbc => "http://www.w3.org/2001/04/xmlenc#aes256-cbc"
  | TripleDesCbc => "http://www.w3.org/2001/04/xmlenc#tripledes-cbc"
  | Aes128Gcm => "http://www.w3.org/2009/xmlenc11#aes128-gcm"
  end.
Definition key_size (a : blockalg) : Z :=
  match a with Aes128Cbc => 16 | Aes192Cbc => 24 | Aes256Cbc => 32 | TripleDesCbc => 24 | Aes128Gcm => 16 end.
Definition block_size (a : blockalg) : Z :=
  match a with TripleDesCbc => 8 | _ => 16 end.
Definition nonce_size : Z := 12.
Definition all_blockalgs := [Aes128Cbc; Aes192Cbc; Aes256Cbc; TripleDesCbc; Aes128Gcm].
Definition is_gcm (a : blockalg) : bool := match a with Aes128Gcm => true | _ => false end.

Inductive transport := OaepMgf1p | Oaep11 | Pkcs1v15.
Definition transport_uri (t : transport) : string :=
  match t with
  | OaepMgf1p => "http://www.w3.org/2001/04/xmlenc#rsa-oaep-mgf1p"
  | Oaep11 => "http://www.w3.org/2009/xmlenc11#rsa-oaep"
  | Pkcs1v15 => "http://www.w3.org/2001/04/xmlenc#rsa-1_5"
  end.
Definition all_transports := [OaepMgf1p; Oaep11; Pkcs1v15].

Definition digest_uris : list string :=
  ["http://www.w3.org/2000/09/xmldsig#sha1"; "http://www.w3.org/2000/09/xmldsig#sha256";
   "http://www.w3.org/2000/09/xmldsig#sha512"; "http://www.w3.org/2000/09/xmldsig#ripemd160"].
Definition sha1_uri := "http://www.w3.org/2000/09/xmldsig#sha1".

(* the decrypters map of xmlenc.go: URI -> registered decrypter *)
Inductive decrypter := DBlock (a : blockalg) | DRsa (t : transport).
Definition find_decrypter (uri : string) : option decrypter :=
  match find (fun a => String.eqb (block_uri a) uri) all_blockalgs with
  | Some a => Some (DBlock a)
  | None => match find (fun t => String.eqb (transport_uri t) uri) all_transports with
            | Some t => Some (DRsa t)
            | None => None
            end
  end.

(* ---- element and key models ---- *)
Inductive cvalue := CVAbsent | CVBad | CVBytes (b : bytes).       (* ./CipherData/CipherValue *)
Inductive certinfo := CertAbsent | CertBadPem | CertBadDer | CertNonRsa | CertRsa (id : Z).
Inductive dgst := DgAbsent | DgUri (u : string).                  (* ./EncryptionMethod/DigestMethod/@Algorithm *)
(* EncryptedData / EncryptedKey: method = ./EncryptionMethod/@Algorithm (None: no
   EncryptionMethod element; Some "" : element without the attribute),
   inner = first ./KeyInfo/EncryptedKey *)
Inductive eel := EEl (method : option string) (dg : dgst) (cert : certinfo) (cv : cvalue) (inner : option eel).
(* the Go values the API admits as key *)
Inductive keyval := KBytes (b : bytes) | KRsa (id : Z) | KOther.

Record prims := {
  p_cbc_enc : blockalg -> bytes -> bytes -> bytes -> bytes;         (* key iv padded-plaintext *)
  p_cbc_dec : blockalg -> bytes -> bytes -> bytes -> bytes;         (* key iv body *)
  p_seal    : bytes -> bytes -> bytes -> bytes;                     (* key nonce plaintext *)
  p_open    : bytes -> bytes -> bytes -> option bytes;              (* key nonce ciphertext *)
  p_wrap    : transport -> string -> Z -> bytes -> bytes;           (* scheme digest-uri pubkey-id key *)
  p_unwrap  : transport -> string -> Z -> bytes -> option bytes
}.

(* primitive wrappers with the preconditions the Go runtime enforces by panicking *)
Definition crypt_blocks (bs : Z) (f : bytes -> bytes) (body : bytes) : outcome bytes :=
  if blen body mod bs =? 0 then Ok (f body) else Panic.
Definition slice_to (n : Z) (b : bytes) : outcome bytes :=
  if (0 <=? n) && (n <=? blen b) then Ok (btake n b) else Panic.
Definition slice_from (n : Z) (b : bytes) : outcome bytes :=
  if (0 <=? n) && (n <=? blen b) then Ok (bdrop n b) else Panic.

Definition get_ciphertext (cv : cvalue) : outcome bytes :=
  match cv with CVAbsent => Err 3 | CVBad => Err 4 | CVBytes b => Ok b end.

Definition key_bytes (a : blockalg) (k : keyval) : outcome bytes :=
  match k with
  | KBytes b => if blen b =? key_size a then Ok b else Err 6
  | _ => Err 5
  end.

Section Decrypt.
Variable P : prims.

Definition cbc_decrypt_body (a : blockalg) (kb : bytes) (cv : cvalue) : outcome bytes :=
  do ct <- get_ciphertext cv;
  let bs := block_size a in
  if blen ct <? bs then Err 7 else
  if negb (blen ct mod bs =? 0) then Err 8 else
  do iv <- slice_to bs ct;
  do body <- slice_from bs ct;
  do plain <- crypt_blocks bs (p_cbc_dec P a kb iv) body;
  strip_padding plain.

Definition gcm_decrypt_body (kb : bytes) (cv : cvalue) : outcome bytes :=
  do ct <- get_ciphertext cv;
  if blen ct <? nonce_size then Err 7 else
  do nonce <- slice_to nonce_size ct;
  do text <- slice_from nonce_size ct;
  match p_open P kb nonce text with Some p => Ok p | None => Err 9 end.

Definition rsa_decrypt (t : transport) (key : keyval) (dg : dgst) (cert : certinfo) (cv : cvalue) : outcome bytes :=
  match key with
  | KRsa id =>
      do _ <- match cert with
              | CertAbsent => Ok tt
              | CertBadPem => Err 10 | CertBadDer => Err 11 | CertNonRsa => Err 12
              | CertRsa id' => if id =? id' then Ok tt else Err 13
              end;
      do ct <- get_ciphertext cv;
      do d <- match dg with
              | DgAbsent => Ok sha1_uri
              | DgUri u => if mem_str u digest_uris then Ok u else Err 14
              end;
      match p_unwrap P t d id ct with Some k => Ok k | None => Err 15 end
  | _ => Err 5
  end.

(* xmlenc.Decrypt: dispatch on ./EncryptionMethod/@Algorithm *)
Fixpoint decrypt (key : keyval) (el : eel) : outcome bytes :=
  match el with
  | EEl method dg cert cv inner =>
      match method with
      | None => Err 16
      | Some uri =>
          match find_decrypter uri with
          | None => Err 17
          | Some (DRsa t) => rsa_decrypt t key dg cert cv
          | Some (DBlock a) =>
              do key' <- match inner with
                         | Some i => do kb <- decrypt key i; Ok (KBytes kb)
                         | None => Ok key
                         end;
              do kb <- key_bytes a key';
              if is_gcm a then gcm_decrypt_body kb cv else cbc_decrypt_body a kb cv
          end
      end
  end.

(* ---- encryption ---- *)
(* CBC.Encrypt: the IV is the value drawn from RandReader for this call *)
Definition cbc_encrypt (a : blockalg) (key : keyval) (iv : bytes) (plain : bytes) : outcome eel :=
  do kb <- key_bytes a key;
  let padded := append_padding (block_size a) plain in
  do ct <- crypt_blocks (block_size a) (p_cbc_enc P a kb iv) padded;
  Ok (EEl (Some (block_uri a)) DgAbsent CertAbsent (CVBytes (iv ++ ct)%list) None).

(* GCM.Encrypt exactly as coded: the nonce generated for a nil argument is
   shadowed (Seal then panics on the nil nonce); with a supplied nonce an
   all-zero buffer of the padded length is sealed and the nonce is not emitted. *)
Definition gcm_encrypt (key : keyval) (nonce : option bytes) (plain : bytes) : outcome eel :=
  do kb <- key_bytes Aes128Gcm key;
  let padded := append_padding 16 plain in
  match nonce with
  | None => Panic
  | Some n => if blen n =? nonce_size
              then Ok (EEl (Some (block_uri Aes128Gcm)) DgAbsent CertAbsent
                           (CVBytes (p_seal P kb n (zeros (List.length padded)))) None)
              else Panic
  end.

Definition block_encrypt (a : blockalg) (key : keyval) (iv : bytes) (nonce : option bytes) (plain : bytes) : outcome eel :=
  if is_gcm a then gcm_encrypt key nonce plain else cbc_encrypt a key iv plain.

(* RSA.Encrypt: [ck] is the content key drawn from RandReader; certid = Some id
   for a certificate with an RSA public key *)
Definition rsa_encrypt (t : transport) (digest : option string) (a : blockalg) (certid : option Z)
           (ck iv : bytes) (nonce : option bytes) (plain : bytes) : outcome eel :=
  match certid with
  | None => Err 5
  | Some id =>
      let d := match t, digest with Pkcs1v15, _ => "" | _, Some u => u | _, None => "" end in
      let ek := EEl (Some (transport_uri t))
                    (match t, digest with Pkcs1v15, _ => DgAbsent | _, Some u => DgUri u | _, None => DgAbsent end)
                    (CertRsa id) (CVBytes (p_wrap P t d id ck)) None in
      do ed <- block_encrypt a (KBytes ck) iv nonce plain;
      match ed with EEl m dg c cv _ => Ok (EEl m dg c cv (Some ek)) end
  end.
End Decrypt.

(* ---- block-level CBC over an abstract block cipher (justifies the mode-level
        round-trip hypothesis used for p_cbc_enc / p_cbc_dec) ---- *)
Fixpoint xor_bytes (a b : bytes) : bytes :=
  match a, b with
  | x :: a', y :: b' => Z.lxor x y :: xor_bytes a' b'
  | _, _ => []
  end.

Section BlockCbc.
Variables (E D : bytes -> bytes).     (* one fixed key *)
Fixpoint cbc_enc_blocks (prev : bytes) (blocks : list bytes) : list bytes :=
  match blocks with
  | [] => []
  | p :: r => let c := E (xor_bytes p prev) in c :: cbc_enc_blocks c r
  end.
Fixpoint cbc_dec_blocks (prev : bytes) (blocks : list bytes) : list bytes :=
  match blocks with
  | [] => []
  | c :: r => xor_bytes (D c) prev :: cbc_dec_blocks c r
  end.
End BlockCbc.

(* ---- correspondence-check entry points ---- *)
Definition assoc_bytes := list (bytes * bytes).
Fixpoint bytes_eqb (a b : bytes) : bool :=
  match a, b with
  | [], [] => true
  | x :: a', y :: b' => (x =? y) && bytes_eqb a' b'
  | _, _ => false
  end.
Fixpoint lookup_bytes (k : bytes) (t : assoc_bytes) : option bytes :=
  match t with [] => None | (a, v) :: r => if bytes_eqb a k then Some v else lookup_bytes k r end.

(* the primitive calls of one case: table keyed by the concatenation
   [tag] ++ arguments, each argument length-prefixed by the harness *)
Definition enc_args (tag : Z) (args : list bytes) : bytes :=
  (tag :: List.concat (map (fun a => blen a / 256 :: blen a mod 256 :: a) args))%list.
Definition blockalg_tag (a : blockalg) : Z :=
  match a with Aes128Cbc => 1 | Aes192Cbc => 2 | Aes256Cbc => 3 | TripleDesCbc => 4 | Aes128Gcm => 5 end.
Definition transport_tag (t : transport) : Z := match t with OaepMgf1p => 1 | Oaep11 => 2 | Pkcs1v15 => 3 end.

Definition prims_of_table (t : assoc_bytes) : prims := {|
  p_cbc_enc := fun a k iv x => match lookup_bytes (enc_args 1 [[blockalg_tag a]; k; iv; x]) t with Some v => v | None => [] end;
  p_cbc_dec := fun a k iv x => match lookup_bytes (enc_args 2 [[blockalg_tag a]; k; iv; x]) t with Some v => v | None => [] end;
  p_seal := fun k n x => match lookup_bytes (enc_args 3 [k; n; x]) t with Some v => v | None => [] end;
  p_open := fun k n x => lookup_bytes (enc_args 4 [k; n; x]) t;
  p_wrap := fun s d id x => match lookup_bytes (enc_args 5 [[transport_tag s]; bytes_of d; [id]; x]) t with Some v => v | None => [] end;
  p_unwrap := fun s d id x => lookup_bytes (enc_args 6 [[transport_tag s]; bytes_of d; [id]; x]) t
|}.

(* observable: 0 ok(bytes) / 1 error / 2 panic *)
Inductive dobs := DOk (b : bytes) | DErr | DPanic.
Definition dobs_of (o : outcome bytes) : dobs :=
  match o with Ok b => DOk b | Err _ => DErr | Panic => DPanic end.
Definition dobs_eqb (a b : dobs) : bool :=
  match a, b with
  | DOk x, DOk y => bytes_eqb x y
  | DErr, DErr => true
  | DPanic, DPanic => true
  | _, _ => false
  end.
Definition dobs_not_panic (o : dobs) : bool := match o with DPanic => false | _ => true end.

(* decrypt case *)
(* dc_must_reject: set by the harness for modified AES-GCM cipher values *)
Record dcase := { dc_table : assoc_bytes; dc_key : keyval; dc_el : eel; dc_obs : dobs; dc_must_reject : bool }.
Definition dcase_agree (c : dcase) : bool :=
  dobs_eqb (dobs_of (decrypt (prims_of_table (dc_table c)) (dc_key c) (dc_el c))) (dc_obs c).
(* an RSA-wrapped key on the decryption path whose embedded certificate is not an RSA
   certificate for the supplied private key *)
Fixpoint cert_mismatch (key : keyval) (el : eel) : bool :=
  match el with
  | EEl (Some uri) _ cert _ inner =>
      match find_decrypter uri with
      | Some (DRsa _) =>
          match key, cert with
          | KRsa id, CertRsa id' => negb (id =? id')
          | KRsa _, CertNonRsa => true
          | _, _ => false
          end
      | Some (DBlock _) => match inner with Some i => cert_mismatch key i | None => false end
      | None => false
      end
  | _ => false
  end.
Definition dobs_is_err (o : dobs) : bool := match o with DErr => true | _ => false end.
(* C11: never a panic; mismatched certificates and modified GCM values are rejected *)
Definition dcase_spec (c : dcase) : bool :=
  dobs_not_panic (dc_obs c)
  && (negb (dc_must_reject c || cert_mismatch (dc_key c) (dc_el c)) || dobs_is_err (dc_obs c)).
Definition check_dcases := check_cases dcase_agree dcase_spec.

(* encrypt-then-decrypt case: observed cipher value of the EncryptedData (None: Encrypt
   failed / panicked as per ec_enc_cls 1 / 2) and what Decrypt returned for it *)
Record ecase := { ec_table : assoc_bytes; ec_alg : blockalg; ec_transport : option (transport * option string);
                  ec_key : bytes; ec_iv : bytes; ec_nonce : option bytes; ec_plain : bytes;
                  ec_enc_cls : Z; ec_value : bytes; ec_rt : dobs }.
Definition ecase_model (c : ecase) : outcome eel :=
  let P := prims_of_table (ec_table c) in
  match ec_transport c with
  | None => block_encrypt P (ec_alg c) (KBytes (ec_key c)) (ec_iv c) (ec_nonce c) (ec_plain c)
  | Some (t, d) => rsa_encrypt P t d (ec_alg c) (Some 1) (ec_key c) (ec_iv c) (ec_nonce c) (ec_plain c)
  end.
Definition ecase_agree (c : ecase) : bool :=
  match ecase_model c with
  | Ok (EEl _ _ _ (CVBytes v) _) => (ec_enc_cls c =? 0) && bytes_eqb v (ec_value c)
  | Ok _ => false
  | Err _ => ec_enc_cls c =? 1
  | Panic => ec_enc_cls c =? 2
  end.
(* C10: decrypting what was encrypted returns the plaintext *)
Definition ecase_spec (c : ecase) : bool :=
  (ec_enc_cls c =? 0) && dobs_eqb (ec_rt c) (DOk (ec_plain c)).
Definition check_ecases := check_cases ecase_agree ecase_spec.

(* padding cases through the verif-tagged export *)
Record padcase := { pd_bs : Z; pd_in : bytes; pd_padded : bytes; pd_stripped : dobs }.
Definition padcase_agree (c : padcase) : bool :=
  bytes_eqb (append_padding (pd_bs c) (pd_in c)) (pd_padded c)
  && dobs_eqb (dobs_of (strip_padding (pd_padded c))) (pd_stripped c).
Definition padcase_spec (c : padcase) : bool := dobs_eqb (pd_stripped c) (DOk (pd_in c)).
Definition check_padcases := check_cases padcase_agree padcase_spec.
Record stripcase := { st_in : bytes; st_out : dobs }.
Definition stripcase_agree (c : stripcase) : bool := dobs_eqb (dobs_of (strip_padding (st_in c))) (st_out c).
Definition check_stripcases := check_cases stripcase_agree (fun c => dobs_not_panic (st_out c)).
