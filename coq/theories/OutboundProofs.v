(* OutboundProofs.v — lemmas about Outbound.v *)
From Saml Require Import Base BaseProofs UrlEnc UrlEncProofs Outbound.
From Coq Require Import ZifyBool FinFun.
Arguments seqb : simpl never.

(* ================= signing-context table (C13) ================= *)
Lemma mem_str_In m l : mem_str m l = true <-> In m l.
Proof. apply mem_str_in. Qed.

Lemma rsa_not_ecdsa m : mem_str m rsa_methods = true -> mem_str m ecdsa_methods = false.
Proof.
  intros H. apply mem_str_In in H. cbn in H.
  repeat (destruct H as [H|H]; [subst m; reflexivity|]). contradiction.
Qed.

(* the context is produced exactly for the RSA methods with an RSA key and the
   ECDSA methods with an ECDSA key *)
Theorem signing_context_table m kt :
  (exists h, signing_context m kt = Ok h) <->
  (In m rsa_methods /\ kt = KRSA) \/ (In m ecdsa_methods /\ kt = KECDSA).
Proof.
  unfold signing_context. split.
  - intros [h H]. destruct (mem_str m rsa_methods) eqn:R.
    + left. split; [now apply mem_str_In|]. destruct kt; congruence.
    + destruct (mem_str m ecdsa_methods) eqn:E; [|discriminate].
      right. split; [now apply mem_str_In|]. destruct kt; congruence.
  - intros [[H ->]|[H ->]].
    + apply mem_str_In in H. rewrite H. eauto.
    + apply mem_str_In in H. destruct (mem_str m rsa_methods) eqn:R.
      * apply rsa_not_ecdsa in R. congruence.
      * rewrite H. eauto.
Qed.

Theorem signing_context_never_panics m kt : signing_context m kt <> Panic.
Proof. unfold signing_context. destruct (mem_str m rsa_methods), (mem_str m ecdsa_methods), kt; discriminate. Qed.

(* any string that is not one of the eight URIs is refused, whatever the key *)
Theorem signing_context_unknown m kt :
  ~ In m (rsa_methods ++ ecdsa_methods) -> signing_context m kt = Err 2.
Proof.
  intros H. unfold signing_context.
  destruct (mem_str m rsa_methods) eqn:R.
  - exfalso. apply H, in_or_app. left. now apply mem_str_In.
  - destruct (mem_str m ecdsa_methods) eqn:E; [|reflexivity].
    exfalso. apply H, in_or_app. right. now apply mem_str_In.
Qed.

Theorem signing_context_mismatch m :
  (In m rsa_methods -> forall kt, kt <> KRSA -> signing_context m kt = Err 1) /\
  (In m ecdsa_methods -> forall kt, kt <> KECDSA -> signing_context m kt = Err 1).
Proof.
  unfold signing_context. split; intros H kt Hk.
  - apply mem_str_In in H. rewrite H. destruct kt; congruence.
  - apply mem_str_In in H. destruct (mem_str m rsa_methods) eqn:R.
    + apply rsa_not_ecdsa in R. congruence.
    + rewrite H. destruct kt; congruence.
Qed.

(* the 8 x 3 table, by computation *)
Example signing_table_computed :
  map (fun m => map (fun kt => is_ok (signing_context m kt)) [KRSA; KECDSA; KOther])
      (rsa_methods ++ ecdsa_methods ++ [""; "rsa-sha256"; "http://www.w3.org/2001/04/xmldsig-more#rsa-sha256 "])%list
  = [[true; false; false]; [true; false; false]; [true; false; false]; [true; false; false];
     [false; true; false]; [false; true; false]; [false; true; false]; [false; true; false];
     [false; false; false]; [false; false; false]; [false; false; false]].
Proof. vm_compute. reflexivity. Qed.

(* with a method configured no constructor returns an unsigned message: it
   returns a message carrying the enveloped signature, or an error — the only
   message left without one is the redirect-binding AuthnRequest, whose
   signature is the detached one of authn_query *)
Theorem all_kinds_signed k b m kt :
  nonempty m = true ->
  match make_message k b m kt with
  | Ok signed => (signed = true /\ exists h, signing_context m kt = Ok h)
                 \/ (signed = false /\ k = AuthnReq /\ b = BRedirect)
  | Err _ => (forall h, signing_context m kt <> Ok h) /\ xml_signed k b m = true
  | Panic => False
  end.
Proof.
  intros Hm. unfold make_message, xml_signed. rewrite Hm. cbn [andb].
  destruct k, b; cbn [bind];
    try (destruct (signing_context m kt) eqn:E; cbn [bind];
         [left; split; [reflexivity|eauto]
         |split; [intros h; congruence|reflexivity]
         |exfalso; eapply signing_context_never_panics; eauto]).
  right. auto.
Qed.

Theorem unsigned_when_no_method k b kt : make_message k b "" kt = Ok false.
Proof. reflexivity. Qed.

(* ================= published metadata (C13) ================= *)
(* with a method configured the metadata carries a signing descriptor whose
   first certificate is the SP's own, followed by the intermediates; without a
   method there is no signing descriptor; AuthnRequestsSigned iff a method is set *)
Theorem metadata_advertises c inters rsa m :
  (nonempty m = true ->
     kd_certs_of "signing" (sp_key_descriptors (Some c) inters rsa m) = Some (c :: inters)
     /\ sp_authn_requests_signed m = true) /\
  (nonempty m = false ->
     kd_certs_of "signing" (sp_key_descriptors (Some c) inters rsa m) = None
     /\ sp_authn_requests_signed m = false) /\
  (forall cs, kd_certs_of "encryption" (sp_key_descriptors (Some c) inters rsa m) = Some cs ->
     rsa = true /\ cs = c :: inters).
Proof.
  unfold sp_key_descriptors, sp_authn_requests_signed.
  destruct rsa, (nonempty m); vm_compute; repeat split; intros; congruence.
Qed.

Theorem metadata_no_cert inters rsa m : sp_key_descriptors None inters rsa m = [].
Proof. reflexivity. Qed.

(* the model's descriptors always satisfy the monitor *)
Theorem metadata_meets_spec c inters rsa m :
  mdcase_spec {| md_cert := Some c; md_inters := inters; md_rsa := rsa; md_method := m;
                 md_kds := sp_key_descriptors (Some c) inters rsa m;
                 md_authn_signed := sp_authn_requests_signed m; md_first_is_sp_cert := true |} = true.
Proof.
  unfold mdcase_spec. cbn [md_cert md_method md_kds md_authn_signed md_first_is_sp_cert].
  destruct (nonempty m) eqn:N; [|reflexivity].
  destruct (metadata_advertises c inters rsa m) as [A _]. destruct (A N) as [-> ->].
  cbn. apply seqb_refl.
Qed.

(* ================= through the middleware entry point (C13) ================= *)
(* whatever m.Binding and the IdP's endpoints are, with a method configured the
   AuthnRequest that HandleStartAuthFlow sends is signed or the flow is refused *)
Theorem mw_start_signed mbinding hr m kt o :
  nonempty m = true -> mw_start mbinding hr m kt = Ok o ->
  (o = MwRedirect true \/ o = MwPost true) /\ exists h, signing_context m kt = Ok h.
Proof.
  intros Hm. unfold mw_start, make_message, xml_signed. rewrite Hm. cbn [andb].
  destruct (seqb (mw_resolve mbinding hr) HTTP_REDIRECT).
  - cbn [bind]. destruct (signing_context m kt) as [h| |]; cbn [bind]; try discriminate.
    intros H. inversion H. split; [now left|eauto].
  - destruct (seqb (mw_resolve mbinding hr) HTTP_POST).
    + destruct (signing_context m kt) as [h| |]; cbn [bind]; try discriminate.
      intros H. inversion H. split; [now right|eauto].
    + cbn [bind]. discriminate.
Qed.

Theorem mw_start_resolves mbinding hr :
  mbinding = EmptyString ->
  mw_resolve mbinding hr = (if hr then HTTP_REDIRECT else HTTP_POST).
Proof. intros ->. reflexivity. Qed.

(* ================= where the messages are sent ================= *)
(* the location used for a binding is the Location of an endpoint of the IdP's
   list with exactly that binding — the first such — or "" when there is none *)
Theorem binding_location_spec b eps :
  (exists pre rl post,
     eps = (pre ++ (b, binding_location b eps, rl) :: post)%list /\
     (forall e, In e pre -> fst (fst e) <> b)) \/
  (binding_location b eps = EmptyString /\ forall e, In e eps -> fst (fst e) <> b).
Proof.
  unfold binding_location. induction eps as [|[[b' loc] rl] r IH].
  - right. split; [reflexivity|intros e []].
  - cbn [first_endpoint]. destruct (seqb b' b) eqn:E.
    + apply seqb_eq in E. subst b'. left. exists [], rl, r. split; [reflexivity|intros e []].
    + apply seqb_neq in E. destruct IH as [(pre & rl' & post & Heq & Hpre)|[Hn Hall]].
      * left. exists ((b', loc, rl) :: pre), rl', post. split.
        -- cbn. now rewrite <- Heq.
        -- intros e [<-|H]; [exact E|now apply Hpre].
      * right. split; [exact Hn|]. intros e [<-|H]; [exact E|now apply Hall].
Qed.

(* the model's target and Destination always satisfy the destination monitor *)
Theorem destination_meets_spec eps k b :
  let dest := binding_location (binding_urn (binding_of b)) eps in
  blcase_spec {| bl_eps := eps; bl_kind := k; bl_binding := b;
                 bl_target := target_of (binding_of b) dest; bl_destination := opt_nonempty dest |} = true.
Proof.
  cbv zeta. unfold blcase_spec, binding_location. cbn [bl_eps bl_kind bl_binding bl_target bl_destination].
  assert (forall a, opt_s_eqb a a = true) as R by (intros [x|]; cbn; [apply seqb_refl|reflexivity]).
  destruct (first_endpoint (binding_urn (binding_of b)) eps) as [[[b' loc] rl]|]; now rewrite seqb_refl, R.
Qed.

(* samlsp.New with SignRequest gives every RSA / ECDSA key a method that fits it *)
Theorem samlsp_default_method_fits kt :
  kt <> KOther ->
  nonempty (samlsp_default_method kt true) = true /\
  exists h, signing_context (samlsp_default_method kt true) kt = Ok h.
Proof. destruct kt; intros H; try congruence; vm_compute; eauto. Qed.

Theorem samlsp_default_flow_signed mbinding hr kt o :
  kt <> KOther -> mw_start mbinding hr (samlsp_default_method kt true) kt = Ok o ->
  o = MwRedirect true \/ o = MwPost true.
Proof.
  intros Hk H. destruct (samlsp_default_method_fits kt Hk) as [N _].
  now destruct (mw_start_signed _ _ _ _ _ N H).
Qed.

(* ================= the hand-assembled AuthnRequest query ================= *)
Section AuthnQuery.
  Variable sign : string -> string.

  Definition saml_octets (enc relay method : string) : string :=
    "SAMLRequest=" +++ query_escape enc
    +++ (if nonempty relay then "&RelayState=" +++ query_escape relay else "")
    +++ "&SigAlg=" +++ query_escape method.

  Definition saml_params (enc relay method sig : string) : values :=
    ([("SAMLRequest", enc)] ++ (if nonempty relay then [("RelayState", relay)] else [])
     ++ (if nonempty method then [("SigAlg", method); ("Signature", sig)] else []))%list.

  Lemma app_assoc3 (a b c : string) : (a +++ b) +++ c = a +++ b +++ c.
  Proof. apply app_assoc_s. Qed.

  (* C13: what is signed, and where it sits in the emitted query *)
  Theorem signed_octets_exact rawq enc relay method kt q octets :
    nonempty method = true ->
    authn_query sign rawq enc relay method kt = Ok (q, octets) ->
    octets = saml_octets enc relay method /\
    q = (if nonempty rawq then rawq +++ "&" else "") +++ octets +++ "&Signature=" +++ query_escape (sign octets) /\
    exists h, signing_context method kt = Ok h.
  Proof.
    intros Hm. unfold authn_query. rewrite Hm.
    match goal with |- context [?a +++ "&SigAlg=" +++ ?b] => set (q2 := a +++ "&SigAlg=" +++ b) end.
    assert (q2 = saml_octets enc relay method) as Eo.
    { unfold q2, saml_octets. destruct (nonempty relay); cbn [String.append]; rewrite ?app_assoc_s; reflexivity. }
    clearbody q2.
    destruct (signing_context method kt) as [h| |] eqn:E; cbn [bind]; try discriminate.
    intros H. injection H as Hq Ho. subst octets q2. split; [reflexivity|]. split; [|eauto].
    rewrite <- Hq. destruct (nonempty rawq); rewrite ?app_assoc_s; reflexivity.
  Qed.

  Lemma parse_query_lit k kq v :
    kq = k +++ "=" -> query_escape k = k -> parse_query (kq +++ query_escape v) = ([(k, v)], false).
  Proof. intros -> H. rewrite <- H at 1. rewrite app_assoc_s. apply parse_query_kv. Qed.

  (* C12: ParseQuery of the assembled query = the endpoint's own parameters,
     then exactly the SAML parameters with their values byte for byte *)
  Theorem authn_query_params rawq enc relay method kt q octets :
    authn_query sign rawq enc relay method kt = Ok (q, octets) ->
    parse_query q =
    ((fst (parse_query rawq) ++ saml_params enc relay method (sign octets))%list, snd (parse_query rawq)).
  Proof.
    unfold authn_query. intros H.
    assert (forall q3, parse_query q3 = (saml_params enc relay method (sign octets), false) ->
            parse_query (if nonempty rawq then rawq +++ "&" +++ q3 else q3) =
            ((fst (parse_query rawq) ++ saml_params enc relay method (sign octets))%list, snd (parse_query rawq))) as Hfront.
    { intros q3 H3. destruct rawq as [|c r]; cbn [nonempty].
      - rewrite H3. reflexivity.
      - rewrite parse_query_amp, H3. cbn [fst snd]. now rewrite orb_false_r. }
    assert (parse_query ("SAMLRequest=" +++ query_escape enc) = ([("SAMLRequest", enc)], false)) as P0
      by (apply (parse_query_lit "SAMLRequest" "SAMLRequest="); reflexivity).
    assert (parse_query (if nonempty relay
             then ("SAMLRequest=" +++ query_escape enc) +++ "&RelayState=" +++ query_escape relay
             else "SAMLRequest=" +++ query_escape enc)
            = (([("SAMLRequest", enc)] ++ (if nonempty relay then [("RelayState", relay)] else []))%list, false)) as P1.
    { destruct (nonempty relay); [|now rewrite P0].
      change ("&RelayState=" +++ query_escape relay) with ("&" +++ "RelayState=" +++ query_escape relay).
      rewrite parse_query_amp, P0, (parse_query_lit "RelayState" "RelayState=") by reflexivity. reflexivity. }
    destruct (nonempty method) eqn:Hm.
    - destruct (signing_context method kt); cbn [bind] in H; try discriminate.
      inversion H; subst; clear H. apply Hfront.
      unfold saml_params. rewrite Hm.
      set (q1 := if nonempty relay then _ else _) in *.
      match goal with |- _ = ?R =>
        change (parse_query ((q1 +++ "&" +++ "SigAlg=" +++ query_escape method) +++ "&" +++ "Signature="
                             +++ query_escape (sign (q1 +++ "&SigAlg=" +++ query_escape method))) = R) end.
      rewrite parse_query_amp, (parse_query_lit "Signature" "Signature=") by reflexivity.
      rewrite parse_query_amp, P1, (parse_query_lit "SigAlg" "SigAlg=") by reflexivity.
      cbn [fst snd orb]. rewrite <- !app_assoc. reflexivity.
    - cbn [bind] in H. inversion H; subst; clear H. apply Hfront.
      unfold saml_params. rewrite Hm, app_nil_r. exact P1.
  Qed.

  Lemma values_of_saml_params k enc relay method sig :
    values_of k (saml_params enc relay method sig) =
    if seqb k "SAMLRequest" then [enc]
    else if seqb k "RelayState" then (if nonempty relay then [relay] else [])
    else if seqb k "SigAlg" then (if nonempty method then [method] else [])
    else if seqb k "Signature" then (if nonempty method then [sig] else [])
    else [].
  Proof.
    unfold saml_params. rewrite !values_of_app.
    destruct (seqb k "SAMLRequest") eqn:E1.
    { apply seqb_eq in E1. subst k. destruct (nonempty relay), (nonempty method); reflexivity. }
    destruct (seqb k "RelayState") eqn:E2.
    { apply seqb_eq in E2. subst k. destruct (nonempty relay), (nonempty method); reflexivity. }
    destruct (seqb k "SigAlg") eqn:E3.
    { apply seqb_eq in E3. subst k. destruct (nonempty relay), (nonempty method); reflexivity. }
    destruct (seqb k "Signature") eqn:E4.
    { apply seqb_eq in E4. subst k. destruct (nonempty relay), (nonempty method); reflexivity. }
    rewrite <- !values_of_app. apply values_of_nokey. intros v Hv.
    apply seqb_neq in E1, E2, E3, E4.
    destruct (nonempty relay), (nonempty method); cbn in Hv;
      repeat (destruct Hv as [Hv|Hv]; [inversion Hv; congruence|]); contradiction.
  Qed.

  Lemma has_saml_key_none ps k :
    has_saml_key ps = false -> saml_key k = true -> values_of k ps = [].
  Proof.
    intros H Hk. apply values_of_nokey. intros v Hv.
    unfold has_saml_key in H. assert (existsb (fun p => saml_key (fst p)) ps = true); [|congruence].
    apply existsb_exists. exists (k, v). auto.
  Qed.

  Lemma own_params_id ps : has_saml_key ps = false -> own_params ps = ps.
  Proof.
    unfold has_saml_key, own_params. induction ps as [|p ps IH]; [reflexivity|]. cbn [existsb filter].
    intros H. apply orb_false_iff in H as [H1 H2]. rewrite H1. cbn [negb]. now rewrite IH.
  Qed.

  Lemma own_params_saml enc relay method sig : own_params (saml_params enc relay method sig) = [].
  Proof. unfold saml_params. destruct (nonempty relay), (nonempty method); reflexivity. Qed.

  Lemma own_params_app a b : own_params (a ++ b)%list = (own_params a ++ own_params b)%list.
  Proof. apply filter_app. Qed.

  (* C12_query_single_params: exactly one SAMLRequest carrying the message,
     RelayState present iff relay <> "" and then exactly once with exactly the
     given bytes, and the endpoint's own parameters unchanged and in order —
     for every relay state, endpoint query and configuration, provided the
     endpoint does not itself carry parameters with the SAML names *)
  Theorem authn_query_single_params rawq enc relay method kt q octets :
    authn_query sign rawq enc relay method kt = Ok (q, octets) ->
    has_saml_key (fst (parse_query rawq)) = false ->
    let ps := fst (parse_query q) in
    values_of "SAMLRequest" ps = [enc] /\
    values_of "RelayState" ps = (if nonempty relay then [relay] else []) /\
    own_params ps = fst (parse_query rawq) /\
    snd (parse_query q) = snd (parse_query rawq).
  Proof.
    intros H Hown. rewrite (authn_query_params _ _ _ _ _ _ _ H). cbn [fst snd].
    rewrite !values_of_app, !values_of_saml_params.
    rewrite !(has_saml_key_none _ _ Hown) by reflexivity.
    rewrite own_params_app, own_params_saml, app_nil_r, (own_params_id _ Hown).
    repeat split; reflexivity.
  Qed.
End AuthnQuery.

(* ================= logout redirects (url.Values) ================= *)
Theorem logout_query_params param rawq enc relay :
  let ps := fst (parse_query (logout_query param rawq enc relay)) in
  snd (parse_query (logout_query param rawq enc relay)) = false /\
  (param <> "RelayState" -> values_of param ps = [enc]) /\
  (nonempty relay = true -> values_of "RelayState" ps = [relay]) /\
  (forall k, k <> param -> k <> "RelayState" -> values_of k ps = values_of k (fst (parse_query rawq))) /\
  (nonempty relay = false -> param <> "RelayState" ->
   values_of "RelayState" ps = values_of "RelayState" (fst (parse_query rawq))).
Proof.
  cbn zeta. unfold logout_query. rewrite parse_query_values_encode. cbn [fst snd].
  split; [reflexivity|]. rewrite !values_of_encode_order.
  destruct (nonempty relay) eqn:R.
  - split; [|split; [|split]].
    + intros Hp. rewrite values_of_set_other by assumption. apply values_of_set_same.
    + intros _. apply values_of_set_same.
    + intros k H1 H2. rewrite values_of_encode_order, !values_of_set_other by assumption. reflexivity.
    + discriminate.
  - split; [|split; [|split]].
    + intros _. apply values_of_set_same.
    + discriminate.
    + intros k H1 H2. rewrite values_of_encode_order, values_of_set_other by assumption. reflexivity.
    + intros _ Hp. rewrite values_of_set_other by congruence. reflexivity.
Qed.

(* ================= URL level ================= *)
Lemma cut_chr_fst_clean d s : contains_chr d (fst (cut_chr d s)) = false.
Proof.
  induction s as [|c s IH]; [reflexivity|]. cbn [cut_chr].
  destruct (code c =? d) eqn:E; [reflexivity|]. destruct (cut_chr d s). cbn in *. now rewrite E, IH.
Qed.

Lemma cut_chr_keeps d e s :
  contains_chr e s = false ->
  contains_chr e (fst (cut_chr d s)) = false /\ contains_chr e (snd (cut_chr d s)) = false.
Proof.
  induction s as [|c s IH]; [auto|]. cbn [cut_chr contains_chr]. intros H.
  apply orb_false_iff in H as [H1 H2]. destruct (code c =? d).
  - cbn. auto.
  - destruct (IH H2) as [A B]. destruct (cut_chr d s). cbn in *. now rewrite H1, A, B.
Qed.

Lemma cut_chr_at d a b :
  0 <= d < 256 -> contains_chr d a = false -> cut_chr d (a +++ String (chr d) b) = (a, b).
Proof. apply cut_chr_app. Qed.

Lemma join_shape base q frag :
  base +++ ("?" +++ q) +++ ("#" +++ frag) = (base +++ "?" +++ q) +++ String (chr 35) frag.
Proof. rewrite !app_assoc_s. reflexivity. Qed.

(* the query of the URL text that join_url writes is the query it was given *)
Theorem query_of_join base q frag :
  contains_chr 35 base = false -> contains_chr 63 base = false ->
  contains_chr 35 q = false -> nonempty q = true ->
  query_of (join_url base q frag) = q.
Proof.
  intros Hb1 Hb2 Hq Hn. unfold query_of, split_url, join_url. rewrite Hn.
  assert (contains_chr 35 (base +++ "?" +++ q) = false) as Hc
    by (rewrite !contains_chr_app, Hb1, Hq; reflexivity).
  destruct (nonempty frag) eqn:Hf.
  - rewrite join_shape. rewrite cut_chr_at by (try lia; exact Hc).
    change ("?" +++ q) with (String (chr 63) q). rewrite cut_chr_at by (try lia; exact Hb2). reflexivity.
  - rewrite app_nil_r_s. rewrite (cut_chr_none 35) by exact Hc.
    change ("?" +++ q) with (String (chr 63) q). rewrite cut_chr_at by (try lia; exact Hb2). reflexivity.
Qed.

Lemma split_url_clean u base rawq frag :
  split_url u = (base, rawq, frag) ->
  contains_chr 35 base = false /\ contains_chr 63 base = false /\ contains_chr 35 rawq = false.
Proof.
  unfold split_url. pose proof (cut_chr_fst_clean 35 u) as H35.
  destruct (cut_chr 35 u) as [nf fr] eqn:E1. cbn [fst] in H35.
  pose proof (cut_chr_fst_clean 63 nf) as H63. pose proof (cut_chr_keeps 63 35 nf H35) as [K1 K2].
  destruct (cut_chr 63 nf) as [b r] eqn:E2. cbn [fst snd] in *.
  intros H. inversion H; subst. auto.
Qed.

Lemma authn_query_nohash sign rawq enc relay method kt q octets :
  contains_chr 35 rawq = false ->
  authn_query sign rawq enc relay method kt = Ok (q, octets) ->
  contains_chr 35 q = false /\ nonempty q = true.
Proof.
  intros Hr. unfold authn_query.
  assert (forall q3, contains_chr 35 q3 = false -> nonempty q3 = true ->
          contains_chr 35 (if nonempty rawq then rawq +++ "&" +++ q3 else q3) = false /\
          nonempty (if nonempty rawq then rawq +++ "&" +++ q3 else q3) = true) as Hfront.
  { intros q3 H1 H2. destruct rawq as [|c r]; cbn [nonempty]; [auto|].
    rewrite !contains_chr_app, Hr, H1. auto. }
  assert (contains_chr 35 (if nonempty relay
             then ("SAMLRequest=" +++ query_escape enc) +++ "&RelayState=" +++ query_escape relay
             else "SAMLRequest=" +++ query_escape enc) = false) as P1.
  { destruct (nonempty relay); rewrite !contains_chr_app, !escape_no_hash; reflexivity. }
  set (q1 := if nonempty relay then _ else _) in *.
  assert (nonempty q1 = true) as N1 by (unfold q1; destruct (nonempty relay); reflexivity).
  clearbody q1.
  assert (forall x, contains_chr 35 ("&SigAlg=" +++ query_escape method +++ "&Signature=" +++ query_escape x) = false) as P2.
  { intros x. change (contains_chr 35 (("&SigAlg=" +++ query_escape method) +++ "&Signature=" +++ query_escape x) = false).
    rewrite !contains_chr_app, !escape_no_hash. reflexivity. }
  destruct (nonempty method).
  - destruct (signing_context method kt); cbn [bind]; try discriminate.
    intros H. injection H as Hq _. subst q. apply Hfront.
    + rewrite app_assoc_s. rewrite contains_chr_app, P1. apply P2.
    + destruct q1; [discriminate|reflexivity].
  - cbn [bind]. intros H. injection H as Hq _. subst q. apply Hfront; assumption.
Qed.

(* the statement about the emitted URL text *)
Theorem authn_redirect_url_params sign dest enc relay method kt url octets :
  authn_redirect sign dest enc relay method kt = Ok (url, octets) ->
  let rawq := snd (fst (split_url dest)) in
  has_saml_key (fst (parse_query rawq)) = false ->
  let ps := fst (parse_query (query_of url)) in
  values_of "SAMLRequest" ps = [enc] /\
  values_of "RelayState" ps = (if nonempty relay then [relay] else []) /\
  own_params ps = fst (parse_query rawq).
Proof.
  unfold authn_redirect. destruct (split_url dest) as [[base rawq] frag] eqn:Es. cbn [fst snd].
  destruct (authn_query sign rawq enc relay method kt) as [[q o]| |] eqn:Eq; cbn [bind]; try discriminate.
  intros H Hown. inversion H; subst; clear H.
  destruct (split_url_clean _ _ _ _ Es) as (B1 & B2 & R1).
  destruct (authn_query_nohash _ _ _ _ _ _ _ _ R1 Eq) as [Q1 Q2].
  rewrite query_of_join by assumption.
  destruct (authn_query_single_params _ _ _ _ _ _ _ _ Eq Hown) as (A & B & C & _). auto.
Qed.

Theorem authn_redirect_signed_octets sign dest enc relay method kt url octets :
  nonempty method = true ->
  authn_redirect sign dest enc relay method kt = Ok (url, octets) ->
  octets = saml_octets enc relay method /\
  exists pre, query_of url = pre +++ octets +++ "&Signature=" +++ query_escape (sign octets).
Proof.
  intros Hm. unfold authn_redirect. destruct (split_url dest) as [[base rawq] frag] eqn:Es.
  destruct (authn_query sign rawq enc relay method kt) as [[q o]| |] eqn:Eq; cbn [bind]; try discriminate.
  intros H. inversion H; subst; clear H.
  destruct (split_url_clean _ _ _ _ Es) as (B1 & B2 & R1).
  destruct (authn_query_nohash _ _ _ _ _ _ _ _ R1 Eq) as [Q1 Q2].
  rewrite query_of_join by assumption.
  destruct (signed_octets_exact _ _ _ _ _ _ _ _ Hm Eq) as (A & B & _).
  split; [exact A|]. eexists. exact B.
Qed.

(* a method that does not fit the key makes Redirect fail: no URL is produced *)
Theorem authn_redirect_refuses sign dest enc relay method kt :
  nonempty method = true -> (forall h, signing_context method kt <> Ok h) ->
  exists e, authn_redirect sign dest enc relay method kt = Err e.
Proof.
  intros Hm Hs. unfold authn_redirect, authn_query. destruct (split_url dest) as [[base rawq] frag].
  rewrite Hm. destruct (signing_context method kt) as [h|e|] eqn:E.
  - exfalso. eapply Hs; eauto.
  - exists e. reflexivity.
  - exfalso. eapply signing_context_never_panics; eauto.
Qed.

(* ================= the message is recoverable from the wire form ================= *)
(* DEFLATE and base64 are opaque: any codec pair with the round-trip property *)
Section Codec.
  Variables (deflate inflate b64enc b64dec : string -> string).
  Hypothesis inflate_deflate : forall x, inflate (deflate x) = x.
  Hypothesis b64_roundtrip : forall x, b64dec (b64enc x) = x.

  (* redirect binding: the single SAMLRequest parameter of the emitted URL
     base64-decodes and inflates to the serialised message *)
  Theorem redirect_message_recoverable sign dest xml relay method kt url octets :
    authn_redirect sign dest (b64enc (deflate xml)) relay method kt = Ok (url, octets) ->
    has_saml_key (fst (parse_query (snd (fst (split_url dest))))) = false ->
    map (fun v => inflate (b64dec v)) (values_of "SAMLRequest" (fst (parse_query (query_of url)))) = [xml].
  Proof.
    intros H Hown. destruct (authn_redirect_url_params _ _ _ _ _ _ _ _ H Hown) as (A & _).
    rewrite A. cbn. now rewrite b64_roundtrip, inflate_deflate.
  Qed.

  Theorem logout_message_recoverable param rawq xml relay :
    param <> "RelayState" ->
    map (fun v => inflate (b64dec v))
        (values_of param (fst (parse_query (logout_query param rawq (b64enc (deflate xml)) relay)))) = [xml].
  Proof.
    intros Hp. destruct (logout_query_params param rawq (b64enc (deflate xml)) relay) as (_ & A & _).
    rewrite (A Hp). cbn. now rewrite b64_roundtrip, inflate_deflate.
  Qed.
End Codec.

(* ================= message IDs ================= *)
Lemma hx_to_hex s : hx (to_hex s) = s.
Proof.
  induction s as [|c s IH]; [reflexivity|]. cbn [to_hex hx]. rewrite IH. f_equal.
  all_ascii c; vm_compute; reflexivity.
Qed.

Lemma to_hex_inj a b : to_hex a = to_hex b -> a = b.
Proof. intros H. rewrite <- (hx_to_hex a), <- (hx_to_hex b), H. reflexivity. Qed.

(* distinct random draws give distinct IDs *)
Theorem msg_id_inj a b : msg_id a = msg_id b -> a = b.
Proof. unfold msg_id. intros H. cbn in H. inversion H. now apply to_hex_inj. Qed.

Lemma take_drop n s : take n s +++ drop n s = s.
Proof. revert s; induction n as [|n IH]; intros [|c s]; cbn; try reflexivity. now rewrite IH. Qed.

Lemma take_length n s : (n <= String.length s)%nat -> String.length (take n s) = n.
Proof. revert s; induction n as [|n IH]; intros [|c s]; cbn; intros H; try reflexivity; try lia. rewrite IH; lia. Qed.

Lemma drop_length n s : String.length (drop n s) = (String.length s - n)%nat.
Proof. revert s; induction n as [|n IH]; intros [|c s]; cbn; try reflexivity. apply IH. Qed.

Lemma new_id_ok s i rest :
  new_id s = Ok (i, rest) ->
  i = msg_id (take 20 s) /\ rest = drop 20 s /\ (20 <= String.length s)%nat.
Proof.
  unfold new_id, draw. destruct (String.length s <? 20)%nat eqn:E; cbn [bind]; [discriminate|].
  intros H. inversion H; subst. apply Nat.ltb_ge in E. auto.
Qed.

(* an ID is built from exactly 20 bytes (160 bits) of the configured source *)
Theorem new_id_consumes s i rest :
  new_id s = Ok (i, rest) ->
  exists b, String.length b = 20%nat /\ s = b +++ rest /\ i = msg_id b.
Proof.
  intros H. apply new_id_ok in H as (-> & -> & L). exists (take 20 s).
  split; [apply take_length; exact L|]. split; [symmetry; apply take_drop|reflexivity].
Qed.

(* any sequence of k creations: the IDs are the hex of consecutive 20-byte
   chunks, exactly 20 k bytes are drawn, and the stream position is threaded *)
Theorem make_ids_chunks k : forall s ids rest,
  make_ids k s = Ok (ids, rest) ->
  ids = map msg_id (chunks20 k s) /\ String.length s = (20 * k + String.length rest)%nat /\
  List.length ids = k.
Proof.
  induction k as [|k IH]; intros s ids rest H.
  - cbn in H. inversion H; subst. cbn. auto.
  - cbn [make_ids] in H. destruct (new_id s) as [[i r]| |] eqn:E; cbn [bind] in H; try discriminate.
    destruct (make_ids k r) as [[is r']| |] eqn:E2; cbn [bind] in H; try discriminate.
    inversion H; subst; clear H. apply new_id_ok in E as (-> & -> & L).
    destruct (IH _ _ _ E2) as (A & B & C). cbn [chunks20 map List.length]. rewrite <- A.
    split; [reflexivity|]. split; [|now rewrite C]. rewrite drop_length in B. lia.
Qed.

Theorem make_ids_app j k s :
  make_ids (j + k) s =
  (do (a, r) <- make_ids j s; do (b, r') <- make_ids k r; Ok ((a ++ b)%list, r')).
Proof.
  revert s; induction j as [|j IH]; intros s.
  - cbn. destruct (make_ids k s) as [[b r']| |]; reflexivity.
  - cbn [Nat.add make_ids]. destruct (new_id s) as [[i r]| |]; cbn [bind]; try reflexivity.
    rewrite IH. destruct (make_ids j r) as [[a r1]| |]; cbn [bind]; try reflexivity.
    destruct (make_ids k r1) as [[b r2]| |]; reflexivity.
Qed.

(* fresh: distinct draws give pairwise distinct IDs, over any sequence *)
Theorem make_ids_fresh k s ids rest :
  make_ids k s = Ok (ids, rest) -> NoDup (chunks20 k s) -> NoDup ids.
Proof.
  intros H Hn. apply make_ids_chunks in H as (-> & _ & _).
  apply FinFun.Injective_map_NoDup; [|exact Hn]. intros a b. apply msg_id_inj.
Qed.

(* the source running dry is a panic (randomBytes panics on a ReadFull error), never a short ID *)
Theorem make_ids_short k s :
  (String.length s < 20 * k)%nat -> make_ids k s = Panic.
Proof.
  revert s; induction k as [|k IH]; intros s H; [lia|]. cbn [make_ids]. unfold new_id, draw.
  destruct (String.length s <? 20)%nat eqn:E; cbn [bind]; [reflexivity|].
  apply Nat.ltb_ge in E. rewrite IH; [reflexivity|]. rewrite drop_length. lia.
Qed.

(* ================= the monitors evaluate the theorems' conclusions ================= *)
Lemma strs_eqb_refl l : strs_eqb l l = true.
Proof. induction l as [|x l IH]; [reflexivity|]. cbn. now rewrite seqb_refl, IH. Qed.

Lemma strs_eqb_eq a : forall b, strs_eqb a b = true <-> a = b.
Proof.
  induction a as [|x a IH]; intros [|y b]; cbn; split; try discriminate; try reflexivity.
  - intros H. apply andb_true_iff in H as [H1 H2]. apply seqb_eq in H1. apply IH in H2. now subst.
  - intros H. inversion H; subst. now rewrite seqb_refl, strs_eqb_refl.
Qed.

Lemma pairs_eqb_refl l : pairs_eqb l l = true.
Proof. induction l as [|[k v] l IH]; [reflexivity|]. cbn. now rewrite !seqb_refl, IH. Qed.

(* redirect_spec is sound: it implies the propositional statement of C12_query_single_params *)
Theorem redirect_spec_sound reenc param dest enc relay url :
  redirect_spec reenc param dest enc relay url = true ->
  let rawq := snd (fst (split_url dest)) in
  has_saml_key (fst (parse_query rawq)) = false ->
  let ps := fst (parse_query (query_of url)) in
  values_of param ps = [enc] /\
  values_of "RelayState" ps = (if nonempty relay then [relay] else []).
Proof.
  unfold redirect_spec. destruct (split_url dest) as [[base rawq] frag]. cbn [fst snd].
  intros H Hown. rewrite Hown in H.
  apply andb_true_iff in H as [H H4]. apply andb_true_iff in H as [H H3]. apply andb_true_iff in H as [H1 H2].
  apply strs_eqb_eq in H2, H3. auto.
Qed.

(* and the model always satisfies it: the theorem restated on the monitor *)
Theorem authn_redirect_meets_spec sign dest enc relay method kt url octets :
  authn_redirect sign dest enc relay method kt = Ok (url, octets) ->
  redirect_spec false "SAMLRequest" dest enc relay url = true.
Proof.
  intros H. unfold redirect_spec.
  destruct (split_url dest) as [[base rawq] frag] eqn:Es.
  destruct (has_saml_key (fst (parse_query rawq))) eqn:Hown; [reflexivity|].
  unfold authn_redirect in H. rewrite Es in H.
  destruct (authn_query sign rawq enc relay method kt) as [[q o]| |] eqn:Eq; cbn [bind] in H; try discriminate.
  inversion H; subst; clear H.
  destruct (split_url_clean _ _ _ _ Es) as (B1 & B2 & R1).
  destruct (authn_query_nohash _ _ _ _ _ _ _ _ R1 Eq) as [Q1 Q2].
  rewrite query_of_join by assumption.
  destruct (authn_query_single_params _ _ _ _ _ _ _ _ Eq Hown) as (A & B & C & D).
  rewrite A, B, C, D, (own_params_id _ Hown).
  rewrite Bool.eqb_reflx, !strs_eqb_refl. unfold same_params. now rewrite pairs_eqb_refl.
Qed.

(* message IDs: the monitor holds of the model's output *)
Lemma chunks20_length k : forall s, List.length (chunks20 k s) = k.
Proof. induction k as [|k IH]; intros s; cbn; [reflexivity|now rewrite IH]. Qed.

Lemma distinct_strs_nodup l : distinct_strs l = true <-> NoDup l.
Proof.
  induction l as [|x l IH]; cbn; [split; [constructor|reflexivity]|].
  rewrite andb_true_iff, negb_true_iff, IH. split.
  - intros [H1 H2]. constructor; [|assumption]. rewrite <- mem_str_in. congruence.
  - intros H. inversion H; subst. split; [|assumption].
    destruct (mem_str x l) eqn:E; [|reflexivity]. apply mem_str_in in E. contradiction.
Qed.

Theorem make_ids_meets_spec k s ids :
  make_ids k s = Ok (ids, EmptyString) ->
  idcase_spec {| ic_stream := s; ic_n := Z.of_nat k; ic_ids := ids |} = true.
Proof.
  intros H. unfold idcase_spec. cbn [ic_stream ic_n ic_ids]. rewrite Nat2Z.id.
  destruct (make_ids_chunks _ _ _ _ H) as (A & B & C).
  apply andb_true_iff. split; [apply andb_true_iff; split|].
  - unfold slen. rewrite B. cbn [String.length]. apply Z.eqb_eq. lia.
  - rewrite A. apply strs_eqb_refl.
  - destruct (distinct_strs (chunks20 k s)) eqn:D; [|reflexivity].
    apply distinct_strs_nodup. eapply make_ids_fresh; eauto. now apply distinct_strs_nodup.
Qed.

(* ================= non-vacuity ================= *)
Example authn_redirect_example :
  authn_redirect (fun _ => "c2ln") "https://idp.example.com/sso?x=1&y=2" "ZW5j+/=" "a&b=c#d" RSASHA256 KRSA
  = Ok ("https://idp.example.com/sso?x=1&y=2&SAMLRequest=ZW5j%2B%2F%3D&RelayState=a%26b%3Dc%23d&SigAlg=http%3A%2F%2Fwww.w3.org%2F2001%2F04%2Fxmldsig-more%23rsa-sha256&Signature=c2ln",
        "SAMLRequest=ZW5j%2B%2F%3D&RelayState=a%26b%3Dc%23d&SigAlg=http%3A%2F%2Fwww.w3.org%2F2001%2F04%2Fxmldsig-more%23rsa-sha256").
Proof. vm_compute. reflexivity. Qed.

Example logout_redirect_example :
  logout_redirect "SAMLResponse" "https://idp.example.com/slo?z=1&a=2;b&a=3" "ZW5j+" "r s&t"
  = "https://idp.example.com/slo?RelayState=r+s%26t&SAMLResponse=ZW5j%2B&a=3&z=1".
Proof. vm_compute. reflexivity. Qed.

Example make_ids_example :
  make_ids 2 "0123456789abcdefghij0123456789ABCDEFGHIJ"
  = Ok (["id-303132333435363738396162636465666768696a"; "id-303132333435363738394142434445464748494a"], "").
Proof. vm_compute. reflexivity. Qed.
