(* HtmlEsc.v — executable model of the html/template escapers applied to the
   auto-submit forms (go1.23 src/html/template: html.go htmlReplacer with
   htmlReplacementTable = attrEscaper / htmlEscaper on plain strings; url.go
   urlFilter, urlNormalizer), of unicode/utf8.DecodeRuneInString, of the literal
   text of the form templates of service_provider.go, identity_provider.go,
   samlidp/session.go and the samlsp middleware page, and of the part of the
   HTML5 tokenizer those templates exercise (start/end tags, double-quoted
   attribute values with character references, script raw text).
   Definitions only; lemmas are in HtmlEscProofs.v. *)
From Saml Require Import Base UrlEnc.

(* ---------- unicode/utf8.DecodeRuneInString ---------- *)
Definition RuneError : Z := 65533.

(* first[b]: (size, accept.lo, accept.hi); size 1 = ASCII, 0 = invalid (xx) *)
Definition first_info (b : Z) : Z * Z * Z :=
  if b <? 128 then (1, 0, 0)
  else if b <? 194 then (0, 0, 0)            (* 80..BF continuation, C0 C1 *)
  else if b <? 224 then (2, 128, 191)        (* s1 *)
  else if b =? 224 then (3, 160, 191)        (* s2 *)
  else if b =? 237 then (3, 128, 159)        (* s4 *)
  else if b <? 240 then (3, 128, 191)        (* s3 *)
  else if b =? 240 then (4, 144, 191)        (* s5 *)
  else if b <? 244 then (4, 128, 191)        (* s6 *)
  else if b =? 244 then (4, 128, 143)        (* s7 *)
  else (0, 0, 0).

Definition is_cont (b : Z) : bool := (128 <=? b) && (b <=? 191).

Fixpoint has_len (n : nat) (s : string) : bool :=
  match n, s with
  | O, _ => true
  | S _, EmptyString => false
  | S k, String _ r => has_len k r
  end.

(* (rune, width); width 0 only for the empty string *)
Definition decode_rune (s : string) : Z * nat :=
  match s with
  | EmptyString => (RuneError, O)
  | String c0 r =>
      let b0 := code c0 in
      let '(sz, lo, hi) := first_info b0 in
      if sz =? 1 then (b0, 1%nat)
      else if sz =? 0 then (RuneError, 1%nat)
      else if negb (has_len (Z.to_nat sz) s) then (RuneError, 1%nat)      (* n < sz *)
      else
        match r with
        | EmptyString => (RuneError, 1%nat)
        | String c1 r1 =>
            let b1 := code c1 in
            if (b1 <? lo) || (hi <? b1) then (RuneError, 1%nat)
            else if sz =? 2 then ((b0 mod 32) * 64 + b1 mod 64, 2%nat)
            else
              match r1 with
              | EmptyString => (RuneError, 1%nat)
              | String c2 r2 =>
                  let b2 := code c2 in
                  if negb (is_cont b2) then (RuneError, 1%nat)
                  else if sz =? 3 then ((b0 mod 16) * 4096 + (b1 mod 64) * 64 + b2 mod 64, 3%nat)
                  else
                    match r2 with
                    | EmptyString => (RuneError, 1%nat)
                    | String c3 _ =>
                        let b3 := code c3 in
                        if negb (is_cont b3) then (RuneError, 1%nat)
                        else ((b0 mod 8) * 262144 + (b1 mod 64) * 4096 + (b2 mod 64) * 64 + b3 mod 64, 4%nat)
                    end
              end
        end
  end.

(* ---------- htmlReplacer(s, htmlReplacementTable, badRunes = true) ---------- *)
Definition FFFD : string := String (chr 239) (String (chr 191) (String (chr 189) EmptyString)).

(* replacementTable[r] for int(r) < len(table) = 63 and a non-empty entry *)
Definition repl_of (r : Z) : option string :=
  if r =? 0 then Some FFFD
  else if r =? 34 then Some "&#34;"
  else if r =? 38 then Some "&amp;"
  else if r =? 39 then Some "&#39;"
  else if r =? 43 then Some "&#43;"
  else if r =? 60 then Some "&lt;"
  else if r =? 62 then Some "&gt;"
  else None.

(* The Go loop decodes a rune at i, then advances by its width w.  Here the
   string is walked byte by byte: [skip] counts the remaining bytes of the rune
   decoded last, which are copied ([keep] = true: the rune was not replaced,
   its bytes stay part of s[written:i]) or dropped ([keep] = false: written =
   i + w). *)
Fixpoint html_replace_aux (skip : nat) (keep : bool) (s : string) : string :=
  match s with
  | EmptyString => EmptyString
  | String c r =>
      match skip with
      | S k => if keep then String c (html_replace_aux k keep r) else html_replace_aux k keep r
      | O =>
          let '(rn, w) := decode_rune s in
          match repl_of rn with
          | Some t => t +++ html_replace_aux (Nat.pred w) false r
          | None => String c (html_replace_aux (Nat.pred w) true r)
          end
      end
  end.

Definition html_replace (s : string) : string := html_replace_aux O true s.
(* attrEscaper / htmlEscaper on a plain string *)
Definition attr_escape := html_replace.
Definition html_escape := html_replace.

(* ---------- urlFilter ---------- *)
Definition lower_ascii (c : ascii) : ascii := if is_upper c then chr (code c + 32) else c.

(* strings.EqualFold(p, w) for w one of "http", "https", "mailto": simple
   Unicode case folding relates A-Z to a-z and, for these words, 's' to
   U+017F (bytes C5 BF, LATIN SMALL LETTER LONG S); no other rune folds to one
   of their letters.  [fold_word] rewrites p accordingly. *)
Fixpoint fold_word (p : string) : string :=
  match p with
  | EmptyString => EmptyString
  | String c r =>
      if code c =? 197 then
        match r with
        | String d r' => if code d =? 191 then String "s" (fold_word r') else String c (fold_word r)
        | EmptyString => String c EmptyString
        end
      else String (lower_ascii c) (fold_word r)
  end.
Definition equal_fold (p w : string) : bool := seqb (fold_word p) w.

Definition FAILSAFE : string := "#ZgotmplZ".

Definition is_safe_url (s : string) : bool :=
  if contains_chr 58 s then
    let protocol := fst (cut_chr 58 s) in
    if contains_chr 47 protocol then true
    else equal_fold protocol "http" || equal_fold protocol "https" || equal_fold protocol "mailto"
  else true.

Definition url_filter (s : string) : string := if is_safe_url s then s else FAILSAFE.

(* ---------- urlNormalizer: processURLOnto(s, norm = true) ---------- *)
Definition lowerhex (d : Z) : ascii := if d <? 10 then chr (48 + d) else chr (87 + d).
Definition pct_lower (c : ascii) (r : string) : string :=
  String "%" (String (lowerhex (code c / 16)) (String (lowerhex (code c mod 16)) r)).

(* bytes written through unchanged when normalising *)
Definition norm_keep (c : ascii) : bool :=
  let n := code c in
  is_alnum c || is_mark c
  || (n =? 33) || (n =? 35) || (n =? 36) || (n =? 38) || (n =? 42) || (n =? 43) || (n =? 44)
  || (n =? 47) || (n =? 58) || (n =? 59) || (n =? 61) || (n =? 63) || (n =? 64) || (n =? 91) || (n =? 93).

Fixpoint url_normalize (s : string) : string :=
  match s with
  | EmptyString => EmptyString
  | String c r =>
      if norm_keep c then String c (url_normalize r)
      else if code c =? 37 then
        match r with
        | String a (String b _) =>
            if ishex a && ishex b then String c (url_normalize r)     (* a valid escape is not re-encoded *)
            else pct_lower c (url_normalize r)
        | _ => pct_lower c (url_normalize r)
        end
      else pct_lower c (url_normalize r)
  end.

(* {{.URL}} inside action="…": urlFilter | urlNormalizer | attrEscaper *)
Definition url_attr (s : string) : string := attr_escape (url_normalize (url_filter s)).

(* ---------- the form templates ---------- *)
Inductive form_kind := FAuthnReq | FLogoutReq | FLogoutResp | FIdpResponse | FIdpLogin | FMiddleware.
Record form_data := { fd_url : string; fd_msg : string; fd_relay : string; fd_toast : string }.

Definition sp_form (msg_name form_id : string) (d : form_data) : string :=
  "<form method=""post"" action=""" +++ url_attr (fd_url d) +++ """ id=""" +++ form_id +++ """>"
  +++ "<input type=""hidden"" name=""" +++ msg_name +++ """ value=""" +++ attr_escape (fd_msg d) +++ """ />"
  +++ "<input type=""hidden"" name=""RelayState"" value=""" +++ attr_escape (fd_relay d) +++ """ />"
  +++ "<input id=""SAMLSubmitButton"" type=""submit"" value=""Submit"" />"
  +++ "</form>"
  +++ "<script>document.getElementById('SAMLSubmitButton').style.visibility=""hidden"";"
  +++ "document.getElementById('" +++ form_id +++ "').submit();</script>".

Definition idp_response_form (d : form_data) : string :=
  "<html>"
  +++ "<form method=""post"" action=""" +++ url_attr (fd_url d) +++ """ id=""SAMLResponseForm"">"
  +++ "<input type=""hidden"" name=""SAMLResponse"" value=""" +++ attr_escape (fd_msg d) +++ """ />"
  +++ "<input type=""hidden"" name=""RelayState"" value=""" +++ attr_escape (fd_relay d) +++ """ />"
  +++ "<input id=""SAMLSubmitButton"" type=""submit"" value=""Continue"" />"
  +++ "</form>"
  +++ "<script>document.getElementById('SAMLSubmitButton').style.visibility='hidden';</script>"
  +++ "<script>document.getElementById('SAMLResponseForm').submit();</script>"
  +++ "</html>".

Definition idp_login_form (d : form_data) : string :=
  "<html>"
  +++ "<p>" +++ html_escape (fd_toast d) +++ "</p>"
  +++ "<form method=""post"" action=""" +++ url_attr (fd_url d) +++ """>"
  +++ "<input type=""text"" name=""user"" placeholder=""user"" value="""" />"
  +++ "<input type=""password"" name=""password"" placeholder=""password"" value="""" />"
  +++ "<input type=""hidden"" name=""SAMLRequest"" value=""" +++ attr_escape (fd_msg d) +++ """ />"
  +++ "<input type=""hidden"" name=""RelayState"" value=""" +++ attr_escape (fd_relay d) +++ """ />"
  +++ "<input type=""submit"" value=""Log In"" />"
  +++ "</form>"
  +++ "</html>".

Definition render_form (k : form_kind) (d : form_data) : string :=
  match k with
  | FAuthnReq | FLogoutReq => sp_form "SAMLRequest" "SAMLRequestForm" d
  | FLogoutResp => sp_form "SAMLResponse" "SAMLResponseForm" d
  | FIdpResponse => idp_response_form d
  | FIdpLogin => idp_login_form d
  | FMiddleware => "<!DOCTYPE html><html><body>" +++ sp_form "SAMLRequest" "SAMLRequestForm" d +++ "</body></html>"
  end.

(* ---------- HTML5 character references (the forms produced here) ---------- *)
(* UTF-8 encoding of a code point (utf8.AppendRune; surrogates and values
   above U+10FFFF become U+FFFD, as does the reference &#0;) *)
Definition utf8_encode (r : Z) : string :=
  if (r <=? 0) || (1114111 <? r) || ((55296 <=? r) && (r <=? 57343)) then FFFD
  else if r <? 128 then String (chr r) EmptyString
  else if r <? 2048 then String (chr (192 + r / 64)) (String (chr (128 + r mod 64)) EmptyString)
  else if r <? 65536 then
    String (chr (224 + r / 4096)) (String (chr (128 + (r / 64) mod 64)) (String (chr (128 + r mod 64)) EmptyString))
  else String (chr (240 + r / 262144)) (String (chr (128 + (r / 4096) mod 64))
         (String (chr (128 + (r / 64) mod 64)) (String (chr (128 + r mod 64)) EmptyString))).

Fixpoint hexval_acc (s : string) (acc : Z) : Z :=
  match s with EmptyString => acc | String c r => hexval_acc r (16 * acc + unhex c) end.

(* the text after '&': Some (decoded text, bytes consumed after the '&') for
   the named references amp lt gt quot apos and numeric references with ';' *)
Definition try_ref (r : string) : option (string * nat) :=
  if prefixb "amp;" r then Some ("&", 4%nat)
  else if prefixb "lt;" r then Some ("<", 3%nat)
  else if prefixb "gt;" r then Some (">", 3%nat)
  else if prefixb "quot;" r then Some (String (chr 34) EmptyString, 5%nat)
  else if prefixb "apos;" r then Some ("'", 5%nat)
  else
    match r with
    | String h r1 =>
        if code h =? 35 then
          match r1 with
          | String x r2 =>
              if (code x =? 120) || (code x =? 88) then
                let '(ds, rest) := span ishex r2 in
                if nonempty ds && prefixb ";" rest
                then Some (utf8_encode (Z.min (hexval_acc ds 0) 1114112), (3 + String.length ds)%nat)
                else None
              else
                let '(ds, rest) := span is_digit r1 in
                if nonempty ds && prefixb ";" rest
                then Some (utf8_encode (Z.min (dval ds) 1114112), (2 + String.length ds)%nat)
                else None
          | EmptyString => None
          end
        else None
    | EmptyString => None
    end.

Fixpoint decode_refs_aux (skip : nat) (s : string) : string :=
  match s with
  | EmptyString => EmptyString
  | String c r =>
      match skip with
      | S k => decode_refs_aux k r
      | O =>
          if code c =? 38 then
            match try_ref r with
            | Some (t, n) => t +++ decode_refs_aux n r
            | None => String c (decode_refs_aux O r)
            end
          else String c (decode_refs_aux O r)
      end
  end.
Definition decode_charrefs (s : string) : string := decode_refs_aux O s.

(* NUL -> U+FFFD, everything else unchanged *)
Fixpoint nul_to_fffd (s : string) : string :=
  match s with
  | EmptyString => EmptyString
  | String c r => if code c =? 0 then FFFD +++ nul_to_fffd r else String c (nul_to_fffd r)
  end.

(* ---------- restricted HTML5 tokenizer (a state machine over the bytes) ---------- *)
Inductive token :=
| TStart (name : string) (attrs : list (string * string)) (selfclose : bool)
| TEnd (name : string)
| TText (s : string)
| TDoctype (s : string).

Inductive tstate :=
| SData (text : string)                                            (* text collected, reversed *)
| STagOpen
| SEndTagOpen
| SEndName (name : string)
| STagName (name : string)
| SBeforeAttr (name : string) (attrs : list (string * string))
| SAttrName (name : string) (attrs : list (string * string)) (an : string)
| SBeforeValue (name : string) (attrs : list (string * string)) (an : string)
| SValueDQ (name : string) (attrs : list (string * string)) (an : string) (raw : string)
| SAfterValue (name : string) (attrs : list (string * string))
| SSelfClose (name : string) (attrs : list (string * string))
| SScript (text : string) (pending : string)                        (* raw text; partial "</script" match, both reversed *)
| SMarkup (text : string)                                           (* after "<!" *)
| SFail.

Definition is_space (c : ascii) : bool :=
  (code c =? 32) || (code c =? 9) || (code c =? 10) || (code c =? 12) || (code c =? 13).
Definition name_char (c : ascii) : bool := is_alnum c.

Definition snoc (s : string) (c : ascii) : string := String c s.    (* accumulators are kept reversed *)

Definition flush_text (t : string) : list token :=
  match t with EmptyString => [] | _ => [TText (decode_charrefs (srev t))] end.

Definition flush_script (t : string) : list token :=
  (match t with EmptyString => [] | _ => [TText (srev t)] end ++ [TEnd "script"])%list.

Definition close_tag (name : string) (attrs : list (string * string)) (sc : bool) : tstate * list token :=
  let nm := srev name in
  (if seqb nm "script" && negb sc then SScript EmptyString EmptyString else SData EmptyString,
   [TStart nm (rev attrs) sc]).

(* one input byte: next state and the tokens emitted *)
Definition tstep (st : tstate) (c : ascii) : tstate * list token :=
  match st with
  | SData t => if code c =? 60 then (STagOpen, flush_text t) else (SData (snoc t c), [])
  | STagOpen =>
      if code c =? 47 then (SEndTagOpen, [])
      else if code c =? 33 then (SMarkup EmptyString, [])
      else if is_alpha c then (STagName (snoc EmptyString (lower_ascii c)), [])
      else (SFail, [])
  | SMarkup t => if code c =? 62 then (SData EmptyString, [TDoctype (srev t)]) else (SMarkup (snoc t c), [])
  | SEndTagOpen => if is_alpha c then (SEndName (snoc EmptyString (lower_ascii c)), []) else (SFail, [])
  | SEndName n =>
      if code c =? 62 then (SData EmptyString, [TEnd (srev n)])
      else if name_char c then (SEndName (snoc n (lower_ascii c)), [])
      else (SFail, [])
  | STagName n =>
      if is_space c then (SBeforeAttr n [], [])
      else if code c =? 47 then (SSelfClose n [], [])
      else if code c =? 62 then close_tag n [] false
      else if name_char c then (STagName (snoc n (lower_ascii c)), [])
      else (SFail, [])
  | SBeforeAttr n a =>
      if is_space c then (SBeforeAttr n a, [])
      else if code c =? 47 then (SSelfClose n a, [])
      else if code c =? 62 then close_tag n a false
      else if name_char c then (SAttrName n a (snoc EmptyString (lower_ascii c)), [])
      else (SFail, [])
  | SAttrName n a an =>
      if code c =? 61 then (SBeforeValue n a an, [])
      else if name_char c then (SAttrName n a (snoc an (lower_ascii c)), [])
      else (SFail, [])
  | SBeforeValue n a an =>
      if code c =? 34 then (SValueDQ n a an EmptyString, [])
      else (SFail, [])                                   (* the templates only use double-quoted values *)
  | SValueDQ n a an raw =>
      if code c =? 34 then (SAfterValue n ((srev an, decode_charrefs (srev raw)) :: a), [])
      else (SValueDQ n a an (snoc raw c), [])
  | SAfterValue n a =>
      if is_space c then (SBeforeAttr n a, [])
      else if code c =? 47 then (SSelfClose n a, [])
      else if code c =? 62 then close_tag n a false
      else (SFail, [])
  | SSelfClose n a => if code c =? 62 then close_tag n a true else (SFail, [])
  | SScript t p =>
      (* raw text up to the first "</script" followed by '>' *)
      let p' := snoc p c in
      if prefixb (srev p') "</script>" then
        if seqb (srev p') "</script>" then (SData EmptyString, flush_script t)
        else (SScript t p', [])
      else if code c =? 60 then (SScript (p +++ t) (snoc EmptyString c), [])
      else (SScript (snoc (p +++ t) c) EmptyString, [])
  | SFail => (SFail, [])
  end.

Fixpoint trun (st : tstate) (s : string) : tstate * list token :=
  match s with
  | EmptyString => (st, [])
  | String c r =>
      let '(st1, t1) := tstep st c in
      let '(st2, t2) := trun st1 r in
      (st2, (t1 ++ t2)%list)
  end.

(* the token sequence of a document; None when the input leaves the modelled
   fragment of the tokenizer or ends inside a tag *)
Definition tokenize_form (s : string) : option (list token) :=
  match trun (SData EmptyString) s with
  | (SData t, toks) => Some (toks ++ flush_text t)%list
  | _ => None
  end.

(* ---------- the intended structure of each form ---------- *)
Definition input_hidden (name value : string) : token :=
  TStart "input" [("type", "hidden"); ("name", name); ("value", value)] true.

Definition sp_form_tokens (msg_name form_id : string) (action msg relay : string) : list token :=
  [ TStart "form" [("method", "post"); ("action", action); ("id", form_id)] false;
    input_hidden msg_name msg;
    input_hidden "RelayState" relay;
    TStart "input" [("id", "SAMLSubmitButton"); ("type", "submit"); ("value", "Submit")] true;
    TEnd "form";
    TStart "script" [] false;
    TText ("document.getElementById('SAMLSubmitButton').style.visibility=""hidden"";document.getElementById('"
           +++ form_id +++ "').submit();");
    TEnd "script" ].

(* action' = the action as a browser decodes it, msg'/relay'/toast' = the data with NUL -> U+FFFD *)
Definition intended_form (k : form_kind) (action msg relay toast : string) : list token :=
  match k with
  | FAuthnReq | FLogoutReq => sp_form_tokens "SAMLRequest" "SAMLRequestForm" action msg relay
  | FLogoutResp => sp_form_tokens "SAMLResponse" "SAMLResponseForm" action msg relay
  | FIdpResponse =>
      [ TStart "html" [] false;
        TStart "form" [("method", "post"); ("action", action); ("id", "SAMLResponseForm")] false;
        input_hidden "SAMLResponse" msg;
        input_hidden "RelayState" relay;
        TStart "input" [("id", "SAMLSubmitButton"); ("type", "submit"); ("value", "Continue")] true;
        TEnd "form";
        TStart "script" [] false;
        TText "document.getElementById('SAMLSubmitButton').style.visibility='hidden';";
        TEnd "script";
        TStart "script" [] false;
        TText "document.getElementById('SAMLResponseForm').submit();";
        TEnd "script";
        TEnd "html" ]
  | FIdpLogin =>
      ([ TStart "html" [] false; TStart "p" [] false ]
       ++ (if nonempty toast then [TText toast] else [])
       ++ [ TEnd "p";
            TStart "form" [("method", "post"); ("action", action)] false;
            TStart "input" [("type", "text"); ("name", "user"); ("placeholder", "user"); ("value", "")] true;
            TStart "input" [("type", "password"); ("name", "password"); ("placeholder", "password"); ("value", "")] true;
            input_hidden "SAMLRequest" msg;
            input_hidden "RelayState" relay;
            TStart "input" [("type", "submit"); ("value", "Log In")] true;
            TEnd "form";
            TEnd "html" ])%list
  | FMiddleware =>
      ([ TDoctype "DOCTYPE html"; TStart "html" [] false; TStart "body" [] false ]
       ++ sp_form_tokens "SAMLRequest" "SAMLRequestForm" action msg relay
       ++ [ TEnd "body"; TEnd "html" ])%list
  end.

(* what the browser's URL attribute holds: the filtered, normalised action
   (it contains no NUL, quote or '&#…' of its own, so decoding the escaped text gives it back) *)
Definition action_value (url : string) : string := url_normalize (url_filter url).

Definition intended_of (k : form_kind) (d : form_data) : list token :=
  intended_form k (action_value (fd_url d)) (nul_to_fffd (fd_msg d)) (nul_to_fffd (fd_relay d)) (nul_to_fffd (fd_toast d)).

(* ---------- correspondence-check entry points ---------- *)
Definition kind_of_form (z : Z) : form_kind :=
  if z =? 0 then FAuthnReq else if z =? 1 then FLogoutReq else if z =? 2 then FLogoutResp
  else if z =? 3 then FIdpResponse else if z =? 4 then FIdpLogin else FMiddleware.

Fixpoint attrs_eqb (a b : list (string * string)) : bool :=
  match a, b with
  | [], [] => true
  | (k, v) :: a', (k', v') :: b' => seqb k k' && seqb v v' && attrs_eqb a' b'
  | _, _ => false
  end.
Definition token_eqb (x y : token) : bool :=
  match x, y with
  | TStart n a s, TStart n' a' s' => seqb n n' && attrs_eqb a a' && Bool.eqb s s'
  | TEnd n, TEnd n' => seqb n n'
  | TText s, TText s' => seqb s s'
  | TDoctype s, TDoctype s' => seqb s s'
  | _, _ => false
  end.
Fixpoint tokens_eqb (a b : list token) : bool :=
  match a, b with
  | [], [] => true
  | x :: a', y :: b' => token_eqb x y && tokens_eqb a' b'
  | _, _ => false
  end.

(* escaper cases: input, attrEscaper output (via a value="…" template), urlFilter|urlNormalizer|attrEscaper output *)
Record escase := { es_s : string; es_attr : string; es_url : string; es_text : string }.
Definition escase_agree (c : escase) : bool :=
  seqb (attr_escape (es_s c)) (es_attr c) && seqb (url_attr (es_s c)) (es_url c)
  && seqb (html_escape (es_s c)) (es_text c).
Definition has_bad_attr_char (s : string) : bool :=
  contains_chr 34 s || contains_chr 60 s || contains_chr 62 s || contains_chr 39 s || contains_chr 0 s.
(* inertness, evaluated on the implementation's output *)
Definition escase_spec (c : escase) : bool :=
  negb (has_bad_attr_char (es_attr c)) && seqb (decode_charrefs (es_attr c)) (nul_to_fffd (es_s c))
  && negb (has_bad_attr_char (es_url c))
  && (seqb (decode_charrefs (es_url c)) (url_normalize (es_s c)) || seqb (decode_charrefs (es_url c)) FAILSAFE)
  && negb (contains_chr 60 (es_text c)) && seqb (decode_charrefs (es_text c)) (nul_to_fffd (es_s c)).
Definition check_escases := check_cases escase_agree escase_spec.

(* the element view of a token sequence, as a DOM shows it: every element
   except html/head/body with its attributes and its text child *)
Definition elem_view := (string * list (string * string) * string)%type.
Definition wrapper_tag (n : string) : bool := seqb n "html" || seqb n "head" || seqb n "body".
Fixpoint dom_view (l : list token) : list elem_view :=
  match l with
  | [] => []
  | TStart n a _ :: rest =>
      if wrapper_tag n then dom_view rest
      else match rest with
           | TText s :: _ => (n, a, s) :: dom_view rest
           | _ => (n, a, EmptyString) :: dom_view rest
           end
  | _ :: rest => dom_view rest
  end.
Fixpoint views_eqb (a b : list elem_view) : bool :=
  match a, b with
  | [], [] => true
  | (n, at1, t) :: a', (n', at2, t') :: b' => seqb n n' && attrs_eqb at1 at2 && seqb t t' && views_eqb a' b'
  | _, _ => false
  end.

(* form cases: kind, data, emitted HTML, and the element view of the DOM an
   independent HTML5 parser (golang.org/x/net/html) builds from the emitted HTML *)
Record fmcase := { fm_kind : Z; fm_data : form_data; fm_html : string; fm_dom : list elem_view }.
Definition fmcase_agree (c : fmcase) : bool :=
  seqb (render_form (kind_of_form (fm_kind c)) (fm_data c)) (fm_html c).
Definition opt_tokens_eqb (a : option (list token)) (b : list token) : bool :=
  match a with Some x => tokens_eqb x b | None => false end.
(* structure fixed: the emitted bytes tokenize to exactly the intended form *)
Definition fmcase_spec (c : fmcase) : bool :=
  opt_tokens_eqb (tokenize_form (fm_html c)) (intended_of (kind_of_form (fm_kind c)) (fm_data c))
  && views_eqb (fm_dom c) (dom_view (intended_of (kind_of_form (fm_kind c)) (fm_data c))).
Definition check_fmcases := check_cases fmcase_agree fmcase_spec.
