(* UrlEncProofs.v — lemmas about UrlEnc.v (net/url query escaping and parsing) *)
From Saml Require Import Base BaseProofs UrlEnc.
From Coq Require Import ZifyBool.
Arguments seqb : simpl never.

(* ---------- characters ---------- *)
Ltac all_ascii c := destruct c as [[] [] [] [] [] [] [] []].

Lemma chr_code c : chr (code c) = c.
Proof. all_ascii c; reflexivity. Qed.

Lemma code_range c : 0 <= code c < 256.
Proof. all_ascii c; vm_compute; split; congruence. Qed.

Lemma code_inj a b : code a = code b -> a = b.
Proof. intros H. rewrite <- (chr_code a), <- (chr_code b), H. reflexivity. Qed.

Lemma code_eqb_eq c n : (code c =? n) = true -> c = chr n.
Proof. intros H. apply Z.eqb_eq in H. rewrite <- H. symmetry; apply chr_code. Qed.

(* the characters query_escape can produce *)
Definition qsafe (c : ascii) : bool :=
  is_alnum c || is_mark c || (code c =? 37) || (code c =? 43).

(* one step of escape / the per-character facts, by exhaustion over the 256 bytes *)
Definition esc1 (c : ascii) (r : string) : string :=
  if code c =? 32 then String "+" r
  else if should_escape_q c then pct c r
  else String c r.

Lemma query_escape_cons c s : query_escape (String c s) = esc1 c (query_escape s).
Proof. reflexivity. Qed.

Lemma esc1_app c r : esc1 c r = esc1 c EmptyString +++ r.
Proof.
  unfold esc1, pct. destruct (code c =? 32); [reflexivity|].
  destruct (should_escape_q c); reflexivity.
Qed.

Lemma pct_hex_ok c :
  ishex (upperhex (code c / 16)) && ishex (upperhex (code c mod 16)) = true.
Proof. all_ascii c; vm_compute; reflexivity. Qed.

Lemma pct_hex_val c :
  chr (16 * unhex (upperhex (code c / 16)) + unhex (upperhex (code c mod 16))) = c.
Proof. all_ascii c; vm_compute; reflexivity. Qed.

Lemma kept_not_meta c :
  should_escape_q c = false -> (code c =? 37) = false /\ (code c =? 43) = false.
Proof. all_ascii c; vm_compute; intros H; split; congruence. Qed.

Lemma qu_pct a b r :
  query_unescape (String "%" (String a (String b r))) =
  if ishex a && ishex b
  then match query_unescape r with
       | Some t => Some (String (chr (16 * unhex a + unhex b)) t)
       | None => None
       end
  else None.
Proof. reflexivity. Qed.

Lemma qu_plus r :
  query_unescape (String "+" r) =
  match query_unescape r with Some t => Some (String " " t) | None => None end.
Proof. reflexivity. Qed.

Lemma qu_plain c r :
  (code c =? 37) = false -> (code c =? 43) = false ->
  query_unescape (String c r) =
  match query_unescape r with Some t => Some (String c t) | None => None end.
Proof. intros H1 H2. cbn [query_unescape]. rewrite H1, H2. reflexivity. Qed.

Lemma unescape_esc1 c r t :
  query_unescape r = Some t -> query_unescape (esc1 c r) = Some (String c t).
Proof.
  intros H. unfold esc1. destruct (code c =? 32) eqn:E32.
  - apply code_eqb_eq in E32. subst c. rewrite qu_plus, H. reflexivity.
  - destruct (should_escape_q c) eqn:Es.
    + unfold pct. rewrite qu_pct, pct_hex_ok, H, pct_hex_val. reflexivity.
    + destruct (kept_not_meta c Es) as [H1 H2]. rewrite qu_plain, H by assumption. reflexivity.
Qed.

Lemma esc1_safe c : all_chars qsafe (esc1 c EmptyString) = true.
Proof. all_ascii c; vm_compute; reflexivity. Qed.

(* ---------- round trip: QueryUnescape(QueryEscape(s)) = s for every byte string ---------- *)
Theorem query_unescape_escape : forall s, query_unescape (query_escape s) = Some s.
Proof.
  induction s as [|c s IH]; [reflexivity|].
  rewrite query_escape_cons. apply unescape_esc1, IH.
Qed.

Lemma query_escape_safe s : all_chars qsafe (query_escape s) = true.
Proof.
  induction s as [|c s IH]; [reflexivity|].
  rewrite query_escape_cons, esc1_app, all_chars_app, esc1_safe, IH. reflexivity.
Qed.

Lemma query_escape_app a b : query_escape (a +++ b) = query_escape a +++ query_escape b.
Proof.
  induction a as [|c a IH]; [reflexivity|].
  cbn [String.append]. rewrite !query_escape_cons, IH, (esc1_app c (query_escape a +++ _)), (esc1_app c (query_escape a)).
  now rewrite app_assoc_s.
Qed.

Lemma query_escape_inj a b : query_escape a = query_escape b -> a = b.
Proof.
  intros H. assert (Some a = Some b) as E by (rewrite <- !query_unescape_escape, H; reflexivity).
  now inversion E.
Qed.

(* a safe string contains none of the query metacharacters *)
Lemma safe_no_chr d s :
  qsafe (chr d) = false -> 0 <= d < 256 -> all_chars qsafe s = true -> contains_chr d s = false.
Proof.
  intros Hd Hr. induction s as [|c s IH]; [reflexivity|]. cbn. intros H.
  apply andb_true_iff in H as [Hc Hs]. rewrite (IH Hs), orb_false_r.
  destruct (code c =? d) eqn:E; [|reflexivity].
  apply code_eqb_eq in E. subst c. congruence.
Qed.

Lemma escape_no_amp s : contains_chr 38 (query_escape s) = false.
Proof. apply safe_no_chr; [reflexivity|lia|apply query_escape_safe]. Qed.
Lemma escape_no_eq s : contains_chr 61 (query_escape s) = false.
Proof. apply safe_no_chr; [reflexivity|lia|apply query_escape_safe]. Qed.
Lemma escape_no_semi s : contains_chr 59 (query_escape s) = false.
Proof. apply safe_no_chr; [reflexivity|lia|apply query_escape_safe]. Qed.
Lemma escape_no_hash s : contains_chr 35 (query_escape s) = false.
Proof. apply safe_no_chr; [reflexivity|lia|apply query_escape_safe]. Qed.
Lemma escape_no_qmark s : contains_chr 63 (query_escape s) = false.
Proof. apply safe_no_chr; [reflexivity|lia|apply query_escape_safe]. Qed.
Lemma escape_no_space s : contains_chr 32 (query_escape s) = false.
Proof. apply safe_no_chr; [reflexivity|lia|apply query_escape_safe]. Qed.

(* ---------- contains / split / cut ---------- *)
Lemma contains_chr_app d a b : contains_chr d (a +++ b) = contains_chr d a || contains_chr d b.
Proof. induction a as [|c a IH]; [reflexivity|]. cbn. rewrite IH. apply orb_assoc. Qed.

Lemma split_on_none d s : contains_chr d s = false -> split_on d s = [s].
Proof.
  induction s as [|c s IH]; [reflexivity|]. cbn. intros H.
  apply orb_false_iff in H as [Hc Hs]. rewrite Hc, (IH Hs). reflexivity.
Qed.

Lemma split_on_nonnil d s : split_on d s <> [].
Proof.
  induction s as [|c s IH]; cbn; [discriminate|].
  destruct (code c =? d); [discriminate|]. destruct (split_on d s); [contradiction|discriminate].
Qed.

(* splitting distributes over a separator *)
Lemma split_on_app d a b :
  0 <= d < 256 ->
  split_on d (a +++ String (chr d) b) = (split_on d a ++ split_on d b)%list.
Proof.
  intros Hd. induction a as [|c a IH].
  - cbn. assert (code (chr d) =? d = true) as ->; [|reflexivity].
    unfold code, chr. rewrite Z.mod_small by lia. rewrite N_ascii_embedding by lia. lia.
  - cbn [String.append split_on]. destruct (code c =? d); [now rewrite IH|].
    rewrite IH. destruct (split_on d a) eqn:E; [exfalso; eapply split_on_nonnil; eauto|]. reflexivity.
Qed.

Lemma cut_chr_app d a b :
  0 <= d < 256 -> contains_chr d a = false ->
  cut_chr d (a +++ String (chr d) b) = (a, b).
Proof.
  intros Hd. induction a as [|c a IH]; intros H.
  - cbn. assert (code (chr d) =? d = true) as ->; [|reflexivity].
    unfold code, chr. rewrite Z.mod_small by lia. rewrite N_ascii_embedding by lia. lia.
  - cbn in *. apply orb_false_iff in H as [Hc Ha]. rewrite Hc, (IH Ha). reflexivity.
Qed.

Lemma cut_chr_none d s : contains_chr d s = false -> cut_chr d s = (s, EmptyString).
Proof.
  induction s as [|c s IH]; [reflexivity|]. cbn. intros H.
  apply orb_false_iff in H as [Hc Hs]. rewrite Hc, (IH Hs). reflexivity.
Qed.

(* ---------- ParseQuery ---------- *)
Lemma parse_segs_app l1 l2 :
  parse_segs (l1 ++ l2) =
  ((fst (parse_segs l1) ++ fst (parse_segs l2))%list, snd (parse_segs l1) || snd (parse_segs l2)).
Proof.
  induction l1 as [|seg l1 IH].
  - cbn. destruct (parse_segs l2); reflexivity.
  - cbn [app parse_segs]. rewrite IH. destruct (parse_segs l1) as [p1 e1], (parse_segs l2) as [p2 e2].
    cbn [fst snd]. destruct (parse_pair seg); reflexivity.
Qed.

(* ParseQuery of two queries joined by '&' = both results, in order *)
Theorem parse_query_amp a b :
  parse_query (a +++ "&" +++ b) =
  ((fst (parse_query a) ++ fst (parse_query b))%list, snd (parse_query a) || snd (parse_query b)).
Proof.
  unfold parse_query. change "&" with (String (chr 38) EmptyString). cbn [String.append].
  rewrite split_on_app by lia. apply parse_segs_app.
Qed.

Lemma parse_pair_enc k v : parse_pair (query_escape k +++ "=" +++ query_escape v) = POk k v.
Proof.
  unfold parse_pair.
  rewrite contains_chr_app, escape_no_semi. cbn [String.append contains_chr].
  rewrite escape_no_semi. cbn.
  assert (nonempty (query_escape k +++ String "=" (query_escape v)) = true) as ->
    by (destruct (query_escape k); reflexivity).
  cbn. change (String "=" (query_escape v)) with (String (chr 61) (query_escape v)).
  rewrite cut_chr_app by (try lia; apply escape_no_eq).
  now rewrite !query_unescape_escape.
Qed.

Lemma enc_pair_no_amp p : contains_chr 38 (enc_pair p) = false.
Proof.
  unfold enc_pair. rewrite !contains_chr_app, !escape_no_amp. reflexivity.
Qed.

Lemma parse_query_enc_pair p : parse_query (enc_pair p) = ([p], false).
Proof.
  unfold parse_query. rewrite split_on_none by apply enc_pair_no_amp.
  cbn. unfold enc_pair. rewrite parse_pair_enc. destruct p; reflexivity.
Qed.

(* a literal "key=" ++ escaped value, as the AuthnRequest redirect writes it *)
Lemma parse_query_kv k v :
  parse_query (query_escape k +++ "=" +++ query_escape v) = ([(k, v)], false).
Proof. apply (parse_query_enc_pair (k, v)). Qed.

Lemma parse_query_empty : parse_query "" = ([], false).
Proof. reflexivity. Qed.

(* ParseQuery inverts the text Values.Encode writes, pair by pair *)
Theorem parse_query_join l : parse_query (join_amp (map enc_pair l)) = (l, false).
Proof.
  induction l as [|p l IH]; [reflexivity|].
  destruct l as [|p' l].
  - cbn. apply parse_query_enc_pair.
  - change (join_amp (map enc_pair (p :: p' :: l)))
      with (enc_pair p +++ "&" +++ join_amp (map enc_pair (p' :: l))).
    rewrite parse_query_amp, IH, parse_query_enc_pair. reflexivity.
Qed.

Theorem parse_query_values_encode ps :
  parse_query (values_encode ps) = (encode_order ps, false).
Proof. apply parse_query_join. Qed.

(* ---------- url.Values as a pair list ---------- *)
Lemma values_of_app k a b : values_of k (a ++ b)%list = (values_of k a ++ values_of k b)%list.
Proof. unfold values_of. now rewrite filter_app, map_app. Qed.

Lemma values_of_map_pair k k' vs :
  values_of k (map (fun v => (k', v)) vs) = if seqb k' k then vs else [].
Proof.
  unfold values_of. destruct (seqb k' k) eqn:E; induction vs as [|v vs IH];
    cbn [map filter fst snd]; try reflexivity; rewrite E; cbn [map snd]; [f_equal|]; apply IH.
Qed.

Lemma values_of_nokey k ps :
  (forall v, ~ In (k, v) ps) -> values_of k ps = [].
Proof.
  unfold values_of. induction ps as [|[k' v'] ps IH]; intros H; [reflexivity|]. cbn.
  destruct (seqb k' k) eqn:E.
  - apply String.eqb_eq in E. subst. exfalso. apply (H v'). now left.
  - apply IH. intros v Hv. apply (H v). now right.
Qed.

Lemma mem_str_in k l : mem_str k l = true <-> In k l.
Proof.
  induction l as [|h t IH]; cbn; [intuition discriminate|].
  rewrite orb_true_iff, IH. unfold seqb. rewrite String.eqb_eq. intuition.
Qed.

Lemma insert_sorted_in k x l : In x (insert_sorted k l) <-> x = k \/ In x l.
Proof.
  induction l as [|h t IH]; cbn; [intuition|].
  destruct (str_leb k h); cbn; [intuition|]. rewrite IH. intuition.
Qed.

Lemma insert_sorted_nodup k l : ~ In k l -> NoDup l -> NoDup (insert_sorted k l).
Proof.
  induction l as [|h t IH]; intros Hk H; cbn.
  - constructor; [intros []|constructor].
  - inversion H as [|? ? Hn Ht]; subst. destruct (str_leb k h).
    + constructor; assumption.
    + constructor.
      * rewrite insert_sorted_in. intros [->|Hi]; [apply Hk; now left|contradiction].
      * apply IH; [intros Hi; apply Hk; now right|assumption].
Qed.

Lemma insert_key_in k x l : In x (insert_key k l) <-> x = k \/ In x l.
Proof.
  unfold insert_key. destruct (mem_str k l) eqn:E.
  - apply mem_str_in in E. intuition. now subst.
  - apply insert_sorted_in.
Qed.

Lemma insert_key_nodup k l : NoDup l -> NoDup (insert_key k l).
Proof.
  intros H. unfold insert_key. destruct (mem_str k l) eqn:E; [assumption|].
  apply insert_sorted_nodup; [|assumption]. rewrite <- mem_str_in. congruence.
Qed.

Lemma sorted_keys_nodup ps : NoDup (sorted_keys ps).
Proof.
  induction ps as [|p ps IH]; cbn; [constructor|]. now apply insert_key_nodup.
Qed.

Lemma sorted_keys_in k ps : In k (sorted_keys ps) <-> exists v, In (k, v) ps.
Proof.
  induction ps as [|[k' v'] ps IH]; cbn.
  - split; [intros []|intros [? []]].
  - rewrite insert_key_in, IH. cbn. split.
    + intros [->|[v Hv]]; [exists v'; now left|exists v; now right].
    + intros [v [E|Hv]]; [inversion E; now left|right; now exists v].
Qed.

(* the value list of every key is unchanged by the reordering Values.Encode does *)
Lemma values_of_flat k ps keys :
  NoDup keys ->
  values_of k (flat_map (fun k' => map (fun v => (k', v)) (values_of k' ps)) keys)
  = if mem_str k keys then values_of k ps else [].
Proof.
  induction keys as [|h t IH]; intros H; [reflexivity|].
  inversion H as [|? ? Hn Ht]; subst.
  cbn [flat_map mem_str]. rewrite values_of_app, values_of_map_pair, (IH Ht).
  unfold seqb. rewrite (String.eqb_sym k h). destruct (String.eqb h k) eqn:E; cbn [orb].
  - apply String.eqb_eq in E. subst h.
    destruct (mem_str k t) eqn:M; [apply mem_str_in in M; contradiction|]. apply app_nil_r.
  - reflexivity.
Qed.

Theorem values_of_encode_order k ps : values_of k (encode_order ps) = values_of k ps.
Proof.
  unfold encode_order. rewrite values_of_flat by apply sorted_keys_nodup.
  destruct (mem_str k (sorted_keys ps)) eqn:M; [reflexivity|].
  symmetry. apply values_of_nokey. intros v Hv.
  assert (In k (sorted_keys ps)) as Hi by (apply sorted_keys_in; now exists v).
  apply mem_str_in in Hi. congruence.
Qed.

(* Values.Set *)
Lemma seqb_refl a : seqb a a = true.
Proof. apply String.eqb_refl. Qed.
Lemma seqb_eq a b : seqb a b = true <-> a = b.
Proof. apply String.eqb_eq. Qed.
Lemma seqb_neq a b : seqb a b = false <-> a <> b.
Proof. apply String.eqb_neq. Qed.

Lemma values_of_set_same k v ps : values_of k (values_set k v ps) = [v].
Proof.
  unfold values_set. rewrite values_of_app. unfold values_of at 2. cbn [filter fst].
  rewrite seqb_refl. cbn [map snd].
  rewrite values_of_nokey; [reflexivity|].
  intros v' H. apply filter_In in H as [_ H]. cbn [fst] in H.
  rewrite seqb_refl in H. discriminate.
Qed.

Lemma values_of_set_other k k' v ps : k' <> k -> values_of k' (values_set k v ps) = values_of k' ps.
Proof.
  intros Hn. unfold values_set. rewrite values_of_app. unfold values_of at 2. cbn [filter fst].
  assert (seqb k k' = false) as -> by (apply seqb_neq; congruence). cbn [map].
  rewrite app_nil_r. unfold values_of. f_equal.
  induction ps as [|[a b] ps IH]; [reflexivity|]. cbn [filter fst].
  destruct (seqb a k) eqn:E1; cbn [negb].
  - apply seqb_eq in E1. subst a.
    assert (seqb k k' = false) as -> by (apply seqb_neq; congruence). apply IH.
  - cbn [filter fst]. destruct (seqb a k'); now rewrite IH.
Qed.

(* the query text written by Values.Encode, parsed again, has for every key
   exactly the values it was given, in order *)
Theorem values_encode_roundtrip k ps :
  values_of k (fst (parse_query (values_encode ps))) = values_of k ps
  /\ snd (parse_query (values_encode ps)) = false.
Proof. rewrite parse_query_values_encode. split; [apply values_of_encode_order|reflexivity]. Qed.
