(* XmlText.v — the byte layer of the IdP -> SP round trip (C07):
   - etree's escapeString (beevik/etree v1.5.0 helpers.go) in its three modes,
     including rune decoding and U+FFFD replacement, as used by the writers in
     identity_provider.go / service_provider.go (CanonicalText + CanonicalAttrVal
     since fix F14; the default mode before it);
   - encoding/xml's Decoder.text for character data and attribute values
     (strict mode): predefined entities, character references, CR / CRLF -> LF
     line-end normalisation of raw bytes, the "]]>" rule, final UTF-8 and
     character-range validation.
   Definitions only; lemmas are in XmlTextProofs.v. *)
From Saml Require Import Base.

Inductive escmode := EscNormal | EscCanonText | EscCanonAttr.

(* ---------- UTF-8 (utf8.DecodeRuneInString) ---------- *)
Definition rune_error : Z := 65533.
Definition is_cont (c : ascii) : bool := (128 <=? code c) && (code c <=? 191).

(* (rune, width); an invalid or truncated sequence is (U+FFFD, 1) *)
Definition decode_rune (s : string) : Z * nat :=
  match s with
  | EmptyString => (rune_error, 1%nat)
  | String c0 r =>
      let b0 := code c0 in
      if b0 <? 128 then (b0, 1%nat) else
      if (194 <=? b0) && (b0 <=? 223) then
        match r with
        | String c1 _ => if is_cont c1 then ((b0 - 192) * 64 + (code c1 - 128), 2%nat) else (rune_error, 1%nat)
        | _ => (rune_error, 1%nat)
        end
      else if (224 <=? b0) && (b0 <=? 239) then
        match r with
        | String c1 (String c2 _) =>
            let lo := if b0 =? 224 then 160 else 128 in
            let hi := if b0 =? 237 then 159 else 191 in
            if (lo <=? code c1) && (code c1 <=? hi) && is_cont c2
            then ((b0 - 224) * 4096 + (code c1 - 128) * 64 + (code c2 - 128), 3%nat)
            else (rune_error, 1%nat)
        | _ => (rune_error, 1%nat)
        end
      else if (240 <=? b0) && (b0 <=? 244) then
        match r with
        | String c1 (String c2 (String c3 _)) =>
            let lo := if b0 =? 240 then 144 else 128 in
            let hi := if b0 =? 244 then 143 else 191 in
            if (lo <=? code c1) && (code c1 <=? hi) && is_cont c2 && is_cont c3
            then ((b0 - 240) * 262144 + (code c1 - 128) * 4096 + (code c2 - 128) * 64 + (code c3 - 128), 4%nat)
            else (rune_error, 1%nat)
        | _ => (rune_error, 1%nat)
        end
      else (rune_error, 1%nat)
  end.

(* isInCharacterRange (the same function in etree and in encoding/xml): the XML 1.0 Char production *)
Definition in_char_range (r : Z) : bool :=
  (r =? 9) || (r =? 10) || (r =? 13) || ((32 <=? r) && (r <=? 55295))
  || ((57344 <=? r) && (r <=? 65533)) || ((65536 <=? r) && (r <=? 1114111)).

(* a string of valid XML characters: valid UTF-8, every rune in range.
   [k] bytes of the current rune are still to be skipped *)
Fixpoint valid_from (k : nat) (s : string) : bool :=
  match s with
  | EmptyString => match k with O => true | _ => false end
  | String c r =>
      match k with
      | S k' => valid_from k' r
      | O => let '(rn, w) := decode_rune s in
             if (rn =? rune_error) && Nat.eqb w 1 then false
             else if negb (in_char_range rn) then false
             else valid_from (Nat.pred w) r
      end
  end.
Definition valid_xml_chars (s : string) : bool := valid_from 0 s.

(* ---------- etree escapeString ---------- *)
Definition fffd : string := String (chr 239) (String (chr 191) (String (chr 189) EmptyString)).

Inductive escaction := Pass | Repl (s : string).
Definition is_normal (m : escmode) := match m with EscNormal => true | _ => false end.
Definition is_ctext (m : escmode) := match m with EscCanonText => true | _ => false end.
Definition is_cattr (m : escmode) := match m with EscCanonAttr => true | _ => false end.

(* the switch in escapeString *)
Definition classify (m : escmode) (r : Z) (w : nat) : escaction :=
  if r =? 38 then Repl "&amp;" else
  if r =? 60 then Repl "&lt;" else
  if r =? 62 then (if is_cattr m then Pass else Repl "&gt;") else
  if r =? 39 then (if is_normal m then Repl "&apos;" else Pass) else
  if r =? 34 then (if is_ctext m then Pass else Repl "&quot;") else
  if r =? 9 then (if is_cattr m then Repl "&#x9;" else Pass) else
  if r =? 10 then (if is_cattr m then Repl "&#xA;" else Pass) else
  if r =? 13 then (if is_normal m then Pass else Repl "&#xD;") else
  if negb (in_char_range r) || ((r =? rune_error) && Nat.eqb w 1) then Repl fffd else Pass.

(* [k] remaining bytes of the current rune are copied ([emit]) or dropped *)
Fixpoint esc_from (m : escmode) (k : nat) (emit : bool) (s : string) : string :=
  match s with
  | EmptyString => EmptyString
  | String c r =>
      match k with
      | S k' => if emit then String c (esc_from m k' emit r) else esc_from m k' emit r
      | O => let '(rn, w) := decode_rune s in
             match classify m rn w with
             | Repl e => e +++ esc_from m (Nat.pred w) false r
             | Pass => String c (esc_from m (Nat.pred w) true r)
             end
      end
  end.
Definition etree_escape (m : escmode) (s : string) : string := esc_from m 0 true s.

(* ---------- encoding/xml Decoder.text ---------- *)
(* string(rune(n)) *)
Definition encode_rune (n : Z) : string :=
  if n <? 128 then String (chr n) EmptyString else
  if n <? 2048 then String (chr (192 + n / 64)) (String (chr (128 + n mod 64)) EmptyString) else
  if (55296 <=? n) && (n <=? 57343) then fffd else
  if n <? 65536 then String (chr (224 + n / 4096)) (String (chr (128 + (n / 64) mod 64)) (String (chr (128 + n mod 64)) EmptyString)) else
  String (chr (240 + n / 262144)) (String (chr (128 + (n / 4096) mod 64))
    (String (chr (128 + (n / 64) mod 64)) (String (chr (128 + n mod 64)) EmptyString))).

Definition is_name_byte (c : ascii) : bool :=
  let n := code c in
  ((65 <=? n) && (n <=? 90)) || ((97 <=? n) && (n <=? 122)) || ((48 <=? n) && (n <=? 57))
  || (n =? 95) || (n =? 58) || (n =? 46) || (n =? 45) || (128 <=? n).

Definition entity_value (name : string) : option string :=
  if seqb name "lt" then Some "<" else if seqb name "gt" then Some ">" else
  if seqb name "amp" then Some "&" else if seqb name "apos" then Some "'" else
  if seqb name "quot" then Some """" else None.

Definition hex_digit_val (c : ascii) : option Z :=
  let n := code c in
  if (48 <=? n) && (n <=? 57) then Some (n - 48) else
  if (97 <=? n) && (n <=? 102) then Some (n - 87) else
  if (65 <=? n) && (n <=? 70) then Some (n - 55) else None.
Definition dec_digit_val (c : ascii) : option Z :=
  let n := code c in if (48 <=? n) && (n <=? 57) then Some (n - 48) else None.

Inductive rstate :=
| RText                              (* ordinary text *)
| RAmp                               (* after "&" *)
| RHash                              (* after "&#" *)
| RNum (base : Z) (nd : nat) (n : Z) (* reading the digits of a character reference *)
| RName (acc : string).              (* reading an entity name (reversed) *)

(* [quote]: the delimiter of an attribute value (None: character data).
   [b0],[b1]: the two previous raw bytes (0 after an entity), [out]: reversed output *)
Fixpoint read_from (quote : option ascii) (st : rstate) (b0 b1 : Z) (out : string) (s : string) : option string :=
  match s with
  | EmptyString => match st with RText => Some (srev out) | _ => None end
  | String c r =>
      let n := code c in
      match st with
      | RText =>
          if (b0 =? 93) && (b1 =? 93) && (n =? 62) then None        (* unescaped ]]> *)
          else if n =? 60 then None                                  (* '<' ends the text / is illegal in a value *)
          else if match quote with Some q => Ascii.eqb c q | None => false end then None
          else if n =? 38 then read_from quote RAmp b0 b1 out r
          else if n =? 13 then read_from quote RText b1 n (String (chr 10) out) r
          else if (b1 =? 13) && (n =? 10) then read_from quote RText b1 n out r
          else read_from quote RText b1 n (String c out) r
      | RAmp =>
          if n =? 35 then read_from quote RHash b0 b1 out r
          else if is_name_byte c then read_from quote (RName (String c EmptyString)) b0 b1 out r
          else None
      | RHash =>
          if n =? 120 then read_from quote (RNum 16 0 0) b0 b1 out r
          else match dec_digit_val c with
               | Some d => read_from quote (RNum 10 1 d) b0 b1 out r
               | None => None
               end
      | RNum base nd v =>
          if n =? 59 then
            match nd with
            | O => None
            | _ => if v <=? 1114111 then read_from quote RText 0 0 (srev_acc (encode_rune v) out) r else None
            end
          else match (if base =? 16 then hex_digit_val c else dec_digit_val c) with
               | Some d => read_from quote (RNum base (S nd) (v * base + d)) b0 b1 out r
               | None => None
               end
      | RName acc =>
          if n =? 59 then
            match entity_value (srev acc) with
            | Some t => read_from quote RText 0 0 (srev_acc t out) r
            | None => None
            end
          else if is_name_byte c then read_from quote (RName (String c acc)) b0 b1 out r
          else None
      end
  end.

Definition xml_read (quote : option ascii) (s : string) : option string :=
  match read_from quote RText 0 0 EmptyString s with
  | Some t => if valid_xml_chars t then Some t else None
  | None => None
  end.
Definition xml_read_text (s : string) : option string := xml_read None s.
Definition xml_read_attr (s : string) : option string := xml_read (Some """"%char) s.

(* "]]>" occurs in s *)
Fixpoint has_cdata_end (s : string) : bool :=
  match s with
  | EmptyString => false
  | String c r => prefixb "]]>" s || has_cdata_end r
  end.
Fixpoint has_cr (s : string) : bool :=
  match s with EmptyString => false | String c r => (code c =? 13) || has_cr r end.

(* ---------- correspondence cases ---------- *)
Definition mode_of (z : Z) : escmode := if z =? 0 then EscNormal else if z =? 1 then EscCanonText else EscCanonAttr.
Definition ostr_eqb (a b : option string) : bool :=
  match a, b with None, None => true | Some x, Some y => seqb x y | _, _ => false end.

(* escape case: mode, input, what etree wrote, what encoding/xml read back from that *)
Record esccase := { xe_mode : Z; xe_attr : bool; xe_in : string; xe_out : string; xe_back : option string }.
Definition esccase_agree (c : esccase) : bool :=
  seqb (etree_escape (mode_of (xe_mode c)) (xe_in c)) (xe_out c)
  && ostr_eqb (xml_read (if xe_attr c then Some """"%char else None) (xe_out c)) (xe_back c).
(* the round trip on the implementation's own output: every string of valid XML
   characters comes back unchanged through the canonical modes.  (Attribute
   values containing "]]>" do not — xml_attr_cdata_end_refuted, known finding
   K4; the harness labels those cases string_class=cdata-end-in-attribute.) *)
Definition esccase_spec (c : esccase) : bool :=
  if valid_xml_chars (xe_in c) && negb (xe_mode c =? 0)
  then ostr_eqb (xe_back c) (Some (xe_in c)) else true.
Definition check_esccases := check_cases esccase_agree esccase_spec.

(* read case: raw bytes between the tags / quotes, what encoding/xml returned *)
Record readcase := { xr_attr : bool; xr_raw : string; xr_res : option string }.
Definition readcase_agree (c : readcase) : bool :=
  ostr_eqb (xml_read (if xr_attr c then Some """"%char else None) (xr_raw c)) (xr_res c).
Definition check_readcases := check_cases readcase_agree (fun _ => true).
