(* IdPSP.v — the bridge between the two models: what the IdP model emits
   (IdPModel.response, an abstract record with symbolic signature / encryption
   records) rendered as the XML tree the SP model (SPModel.node) consumes,
   following schema.go's Element() builders, and the SP configuration that
   corresponds to an IdP configuration and a registered SP.  Definitions only;
   the composition theorem is in IdPSPProofs.v. *)
From Saml Require Import Base TimeModel IdPModel SPModel.

(* el.CreateAttr only when the value is not "" *)
Definition opt_attr (name v : string) : list (string * string) := if nonempty v then [(name, v)] else [].
(* time attributes written only when the instant is not the zero time *)
Definition time_opt_attr (name : string) (t : Z) : list (string * string) :=
  if t =? zero_time then [] else [(name, format_relaxed t)].

(* Issuer.Element *)
Definition r_issuer_el (value format : string) : node :=
  El NS_A "Issuer" (opt_attr "Format" format) [Txt value].

(* NameID.Element *)
Definition r_nameid (n : nameid) : node :=
  El NS_A "NameID"
     (opt_attr "NameQualifier" (ni_name_qualifier n) ++ opt_attr "SPNameQualifier" (ni_sp_name_qualifier n)
      ++ opt_attr "Format" (ni_format n))
     [Txt (ni_value n)].

(* SubjectConfirmation.Element / SubjectConfirmationData.Element *)
Definition r_confdata (a : IdPModel.assertion) : node :=
  El NS_A "SubjectConfirmationData"
     (time_opt_attr "NotOnOrAfter" (a_conf_noa a) ++ opt_attr "Recipient" (a_conf_recipient a)
      ++ opt_attr "InResponseTo" (a_conf_in_response_to a) ++ opt_attr "Address" (a_conf_address a)) [].
Definition r_conf (a : IdPModel.assertion) : node :=
  El NS_A "SubjectConfirmation" [("Method", a_conf_method a)] [r_confdata a].
Definition r_subject (a : IdPModel.assertion) : node :=
  El NS_A "Subject" [] [r_nameid (IdPModel.a_nameid a); r_conf a].

(* Conditions.Element / AudienceRestriction.Element / Audience.Element *)
Definition r_audience (s : string) : node :=
  El NS_A "AudienceRestriction" [] [El NS_A "Audience" [] [Txt s]].
Definition r_conditions (a : IdPModel.assertion) : node :=
  El NS_A "Conditions" (time_opt_attr "NotBefore" (a_not_before a) ++ time_opt_attr "NotOnOrAfter" (a_noa a))
     (map r_audience (a_audiences a)).

(* AuthnStatement.Element *)
Definition r_authn (a : IdPModel.assertion) : node :=
  El NS_A "AuthnStatement"
     ([("AuthnInstant", format_relaxed (a_authn_instant a))] ++ opt_attr "SessionIndex" (a_session_index a))
     [El NS_A "SubjectLocality" (opt_attr "Address" (a_locality a)) [];
      El NS_A "AuthnContext" [] [El NS_A "AuthnContextClassRef" [] [Txt (a_class_ref a)]]].

(* AttributeStatement / Attribute / AttributeValue *)
(* AttributeValue.Element: the NameID child is added, then SetText puts the text in front of it *)
Definition r_attrvalue (v : attrvalue) : node :=
  El NS_A "AttributeValue" [("type", av_type v)]
     (Txt (av_value v) :: match av_nameid v with Some n => [r_nameid n] | None => [] end).
Definition r_attribute (x : attribute) : node :=
  El NS_A "Attribute"
     (opt_attr "FriendlyName" (at_friendly x) ++ opt_attr "Name" (at_name x) ++ opt_attr "NameFormat" (at_format x))
     (map r_attrvalue (at_values x)).
Definition r_attrstmt (a : IdPModel.assertion) : node :=
  El NS_A "AttributeStatement" [] (map r_attribute (a_attributes a)).

(* Assertion.Element: Issuer, [Signature], Subject, Conditions, AuthnStatement, AttributeStatement *)
Definition r_assertion_attrs (a : IdPModel.assertion) : list (string * string) :=
  [("Version", "2.0"); ("ID", IdPModel.a_id a); ("IssueInstant", format_relaxed (a_issue_instant a))].
Definition render_assertion_core (a : IdPModel.assertion) (sig : list node) : node :=
  El NS_A "Assertion" (r_assertion_attrs a)
     (r_issuer_el (IdPModel.a_issuer a) (a_issuer_format a) :: sig
      ++ [r_subject a; r_conditions a; r_authn a; r_attrstmt a]).

(* a signature record becomes a well-shaped ds:Signature with the record's
   reference and signer, KeyInfo carrying the signer's certificate, and (as the
   digested content) the rendering of what the record covers, without a Signature *)
Definition render_assertion (a : IdPModel.assertion) (sg : sigrec IdPModel.assertion) : node :=
  render_assertion_core a
    [SigN true (sg_ref sg) (sg_signer sg) (KICert (sg_signer sg)) (render_assertion_core (sg_over sg) [])].

(* [spkey]: the private key the SP holds (None: none).  An EncryptedAssertion
   decrypts (st = 0) exactly when that key is the record's recipient. *)
Definition enc_status (spkey : option Z) (e : encrec) : Z :=
  match spkey with Some k => if k =? en_recipient e then 0 else 1 | None => 1 end.
Definition render_ael (spkey : option Z) (x : assertion_el) : node :=
  match x with
  | APlain a sg => render_assertion a sg
  | AEnc e => EncN (en_recipient e) (enc_status spkey e) (render_assertion (fst (en_plain e)) (snd (en_plain e)))
  end.

(* Response.Element: Issuer, [Signature], Status, (Encrypted)Assertion *)
Definition r_response_attrs (b : respbody) : list (string * string) :=
  [("ID", rs_id b)] ++ opt_attr "InResponseTo" (rs_in_response_to b)
  ++ [("Version", "2.0"); ("IssueInstant", format_relaxed (rs_issue_instant b))]
  ++ opt_attr "Destination" (rs_destination b).
Definition r_status_el (b : respbody) : node :=
  El NS_P "Status" [] [El NS_P "StatusCode" [("Value", rs_status b)] []].
Definition render_response_core (spkey : option Z) (b : respbody) (sig : list node) : node :=
  El NS_P "Response" (r_response_attrs b)
     (r_issuer_el (rs_issuer b) (rs_issuer_format b) :: sig ++ [r_status_el b; render_ael spkey (rs_assertion b)]).
Definition render_response (spkey : option Z) (r : IdPModel.response) : node :=
  render_response_core spkey (rs_body r)
    [SigN true (sg_ref (rs_sig r)) (sg_signer (rs_sig r)) (KICert (sg_signer (rs_sig r)))
          (render_response_core spkey (sg_over (rs_sig r)) [])].

(* the SP configured from the IdP's published metadata (its entity ID and signing
   certificate = the key that signs), with the ACS URL / entity ID it registered *)
Definition sp_cfg_of (cfg : idpcfg) (acs entity : string) (allow_init : bool) : SPModel.spcfg :=
  {| SPModel.idp_entity := IdPModel.idp_entity cfg; acs_url := acs; slo_url := "";
     SPModel.sp_entity := entity; metadata_url := entity;
     trust := TMeta [ {| SPModel.kd_use := "signing"; SPModel.kd_certs := [signer_key cfg] |};
                      {| SPModel.kd_use := "encryption"; SPModel.kd_certs := [signer_key cfg] |} ];
     allow_idp_init := allow_init; custom_reqid := None; custom_aud := None;
     SPModel.max_issue_delay := IdPModel.max_issue_delay cfg; SPModel.max_clock_skew := IdPModel.max_clock_skew cfg |}.

(* what xml.Unmarshal makes of a rendered assertion (instants rounded to the millisecond by the text form) *)
Definition abs_assertion (a : IdPModel.assertion) : SPModel.assertion :=
  {| SPModel.a_id := IdPModel.a_id a; a_issue := round_ms (a_issue_instant a); SPModel.a_issuer := IdPModel.a_issuer a;
     a_subject := Some (ni_value (IdPModel.a_nameid a),
                        [ {| sc_data := true; sc_irt := a_conf_in_response_to a; sc_recipient := a_conf_recipient a;
                             sc_noa := round_ms (a_conf_noa a) |} ]);
     a_conditions := Some (round_ms (a_not_before a), round_ms (a_noa a), a_audiences a);
     a_attrvals := flat_map (fun x => map av_value (at_values x)) (a_attributes a) |}.
