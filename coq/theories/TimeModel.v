(* TimeModel.v — executable model of time.go (saml.RelaxedTime text codec).

   Instants are Z nanoseconds since the Unix epoch (UTC).  The calendar is the
   proleptic Gregorian calendar (what Go's time package implements); the two
   conversions below are the standard era-based algorithms.  The parser follows
   Go's time.Parse for the three layouts time.go tries, field by field:
     "2006" exactly four digits; "01" "02" "04" "05" exactly two digits;
     "15" one or two digits; an optional fraction ([.,] digits) is accepted after
     the seconds whether or not the layout has one; "Z07:00" is 'Z' or
     [+-]hh:mm with hh <= 24 and mm <= 60; anything left over is an error.
   RFC3339 and RFC3339Nano accept exactly the same strings under these rules,
   so the model tries the zoned layout once and then the zone-less one. *)
From Saml Require Import Base.

Definition ns_per_s   : Z := 1000000000.
Definition ns_per_ms  : Z := 1000000.
Definition ns_per_day : Z := 86400 * ns_per_s.

(* ---- calendar ---- *)
Definition is_leap (y : Z) : bool :=
  ((y mod 4 =? 0) && negb (y mod 100 =? 0)) || (y mod 400 =? 0).

Definition days_in_month (y m : Z) : Z :=
  if m =? 2 then (if is_leap y then 29 else 28)
  else if (m =? 4) || (m =? 6) || (m =? 9) || (m =? 11) then 30 else 31.

(* day-of-era from (year-of-era starting in March, month, day) and back *)
Definition doe_of (yoe m d : Z) : Z :=
  let mp := (m + 9) mod 12 in
  let doy := (153 * mp + 2) / 5 + d - 1 in
  yoe * 365 + yoe / 4 - yoe / 100 + doy.

Definition of_doe (doe : Z) : Z * Z * Z :=        (* (yoe, m, d) *)
  let yoe := (doe - doe / 1460 + doe / 36524 - doe / 146096) / 365 in
  let doy := doe - (365 * yoe + yoe / 4 - yoe / 100) in
  let mp := (5 * doy + 2) / 153 in
  let d := doy - (153 * mp + 2) / 5 + 1 in
  let m := if mp <? 10 then mp + 3 else mp - 9 in
  (yoe, m, d).

Definition days_of_civil (y m d : Z) : Z :=
  let y' := if m <=? 2 then y - 1 else y in
  let era := y' / 400 in
  let yoe := y' - era * 400 in
  era * 146097 + doe_of yoe m d - 719468.

Definition civil_of_days (z : Z) : Z * Z * Z :=
  let z := z + 719468 in
  let era := z / 146097 in
  let doe := z - era * 146097 in
  let '(yoe, m, d) := of_doe doe in
  let y := yoe + era * 400 in
  (if m <=? 2 then y + 1 else y, m, d).

(* ---- Time.Round(time.Millisecond): nearest multiple, halfway rounds up ---- *)
Definition round_ms (t : Z) : Z := (t + 500000) / ns_per_ms * ns_per_ms.

(* the zero time.Time{} : 0001-01-01T00:00:00Z *)
Definition zero_time : Z := -62135596800 * ns_per_s.
(* first instant of year 10000 *)
Definition year10000 : Z := 253402300800 * ns_per_s.

(* ---- formatting: Round(ms).UTC().Format("2006-01-02T15:04:05.999Z07:00") ---- *)

Definition format_relaxed (t : Z) : string :=
  let t := round_ms t in
  let days := t / ns_per_day in
  let rem := t mod ns_per_day in
  let '(y, m, d) := civil_of_days days in
  let hh := rem / (3600 * ns_per_s) in
  let mi := rem mod (3600 * ns_per_s) / (60 * ns_per_s) in
  let ss := rem mod (60 * ns_per_s) / ns_per_s in
  let ms := rem mod ns_per_s / ns_per_ms in
  fixw 4 y +++ "-" +++ fixw 2 m +++ "-" +++ fixw 2 d +++ "T"
  +++ fixw 2 hh +++ ":" +++ fixw 2 mi +++ ":" +++ fixw 2 ss
  +++ (if 0 <? ms then "." +++ trim0r (fixw 3 ms) else "") +++ "Z".

(* ---- parsing ---- *)
Definition expect (c : ascii) (s : string) : outcome string :=
  match s with String a r => if Ascii.eqb a c then Ok r else Err 0 | _ => Err 0 end.

(* getnum(s, fixed=true) *)
Definition get2 (s : string) : outcome (Z * string) :=
  match s with
  | String a (String b r) =>
      if is_digit a && is_digit b then Ok (10 * digit_val a + digit_val b, r) else Err 0
  | _ => Err 0
  end.

(* getnum(s, fixed=false) *)
Definition get12 (s : string) : outcome (Z * string) :=
  match s with
  | String a r =>
      if is_digit a then
        match r with
        | String b r' => if is_digit b then Ok (10 * digit_val a + digit_val b, r')
                         else Ok (digit_val a, r)
        | EmptyString => Ok (digit_val a, r)
        end
      else Err 0
  | _ => Err 0
  end.

Definition get4 (s : string) : outcome (Z * string) :=
  match s with
  | String a (String b (String c (String d r))) =>
      if is_digit a && is_digit b && is_digit c && is_digit d
      then Ok (1000 * digit_val a + 100 * digit_val b + 10 * digit_val c + digit_val d, r)
      else Err 0
  | _ => Err 0
  end.

Definition pow10 (n : nat) : Z := 10 ^ Z.of_nat n.

(* optional fraction after the seconds: returns nanoseconds and the rest *)
Definition get_frac (s : string) : Z * string :=
  match s with
  | String p (String b _ as r) =>
      if (Ascii.eqb p "." || Ascii.eqb p ",") && is_digit b then
        let '(ds, rest) := span is_digit r in
        let ds9 := take 9 ds in
        (dval ds9 * pow10 (9 - String.length ds9), rest)
      else (0, s)
  | _ => (0, s)
  end.

(* "Z07:00": returns the offset in seconds and the rest *)
Definition get_zone (s : string) : outcome (Z * string) :=
  match s with
  | String "Z" r => Ok (0, r)
  | String sg (String h1 (String h2 (String c (String m1 (String m2 r))))) =>
      if negb (Ascii.eqb c ":") then Err 0 else
      do (hr, _) <- get2 (String h1 (String h2 EmptyString));
      do (mm, _) <- get2 (String m1 (String m2 EmptyString));
      if (24 <? hr) || (60 <? mm) then Err 0 else
      if Ascii.eqb sg "+" then Ok ((hr * 60 + mm) * 60, r)
      else if Ascii.eqb sg "-" then Ok (- ((hr * 60 + mm) * 60), r)
      else Err 0
  | _ => Err 0
  end.

Definition parse_layout (zoned : bool) (s : string) : outcome Z :=
  do (y, s) <- get4 s;
  do s <- expect "-" s;
  do (mo, s) <- get2 s;
  do s <- expect "-" s;
  do (d, s) <- get2 s;
  do s <- expect "T" s;
  do (hh, s) <- get12 s;
  do s <- expect ":" s;
  do (mi, s) <- get2 s;
  do s <- expect ":" s;
  do (ss, s) <- get2 s;
  let '(ns, s) := get_frac s in
  do (off, s) <- (if zoned then get_zone s else Ok (0, s));
  if nonempty s then Err 0 else
  if (mo <? 1) || (12 <? mo) || (24 <=? hh) || (60 <=? mi) || (60 <=? ss) then Err 0 else
  if (d <? 1) || (days_in_month y mo <? d) then Err 0 else
  Ok (days_of_civil y mo d * ns_per_day + hh * (3600 * ns_per_s) + mi * (60 * ns_per_s)
      + ss * ns_per_s + ns - off * ns_per_s).

Definition parse_relaxed (s : string) : outcome Z :=
  if negb (nonempty s) then Ok zero_time else
  match parse_layout true s with
  | Ok t => Ok (round_ms t)
  | _ => match parse_layout false s with
         | Ok t => Ok (round_ms t)
         | _ => Err 0
         end
  end.

(* ---- correspondence-check entry points ---- *)
Definition obs_time (o : outcome Z) : option Z := match o with Ok z => Some z | _ => None end.
Definition optZ_eqb (a b : option Z) : bool :=
  match a, b with None, None => true | Some x, Some y => x =? y | _, _ => false end.

(* format case: instant t (ns), text the implementation printed, instant the
   implementation parsed back from its own text *)
Record fcase := { fc_t : Z; fc_text : string; fc_rt : option Z }.
Definition fcase_agree (c : fcase) : bool := String.eqb (format_relaxed (fc_t c)) (fc_text c).
Definition fcase_spec (c : fcase) : bool := optZ_eqb (fc_rt c) (Some (round_ms (fc_t c))).
(* parse case: text, instant the implementation returned (None = error) *)
Record pcase := { pc_text : string; pc_res : option Z }.
Definition pcase_agree (c : pcase) : bool := optZ_eqb (obs_time (parse_relaxed (pc_text c))) (pc_res c).

Definition check_fcases := check_cases fcase_agree fcase_spec.
Definition check_pcases := check_cases pcase_agree (fun _ => true).
