(* Tokens.v — symbolic model of the two JWT codecs of package samlsp and of the
   gate handlers built on them (property C16; used by Middleware.v for C17).

     mint_session     ~ JWTSessionCodec.New + Encode                (samlsp/session_jwt.go:33-86)
     decode_session_o ~ JWTSessionCodec.Decode                      (samlsp/session_jwt.go:90-114)
     mint_tracking    ~ JWTTrackedRequestCodec.Encode               (samlsp/request_tracker_jwt.go:32-48)
     decode_tracking_o~ JWTTrackedRequestCodec.Decode               (samlsp/request_tracker_jwt.go:51-74)
     session_codec_of / tracking_codec_of ~ DefaultSessionCodec / DefaultTrackedRequestCodec (samlsp/new.go)
     get_session, require_account, require_attribute
                      ~ CookieSessionProvider.GetSession, Middleware.RequireAccount, RequireAttribute

   golang-jwt v4.5.2 (Parser.ParseWithClaims, StandardClaims.Valid, RegisteredClaims.Valid,
   verifyAud/verifyIss/verifyExp/verifyIat/verifyNbf) is followed check by check.

   Cryptography is symbolic: a token records the header algorithm, WHO produced
   its signature ([tk_key]) and whether the signature bytes are still the
   genuine signature over this header and these claims ([tk_intact]); anything
   that does not parse as header.claims.signature with JSON of the expected
   shape is [WGarbage].  Instants are Z nanoseconds since the Unix epoch; the
   claims iat/nbf/exp are whole seconds, as golang-jwt writes them.

   Definitions only; the lemmas are in TokensProofs.v. *)
From Saml Require Import Base.

(* ---------- time ---------- *)
Definition tk_ns_per_s : Z := 1000000000.
(* time.Time.Unix() and Truncate(time.Second): floor to the second *)
Definition sec (t : Z) : Z := t / tk_ns_per_s.

(* ---------- algorithms and keys ---------- *)
(* the signing methods golang-jwt registers, plus [Aother] for a header whose
   alg is missing, not a string, or not a registered name *)
Inductive alg :=
| Anone | HS256 | HS384 | HS512 | RS256 | RS384 | RS512
| PS256 | PS384 | PS512 | ES256 | ES384 | ES512 | EdDSA | Aother.

Definition alg_num (a : alg) : Z :=
  match a with
  | Anone => 0 | HS256 => 1 | HS384 => 2 | HS512 => 3 | RS256 => 4 | RS384 => 5 | RS512 => 6
  | PS256 => 7 | PS384 => 8 | PS512 => 9 | ES256 => 10 | ES384 => 11 | ES512 => 12 | EdDSA => 13
  | Aother => 14
  end.
Definition alg_eqb (a b : alg) : bool := alg_num a =? alg_num b.
Definition alg_registered (a : alg) : bool := negb (alg_eqb a Aother).

Inductive family := FNone | FHmac | FRsa | FEc | FEd | FUnknown.
Definition alg_family (a : alg) : family :=
  match a with
  | Anone => FNone
  | HS256 | HS384 | HS512 => FHmac
  | RS256 | RS384 | RS512 | PS256 | PS384 | PS512 => FRsa
  | ES256 | ES384 | ES512 => FEc
  | EdDSA => FEd
  | Aother => FUnknown
  end.

Inductive kkind := KRsa | KEc.
(* who made the signature: a private key (opaque identity), an HMAC secret
   (any byte string the attacker likes, e.g. the PEM of a public key), nobody *)
Inductive key := KPriv (k : kkind) (id : Z) | KHmac (secret : string) | KNoKey.

Definition kkind_eqb (a b : kkind) : bool :=
  match a, b with KRsa, KRsa => true | KEc, KEc => true | _, _ => false end.
Definition key_eqb (a b : key) : bool :=
  match a, b with
  | KPriv k i, KPriv k' i' => kkind_eqb k k' && (i =? i')
  | KHmac s, KHmac s' => String.eqb s s'
  | KNoKey, KNoKey => true
  | _, _ => false
  end.

(* ---------- tokens ---------- *)
(* the JSON form of the aud claim: absent (or null), one string, an array *)
Inductive audv := AudAbsent | AudOne (s : string) | AudMany (l : list string).

Definition amap := list (string * list string).   (* attribute map, association list *)

Record token := {
  tk_alg : alg;                 (* header alg *)
  tk_key : key;                 (* signer *)
  tk_intact : bool;             (* signature is the signer's signature over exactly this header+claims *)
  tk_aud : audv;
  tk_iss : string;              (* "" = absent *)
  tk_sub : string;              (* "" = absent; the Index of a tracking token *)
  tk_iat : option Z;            (* seconds *)
  tk_nbf : option Z;
  tk_exp : option Z;
  tk_session_marker : bool;     (* "saml-session"; absent = false *)
  tk_request_marker : bool;     (* "saml-authn-request"; absent = false *)
  tk_attrs : amap;              (* "attr", keys in the order of the JSON text *)
  tk_req_id : string;           (* "id" *)
  tk_uri : string               (* "uri" *)
}.

Inductive wire := WToken (t : token) | WGarbage.

Record codec := {
  c_alg : alg;          (* SigningMethod *)
  c_key : key;          (* Key *)
  c_aud : string;       (* Audience *)
  c_iss : string;       (* Issuer *)
  c_max_age : Z         (* MaxAge, nanoseconds *)
}.

(* what tells deployments apart *)
Definition codec_id (c : codec) : alg * key * string * string := (c_alg c, c_key c, c_aud c, c_iss c).

(* ---------- assertions (the part JWTSessionCodec.New reads) ---------- *)
Record attribute := { at_friendly : string; at_name : string; at_values : list string }.
Record assertion := {
  as_subject : option (option string);        (* None: no Subject; Some None: Subject without NameID *)
  as_attr_statements : list (list attribute);
  as_authn_statements : list string           (* SessionIndex of each AuthnStatement *)
}.

Definition claim_name (a : attribute) : string :=
  if nonempty (at_friendly a) then at_friendly a else at_name a.

Fixpoint amap_get (k : string) (m : amap) : option (list string) :=
  match m with
  | [] => None
  | (k', vs) :: r => if String.eqb k' k then Some vs else amap_get k r
  end.
(* Go: values, ok := attributes[name]; ranging over a missing entry sees nothing *)
Definition amap_lookup (k : string) (m : amap) : list string :=
  match amap_get k m with Some vs => vs | None => [] end.

(* m[k] = append(m[k], v) *)
Fixpoint amap_append (m : amap) (k v : string) : amap :=
  match m with
  | [] => [(k, [v])]
  | (k', vs) :: r => if String.eqb k' k then (k', (vs ++ [v])%list) :: r else (k', vs) :: amap_append r k v
  end.

Definition add_attribute (m : amap) (a : attribute) : amap :=
  fold_left (fun m v => amap_append m (claim_name a) v) (at_values a) m.
Definition add_statement (m : amap) (st : list attribute) : amap := fold_left add_attribute st m.

Definition session_index_name : string := "SessionIndex".

Definition attrs_of_assertion (a : assertion) : amap :=
  let m := fold_left add_statement (as_attr_statements a) [] in
  fold_left (fun m si => amap_append m session_index_name si) (as_authn_statements a) m.

Definition subject_of (a : assertion) : string :=
  match as_subject a with Some (Some v) => v | _ => "" end.

(* encoding/json writes map keys in sorted (bytewise) order *)
Fixpoint amap_insert (kv : string * list string) (m : amap) : amap :=
  match m with
  | [] => [kv]
  | kv' :: r => if String.leb (fst kv) (fst kv') then kv :: m else kv' :: amap_insert kv r
  end.
Definition amap_sort (m : amap) : amap := fold_right amap_insert [] m.

(* the independent statement of what the application must see under name k:
   the values of every Attribute element whose claim name is k, in document
   order, then (for "SessionIndex") the index of every AuthnStatement *)
Definition attr_values_spec (k : string) (a : assertion) : list string :=
  (flat_map (fun at_ => if String.eqb (claim_name at_) k then at_values at_ else [])
            (List.concat (as_attr_statements a))
   ++ (if String.eqb session_index_name k then as_authn_statements a else []))%list.

(* ---------- minting ---------- *)
(* `json:",omitempty"` on a string / an int64 *)
Definition omit0 (z : Z) : option Z := if z =? 0 then None else Some z.
Definition aud_omitempty (s : string) : audv := if nonempty s then AudOne s else AudAbsent.

(* JWTSessionCodec.New at instant t0 followed by Encode *)
Definition mint_session (c : codec) (t0 : Z) (a : assertion) : token :=
  {| tk_alg := c_alg c; tk_key := c_key c; tk_intact := true;
     tk_aud := aud_omitempty (c_aud c);
     tk_iss := c_iss c;
     tk_sub := subject_of a;
     tk_iat := omit0 (sec t0);
     tk_nbf := omit0 (sec t0);
     tk_exp := omit0 (sec (t0 + c_max_age c));
     tk_session_marker := true;
     tk_request_marker := false;
     tk_attrs := amap_sort (attrs_of_assertion a);
     tk_req_id := ""; tk_uri := "" |}.

Record tracked := { tr_index : string; tr_req_id : string; tr_uri : string }.

(* JWTTrackedRequestCodec.Encode at instant t0.  [arr] is the package variable
   jwt.MarshalSingleStringAsArray (default true). *)
Definition mint_tracking (arr : bool) (c : codec) (t0 : Z) (tr : tracked) : token :=
  {| tk_alg := c_alg c; tk_key := c_key c; tk_intact := true;
     tk_aud := if arr then AudMany [c_aud c] else AudOne (c_aud c);
     tk_iss := c_iss c;
     tk_sub := tr_index tr;
     tk_iat := Some (sec t0);
     tk_nbf := Some (sec t0);
     tk_exp := Some (sec (t0 + c_max_age c));
     tk_session_marker := false;
     tk_request_marker := true;
     tk_attrs := [];
     tk_req_id := tr_req_id tr; tk_uri := tr_uri tr |}.

(* ---------- golang-jwt: signature and claims validation ---------- *)
(* token.Method.Verify(signingString, signature, c.Key.Public()): the method is
   the one named by the HEADER; "none" wants the magic constant as key, HMAC
   wants []byte, RSA/PSS want *rsa.PublicKey, ECDSA wants *ecdsa.PublicKey —
   the codec always supplies its public key. *)
Definition verify_sig (ck : key) (t : token) : bool :=
  match alg_family (tk_alg t), ck with
  | FRsa, KPriv KRsa _ => key_eqb (tk_key t) ck && tk_intact t
  | FEc, KPriv KEc _ => key_eqb (tk_key t) ck && tk_intact t
  | _, _ => false
  end.

(* StandardClaims.Valid: now := TimeFunc().Unix(); a zero field is "unset" *)
Definition std_exp_ok (now_s : Z) (e : option Z) : bool :=
  match e with None => true | Some e => if e =? 0 then true else now_s <? e end.
Definition std_from_ok (now_s : Z) (f : option Z) : bool :=
  match f with None => true | Some f => if f =? 0 then true else f <=? now_s end.
Definition std_time_valid (now_s : Z) (t : token) : bool :=
  std_exp_ok now_s (tk_exp t) && std_from_ok now_s (tk_iat t) && std_from_ok now_s (tk_nbf t).

(* RegisteredClaims.Valid: now := TimeFunc() at full resolution; nil pointer = unset *)
Definition reg_exp_ok (now : Z) (e : option Z) : bool :=
  match e with None => true | Some e => now <? e * tk_ns_per_s end.
Definition reg_from_ok (now : Z) (f : option Z) : bool :=
  match f with None => true | Some f => f * tk_ns_per_s <=? now end.
Definition reg_time_valid (now : Z) (t : token) : bool :=
  reg_exp_ok now (tk_exp t) && reg_from_ok now (tk_iat t) && reg_from_ok now (tk_nbf t).

(* verifyAud(aud, cmp, required=true) *)
Definition verify_aud (aud : list string) (cmp : string) : bool :=
  match aud with
  | [] => false
  | _ => if nonempty (String.concat "" aud) then existsb (fun a => String.eqb a cmp) aud else false
  end.
(* verifyIss(iss, cmp, required=true) *)
Definition verify_iss (iss cmp : string) : bool :=
  if nonempty iss then String.eqb iss cmp else false.

(* StandardClaims.Audience is a string: a JSON array does not unmarshal *)
Definition session_json_ok (t : token) : bool :=
  match tk_aud t with AudMany _ => false | _ => true end.
Definition std_aud (a : audv) : list string :=
  match a with AudAbsent => [""] | AudOne s => [s] | AudMany l => l end.
(* RegisteredClaims.Audience is ClaimStrings: string or array *)
Definition reg_aud (a : audv) : list string :=
  match a with AudAbsent => [] | AudOne s => [s] | AudMany l => l end.

Record claims := { cl_sub : string; cl_attrs : amap }.

(* error stages (observable only as a coarse class):
   1 malformed / unverifiable  2 method or signature  3 time claims  4 audience  5 issuer  6 marker *)
Definition decode_session_o (c : codec) (now : Z) (w : wire) : outcome claims :=
  match w with
  | WGarbage => Err 1                                                   (* ParseUnverified *)
  | WToken t =>
      if negb (session_json_ok t) then Err 1 else                       (*   claims JSON *)
      if negb (alg_registered (tk_alg t)) then Err 1 else               (*   GetSigningMethod *)
      if negb (alg_eqb (tk_alg t) (c_alg c)) then Err 2 else            (* ValidMethods *)
      if negb (verify_sig (c_key c) t) then Err 2 else                  (* Method.Verify *)
      if negb (std_time_valid (sec now) t) then Err 3 else              (* Claims.Valid *)
      if negb (verify_aud (std_aud (tk_aud t)) (c_aud c)) then Err 4 else
      if negb (verify_iss (tk_iss t) (c_iss c)) then Err 5 else
      if negb (tk_session_marker t) then Err 6 else
      Ok {| cl_sub := tk_sub t; cl_attrs := tk_attrs t |}
  end.

Definition decode_tracking_o (c : codec) (now : Z) (w : wire) : outcome tracked :=
  match w with
  | WGarbage => Err 1
  | WToken t =>
      if negb (alg_registered (tk_alg t)) then Err 1 else
      if negb (alg_eqb (tk_alg t) (c_alg c)) then Err 2 else
      if negb (verify_sig (c_key c) t) then Err 2 else
      if negb (reg_time_valid now t) then Err 3 else
      if negb (verify_aud (reg_aud (tk_aud t)) (c_aud c)) then Err 4 else
      if negb (verify_iss (tk_iss t) (c_iss c)) then Err 5 else
      if negb (tk_request_marker t) then Err 6 else
      Ok {| tr_index := tk_sub t; tr_req_id := tk_req_id t; tr_uri := tk_uri t |}   (* claims.Index = claims.Subject *)
  end.

Definition to_option {A} (o : outcome A) : option A := match o with Ok a => Some a | _ => None end.
Definition decode_session (c : codec) (now : Z) (w : wire) : option claims := to_option (decode_session_o c now w).
Definition decode_tracking (c : codec) (now : Z) (w : wire) : option tracked := to_option (decode_tracking_o c now w).

(* ---------- samlsp/new.go: the default codecs of a deployment ---------- *)
Record opts := {
  o_url : string;           (* opts.URL.String() *)
  o_key : key;              (* opts.Key *)
  o_cookie_name : string    (* opts.CookieName, "" = default *)
}.
(* getDefaultSigningMethod *)
Definition default_alg (k : key) : alg :=
  match k with KPriv KEc _ => ES256 | _ => RS256 end.
Definition default_session_max_age : Z := 3600 * tk_ns_per_s.
Definition session_codec_of (o : opts) : codec :=
  {| c_alg := default_alg (o_key o); c_key := o_key o; c_aud := o_url o; c_iss := o_url o;
     c_max_age := default_session_max_age |}.
(* [mid] is the package variable saml.MaxIssueDelay (nanoseconds) *)
Definition tracking_codec_of (mid : Z) (o : opts) : codec :=
  {| c_alg := default_alg (o_key o); c_key := o_key o; c_aud := o_url o; c_iss := o_url o;
     c_max_age := mid |}.
Definition with_max_age (c : codec) (m : option Z) : codec :=
  match m with
  | None => c
  | Some x => {| c_alg := c_alg c; c_key := c_key c; c_aud := c_aud c; c_iss := c_iss c; c_max_age := x |}
  end.
Definition session_cookie_name (o : opts) : string :=
  if nonempty (o_cookie_name o) then o_cookie_name o else "token".

(* ---------- the gate ---------- *)
Definition jar := list (string * wire).          (* the Cookie header, in order *)
(* http.Request.Cookie(name): the first cookie of that name *)
Fixpoint jar_get (n : string) (j : jar) : option wire :=
  match j with
  | [] => None
  | (n', w) :: r => if String.eqb n' n then Some w else jar_get n r
  end.

(* CookieSessionProvider.GetSession: None = ErrNoSession *)
Definition get_session (name : string) (c : codec) (now : Z) (j : jar) : option claims :=
  match jar_get name j with
  | None => None
  | Some w => decode_session c now w
  end.

Inductive gate := Ran (cl : claims) | StartFlow.
(* Middleware.RequireAccount *)
Definition require_account (name : string) (c : codec) (now : Z) (j : jar) : gate :=
  match get_session name c now j with
  | Some cl => Ran cl
  | None => StartFlow
  end.
(* RequireAttribute(name, value), given the session RequireAccount put in the context *)
Definition require_attribute (n v : string) (s : option claims) : bool :=
  match s with
  | Some cl => match amap_get n (cl_attrs cl) with
               | Some vs => existsb (fun x => String.eqb x v) vs
               | None => false
               end
  | None => false
  end.

(* ---------- decidable forms used by the correspondence check ---------- *)
Fixpoint list_eqb {A} (e : A -> A -> bool) (a b : list A) : bool :=
  match a, b with
  | [], [] => true
  | x :: a', y :: b' => e x y && list_eqb e a' b'
  | _, _ => false
  end.
Definition strs_eqb := list_eqb String.eqb.
Definition amap_eqb : amap -> amap -> bool :=
  list_eqb (fun x y => String.eqb (fst x) (fst y) && strs_eqb (snd x) (snd y)).
Definition optZ_eq (a b : option Z) : bool :=
  match a, b with None, None => true | Some x, Some y => x =? y | _, _ => false end.
Definition audv_eqb (a b : audv) : bool :=
  match a, b with
  | AudAbsent, AudAbsent => true
  | AudOne s, AudOne s' => String.eqb s s'
  | AudMany l, AudMany l' => strs_eqb l l'
  | _, _ => false
  end.
Definition token_eqb (a b : token) : bool :=
  alg_eqb (tk_alg a) (tk_alg b) && key_eqb (tk_key a) (tk_key b) && Bool.eqb (tk_intact a) (tk_intact b)
  && audv_eqb (tk_aud a) (tk_aud b) && String.eqb (tk_iss a) (tk_iss b) && String.eqb (tk_sub a) (tk_sub b)
  && optZ_eq (tk_iat a) (tk_iat b) && optZ_eq (tk_nbf a) (tk_nbf b) && optZ_eq (tk_exp a) (tk_exp b)
  && Bool.eqb (tk_session_marker a) (tk_session_marker b) && Bool.eqb (tk_request_marker a) (tk_request_marker b)
  && amap_eqb (tk_attrs a) (tk_attrs b) && String.eqb (tk_req_id a) (tk_req_id b) && String.eqb (tk_uri a) (tk_uri b).
Definition wire_eqb (a b : wire) : bool :=
  match a, b with WToken x, WToken y => token_eqb x y | WGarbage, WGarbage => true | _, _ => false end.
Definition codec_eqb (a b : codec) : bool :=
  alg_eqb (c_alg a) (c_alg b) && key_eqb (c_key a) (c_key b) && String.eqb (c_aud a) (c_aud b)
  && String.eqb (c_iss a) (c_iss b) && (c_max_age a =? c_max_age b).
Definition codec_id_eqb (a b : codec) : bool :=
  alg_eqb (c_alg a) (c_alg b) && key_eqb (c_key a) (c_key b) && String.eqb (c_aud a) (c_aud b)
  && String.eqb (c_iss a) (c_iss b).

(* honest minting happens after 1970 (a zero iat/exp would be omitted from the token) *)
Definition mint_time_ok (c : codec) (t0 : Z) : Prop := 0 < sec t0 /\ 0 < sec (t0 + c_max_age c).
Definition mint_time_okb (c : codec) (t0 : Z) : bool := (0 <? sec t0) && (0 <? sec (t0 + c_max_age c)).

(* where a wire came from, as far as the harness knows *)
Inductive origin :=
| OSession (c' : codec) (t0 : Z) (a : assertion)                   (* minted by the real session codec of some deployment *)
| OTracking (arr : bool) (c' : codec) (t0 : Z) (tr : tracked)      (* minted by the real tracking codec of some deployment *)
| OOther.                                                          (* built by the harness from parts *)

(* Is (origin, wire) inside the Dolev-Yao closure for the session codec c?
   (see dy_session in TokensProofs.v) *)
Definition dy_session_b (c : codec) (o : origin) (w : wire) : bool :=
  match o, w with
  | OSession c' t0 a, WToken t =>
      token_eqb t (mint_session c' t0 a) && (codec_eqb c' c || negb (codec_id_eqb c' c)) && mint_time_okb c' t0
  | OTracking arr c' t0 tr, WToken t => token_eqb t (mint_tracking arr c' t0 tr)
  | OOther, WToken t => negb (key_eqb (tk_key t) (c_key c)) || negb (tk_intact t)
  | OOther, WGarbage => true
  | _, _ => false
  end.
Definition dy_tracking_b (c : codec) (o : origin) (w : wire) : bool :=
  match o, w with
  | OTracking arr c' t0 tr, WToken t =>
      token_eqb t (mint_tracking arr c' t0 tr) && (codec_eqb c' c || negb (codec_id_eqb c' c))
  | OSession c' t0 a, WToken t => token_eqb t (mint_session c' t0 a)
  | OOther, WToken t => negb (key_eqb (tk_key t) (c_key c)) || negb (tk_intact t)
  | OOther, WGarbage => true
  | _, _ => false
  end.

(* The harness's claim about where the wire came from, checked as part of the
   correspondence: an honest origin means the bytes ARE what the model's mint
   produces for that codec, instant and payload. *)
Definition origin_wire_ok (o : origin) (w : wire) : bool :=
  match o, w with
  | OSession c' t0 a, WToken t => token_eqb t (mint_session c' t0 a)
  | OTracking arr c' t0 tr, WToken t => token_eqb t (mint_tracking arr c' t0 tr)
  | OOther, _ => true
  | _, WGarbage => false
  end.
(* the closure's side conditions alone (the real codec DID mint the honest
   wires, whether or not its output equals the model's mint) *)
Definition in_closure_session (c : codec) (o : origin) (w : wire) : bool :=
  match o with
  | OSession c' t0 _ => (codec_eqb c' c || negb (codec_id_eqb c' c)) && mint_time_okb c' t0
  | OTracking _ _ _ _ => true
  | OOther => match w with WToken t => negb (key_eqb (tk_key t) (c_key c)) || negb (tk_intact t) | WGarbage => true end
  end.
Definition in_closure_tracking (c : codec) (o : origin) (w : wire) : bool :=
  match o with
  | OTracking _ c' _ _ => codec_eqb c' c || negb (codec_id_eqb c' c)
  | OSession _ _ _ => true
  | OOther => match w with WToken t => negb (key_eqb (tk_key t) (c_key c)) || negb (tk_intact t) | WGarbage => true end
  end.

(* boolean conclusion of C16_session_only_if_minted + C16_claims_exact for an
   ACCEPTED wire: it was minted by this very codec, at t0 with
   sec t0 <= sec now < sec (t0 + max_age), and what the application sees is
   the assertion's subject and, under every name, the assertion's values *)
Definition keys_of_assertion (a : assertion) : list string :=
  session_index_name :: map claim_name (List.concat (as_attr_statements a)).
Definition attrs_exact_b (a : assertion) (seen : amap) : bool :=
  forallb (fun k => strs_eqb (amap_lookup k seen) (attr_values_spec k a))
          (map fst seen ++ keys_of_assertion a)%list.
Definition session_accept_ok (c : codec) (now : Z) (o : origin) (sub : string) (seen : amap) : bool :=
  match o with
  | OSession c' t0 a =>
      codec_eqb c' c && (sec t0 <=? sec now) && (sec now <? sec (t0 + c_max_age c))
      && String.eqb sub (subject_of a) && attrs_exact_b a seen
  | _ => false
  end.
Definition tracking_accept_ok (c : codec) (now : Z) (o : origin) (got : tracked) : bool :=
  match o with
  | OTracking _ c' t0 tr =>
      codec_eqb c' c && (sec t0 * tk_ns_per_s <=? now) && (now <? sec (t0 + c_max_age c) * tk_ns_per_s)
      && String.eqb (tr_index got) (tr_index tr) && String.eqb (tr_req_id got) (tr_req_id tr)
      && String.eqb (tr_uri got) (tr_uri tr)
  | _ => false
  end.

(* ---------- correspondence-check entry points ---------- *)
(* cfg case: samlsp.New(opts) — the live codecs against the model's derivation *)
Record cfgcase := {
  cf_opts : opts; cf_mid : Z;
  cf_session : codec; cf_tracking : codec;      (* fields read from the live middleware *)
  cf_cookie : string
}.
Definition cfgcase_agree (c : cfgcase) : bool :=
  codec_eqb (session_codec_of (cf_opts c)) (cf_session c)
  && codec_eqb (tracking_codec_of (cf_mid c) (cf_opts c)) (cf_tracking c)
  && String.eqb (session_cookie_name (cf_opts c)) (cf_cookie c).
Definition check_cfgcases := check_cases cfgcase_agree (fun _ => true).

(* mint case: the real codec's token, parsed back by the harness field by field *)
Inductive payload := PSession (a : assertion) | PTracking (tr : tracked).
Record mintcase := {
  mi_opts : opts; mi_max_age : option Z; mi_mid : Z; mi_arr : bool;
  mi_t0 : Z;
  mi_what : payload;
  mi_wire : wire
}.
Definition mint_model (c : mintcase) : wire :=
  match mi_what c with
  | PSession a => WToken (mint_session (with_max_age (session_codec_of (mi_opts c)) (mi_max_age c)) (mi_t0 c) a)
  | PTracking tr => WToken (mint_tracking (mi_arr c) (with_max_age (tracking_codec_of (mi_mid c) (mi_opts c)) (mi_max_age c)) (mi_t0 c) tr)
  end.
Definition mintcase_agree (c : mintcase) : bool := wire_eqb (mint_model c) (mi_wire c).
(* spec on the implementation's token: subject and attributes are exactly the assertion's *)
Definition mintcase_spec (c : mintcase) : bool :=
  match mi_what c, mi_wire c with
  | PSession a, WToken t =>
      String.eqb (tk_sub t) (subject_of a) && attrs_exact_b a (tk_attrs t)
      && optZ_eq (tk_iat t) (omit0 (sec (mi_t0 c)))
      && optZ_eq (tk_exp t) (omit0 (sec (mi_t0 c + c_max_age (with_max_age (session_codec_of (mi_opts c)) (mi_max_age c)))))
      && tk_session_marker t && negb (tk_request_marker t)
  | PTracking tr, WToken t =>
      String.eqb (tk_sub t) (tr_index tr) && String.eqb (tk_req_id t) (tr_req_id tr) && String.eqb (tk_uri t) (tr_uri tr)
      && optZ_eq (tk_iat t) (Some (sec (mi_t0 c)))
      && optZ_eq (tk_exp t) (Some (sec (mi_t0 c + c_max_age (with_max_age (tracking_codec_of (mi_mid c) (mi_opts c)) (mi_max_age c)))))
      && tk_request_marker t && negb (tk_session_marker t)
  | _, _ => false
  end.
Definition check_mintcases := check_cases mintcase_agree mintcase_spec.

(* decode case: a wire presented to deployment [dc_opts] at instant [dc_now]
   in the cookie [dc_cookie]; session side goes through the real
   Middleware.RequireAccount, tracking side through the codec's Decode *)
Record deccase := {
  dc_opts : opts; dc_max_age : option Z; dc_mid : Z;
  dc_session : bool;           (* true: session codec / RequireAccount; false: tracking codec *)
  dc_now : Z;
  dc_origin : origin;
  dc_wire : wire;
  dc_cookie : string;          (* cookie name used by the request (session side) *)
  dc_ran : bool;               (* observed: handler ran / Decode returned a request *)
  dc_stage : Z;                (* observed error stage from a direct Decode call, 0 = ok *)
  dc_sub : string;             (* observed subject / index *)
  dc_attrs : amap;             (* observed attribute map, keys sorted *)
  dc_id : string; dc_uri : string   (* observed tracked request *)
}.
Definition dc_codec (c : deccase) : codec :=
  if dc_session c then with_max_age (session_codec_of (dc_opts c)) (dc_max_age c)
  else with_max_age (tracking_codec_of (dc_mid c) (dc_opts c)) (dc_max_age c).
Definition stage_of {A} (o : outcome A) : Z := match o with Ok _ => 0 | Err n => n | Panic => 99 end.
Definition deccase_agree (c : deccase) : bool :=
  origin_wire_ok (dc_origin c) (dc_wire c) &&
  if dc_session c then
    (stage_of (decode_session_o (dc_codec c) (dc_now c) (dc_wire c)) =? dc_stage c)
    && match require_account (session_cookie_name (dc_opts c)) (dc_codec c) (dc_now c) [(dc_cookie c, dc_wire c)] with
       | Ran cl => dc_ran c && String.eqb (cl_sub cl) (dc_sub c) && amap_eqb (cl_attrs cl) (dc_attrs c)
       | StartFlow => negb (dc_ran c)
       end
  else
    (stage_of (decode_tracking_o (dc_codec c) (dc_now c) (dc_wire c)) =? dc_stage c)
    && match decode_tracking (dc_codec c) (dc_now c) (dc_wire c) with
       | Some tr => dc_ran c && String.eqb (tr_index tr) (dc_sub c) && String.eqb (tr_req_id tr) (dc_id c)
                    && String.eqb (tr_uri tr) (dc_uri c)
       | None => negb (dc_ran c)
       end.
(* the property on the implementation's output: inside the Dolev-Yao closure,
   acceptance implies "minted by this codec, unexpired, claims exact" *)
Definition deccase_spec (c : deccase) : bool :=
  if dc_session c then
    if in_closure_session (dc_codec c) (dc_origin c) (dc_wire c) && dc_ran c
    then session_accept_ok (dc_codec c) (dc_now c) (dc_origin c) (dc_sub c) (dc_attrs c)
         && String.eqb (dc_cookie c) (session_cookie_name (dc_opts c))
    else true
  else
    if in_closure_tracking (dc_codec c) (dc_origin c) (dc_wire c) && dc_ran c
    then tracking_accept_ok (dc_codec c) (dc_now c) (dc_origin c)
           {| tr_index := dc_sub c; tr_req_id := dc_id c; tr_uri := dc_uri c |}
    else true.
Definition check_deccases := check_cases deccase_agree deccase_spec.

(* gate case: RequireAttribute(name, value) behind RequireAccount, on the
   attribute map the application saw *)
Record gatecase := {
  gc_session : option amap;     (* None: no session in the context *)
  gc_name : string; gc_value : string;
  gc_admitted : bool            (* observed: inner handler ran (else 403) *)
}.
Definition gc_claims (c : gatecase) : option claims :=
  match gc_session c with Some m => Some {| cl_sub := ""; cl_attrs := m |} | None => None end.
Definition gatecase_agree (c : gatecase) : bool :=
  Bool.eqb (require_attribute (gc_name c) (gc_value c) (gc_claims c)) (gc_admitted c).
(* admitted iff the value is among the values under that name *)
Definition gatecase_spec (c : gatecase) : bool :=
  Bool.eqb (gc_admitted c)
    (match gc_session c with Some m => mem_str (gc_value c) (amap_lookup (gc_name c) m) | None => false end).
Definition check_gatecases := check_cases gatecase_agree gatecase_spec.

(* jar case: a whole Cookie header presented to RequireAccount (first cookie of
   the session cookie's name wins; other names are ignored) *)
Record jarcase := {
  jc_opts : opts; jc_max_age : option Z; jc_now : Z;
  jc_jar : jar;
  jc_ran : bool; jc_sub : string
}.
Definition jc_codec (c : jarcase) : codec := with_max_age (session_codec_of (jc_opts c)) (jc_max_age c).
Definition jarcase_agree (c : jarcase) : bool :=
  match require_account (session_cookie_name (jc_opts c)) (jc_codec c) (jc_now c) (jc_jar c) with
  | Ran cl => jc_ran c && String.eqb (cl_sub cl) (jc_sub c)
  | StartFlow => negb (jc_ran c)
  end.
(* the handler ran only if the first cookie bearing the session cookie's name decodes *)
Definition jarcase_spec (c : jarcase) : bool :=
  if jc_ran c then
    match jar_get (session_cookie_name (jc_opts c)) (jc_jar c) with
    | Some w => match decode_session (jc_codec c) (jc_now c) w with
                | Some cl => String.eqb (cl_sub cl) (jc_sub c)
                | None => false
                end
    | None => false
    end
  else true.
Definition check_jarcases := check_cases jarcase_agree jarcase_spec.
