(* MiddlewareSP.v — the tie between the middleware state machine (Middleware.v)
   and the SP acceptance model (SPModel.v), for the last mechanism of C04:
   "the middleware supplies the outstanding request IDs from authenticated
   tracking cookies".

   ServeACS hands ParseResponse the list [mw_possible_ids m j]; SPModel's
   request-id checks (reqid_ok_r on the Response, reqid_ok_a on the subject
   confirmations) are evaluated against exactly that list.

   SPModel's names are always written qualified: it has its own [response], [r_irt] and
   [assertion], distinct from Middleware's abstract response. *)
(* SPModel first: the later imports shadow its unqualified names *)
From Saml Require Import SPModel.
From Saml Require Import Base Tokens TokensProofs Middleware MiddlewareProofs.

(* the list ServeACS passes to ServiceProvider.ParseResponse in state m for the jar j *)
Definition mw_possible_ids (m : mw) (j : jar) : list string :=
  possible_ids (mw_cfg m) (mw_clock m) j.

Lemma mw_possible_ids_is_deliver's m r j relay h :
  (* it is the very list the Deliver step evaluates its verdict against *)
  deliver (mw_cfg m) (mw_clock m) r j relay h = forbidden
  \/ sp_verdict (mw_cfg m) (mw_clock m) (mw_possible_ids m j) r = true.
Proof.
  destruct (deliver_cases (mw_cfg m) (mw_clock m) r j relay h) as [H|[H _]]; [left | right]; exact H.
Qed.

(* (1a) for EVERY state and EVERY jar: membership, at the level of the codec *)
Lemma possible_ids_decode m j x :
  In x (mw_possible_ids m j) <->
  (m_allow_idp (mw_cfg m) = true /\ x = "")
  \/ exists n w tr, In (n, w) j
                    /\ decode_tracking (m_tcodec (mw_cfg m)) (mw_clock m) w = Some tr
                    /\ n = m_prefix (mw_cfg m) +++ tr_index tr
                    /\ x = tr_req_id tr.
Proof.
  unfold mw_possible_ids, possible_ids. rewrite in_app_iff. split.
  - intros [H|H].
    + left. destruct (m_allow_idp (mw_cfg m)); [|contradiction]. destruct H as [<-|[]]. auto.
    + right. apply in_map_iff in H. destruct H as (tr & <- & Hin). apply gtr_in in Hin.
      destruct Hin as (n & w & Hnw & Hp & Hd & Hx). exists n, w, tr. repeat split; try assumption.
      apply prefixb_drop in Hp. unfold index_of_name in Hx. rewrite Hx in Hp. exact Hp.
  - intros [[Ha ->]|(n & w & tr & Hnw & Hd & -> & ->)].
    + left. rewrite Ha. left; reflexivity.
    + right. apply in_map_iff. exists tr. split; [reflexivity|]. apply gtr_in.
      exists (m_prefix (mw_cfg m) +++ tr_index tr), w. repeat split; try assumption.
      * apply prefixb_app.
      * unfold index_of_name. apply drop_app.
Qed.

(* (1b) for reachable states and jars in the Dolev-Yao closure: the ids are
   exactly the request IDs of the flows this middleware started whose
   authentic cookie sits in the jar under prefix ++ its signed index and is
   inside its lifetime — plus "" iff IdP-initiated is on *)
Theorem possible_ids_flows m j x :
  flows_ok m -> codec_wf (m_tcodec (mw_cfg m)) -> jar_ok m j ->
  (In x (mw_possible_ids m j) <->
   (m_allow_idp (mw_cfg m) = true /\ x = "")
   \/ exists f, In f (mw_flows m) /\ x = fl_req_id f
                /\ In (m_prefix (mw_cfg m) +++ fl_index f, fl_cookie f) j
                /\ flow_live (mw_cfg m) (mw_clock m) f = true).
Proof.
  intros Hok Hwf Hj. rewrite possible_ids_decode. split; (intros [H|H]; [left; exact H | right]).
  - destruct H as (n & w & tr & Hnw & Hd & -> & ->).
    destruct (decode_ok_is_flow m (mw_clock m) w tr Hok (Hj _ _ Hnw) Hd) as (f & Hf & -> & -> & Hl).
    exists f. repeat split; assumption.
  - destruct H as (f & Hf & -> & Hin & Hl).
    exists (m_prefix (mw_cfg m) +++ fl_index f), (fl_cookie f), (flow_tracked f).
    repeat split; try assumption; try reflexivity.
    destruct (Hok f Hf) as [Hc _]. rewrite Hc. apply tracking_lifetime; [assumption|].
    apply flow_live_iff, Hl.
Qed.

(* the abstract verdict of the Deliver step is SPModel's request-id rule on the
   response's InResponseTo, conjoined with "otherwise valid" and freshness *)
Lemma sp_verdict_is_reqid_ok (cfg : mwcfg) (sc : SPModel.spcfg) now ids (r : response) (resp : SPModel.response) :
  SPModel.custom_reqid sc = None -> SPModel.allow_idp_init sc = m_allow_idp cfg ->
  SPModel.r_irt resp = r_irt r ->
  sp_verdict cfg now ids r = r_ok r && response_fresh cfg now r && SPModel.reqid_ok_r sc ids resp.
Proof.
  intros Hc Ha Hi. unfold sp_verdict, SPModel.reqid_ok_r. rewrite Hc, Ha, Hi. reflexivity.
Qed.

(* (2) SPModel's response-level check against the middleware's list: the
   InResponseTo is the request ID of a flow this middleware started, whose
   authentic live tracking cookie is in the jar under its own name *)
Theorem outstanding_is_own_flow cfg t0 hist (sc : SPModel.spcfg) j (resp : SPModel.response) :
  let m := run (init cfg t0) hist in
  m_allow_idp cfg = false -> SPModel.allow_idp_init sc = false -> SPModel.custom_reqid sc = None ->
  jar_ok m j ->
  SPModel.reqid_ok_r sc (mw_possible_ids m j) resp = true ->
  exists f, In f (mw_flows m) /\ SPModel.r_irt resp = fl_req_id f
            /\ In (m_prefix cfg +++ fl_index f, fl_cookie f) j
            /\ fl_cookie f = WToken (mint_tracking (m_arr cfg) (m_tcodec cfg) (fl_start f) (flow_tracked f))
            /\ fl_start f <= mw_clock m
            /\ mw_clock m < sec (fl_start f + c_max_age (m_tcodec cfg)) * tk_ns_per_s.
Proof.
  intros m Hidp Hsi Hsc Hj H.
  assert (Hcfg : mw_cfg m = cfg) by (unfold m; rewrite run_cfg; reflexivity).
  assert (Hok : flows_ok m) by (apply run_flows_ok, init_flows_ok).
  unfold SPModel.reqid_ok_r in H. rewrite Hsc, Hsi in H. simpl in H. apply mem_str_in in H.
  apply possible_ids_decode in H. rewrite Hcfg in H. destruct H as [[Ha _]|(n & w & tr & Hnw & Hd & -> & Hx)]; [congruence|].
  rewrite <- Hcfg in Hd.
  destruct (decode_ok_is_flow m (mw_clock m) w tr Hok (Hj _ _ Hnw) Hd) as (f & Hf & -> & -> & Hl).
  rewrite Hcfg in *. exists f. repeat split; try assumption.
  - rewrite <- Hcfg. apply (Hok f Hf).
  - apply (Hok f Hf).
  - apply flow_live_iff in Hl. apply Hl.
Qed.

(* the same for the subject confirmations of the returned assertion (reqid_ok_a) *)
Theorem confirmations_are_own_flows cfg t0 hist (sc : SPModel.spcfg) j (a : SPModel.assertion) nid confs :
  let m := run (init cfg t0) hist in
  m_allow_idp cfg = false -> SPModel.allow_idp_init sc = false -> jar_ok m j ->
  SPModel.a_subject a = Some (nid, confs) ->
  SPModel.reqid_ok_a sc (mw_possible_ids m j) a = true ->
  forall c, In c confs ->
    exists f, In f (mw_flows m) /\ SPModel.sc_irt c = fl_req_id f
              /\ In (m_prefix cfg +++ fl_index f, fl_cookie f) j
              /\ flow_live cfg (mw_clock m) f = true.
Proof.
  intros m Hidp Hsi Hj Hs H c Hc.
  assert (Hcfg : mw_cfg m = cfg) by (unfold m; rewrite run_cfg; reflexivity).
  assert (Hok : flows_ok m) by (apply run_flows_ok, init_flows_ok).
  unfold SPModel.reqid_ok_a in H. rewrite Hsi, Hs in H. simpl in H.
  rewrite forallb_forall in H. specialize (H c Hc). apply mem_str_in in H.
  apply possible_ids_decode in H. rewrite Hcfg in H. destruct H as [[Ha _]|(n & w & tr & Hnw & Hd & -> & Hx)]; [congruence|].
  rewrite <- Hcfg in Hd.
  destruct (decode_ok_is_flow m (mw_clock m) w tr Hok (Hj _ _ Hnw) Hd) as (f & Hf & -> & -> & Hl).
  rewrite Hcfg in *. exists f. repeat split; assumption.
Qed.

(* non-vacuity: three pending flows, full jar: the list is the three request IDs *)
Example ex_possible_ids : mw_possible_ids ex_m ex_full_jar = ["id-C"; "id-B"; "id-A"].
Proof. vm_compute. reflexivity. Qed.
