(* ConcurrencyProofs.v — soundness of the lock discipline (C20):
   discipline_ok p eps = true  ->  for every number of threads, every
   assignment of entry-point sequences and every schedule, the reachable
   states are race free and deadlock free. *)
From Saml Require Import Base Concurrency.
Local Open Scope list_scope.

(* ---------- small facts ---------- *)
Lemma mutex_eqb_eq a b : mutex_eqb a b = true <-> a = b.
Proof. destruct a, b; cbn; split; congruence. Qed.

Lemma hget_hset_same h m v : hget (hset h m v) m = v.
Proof. destruct m; reflexivity. Qed.
Lemma hget_hset_diff h m m' v : m' <> m -> hget (hset h m v) m' = hget h m'.
Proof. destruct m, m'; cbn; congruence. Qed.
Lemma held_ext a b : (forall m, hget a m = hget b m) -> a = b.
Proof.
  intros E. destruct a as [a1 a2], b as [b1 b2].
  pose proof (E IdpConfigMu) as E1. pose proof (E Mu) as E2. cbn in E1, E2. congruence.
Qed.
Lemma held_eqb_eq a b : held_eqb a b = true -> a = b.
Proof.
  destruct a as [a1 a2], b as [b1 b2]. unfold held_eqb; cbn. intros E.
  apply andb_true_iff in E as [E1 E2].
  assert (forall x y : option bool,
             match x, y with None, None => true | Some p, Some q => Bool.eqb p q | _, _ => false end = true -> x = y) as K.
  { intros [[|]|] [[|]|]; cbn; congruence. }
  apply K in E1. apply K in E2. congruence.
Qed.

Lemma memn_In t l : memn t l = true <-> In t l.
Proof.
  induction l as [|x r IH]; cbn; [split; [discriminate|tauto]|].
  rewrite orb_true_iff, IH, Nat.eqb_eq. split; intros [E|E]; auto.
Qed.
Lemma memn_false t l : memn t l = false <-> ~ In t l.
Proof. rewrite <- memn_In. destruct (memn t l); split; congruence. Qed.

Lemma remove1_In_other t x l : x <> t -> (In x (remove1 t l) <-> In x l).
Proof.
  intros N. induction l as [|y r IH]; cbn; [tauto|].
  destruct (Nat.eqb_spec t y) as [->|D]; cbn; [|rewrite IH]; intuition congruence.
Qed.
Lemma remove1_NoDup t l : NoDup l -> NoDup (remove1 t l) /\ ~ In t (remove1 t l).
Proof.
  induction l as [|y r IH]; cbn; intros ND; [split; [constructor|tauto]|].
  inversion ND as [|? ? Hn ND']; subst.
  destruct (Nat.eqb_spec t y) as [->|D]; [split; assumption|].
  destruct (IH ND') as [A B]. split.
  - constructor; [|exact A]. intros C. apply Hn. apply (remove1_In_other t y r); congruence.
  - cbn. intros [C|C]; [congruence|tauto].
Qed.
Lemma removeall_In t x l : In x (removeall t l) <-> In x l /\ x <> t.
Proof.
  induction l as [|y r IH]; cbn; [tauto|].
  destruct (Nat.eqb_spec t y) as [->|D]; cbn; rewrite IH; intuition congruence.
Qed.

Lemma nth_error_set_nth_same {A} n (x : A) l : (n < List.length l)%nat -> nth_error (set_nth n x l) n = Some x.
Proof. revert n; induction l as [|y r IH]; intros [|n] Hn; cbn in *; try lia; [reflexivity|apply IH; lia]. Qed.
Lemma nth_error_set_nth_diff {A} n k (x : A) l : n <> k -> nth_error (set_nth n x l) k = nth_error l k.
Proof. revert n k; induction l as [|y r IH]; intros [|n] [|k] D; cbn; try congruence; try reflexivity. apply IH; congruence. Qed.
Lemma set_nth_length {A} n (x : A) l : List.length (set_nth n x l) = List.length l.
Proof. revert n; induction l as [|y r IH]; intros [|n]; cbn; try reflexivity. now rewrite IH. Qed.

(* ---------- what a thread holds, read off the lock state ---------- *)
Definition holds (L : lockst) (t : nat) : option bool :=
  match writer L with
  | Some t' => if Nat.eqb t t' then Some true else None
  | None => if memn t (readers L) then Some false else None
  end.
Definition held_of (st : cstate) (t : nat) : held :=
  {| h_cfg := holds (l_cfg st) t; h_mu := holds (l_mu st) t |}.
Lemma hget_held_of st t m : hget (held_of st t) m = holds (lk st m) t.
Proof. destruct m; reflexivity. Qed.

Record lock_wf (st : cstate) (m : mutex) : Prop := {
  wf_excl : forall t, writer (lk st m) = Some t -> readers (lk st m) = [];
  wf_nodup : NoDup (readers (lk st m));
  wf_wait : forall t, In t (waiting (lk st m)) -> next_act st t = Some (Acq m true);
  wf_valid : forall t, holds (lk st m) t <> None -> (t < List.length (code st))%nat
}.

Record Inv (st : cstate) : Prop := {
  inv_code : forall t c, nth_error (code st) t = Some c -> run_flat c (held_of st t) = Some hempty;
  inv_lock : forall m, lock_wf st m
}.

Lemma lk_set_lk_same st m v : lk (set_lk st m v) m = v.
Proof. destruct m; reflexivity. Qed.
Lemma lk_set_lk_diff st m m' v : m' <> m -> lk (set_lk st m v) m' = lk st m'.
Proof. destruct m, m'; cbn; congruence. Qed.
Lemma code_set_lk st m v : code (set_lk st m v) = code st.
Proof. destruct m; reflexivity. Qed.
Lemma lk_set_code st t c m : lk (set_code st t c) m = lk st m.
Proof. destruct m; reflexivity. Qed.
Lemma code_set_code st t c : code (set_code st t c) = set_nth t c (code st).
Proof. reflexivity. Qed.

Lemma next_act_set_code_diff st t c t' : t <> t' -> next_act (set_code st t c) t' = next_act st t'.
Proof. intros D. unfold next_act. rewrite code_set_code, nth_error_set_nth_diff by exact D. reflexivity. Qed.
Lemma next_act_set_lk st m v t : next_act (set_lk st m v) t = next_act st t.
Proof. unfold next_act. now rewrite code_set_lk. Qed.

(* ---------- one step preserves the invariant ---------- *)
(* a generic re-establishment lemma: the stepping thread t replaces its code by
   [rest] and one mutex m changes to L'; what must be checked is local *)
Lemma inv_step_generic st t a rest m L' h' :
  Inv st ->
  nth_error (code st) t = Some (a :: rest) ->
  step_flat a (held_of st t) = Some h' ->
  (* the stepping thread now holds h' *)
  holds L' t = hget h' m ->
  (forall m', m' <> m -> hget h' m' = hget (held_of st t) m') ->
  (* nobody else's holdings change *)
  (forall t', t' <> t -> holds L' t' = holds (lk st m) t') ->
  (* the lock stays well formed *)
  (forall x, writer L' = Some x -> readers L' = []) ->
  NoDup (readers L') ->
  (forall x, In x (waiting L') -> In x (waiting (lk st m)) /\ x <> t) ->
  (forall m' x, m' <> m -> In x (waiting (lk st m')) -> x <> t) ->
  Inv (set_code (set_lk st m L') t rest).
Proof.
  intros I Hc Hs Hh Hoth Hpres Wex Wnd Wwait Wwait'.
  assert (Ht : (t < List.length (code st))%nat) by (apply nth_error_Some; congruence).
  pose proof (inv_code st I t _ Hc) as Hrun. cbn [run_flat] in Hrun. rewrite Hs in Hrun.
  assert (Hheld_t : held_of (set_code (set_lk st m L') t rest) t = h').
  { apply held_ext. intros m'. rewrite hget_held_of, lk_set_code.
    destruct (mutex_eqb m' m) eqn:E.
    - apply mutex_eqb_eq in E; subst m'. now rewrite lk_set_lk_same.
    - assert (m' <> m) as D by (intros ->; destruct m; discriminate).
      rewrite lk_set_lk_diff by exact D. rewrite Hoth by exact D. now rewrite hget_held_of. }
  assert (Hheld_o : forall t', t' <> t -> held_of (set_code (set_lk st m L') t rest) t' = held_of st t').
  { intros t' D. apply held_ext. intros m'. rewrite !hget_held_of, lk_set_code.
    destruct (mutex_eqb m' m) eqn:E.
    - apply mutex_eqb_eq in E; subst m'. rewrite lk_set_lk_same. now apply Hpres.
    - assert (m' <> m) as D' by (intros ->; destruct m; discriminate).
      now rewrite lk_set_lk_diff by exact D'. }
  constructor.
  - intros t' c Hn. rewrite code_set_code, code_set_lk in Hn.
    destruct (Nat.eq_dec t t') as [<-|D].
    + rewrite nth_error_set_nth_same in Hn by exact Ht. injection Hn as <-. now rewrite Hheld_t.
    + rewrite nth_error_set_nth_diff in Hn by exact D. rewrite Hheld_o by congruence.
      now apply (inv_code st I).
  - intros m'. pose proof (inv_lock st I m') as W.
    destruct (mutex_eqb m' m) eqn:E.
    + apply mutex_eqb_eq in E; subst m'. constructor; rewrite ?lk_set_code, ?lk_set_lk_same.
      * exact Wex.
      * exact Wnd.
      * intros x Hx. destruct (Wwait x Hx) as [Hx' Dx].
        rewrite next_act_set_code_diff by congruence. rewrite next_act_set_lk. now apply (wf_wait st m W).
      * intros x Hx. rewrite code_set_code, code_set_lk, set_nth_length.
        destruct (Nat.eq_dec x t) as [->|Dx]; [exact Ht|].
        apply (wf_valid st m W). now rewrite <- Hpres by exact Dx.
    + assert (m' <> m) as D' by (intros ->; destruct m; discriminate).
      constructor; rewrite ?lk_set_code, ?lk_set_lk_diff by exact D'.
      * apply (wf_excl st m' W).
      * apply (wf_nodup st m' W).
      * intros x Hx. pose proof (Wwait' m' x D' Hx) as Dx.
        rewrite next_act_set_code_diff by congruence. rewrite next_act_set_lk. now apply (wf_wait st m' W).
      * intros x Hx. rewrite code_set_code, code_set_lk, set_nth_length. now apply (wf_valid st m' W).
Qed.

Lemma next_act_of st t a rest : nth_error (code st) t = Some (a :: rest) -> next_act st t = Some a.
Proof. intros E. unfold next_act. now rewrite E. Qed.

(* waiting threads of another mutex are not the stepping thread unless it stands at that Acq *)
Lemma waiting_other st t a rest m :
  Inv st -> nth_error (code st) t = Some (a :: rest) ->
  (forall m', a <> Acq m' true) \/ (exists w, a = Acq m w) ->
  forall m' x, m' <> m -> In x (waiting (lk st m')) -> x <> t.
Proof.
  intros I Hc Ha m' x D Hx ->.
  pose proof (wf_wait st m' (inv_lock st I m') t Hx) as Hn.
  rewrite (next_act_of st t a rest Hc) in Hn. injection Hn as ->.
  destruct Ha as [Ha|[w Ha]]; [now apply (Ha m')|]. injection Ha as -> _. congruence.
Qed.

Lemma tstep_inv st t st' : Inv st -> tstep st t = Some st' -> Inv st'.
Proof.
  intros I Hst. unfold tstep in Hst.
  destruct (nth_error (code st) t) as [[|a rest]|] eqn:Hc; try discriminate.
  pose proof (inv_code st I t _ Hc) as Hrun. cbn [run_flat] in Hrun.
  destruct (step_flat a (held_of st t)) as [h'|] eqn:Hs; [|discriminate].
  pose proof (inv_lock st I) as W. pose proof Hs as Hs0.
  destruct a as [m [|]|m [|]|l|l|f|why]; try discriminate.
  - (* Lock *)
    cbn [step_flat] in Hs. rewrite hget_held_of in Hs.
    destruct (holds (lk st m) t) eqn:Hh; [discriminate|].
    destruct (order_ok (held_of st t) m); [|discriminate]. injection Hs as <-.
    destruct (is_free (lk st m)) eqn:Hf.
    + injection Hst as <-. unfold is_free in Hf.
      destruct (writer (lk st m)) eqn:Hw; [discriminate|]. destruct (readers (lk st m)) eqn:Hr; [|discriminate].
      eapply inv_step_generic; try eassumption.
      * rewrite hget_hset_same. unfold holds; cbn. now rewrite Nat.eqb_refl.
      * intros m' D. now rewrite hget_hset_diff.
      * intros t' D. unfold holds; cbn. rewrite Hw, Hr; cbn.
        destruct (Nat.eqb_spec t' t); [congruence|reflexivity].
      * reflexivity.
      * constructor.
      * cbn. intros x Hx. apply removeall_In in Hx. tauto.
      * eapply waiting_other; try eassumption. right; eauto.
    + destruct (memn t (waiting (lk st m))) eqn:Hm; [discriminate|]. injection Hst as <-.
      (* announce: only the waiting list grows *)
      constructor.
      * intros t' c Hn. rewrite code_set_lk in Hn.
        replace (held_of (set_lk st m _) t') with (held_of st t'); [now apply (inv_code st I)|].
        apply held_ext. intros m'. rewrite !hget_held_of.
        destruct (mutex_eqb m' m) eqn:E.
        -- apply mutex_eqb_eq in E; subst m'. now rewrite lk_set_lk_same.
        -- assert (m' <> m) as D' by (intros ->; destruct m; discriminate). now rewrite lk_set_lk_diff.
      * intros m'. destruct (mutex_eqb m' m) eqn:E.
        -- apply mutex_eqb_eq in E; subst m'.
           constructor; rewrite ?lk_set_lk_same; cbn.
           ++ apply (wf_excl st m (W m)).
           ++ apply (wf_nodup st m (W m)).
           ++ intros x [<-|Hx]; rewrite next_act_set_lk; [now apply (next_act_of st t _ rest)|now apply (wf_wait st m (W m))].
           ++ intros x Hx. rewrite code_set_lk. now apply (wf_valid st m (W m)).
        -- assert (m' <> m) as D' by (intros ->; destruct m; discriminate).
           constructor; rewrite ?lk_set_lk_diff by exact D'.
           ++ apply (wf_excl st m' (W m')).
           ++ apply (wf_nodup st m' (W m')).
           ++ intros x Hx. rewrite next_act_set_lk. now apply (wf_wait st m' (W m')).
           ++ intros x Hx. rewrite code_set_lk. now apply (wf_valid st m' (W m')).
  - (* RLock *)
    cbn [step_flat] in Hs. rewrite hget_held_of in Hs.
    destruct (holds (lk st m) t) eqn:Hh; [discriminate|].
    destruct (order_ok (held_of st t) m) eqn:O; [|discriminate]. injection Hs as <-.
    destruct (writer (lk st m)) eqn:Hw; [discriminate|]. destruct (waiting (lk st m)) eqn:Hwt; [|discriminate].
    injection Hst as <-.
    assert (Hnr : memn t (readers (lk st m)) = false).
    { unfold holds in Hh. rewrite Hw in Hh. destruct (memn t (readers (lk st m))); [discriminate|reflexivity]. }
    eapply inv_step_generic; try eassumption.
    + rewrite hget_hset_same. unfold holds; cbn. now rewrite Nat.eqb_refl.
    + intros m' D. now rewrite hget_hset_diff.
    + intros t' D. unfold holds; cbn. rewrite Hw. destruct (Nat.eqb_spec t' t); [congruence|reflexivity].
    + cbn. discriminate.
    + cbn. constructor; [now apply memn_false|apply (wf_nodup st m (W m))].
    + cbn. tauto.
    + eapply waiting_other; try eassumption. right; eauto.
  - (* Unlock *)
    cbn [step_flat] in Hs. rewrite hget_held_of in Hs.
    destruct (holds (lk st m) t) as [w'|] eqn:Hh; [|discriminate].
    destruct w'; cbn [step_flat] in Hs; [|discriminate]. injection Hs as <-.
    destruct (writer (lk st m)) as [t'|] eqn:Hw; [|discriminate].
    destruct (Nat.eqb_spec t t') as [<-|]; [|discriminate]. injection Hst as <-.
    pose proof (wf_excl st m (W m) t Hw) as Hr.
    eapply inv_step_generic; try eassumption.
    + rewrite hget_hset_same. unfold holds; cbn. now rewrite Hr.
    + intros m' D. now rewrite hget_hset_diff.
    + intros x D. unfold holds; cbn. rewrite Hw, Hr. cbn. destruct (Nat.eqb_spec x t); [congruence|reflexivity].
    + cbn. discriminate.
    + cbn. apply (wf_nodup st m (W m)).
    + cbn. intros x Hx. split; [exact Hx|]. intros ->.
      pose proof (wf_wait st m (W m) t Hx) as Hn. rewrite (next_act_of st t _ rest Hc) in Hn. discriminate.
    + eapply waiting_other; try eassumption. left. intros m'. discriminate.
  - (* RUnlock *)
    cbn [step_flat] in Hs. rewrite hget_held_of in Hs.
    destruct (holds (lk st m) t) as [w'|] eqn:Hh; [|discriminate].
    destruct w'; cbn [step_flat] in Hs; [discriminate|]. injection Hs as <-.
    destruct (memn t (readers (lk st m))) eqn:Hm; [|discriminate]. injection Hst as <-.
    assert (Hw : writer (lk st m) = None).
    { unfold holds in Hh. destruct (writer (lk st m)); [|reflexivity]. destruct (Nat.eqb t n); discriminate. }
    destruct (remove1_NoDup t _ (wf_nodup st m (W m))) as [ND Hnot].
    eapply inv_step_generic; try eassumption.
    + rewrite hget_hset_same. unfold holds; cbn. rewrite Hw.
      apply memn_false in Hnot. now rewrite Hnot.
    + intros m' D. now rewrite hget_hset_diff.
    + intros x D. unfold holds; cbn. rewrite Hw.
      destruct (memn x (remove1 t (readers (lk st m)))) eqn:A, (memn x (readers (lk st m))) eqn:B; try reflexivity.
      * apply memn_In in A. apply remove1_In_other in A; [|exact D]. apply memn_In in A. congruence.
      * apply memn_In in B. apply (remove1_In_other t x) in B; [|exact D]. apply memn_In in B. congruence.
    + cbn. rewrite Hw. discriminate.
    + cbn. intros x Hx. split; [exact Hx|]. intros ->.
      pose proof (wf_wait st m (W m) t Hx) as Hn. rewrite (next_act_of st t _ rest Hc) in Hn. discriminate.
    + eapply waiting_other; try eassumption. left. intros m'. discriminate.
  - (* Rd *)
    injection Hst as <-. cbn [step_flat] in Hs. destruct (hget (held_of st t) (guard l)) eqn:G; [|discriminate]. injection Hs as <-.
    replace (set_code st t rest) with (set_code (set_lk st Mu (lk st Mu)) t rest) by (destruct st; reflexivity).
    eapply inv_step_generic with (m := Mu); try eassumption.
    + now rewrite hget_held_of.
    + reflexivity.
    + reflexivity.
    + apply (wf_excl st Mu (W Mu)).
    + apply (wf_nodup st Mu (W Mu)).
    + intros x Hx. split; [exact Hx|]. intros ->.
      pose proof (wf_wait st Mu (W Mu) t Hx) as Hn. rewrite (next_act_of st t _ rest Hc) in Hn. discriminate.
    + eapply waiting_other; try eassumption. left. intros m'. discriminate.
  - (* Wr *)
    injection Hst as <-. cbn [step_flat] in Hs. destruct (hget (held_of st t) (guard l)) as [[|]|] eqn:G; try discriminate. injection Hs as <-.
    replace (set_code st t rest) with (set_code (set_lk st Mu (lk st Mu)) t rest) by (destruct st; reflexivity).
    eapply inv_step_generic with (m := Mu); try eassumption.
    + now rewrite hget_held_of.
    + reflexivity.
    + reflexivity.
    + apply (wf_excl st Mu (W Mu)).
    + apply (wf_nodup st Mu (W Mu)).
    + intros x Hx. split; [exact Hx|]. intros ->.
      pose proof (wf_wait st Mu (W Mu) t Hx) as Hn. rewrite (next_act_of st t _ rest Hc) in Hn. discriminate.
    + eapply waiting_other; try eassumption. left. intros m'. discriminate.
Qed.

Lemma run_inv st sched : Inv st -> Inv (run st sched).
Proof.
  revert st; induction sched as [|t r IH]; intros st I; cbn; [exact I|].
  apply IH. destruct (tstep st t) eqn:E; [eapply tstep_inv; eassumption|exact I].
Qed.

(* ---------- race freedom ---------- *)
Lemma inv_race_free st : Inv st -> race_free st.
Proof.
  intros I t1 t2 l (D & H1 & H2).
  assert (forall t a, next_act st t = Some a -> exists h, step_flat a (held_of st t) = Some h) as K.
  { intros t a Hn. unfold next_act in Hn.
    destruct (nth_error (code st) t) as [[|a' rest]|] eqn:Hc; try discriminate. injection Hn as ->.
    pose proof (inv_code st I t _ Hc) as Hrun. cbn in Hrun.
    destruct (step_flat a (held_of st t)); [eauto|discriminate]. }
  destruct (K _ _ H1) as [h1 S1]. cbn [step_flat] in S1. rewrite hget_held_of in S1.
  assert (writer (lk st (guard l)) = Some t1) as Hw.
  { unfold holds in S1. destruct (writer (lk st (guard l))) as [t'|].
    - destruct (Nat.eqb_spec t1 t'); [congruence|discriminate].
    - destruct (memn t1 (readers (lk st (guard l)))); discriminate. }
  assert (holds (lk st (guard l)) t2 <> None) as Hh2.
  { destruct H2 as [H2|H2]; destruct (K _ _ H2) as [h2 S2]; cbn [step_flat] in S2; rewrite hget_held_of in S2;
      destruct (holds (lk st (guard l)) t2) as [[|]|]; congruence. }
  apply Hh2. unfold holds. rewrite Hw. destruct (Nat.eqb_spec t2 t1); [congruence|reflexivity].
Qed.

(* conflicting critical sections exclude each other: whoever holds a mutex
   exclusively is its only holder *)
Lemma inv_exclusive st m t1 t2 :
  Inv st -> hget (held_of st t1) m = Some true -> t1 <> t2 -> hget (held_of st t2) m = None.
Proof.
  intros I H1 D. rewrite hget_held_of in *. unfold holds in *.
  destruct (writer (lk st m)) as [t'|] eqn:Hw.
  - destruct (Nat.eqb_spec t1 t'); [subst t'|discriminate]. destruct (Nat.eqb_spec t2 t1); [congruence|reflexivity].
  - destruct (memn t1 (readers (lk st m))); discriminate.
Qed.

(* ---------- deadlock freedom ---------- *)
Lemma holder_unfinished st m t :
  Inv st -> holds (lk st m) t <> None ->
  exists a rest h', nth_error (code st) t = Some (a :: rest) /\ step_flat a (held_of st t) = Some h'.
Proof.
  intros I Hh. pose proof (wf_valid st m (inv_lock st I m) t Hh) as Ht.
  destruct (nth_error (code st) t) as [c|] eqn:Hc; [|apply nth_error_None in Hc; lia].
  pose proof (inv_code st I t _ Hc) as Hrun. destruct c as [|a rest].
  - cbn [run_flat] in Hrun. assert (held_of st t = hempty) as E by congruence.
    exfalso. apply Hh. rewrite <- hget_held_of. rewrite E. destruct m; reflexivity.
  - cbn [run_flat] in Hrun. destruct (step_flat a (held_of st t)) eqn:S; [eauto 6|discriminate].
Qed.

(* an act other than a lock acquisition that the discipline accepts can be executed *)
Lemma non_acq_steps st t a rest h' :
  Inv st -> nth_error (code st) t = Some (a :: rest) -> step_flat a (held_of st t) = Some h' ->
  (forall m w, a <> Acq m w) -> tstep st t <> None.
Proof.
  intros I Hc Hs Ha. unfold tstep. rewrite Hc.
  destruct a as [m w|m [|]|l|l|f|why]; try discriminate.
  - exfalso. now apply (Ha m w).
  - cbn [step_flat] in Hs. rewrite hget_held_of in Hs. unfold holds in Hs.
    destruct (writer (lk st m)) as [t'|].
    + destruct (Nat.eqb_spec t t'); [discriminate|discriminate].
    + destruct (memn t (readers (lk st m))); [|discriminate]. cbn [step_flat] in Hs. discriminate.
  - cbn [step_flat] in Hs. rewrite hget_held_of in Hs. unfold holds in Hs.
    destruct (writer (lk st m)) as [t'|].
    + destruct (Nat.eqb_spec t t'); cbn [step_flat] in Hs; discriminate.
    + destruct (memn t (readers (lk st m))); discriminate.
Qed.

Lemma rank_cases m m' : rank m' <? rank m = true -> m' = IdpConfigMu /\ m = Mu.
Proof. destruct m, m'; cbn; try discriminate; auto. Qed.

(* whoever holds Mu stands at something other than an acquisition *)
Lemma mu_holder_steps st t : Inv st -> holds (lk st Mu) t <> None -> tstep st t <> None.
Proof.
  intros I Hh. destruct (holder_unfinished st Mu t I Hh) as (a & rest & h' & Hc & Hs).
  eapply non_acq_steps; try eassumption. intros m w ->.
  cbn [step_flat] in Hs. destruct (hget (held_of st t) m) eqn:G; [discriminate|].
  destruct (order_ok (held_of st t) m) eqn:O; [|discriminate].
  unfold order_ok, all_mutexes in O. cbn [forallb] in O. rewrite !andb_true_iff in O. destruct O as (_ & O & _).
  rewrite (hget_held_of st t Mu) in O. destruct (holds (lk st Mu) t) eqn:E; [|congruence].
  apply rank_cases in O as [O _]. discriminate.
Qed.

Lemma acq_progress st t m w rest :
  Inv st -> nth_error (code st) t = Some (Acq m w :: rest) ->
  (forall t', holds (lk st m) t' <> None -> exists t'', tstep st t'' <> None) ->
  exists t'', tstep st t'' <> None.
Proof.
  intros I Hc Hold.
  destruct (writer (lk st m)) as [tw|] eqn:Hw.
  { apply (Hold tw). unfold holds. rewrite Hw, Nat.eqb_refl. discriminate. }
  destruct (readers (lk st m)) as [|tr rr] eqn:Hr.
  2:{ apply (Hold tr). unfold holds. rewrite Hw, Hr. cbn. rewrite Nat.eqb_refl. discriminate. }
  (* the mutex is free *)
  destruct w.
  - exists t. unfold tstep. rewrite Hc. unfold is_free. rewrite Hw, Hr. discriminate.
  - destruct (waiting (lk st m)) as [|tw rw] eqn:Hwt.
    + exists t. unfold tstep. rewrite Hc. cbn. rewrite Hw, Hwt. discriminate.
    + (* a writer is waiting although the mutex is free: it can take it *)
      pose proof (wf_wait st m (inv_lock st I m) tw) as Hn. rewrite Hwt in Hn. specialize (Hn (or_introl eq_refl)).
      unfold next_act in Hn. destruct (nth_error (code st) tw) as [[|a' r']|] eqn:Hc'; try discriminate. injection Hn as ->.
      exists tw. unfold tstep. rewrite Hc'. unfold is_free. rewrite Hw, Hr. discriminate.
Qed.

Lemma inv_deadlock_free st : Inv st -> deadlock_free st.
Proof.
  intros I [t0 (a0 & r0 & Hc0)].
  assert (Mu_ok : forall t rest w, nth_error (code st) t = Some (Acq Mu w :: rest) -> exists t'', tstep st t'' <> None).
  { intros t rest w Hc. eapply acq_progress; try eassumption. intros t' Hh. exists t'. now apply mu_holder_steps. }
  assert (Cfg_holder : forall t', holds (lk st IdpConfigMu) t' <> None -> exists t'', tstep st t'' <> None).
  { intros t' Hh. destruct (holder_unfinished st IdpConfigMu t' I Hh) as (a & rest & h' & Hc & Hs).
    destruct a as [m w|m w|l|l|f|why]; try (cbn [step_flat] in Hs; discriminate).
    - destruct m.
      + exfalso. cbn [step_flat] in Hs. rewrite (hget_held_of st t' IdpConfigMu) in Hs.
        destruct (holds (lk st IdpConfigMu) t'); [discriminate|congruence].
      + eapply Mu_ok; eassumption.
    - exists t'. eapply non_acq_steps; try eassumption. intros; discriminate.
    - exists t'. eapply non_acq_steps; try eassumption. intros; discriminate.
    - exists t'. eapply non_acq_steps; try eassumption. intros; discriminate. }
  pose proof (inv_code st I t0 _ Hc0) as Hrun. cbn in Hrun.
  destruct (step_flat a0 (held_of st t0)) as [h'|] eqn:Hs; [|discriminate].
  destruct a0 as [m w|m w|l|l|f|why]; try (cbn [step_flat] in Hs; discriminate).
  - destruct m.
    + eapply acq_progress; try eassumption.
    + eapply Mu_ok; eassumption.
  - exists t0. eapply non_acq_steps; try eassumption. intros; discriminate.
  - exists t0. eapply non_acq_steps; try eassumption. intros; discriminate.
  - exists t0. eapply non_acq_steps; try eassumption. intros; discriminate.
Qed.

(* ---------- from the checker to the initial invariant ---------- *)
Lemma run_flat_app a b h : run_flat (a ++ b) h = match run_flat a h with Some h' => run_flat b h' | None => None end.
Proof. revert h; induction a as [|x a IH]; intros h; cbn; [reflexivity|]. destruct (step_flat x h); [apply IH|reflexivity]. Qed.

Lemma check_flat_run l : check_flat l = true -> run_flat l hempty = Some hempty.
Proof. unfold check_flat. destruct (run_flat l hempty) as [h|]; [|discriminate]. intros E. apply held_eqb_eq in E. now subst. Qed.

Lemma discipline_entry p eps f :
  discipline_ok p eps = true -> In f eps -> exists l, expand p f = Some l /\ run_flat l hempty = Some hempty.
Proof.
  unfold discipline_ok. intros D Hf. apply andb_true_iff in D as [_ D].
  rewrite forallb_forall in D. specialize (D f Hf). unfold entry_ok in D.
  destruct (expand p f) as [l|]; [|discriminate]. exists l. split; [reflexivity|now apply check_flat_run].
Qed.

Lemma expand_seq_ok p eps invs c :
  discipline_ok p eps = true -> (forall f, In f invs -> In f eps) ->
  expand_seq p invs = Some c -> run_flat c hempty = Some hempty.
Proof.
  intros D. revert c; induction invs as [|f r IH]; intros c Hin E; cbn [expand_seq] in E.
  - injection E as <-. reflexivity.
  - destruct (expand p f) as [a|] eqn:Ea; [|discriminate]. destruct (expand_seq p r) as [b|] eqn:Eb; [|discriminate].
    injection E as <-. rewrite run_flat_app.
    destruct (discipline_entry p eps f D (Hin f (or_introl eq_refl))) as (l & El & Rl). rewrite Ea in El. injection El as <-.
    rewrite Rl. apply IH; [|reflexivity]. intros g Hg. apply Hin. now right.
Qed.

Lemma expand_threads_ok p eps ts codes :
  discipline_ok p eps = true -> (forall invs f, In invs ts -> In f invs -> In f eps) ->
  expand_threads p ts = Some codes -> forall c, In c codes -> run_flat c hempty = Some hempty.
Proof.
  intros D. revert codes; induction ts as [|t r IH]; intros codes Hin E c Hc; cbn [expand_threads] in E.
  - injection E as <-. destruct Hc.
  - destruct (expand_seq p t) as [a|] eqn:Ea; [|discriminate]. destruct (expand_threads p r) as [b|] eqn:Eb; [|discriminate].
    injection E as <-. destruct Hc as [<-|Hc].
    + eapply expand_seq_ok; try eassumption. intros f Hf. eapply Hin; [left; reflexivity|exact Hf].
    + eapply IH; try eassumption; [|reflexivity]. intros invs f Hi Hf. eapply Hin; [right; exact Hi|exact Hf].
Qed.

Lemma init_inv codes : (forall c, In c codes -> run_flat c hempty = Some hempty) -> Inv (init codes).
Proof.
  intros Hok. constructor.
  - intros t c Hn. replace (held_of (init codes) t) with hempty by reflexivity.
    apply Hok. eapply nth_error_In; eassumption.
  - intros m. constructor; destruct m; cbn; try discriminate; try constructor; try tauto;
      intros t Hh; exfalso; apply Hh; reflexivity.
Qed.

(* ---------- the soundness theorem ---------- *)
Theorem discipline_sound_l :
  forall p eps, discipline_ok p eps = true ->
  forall (ts : list (list fname)) codes,
    (forall invs f, In invs ts -> In f invs -> In f eps) ->
    expand_threads p ts = Some codes ->
    forall sched, race_free (run (init codes) sched) /\ deadlock_free (run (init codes) sched).
Proof.
  intros p eps D ts codes Hin E sched.
  assert (Inv (run (init codes) sched)) as I.
  { apply run_inv, init_inv. eapply expand_threads_ok; eassumption. }
  split; [now apply inv_race_free|now apply inv_deadlock_free].
Qed.

(* start-up code accepted by [startup_ok] never blocks on itself: run by any number
   of threads (one, for samlidp.New) under any schedule, some thread can always step
   until all are finished *)
Theorem startup_sound_l :
  forall p starts, startup_ok p starts = true ->
  forall (ts : list (list fname)) codes,
    (forall invs f, In invs ts -> In f invs -> In f starts) ->
    expand_threads (strip_program p) ts = Some codes ->
    forall sched, deadlock_free (run (init codes) sched).
Proof. intros p starts D ts codes Hin E sched. now destruct (discipline_sound_l _ _ D ts codes Hin E sched). Qed.

(* every access to a guarded location in a reachable state is made by a thread
   that holds the guard (exclusively for writes), and an exclusive holder is the
   only holder: conflicting critical sections never overlap, which is what makes
   each store operation atomic with respect to the others *)
Theorem critical_sections_exclusive_l :
  forall p eps, discipline_ok p eps = true ->
  forall ts codes,
    (forall invs f, In invs ts -> In f invs -> In f eps) ->
    expand_threads p ts = Some codes ->
    forall sched, let st := run (init codes) sched in
      (forall t l, next_act st t = Some (Rd l) -> hget (held_of st t) (guard l) <> None) /\
      (forall t l, next_act st t = Some (Wr l) -> hget (held_of st t) (guard l) = Some true) /\
      (forall m t1 t2, hget (held_of st t1) m = Some true -> t1 <> t2 -> hget (held_of st t2) m = None).
Proof.
  intros p eps D ts codes Hin E sched st.
  assert (Inv st) as I. { apply run_inv, init_inv. eapply expand_threads_ok; eassumption. }
  assert (forall t a, next_act st t = Some a -> exists h, step_flat a (held_of st t) = Some h) as K.
  { intros t a Hn. unfold next_act in Hn.
    destruct (nth_error (code st) t) as [[|a' rest]|] eqn:Hc; try discriminate. injection Hn as ->.
    pose proof (inv_code st I t _ Hc) as Hrun. cbn in Hrun.
    destruct (step_flat a (held_of st t)); [eauto|discriminate]. }
  repeat split.
  - intros t l Hn. destruct (K _ _ Hn) as [h S]. cbn [step_flat] in S. destruct (hget (held_of st t) (guard l)); [discriminate|discriminate].
  - intros t l Hn. destruct (K _ _ Hn) as [h S]. cbn [step_flat] in S. destruct (hget (held_of st t) (guard l)) as [[|]|]; try discriminate. reflexivity.
  - intros m t1 t2. now apply inv_exclusive.
Qed.

(* ---------- non-vacuity and the pinned tree's deadlock ---------- *)
Definition reentrant_threads : list (list fname) :=
  [ ["Server.HandleIDPInitiated"]; ["Server.HandlePutService"] ].

(* the reader takes the outer read lock; the writer arrives and waits; the
   reader re-enters: nobody can step although both are unfinished *)
Definition reentrant_witness : list nat := [0%nat; 1%nat].

Lemma reentrant_rlock_deadlocks_l :
  exists codes, expand_threads reentrant_program reentrant_threads = Some codes /\
                stuckb (run (init codes) reentrant_witness) = true.
Proof. eexists. split; [vm_compute; reflexivity|vm_compute; reflexivity]. Qed.

Lemma stuckb_not_deadlock_free st : stuckb st = true -> ~ deadlock_free st.
Proof.
  unfold stuckb. intros E. apply andb_true_iff in E as [U C]. intros DF.
  unfold unfinishedb in U. apply existsb_exists in U as (c & Hc & Hne).
  apply In_nth_error in Hc as [t Ht].
  destruct DF as [t' Ht'].
  { exists t. destruct c as [|a r]; [discriminate|]. now exists a, r. }
  apply negb_true_iff in C. unfold can_stepb in C.
  assert (existsb (fun t => match tstep st t with Some _ => true | None => false end) (seq 0 (List.length (code st))) = true) as X.
  { apply existsb_exists. exists t'. split.
    - apply in_seq. split; [lia|]. cbn.
      destruct (nth_error (code st) t') eqn:N; [apply nth_error_Some; congruence|].
      exfalso. apply Ht'. unfold tstep. now rewrite N.
    - destruct (tstep st t'); [reflexivity|congruence]. }
  congruence.
Qed.

Lemma reentrant_not_deadlock_free :
  exists codes sched, expand_threads reentrant_program reentrant_threads = Some codes /\
                      ~ deadlock_free (run (init codes) sched).
Proof.
  destruct reentrant_rlock_deadlocks_l as (codes & E & S).
  exists codes, reentrant_witness. split; [exact E|now apply stuckb_not_deadlock_free].
Qed.

Lemma reentrant_program_rejected :
  discipline_ok reentrant_program ["Server.HandleIDPInitiated"; "Server.HandlePutService"] = false.
Proof. vm_compute. reflexivity. Qed.

(* the repaired shape is accepted, so the theorem applies to it (non-vacuity) *)
Lemma fixed_program_accepted :
  discipline_ok fixed_program ["Server.HandleIDPInitiated"; "Server.HandlePutService"; "Server.GetServiceProvider"] = true.
Proof. vm_compute. reflexivity. Qed.

(* a lock-free read is rejected as well (the shape of MemoryStore.List before fix F11) *)
Lemma unlocked_read_rejected :
  discipline_ok [("MemoryStore.List", [Rd Data]); ("MemoryStore.Put", [Acq Mu true; Rd Data; Wr Data; Rel Mu true])]
                ["MemoryStore.List"; "MemoryStore.Put"] = false.
Proof. vm_compute. reflexivity. Qed.

(* ... and it does race in the semantics *)
Lemma unlocked_read_races :
  exists codes sched t1 t2 l,
    expand_threads [("MemoryStore.List", [Rd Data]); ("MemoryStore.Put", [Acq Mu true; Rd Data; Wr Data; Rel Mu true])]
                   [["MemoryStore.Put"]; ["MemoryStore.List"]] = Some codes /\
    race_at (run (init codes) sched) t1 t2 l.
Proof.
  eexists. exists [0%nat; 0%nat], 0%nat, 1%nat, Data. split; [vm_compute; reflexivity|].
  unfold race_at. split; [discriminate|]. split; [vm_compute; reflexivity|left; vm_compute; reflexivity].
Qed.

(* a deferred unlock in a loop body: the second iteration blocks on the first one's lock
   (the translator flags the defer itself; this is the unrolled shape) *)
Lemma loop_lock_selfdeadlock :
  startup_ok [("init", [Acq IdpConfigMu true; Wr ServiceProviders; Acq IdpConfigMu true; Wr ServiceProviders;
                        Rel IdpConfigMu true; Rel IdpConfigMu true])] ["init"] = false /\
  exists codes, expand_threads [("init", [Acq IdpConfigMu true; Acq IdpConfigMu true; Rel IdpConfigMu true; Rel IdpConfigMu true])]
                               [["init"]] = Some codes /\
                stuckb (run (init codes) [0%nat; 0%nat; 0%nat]) = true.
Proof. split; [vm_compute; reflexivity|]. eexists. split; [vm_compute; reflexivity|vm_compute; reflexivity]. Qed.

(* lock-order inversion is rejected and deadlocks in the semantics *)
Definition inversion_program : program :=
  [ ("A", [Acq IdpConfigMu true; Acq Mu true; Rel Mu true; Rel IdpConfigMu true]);
    ("B", [Acq Mu true; Acq IdpConfigMu true; Rel IdpConfigMu true; Rel Mu true]) ].
Lemma inversion_rejected : discipline_ok inversion_program ["A"; "B"] = false.
Proof. vm_compute. reflexivity. Qed.
Lemma inversion_deadlocks :
  exists codes, expand_threads inversion_program [["A"]; ["B"]] = Some codes /\
                stuckb (run (init codes) [0%nat; 1%nat; 0%nat; 1%nat]) = true.
Proof. eexists. split; [vm_compute; reflexivity|vm_compute; reflexivity]. Qed.
