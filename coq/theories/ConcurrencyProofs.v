(* ConcurrencyProofs.v — soundness of the lock discipline (C20). *)
From Saml Require Import Base Concurrency.
Local Open Scope list_scope.

(* ---------- the pinned tree's deadlock, in the semantics ---------- *)
Definition reentrant_threads : list (list fname) :=
  [ ["Server.HandleIDPInitiated"]; ["Server.HandlePutService"] ].

(* reader takes the outer read lock; the writer arrives and waits; the reader
   re-enters: nobody can step although both are unfinished *)
Definition reentrant_witness : list nat := [0%nat; 1%nat].

Lemma reentrant_rlock_deadlocks_l :
  exists codes, expand_threads reentrant_program reentrant_threads = Some codes /\
                stuckb (run (init codes) reentrant_witness) = true.
Proof. eexists. split; [vm_compute; reflexivity|vm_compute; reflexivity]. Qed.

Lemma reentrant_program_rejected :
  discipline_ok reentrant_program ["Server.HandleIDPInitiated"; "Server.HandlePutService"] = false.
Proof. vm_compute. reflexivity. Qed.

Lemma fixed_program_accepted :
  discipline_ok fixed_program ["Server.HandleIDPInitiated"; "Server.HandlePutService"; "Server.GetServiceProvider"] = true.
Proof. vm_compute. reflexivity. Qed.
