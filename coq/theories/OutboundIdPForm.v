(* OutboundIdPForm.v — the IdP's response form as reached through the real flow
   (IdentityProvider.ServeSSO: decode, Validate -> getACSEndpoint, PostBinding,
   WriteResponse): which string ends up in the form's action.  The endpoint
   choice is the IDP group's model (IdPModel.get_acs_endpoint); the form is
   HtmlEsc.render_form.  The action must be the REGISTERED location of the
   chosen endpoint, never a string taken from the request.  Definitions only. *)
From Saml Require Import IdPModel.
From Saml Require Import Base UrlEnc HtmlEsc.

(* registered ACS endpoints of the requesting SP: binding, location, index, isDefault *)
Definition acs_entry := (string * string * Z * option bool)%type.
Definition md_of_acs (l : list acs_entry) : IdPModel.spmeta :=
  {| IdPModel.md_entity := "sp";
     IdPModel.descriptors :=
       [ {| IdPModel.acs := map (fun e : acs_entry =>
                                   let '(b, loc, i, d) := e in
                                   {| IdPModel.ep_binding := b; IdPModel.ep_location := loc;
                                      IdPModel.ep_index := i; IdPModel.ep_default := d |}) l;
            IdPModel.kds := []; IdPModel.attr_services := [] |} ] |}.

Definition req_of (url idx : string) : IdPModel.authnreq :=
  {| IdPModel.rq_id := "id-1"; IdPModel.rq_version := "2.0"; IdPModel.rq_issue := 0;
     IdPModel.rq_destination := EmptyString; IdPModel.rq_issuer := Some "sp";
     IdPModel.rq_acs_url := url; IdPModel.rq_acs_index := idx |}.

(* 0: the form, posting to the registered location of the chosen endpoint;
   1: request rejected (400: no endpoint); 2: the chosen endpoint is not HTTP-POST (500) *)
Definition idp_flow_form (acs : list acs_entry) (url idx msg relay : string) : Z * string :=
  match IdPModel.get_acs_endpoint (md_of_acs acs) (req_of url idx) with
  | None => (1, EmptyString)
  | Some (_, _, _, e) =>
      if seqb (IdPModel.ep_binding e) IdPModel.post_binding
      then (0, render_form FIdpResponse
                 {| fd_url := IdPModel.ep_location e; fd_msg := msg; fd_relay := relay; fd_toast := EmptyString |})
      else (2, EmptyString)
  end.

Record ifcase := {
  if_acs : list acs_entry; if_req_url : string; if_req_index : string; if_relay : string;
  if_msg : string;                 (* the SAMLResponse field of the emitted form (base64; opaque) *)
  if_status : Z; if_html : string; if_dom : list elem_view }.

Definition ifcase_agree (c : ifcase) : bool :=
  let '(st, html) := idp_flow_form (if_acs c) (if_req_url c) (if_req_index c) (if_msg c) (if_relay c) in
  (st =? if_status c) && seqb html (if_html c).

(* when a form is emitted its structure is the intended one and its action is
   (the filtered, normalised text of) a location REGISTERED for an HTTP-POST
   endpoint of the SP — whatever the request's own URL said *)
Definition ifcase_spec (c : ifcase) : bool :=
  if if_status c =? 0 then
    existsb (fun e : acs_entry =>
               let '(b, loc, _, _) := e in
               seqb b IdPModel.post_binding &&
               let d := {| fd_url := loc; fd_msg := if_msg c; fd_relay := if_relay c; fd_toast := EmptyString |} in
               opt_tokens_eqb (tokenize_form (if_html c)) (intended_of FIdpResponse d)
               && views_eqb (if_dom c) (dom_view (intended_of FIdpResponse d)))
            (if_acs c)
  else true.
Definition check_ifcases := check_cases ifcase_agree ifcase_spec.

(* ---------- IdP-initiated flow (ServeIDPInitiated) ---------- *)
(* the SP's SPSSODescriptors, each with its AssertionConsumerServices in document order *)
Definition md_of_descs (l : list (list acs_entry)) : IdPModel.spmeta :=
  {| IdPModel.md_entity := "sp";
     IdPModel.descriptors :=
       map (fun d : list acs_entry =>
              {| IdPModel.acs := map (fun e : acs_entry =>
                                        let '(b, loc, i, df) := e in
                                        {| IdPModel.ep_binding := b; IdPModel.ep_location := loc;
                                           IdPModel.ep_index := i; IdPModel.ep_default := df |}) d;
                 IdPModel.kds := []; IdPModel.attr_services := [] |}) l |}.

(* 0: the form, posting to the FIRST HTTP-POST endpoint in document order;
   2: no HTTP-POST endpoint (500) *)
Definition idp_initiated_form (descs : list (list acs_entry)) (msg relay : string) : Z * string :=
  match IdPModel.idp_initiated_route (md_of_descs descs) with
  | None => (2, EmptyString)
  | Some (_, _, _, e) =>
      (0, render_form FIdpResponse
            {| fd_url := IdPModel.ep_location e; fd_msg := msg; fd_relay := relay; fd_toast := EmptyString |})
  end.

(* the first HTTP-POST location, computed on the flattened document order *)
Fixpoint first_post_location (l : list acs_entry) : option string :=
  match l with
  | [] => None
  | (b, loc, _, _) :: r => if seqb b IdPModel.post_binding then Some loc else first_post_location r
  end.

Record ipcase := {
  ip_descs : list (list acs_entry); ip_relay : string; ip_msg : string;
  ip_status : Z; ip_html : string; ip_dom : list elem_view }.
Definition ipcase_agree (c : ipcase) : bool :=
  let '(st, html) := idp_initiated_form (ip_descs c) (ip_msg c) (ip_relay c) in
  (st =? ip_status c) && seqb html (ip_html c).
(* exactly the intended single form, and its action is the FIRST registered
   HTTP-POST assertion consumer service *)
Definition ipcase_spec (c : ipcase) : bool :=
  match first_post_location (List.concat (ip_descs c)) with
  | Some loc =>
      let d := {| fd_url := loc; fd_msg := ip_msg c; fd_relay := ip_relay c; fd_toast := EmptyString |} in
      (ip_status c =? 0)
      && opt_tokens_eqb (tokenize_form (ip_html c)) (intended_of FIdpResponse d)
      && views_eqb (ip_dom c) (dom_view (intended_of FIdpResponse d))
  | None => negb (ip_status c =? 0)
  end.
Definition check_ipcases := check_cases ipcase_agree ipcase_spec.
