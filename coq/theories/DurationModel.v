(* DurationModel.v — executable model of duration.go (saml.Duration text codec).

   dur_marshal   ~ Duration.MarshalText   (None = the nil slice returned for 0)
   dur_unmarshal ~ Duration.UnmarshalText (None = nil text)

   The two regular expressions of duration.go are replaced by a deterministic
   recogniser; every group of those expressions is "digits followed by one
   fixed letter", so leftmost-first matching has exactly one candidate parse
   and the sequential recogniser below accepts the same strings with the same
   sub-matches.  int64 wrap-around of the Go arithmetic is explicit (wrap64). *)
From Saml Require Import Base.

Definition ns_sec  : Z := 1000000000.
Definition ns_min  : Z := 60 * ns_sec.
Definition ns_hour : Z := 60 * ns_min.
Definition ns_day  : Z := 24 * ns_hour.
Definition ns_month : Z := 30 * ns_day.
Definition ns_year : Z := 365 * ns_day.


Definition dur_marshal (d : Z) : option string :=
  if d =? 0 then None else
  let neg := d <? 0 in
  let u := if neg then - d else d in            (* unsigned magnitude, 2^63 for MinInt64 *)
  let h := u / ns_hour in
  let m := u mod ns_hour / ns_min in
  let s := u mod ns_min / ns_sec in
  let ns := u mod ns_sec in
  Some ((if neg then "-PT" else "PT")
        +++ (if 0 <? h then dec h +++ "H" else "")
        +++ (if 0 <? m then dec m +++ "M" else "")
        +++ (if (0 <? s) || (0 <? ns)
             then dec s +++ (if 0 <? ns then trim0r ("." +++ fixw 9 ns) else "") +++ "S"
             else "")).

(* "(?:(\d+)L)?" at the head of s *)
Definition opt_group (L : ascii) (s : string) : option string * string :=
  let '(ds, r) := span is_digit s in
  if nonempty ds then
    match r with
    | String c r' => if Ascii.eqb c L then (Some ds, r') else (None, s)
    | _ => (None, s)
    end
  else (None, s).

(* "(?:(\d+(?:\.\d+)?)S)?" at the head of s : whole digits, fraction digits *)
Definition sec_group (s : string) : option (string * string) * string :=
  let '(ds, r) := span is_digit s in
  if nonempty ds then
    match r with
    | String "S" r' => (Some (ds, EmptyString), r')
    | String "." r1 =>
        let '(fs, r2) := span is_digit r1 in
        if nonempty fs then
          match r2 with
          | String "S" r' => (Some (ds, fs), r')
          | _ => (None, s)
          end
        else (None, s)
    | _ => (None, s)
    end
  else (None, s).

Definition add64 (a b : Z) : Z := wrap64 (a + b).
Definition mul64 (a b : Z) : Z := wrap64 (a * b).

(* out += Duration(atoi(g)) * unit, when the group is present *)
Definition acc_group (g : option string) (unit : Z) (out : Z) : outcome Z :=
  match g with
  | None => Ok out
  | Some ds => do n <- atoi ds; Ok (add64 out (mul64 n unit))
  end.

(* right-pad with '0' to 9 characters *)
Definition pad9r (f : string) : string := f +++ srepeat "0" (9 - String.length f)%nat.

Definition acc_seconds (g : option (string * string)) (out : Z) : outcome Z :=
  match g with
  | None => Ok out
  | Some (whole, frac) =>
      do s <- atoi whole;
      let out := add64 out (mul64 s ns_sec) in
      let frac := take 9 frac in
      if nonempty frac then (do ns <- atoi (pad9r frac); Ok (add64 out ns)) else Ok out
  end.

Definition dur_time_part (t : string) (out : Z) : outcome Z :=
  let '(gh, r1) := opt_group "H" t in
  let '(gm, r2) := opt_group "M" r1 in
  let '(gs, r3) := sec_group r2 in
  match r3 with
  | EmptyString =>
      do out <- acc_group gh ns_hour out;
      do out <- acc_group gm ns_min out;
      acc_seconds gs out
  | _ => Err 0
  end.

Definition dur_unmarshal (text : option string) : outcome Z :=
  match text with
  | None => Ok 0
  | Some s =>
      let '(neg, s1) := match s with String "-" r => (true, r) | _ => (false, s) end in
      match s1 with
      | String "P" s2 =>
          let '(gy, r1) := opt_group "Y" s2 in
          let '(gmo, r2) := opt_group "M" r1 in
          let '(gd, r3) := opt_group "D" r2 in
          let date_empty := match gy, gmo, gd with None, None, None => true | _, _, _ => false end in
          match r3 with
          | EmptyString =>
              if date_empty then Err 0 else
              do out <- acc_group gy ns_year 0;
              do out <- acc_group gmo ns_month out;
              do out <- acc_group gd ns_day out;
              Ok (mul64 (if neg then -1 else 1) out)
          | String "T" t =>
              if negb (nonempty t) then Err 0 else
              do out <- acc_group gy ns_year 0;
              do out <- acc_group gmo ns_month out;
              do out <- acc_group gd ns_day out;
              do out <- dur_time_part t out;
              Ok (mul64 (if neg then -1 else 1) out)
          | _ => Err 0
          end
      | _ => Err 0
      end
  end.

(* the pre-fix seconds conversion is kept, for the record, in DurationFloat.v *)

(* ---- correspondence-check entry points ---- *)
(* A marshal case: input d, observed text (None = nil).  An unmarshal case:
   input text, observed result (None = error). *)
Definition opt_str_eqb (a b : option string) : bool :=
  match a, b with
  | None, None => true
  | Some x, Some y => String.eqb x y
  | _, _ => false
  end.

Definition obs_of (o : outcome Z) : option Z := match o with Ok z => Some z | _ => None end.
Definition opt_Z_eqb (a b : option Z) : bool :=
  match a, b with
  | None, None => true
  | Some x, Some y => x =? y
  | _, _ => false
  end.

(* marshal case: agree = model text equals implementation text;
   spec = the implementation's own text, parsed by the implementation (rt),
   gives back d  [the property, evaluated on the implementation's output] *)
Record mcase := { mc_d : Z; mc_text : option string; mc_rt : option Z }.
Record ucase := { uc_text : option string; uc_res : option Z }.

Definition mcase_agree (c : mcase) : bool := opt_str_eqb (dur_marshal (mc_d c)) (mc_text c).
Definition mcase_spec (c : mcase) : bool := opt_Z_eqb (mc_rt c) (Some (mc_d c)).
Definition ucase_agree (c : ucase) : bool := opt_Z_eqb (obs_of (dur_unmarshal (uc_text c))) (uc_res c).

Definition check_mcases := check_cases mcase_agree mcase_spec.
Definition check_ucases := check_cases ucase_agree (fun _ => true).
