(* Middleware.v — the samlsp.Middleware login state machine over cookie jars
   (property C17).  The middleware itself is stateless: everything it knows
   comes back in the request's Cookie header.  The state below is the clock
   plus GHOST knowledge (which flows were started, which cookie values were
   issued) used to state the theorems and to resolve the jar scripts of the
   correspondence check.

     start_flow            ~ Middleware.HandleStartAuthFlow + CookieRequestTracker.TrackRequest
     page                  ~ Middleware.RequireAccount
     get_tracked_requests  ~ CookieRequestTracker.GetTrackedRequests
     get_tracked_request   ~ CookieRequestTracker.GetTrackedRequest
     sp_verdict            ~ ServiceProvider.ParseResponse (abstract: see below)
     deliver               ~ Middleware.ServeACS + CreateSessionFromAssertion
                             (+ StopTrackingRequest, CookieSessionProvider.CreateSession)
     default_cfg           ~ samlsp.New (samlsp/new.go)

   Definitions only; proofs are in MiddlewareProofs.v. *)
From Saml Require Import Base Tokens.

Record mwcfg := {
  m_prefix : string;            (* CookieRequestTracker.NamePrefix *)
  m_tcodec : codec;             (* tracking codec *)
  m_scodec : codec;             (* session codec *)
  m_arr : bool;                 (* jwt.MarshalSingleStringAsArray *)
  m_track_cookie_age : Z;       (* CookieRequestTracker.MaxAge, ns *)
  m_session_cookie_age : Z;     (* CookieSessionProvider.MaxAge, ns *)
  m_session_name : string;      (* CookieSessionProvider.Name *)
  m_acs_path : string;          (* ServiceProvider.AcsURL.Path *)
  m_acs_https : bool;           (* AcsURL.Scheme == "https" *)
  m_secure : bool;              (* CookieSessionProvider.Secure *)
  m_allow_idp : bool;           (* ServiceProvider.AllowIDPInitiated *)
  m_default_redirect : string;  (* ServiceProvider.DefaultRedirectURI *)
  m_post_binding : bool;        (* request binding used by HandleStartAuthFlow *)
  m_mid : Z                     (* saml.MaxIssueDelay when the response is checked, ns *)
}.

(* samlsp.New(opts) with saml.MaxIssueDelay = mid; the URL-derived facts
   (scheme, ACS path) and the binding found in the IdP metadata are inputs *)
Definition default_cfg (o : opts) (mid : Z) (https : bool) (acs_path : string)
           (allow_idp : bool) (default_redirect : string) (post : bool) : mwcfg :=
  {| m_prefix := "saml_";
     m_tcodec := tracking_codec_of mid o;
     m_scodec := session_codec_of o;
     m_arr := true;
     m_track_cookie_age := mid;
     m_session_cookie_age := default_session_max_age;
     m_session_name := session_cookie_name o;
     m_acs_path := acs_path;
     m_acs_https := https;
     m_secure := https;
     m_allow_idp := allow_idp;
     m_default_redirect := if nonempty default_redirect then default_redirect else "/";
     m_post_binding := post;
     m_mid := mid |}.

(* ---------- replies ---------- *)
Inductive ckind := CkTracking | CkSession | CkClear.
Record setcookie := {
  ck_name : string; ck_kind : ckind; ck_value : wire;
  ck_httponly : bool; ck_secure : bool; ck_path : string;
  ck_max_age : Z                 (* the Max-Age attribute, seconds; 0 = not written *)
}.
Inductive location := LNone | LIdp | LUrl (u : string).
Record reply := {
  rp_status : Z;
  rp_location : location;
  rp_relay : string;             (* RelayState handed to the IdP by a flow start *)
  rp_cookies : list setcookie;
  rp_ran : bool                  (* the protected handler ran *)
}.

Definition forbidden : reply :=
  {| rp_status := 403; rp_location := LNone; rp_relay := ""; rp_cookies := []; rp_ran := false |}.

(* ---------- SAML responses, abstractly ---------- *)
(* What ServiceProvider.ParseResponse looks at, reduced to: the InResponseTo
   carried by the Response and its SubjectConfirmationData, the IssueInstant,
   and one boolean for everything else (signature by the IdP, destination,
   audience, conditions, status — properties C01..C04). *)
Record response := { r_irt : string; r_issued : Z; r_ok : bool; r_assertion : assertion }.

Definition response_fresh (cfg : mwcfg) (now : Z) (r : response) : bool :=
  negb (r_issued r + m_mid cfg <? now).        (* IssueInstant.Add(MaxIssueDelay).Before(now) => expired *)

(* accept iff otherwise valid and (IdP-initiated allowed, or InResponseTo among the possible ids) *)
Definition sp_verdict (cfg : mwcfg) (now : Z) (possible : list string) (r : response) : bool :=
  r_ok r && response_fresh cfg now r && (m_allow_idp cfg || mem_str (r_irt r) possible).

(* ---------- request tracker ---------- *)
Definition index_of_name (cfg : mwcfg) (n : string) : string := drop (String.length (m_prefix cfg)) n.

(* GetTrackedRequests: every cookie whose name has the prefix, whose value
   decodes, and whose name is prefix ++ the SIGNED index *)
Fixpoint get_tracked_requests (cfg : mwcfg) (now : Z) (j : jar) : list tracked :=
  match j with
  | [] => []
  | (n, w) :: r =>
      let rest := get_tracked_requests cfg now r in
      if negb (prefixb (m_prefix cfg) n) then rest else
      match decode_tracking (m_tcodec cfg) now w with
      | None => rest
      | Some tr => if String.eqb (index_of_name cfg n) (tr_index tr) then tr :: rest else rest
      end
  end.

(* GetTrackedRequest: Err 1 = http.ErrNoCookie, Err 2 = decode error, Err 3 = index mismatch *)
Definition get_tracked_request (cfg : mwcfg) (now : Z) (j : jar) (index : string) : outcome tracked :=
  match jar_get (m_prefix cfg +++ index) j with
  | None => Err 1
  | Some w =>
      match decode_tracking (m_tcodec cfg) now w with
      | None => Err 2
      | Some tr => if String.eqb (tr_index tr) index then Ok tr else Err 3
      end
  end.

Definition secs (ns : Z) : Z := Z.quot ns tk_ns_per_s.     (* int(d.Seconds()) *)

(* TrackRequest's cookie *)
Definition tracking_cookie (cfg : mwcfg) (now : Z) (tr : tracked) : setcookie :=
  {| ck_name := m_prefix cfg +++ tr_index tr; ck_kind := CkTracking;
     ck_value := WToken (mint_tracking (m_arr cfg) (m_tcodec cfg) now tr);
     ck_httponly := true; ck_secure := m_acs_https cfg; ck_path := m_acs_path cfg;
     ck_max_age := secs (m_track_cookie_age cfg) |}.

(* StopTrackingRequest: the request's own cookie, emptied and expired; only
   Name/Value/Domain/Path/Expires are set *)
Definition clear_cookie (cfg : mwcfg) (index : string) : setcookie :=
  {| ck_name := m_prefix cfg +++ index; ck_kind := CkClear; ck_value := WGarbage;
     ck_httponly := false; ck_secure := false; ck_path := m_acs_path cfg; ck_max_age := 0 |}.

(* CookieSessionProvider.CreateSession *)
Definition session_cookie (cfg : mwcfg) (now : Z) (a : assertion) (req_https : bool) : setcookie :=
  {| ck_name := m_session_name cfg; ck_kind := CkSession;
     ck_value := WToken (mint_session (m_scodec cfg) now a);
     ck_httponly := true; ck_secure := m_secure cfg || req_https; ck_path := "/";
     ck_max_age := secs (m_session_cookie_age cfg) |}.

(* ---------- the steps ---------- *)
Record flow := {
  fl_index : string; fl_req_id : string; fl_uri : string;
  fl_start : Z;                 (* instant of the flow start *)
  fl_cookie : wire              (* the tracking cookie value handed to the browser *)
}.

Record mw := {
  mw_cfg : mwcfg;
  mw_clock : Z;
  mw_flows : list flow;         (* ghost: flows started so far, latest first *)
  mw_issued : list wire         (* ghost: every cookie value issued so far, in order *)
}.

Definition init (cfg : mwcfg) (t0 : Z) : mw :=
  {| mw_cfg := cfg; mw_clock := t0; mw_flows := []; mw_issued := [] |}.

(* HandleStartAuthFlow for the URL u; idx and rid are the RandReader draws
   (relay-state index — or the value of a custom RelayStateFunc — and AuthnRequest ID) *)
Definition start_flow (cfg : mwcfg) (now : Z) (u idx rid : string) : reply * flow :=
  let tr := {| tr_index := idx; tr_req_id := rid; tr_uri := u |} in
  let ck := tracking_cookie cfg now tr in
  ({| rp_status := if m_post_binding cfg then 200 else 302;
      rp_location := if m_post_binding cfg then LNone else LIdp;
      rp_relay := idx;
      rp_cookies := [ck]; rp_ran := false |},
   {| fl_index := idx; fl_req_id := rid; fl_uri := u; fl_start := now; fl_cookie := ck_value ck |}).

Definition served : reply :=
  {| rp_status := 200; rp_location := LNone; rp_relay := ""; rp_cookies := []; rp_ran := true |}.

(* ServeACS + CreateSessionFromAssertion *)
Definition deliver (cfg : mwcfg) (now : Z) (r : response) (j : jar) (relay : string) (req_https : bool) : reply :=
  let possible := ((if m_allow_idp cfg then [""] else []) ++ map tr_req_id (get_tracked_requests cfg now j))%list in
  if negb (sp_verdict cfg now possible r) then forbidden else
  let accept (uri : string) (cks : list setcookie) :=
    {| rp_status := 302; rp_location := LUrl uri; rp_relay := "";
       rp_cookies := (cks ++ [session_cookie cfg now (r_assertion r) req_https])%list; rp_ran := false |} in
  if nonempty relay then
    match get_tracked_request cfg now j relay with
    | Ok tr => accept (tr_uri tr) [clear_cookie cfg relay]
    | Err 1 => if m_allow_idp cfg then accept relay [] else forbidden     (* ErrNoCookie && AllowIDPInitiated *)
    | _ => forbidden
    end
  else accept (m_default_redirect cfg) [].

Inductive action :=
| Start (u idx rid : string)                              (* protected page requested without a session *)
| Page (u : string) (j : jar) (idx rid : string)          (* protected page requested with a jar *)
| Deliver (r : response) (j : jar) (relay : string) (req_https : bool)   (* POST to the ACS *)
| Advance (dt : Z).                                       (* time passes (never backwards) *)

Definition issue (m : mw) (cks : list setcookie) (fl : option flow) : mw :=
  {| mw_cfg := mw_cfg m; mw_clock := mw_clock m;
     mw_flows := match fl with Some f => f :: mw_flows m | None => mw_flows m end;
     mw_issued := (mw_issued m ++ map ck_value cks)%list |}.

Definition step (m : mw) (a : action) : mw * reply :=
  let cfg := mw_cfg m in
  match a with
  | Start u idx rid =>
      let '(rp, fl) := start_flow cfg (mw_clock m) u idx rid in (issue m (rp_cookies rp) (Some fl), rp)
  | Page u j idx rid =>
      match get_session (m_session_name cfg) (m_scodec cfg) (mw_clock m) j with
      | Some _ => (m, served)
      | None => let '(rp, fl) := start_flow cfg (mw_clock m) u idx rid in (issue m (rp_cookies rp) (Some fl), rp)
      end
  | Deliver r j relay req_https =>
      let rp := deliver cfg (mw_clock m) r j relay req_https in (issue m (rp_cookies rp) None, rp)
  | Advance dt =>
      ({| mw_cfg := cfg; mw_clock := mw_clock m + Z.max 0 dt; mw_flows := mw_flows m; mw_issued := mw_issued m |},
       {| rp_status := 0; rp_location := LNone; rp_relay := ""; rp_cookies := []; rp_ran := false |})
  end.

Definition run (m : mw) (h : list action) : mw := fold_left (fun m a => fst (step m a)) h m.

(* the RandReader never repeats itself: the draws of a history are pairwise distinct *)
Definition draws_of (a : action) : list (string * string) :=
  match a with Start _ i r => [(i, r)] | Page _ _ i r => [(i, r)] | _ => [] end.
Definition fresh_draws (h : list action) : Prop :=
  NoDup (map fst (flat_map draws_of h)) /\ NoDup (map snd (flat_map draws_of h)).

Definition sets_session (rp : reply) : Prop :=
  exists ck, In ck (rp_cookies rp) /\ ck_kind ck = CkSession.
Definition sets_session_b (rp : reply) : bool :=
  existsb (fun ck => match ck_kind ck with CkSession => true | _ => false end) (rp_cookies rp).

(* the tracked request a flow stands for, and its window of validity *)
Definition flow_tracked (f : flow) : tracked :=
  {| tr_index := fl_index f; tr_req_id := fl_req_id f; tr_uri := fl_uri f |}.
Definition flow_live (cfg : mwcfg) (now : Z) (f : flow) : bool :=
  (sec (fl_start f) * tk_ns_per_s <=? now) && (now <? sec (fl_start f + c_max_age (m_tcodec cfg)) * tk_ns_per_s).

(* ====================================================================== *)
(* correspondence check: scripts whose jars refer to cookies issued earlier *)

(* where a jar value comes from *)
Inductive wsrc :=
| FromIssued (k : nat)                  (* the k-th cookie value the middleware has issued in this history, verbatim *)
| Broken (k : nat)                      (* the same with header/claims/signature damaged (signature no longer matches) *)
| Resigned (k : nat) (by_ : key)        (* the same claims re-signed with another key *)
| Literal (w : wire).                   (* anything else, spelled out *)

Definition break_wire (w : wire) : wire :=
  match w with
  | WToken t => WToken {| tk_alg := tk_alg t; tk_key := tk_key t; tk_intact := false; tk_aud := tk_aud t; tk_iss := tk_iss t;
                          tk_sub := tk_sub t; tk_iat := tk_iat t; tk_nbf := tk_nbf t; tk_exp := tk_exp t;
                          tk_session_marker := tk_session_marker t; tk_request_marker := tk_request_marker t;
                          tk_attrs := tk_attrs t; tk_req_id := tk_req_id t; tk_uri := tk_uri t |}
  | WGarbage => WGarbage
  end.
Definition resign_wire (k : key) (w : wire) : wire :=
  match w with
  | WToken t => WToken {| tk_alg := tk_alg t; tk_key := k; tk_intact := true; tk_aud := tk_aud t; tk_iss := tk_iss t;
                          tk_sub := tk_sub t; tk_iat := tk_iat t; tk_nbf := tk_nbf t; tk_exp := tk_exp t;
                          tk_session_marker := tk_session_marker t; tk_request_marker := tk_request_marker t;
                          tk_attrs := tk_attrs t; tk_req_id := tk_req_id t; tk_uri := tk_uri t |}
  | WGarbage => WGarbage
  end.

Definition resolve (m : mw) (s : wsrc) : wire :=
  match s with
  | FromIssued k => nth k (mw_issued m) WGarbage
  | Broken k => break_wire (nth k (mw_issued m) WGarbage)
  | Resigned k by_ => resign_wire by_ (nth k (mw_issued m) WGarbage)
  | Literal w => w
  end.
Definition sjar := list (string * wsrc).
Definition resolve_jar (m : mw) (j : sjar) : jar := map (fun nv => (fst nv, resolve m (snd nv))) j.

(* CookieRequestTracker.TrackRequest, choice of the index: the random draw,
   unless a RelayStateFunc is installed AND returns a non-empty value
   ("" means: use the random index) *)
Definition track_index (custom : option string) (rnd : string) : string :=
  match custom with
  | Some s => if nonempty s then s else rnd
  | None => rnd
  end.

(* [custom]: None = Options.RelayStateFunc is nil, Some v = it returned v for this request;
   [rnd]: base64url of the 42 RandReader bytes *)
Inductive saction :=
| SStart (u : string) (custom : option string) (rnd rid : string)
| SPage (u : string) (j : sjar) (custom : option string) (rnd rid : string)
| SDeliver (r : response) (j : sjar) (relay : string) (req_https : bool)
| SAdvance (dt : Z).
Definition resolve_action (m : mw) (a : saction) : action :=
  match a with
  | SStart u c i r => Start u (track_index c i) r
  | SPage u j c i r => Page u (resolve_jar m j) (track_index c i) r
  | SDeliver r j relay h => Deliver r (resolve_jar m j) relay h
  | SAdvance dt => Advance dt
  end.

(* observable projection of a reply *)
Record ocookie := {
  oc_name : string;
  oc_kind : Z;                   (* 0 cleared, 1 tracking token, 2 session token, 3 anything else *)
  oc_a : string; oc_b : string; oc_c : string;   (* tracking: index, request id, uri; session: subject *)
  oc_iat : Z; oc_exp : Z;        (* token times, seconds (0 when absent) *)
  oc_httponly : bool; oc_secure : bool; oc_path : string;
  oc_max_age : Z
}.
Record oreply := {
  or_status : Z;
  or_loc : location;
  or_relay : string;
  or_cookies : list ocookie;
  or_ran : bool;
  or_forms : Z                   (* number of <form> elements in the page served (the POST request binding's page has one) *)
}.

Definition oz (o : option Z) : Z := match o with Some z => z | None => 0 end.
Definition project_cookie (ck : setcookie) : ocookie :=
  match ck_kind ck, ck_value ck with
  | CkTracking, WToken t =>
      {| oc_name := ck_name ck; oc_kind := 1; oc_a := tk_sub t; oc_b := tk_req_id t; oc_c := tk_uri t;
         oc_iat := oz (tk_iat t); oc_exp := oz (tk_exp t);
         oc_httponly := ck_httponly ck; oc_secure := ck_secure ck; oc_path := ck_path ck; oc_max_age := ck_max_age ck |}
  | CkSession, WToken t =>
      {| oc_name := ck_name ck; oc_kind := 2; oc_a := tk_sub t; oc_b := ""; oc_c := "";
         oc_iat := oz (tk_iat t); oc_exp := oz (tk_exp t);
         oc_httponly := ck_httponly ck; oc_secure := ck_secure ck; oc_path := ck_path ck; oc_max_age := ck_max_age ck |}
  | CkClear, _ =>
      {| oc_name := ck_name ck; oc_kind := 0; oc_a := ""; oc_b := ""; oc_c := ""; oc_iat := 0; oc_exp := 0;
         oc_httponly := ck_httponly ck; oc_secure := ck_secure ck; oc_path := ck_path ck; oc_max_age := ck_max_age ck |}
  | _, _ =>
      {| oc_name := ck_name ck; oc_kind := 3; oc_a := ""; oc_b := ""; oc_c := ""; oc_iat := 0; oc_exp := 0;
         oc_httponly := ck_httponly ck; oc_secure := ck_secure ck; oc_path := ck_path ck; oc_max_age := ck_max_age ck |}
  end.
Definition project (rp : reply) : oreply :=
  {| or_status := rp_status rp; or_loc := rp_location rp; or_relay := rp_relay rp;
     or_cookies := map project_cookie (rp_cookies rp); or_ran := rp_ran rp;
     (* the only page the middleware itself writes is the POST binding's: 200, handler not run *)
     or_forms := if (rp_status rp =? 200) && negb (rp_ran rp) then 1 else 0 |}.

Definition location_eqb (a b : location) : bool :=
  match a, b with
  | LNone, LNone => true | LIdp, LIdp => true | LUrl x, LUrl y => String.eqb x y | _, _ => false
  end.
Definition ocookie_eqb (a b : ocookie) : bool :=
  String.eqb (oc_name a) (oc_name b) && (oc_kind a =? oc_kind b) && String.eqb (oc_a a) (oc_a b)
  && String.eqb (oc_b a) (oc_b b) && String.eqb (oc_c a) (oc_c b) && (oc_iat a =? oc_iat b) && (oc_exp a =? oc_exp b)
  && Bool.eqb (oc_httponly a) (oc_httponly b) && Bool.eqb (oc_secure a) (oc_secure b)
  && String.eqb (oc_path a) (oc_path b) && (oc_max_age a =? oc_max_age b).
Definition oreply_eqb (a b : oreply) : bool :=
  (or_status a =? or_status b) && location_eqb (or_loc a) (or_loc b) && String.eqb (or_relay a) (or_relay b)
  && list_eqb ocookie_eqb (or_cookies a) (or_cookies b) && Bool.eqb (or_ran a) (or_ran b)
  && (or_forms a =? or_forms b).

(* ---------- the property as a monitor over the IMPLEMENTATION's replies ---------- *)
(* the flow (if any) whose authentic cookie sits in the jar under its own name,
   still alive, and whose request the response answers *)
Definition own_flow_presented (m : mw) (j : jar) (irt : string) : bool :=
  existsb (fun f => String.eqb (fl_req_id f) irt
                    && existsb (fun nw => String.eqb (fst nw) (m_prefix (mw_cfg m) +++ fl_index f) && wire_eqb (snd nw) (fl_cookie f)) j
                    && flow_live (mw_cfg m) (mw_clock m) f)
          (mw_flows m).
(* the flow named by the relay state, presented authentically under its own name and alive *)
Definition relay_flow (m : mw) (j : jar) (relay : string) : option flow :=
  match jar_get (m_prefix (mw_cfg m) +++ relay) j with
  | None => None
  | Some w => find (fun f => String.eqb (fl_index f) relay && wire_eqb w (fl_cookie f) && flow_live (mw_cfg m) (mw_clock m) f)
                   (mw_flows m)
  end.
Definition o_sets_session (o : oreply) : bool := existsb (fun c => oc_kind c =? 2) (or_cookies o).

Definition cookie_flags_ok (cfg : mwcfg) (req_https : bool) (c : ocookie) : bool :=
  if oc_kind c =? 2 then
    oc_httponly c && Bool.eqb (oc_secure c) (m_secure cfg || req_https) && String.eqb (oc_path c) "/"
    && String.eqb (oc_name c) (m_session_name cfg)
  else if oc_kind c =? 1 then
    oc_httponly c && Bool.eqb (oc_secure c) (m_acs_https cfg) && String.eqb (oc_path c) (m_acs_path cfg)
    && String.eqb (oc_name c) (m_prefix cfg +++ oc_a c)                       (* name bound to the signed index *)
    && (oc_max_age c =? secs (m_mid cfg))                                     (* cookie lifetime = MaxIssueDelay *)
    && (oc_exp c =? sec (oc_iat c * tk_ns_per_s + m_mid cfg))                 (* token lifetime = MaxIssueDelay *)
  else if oc_kind c =? 0 then String.eqb (oc_path c) (m_acs_path cfg)
  else false.

(* is this delivery one that C17_interleaving promises to complete? *)
Definition honest_jar_b (m : mw) (j : jar) : bool :=
  forallb (fun nw => negb (prefixb (m_prefix (mw_cfg m)) (fst nw))
                     || existsb (fun f => String.eqb (fst nw) (m_prefix (mw_cfg m) +++ fl_index f) && wire_eqb (snd nw) (fl_cookie f))
                                (mw_flows m)) j.
Definition faithful_delivery (m : mw) (r : response) (j : jar) (relay : string) : option flow :=
  if honest_jar_b m j && r_ok r && response_fresh (mw_cfg m) (mw_clock m) r then
    match relay_flow m j relay with
    | Some f => if String.eqb (fl_req_id f) (r_irt r) && nonempty relay then Some f else None
    | None => None
    end
  else None.

(* a flow start: exactly one tracking cookie; the RelayState handed to the IdP is
   the index signed inside it (and, by cookie_flags_ok, the cookie-name suffix);
   that index is NOT EMPTY — each flow is tracked under a cookie of its own and
   comes back with a RelayState naming it; the recorded URI is the requested one *)
Definition started_flow_ok (cfg : mwcfg) (u : string) (o : oreply) : bool :=
  match or_cookies o with
  | [c] => (oc_kind c =? 1) && String.eqb (or_relay o) (oc_a c) && String.eqb (oc_c c) u && nonempty (oc_a c)
  | _ => false
  end
  (* the page of the POST binding holds exactly ONE form (this flow's: its RelayState is
     or_relay, its AuthnRequest ID the request id signed in the cookie); a redirect holds none *)
  && (or_forms o =? (if m_post_binding cfg then 1 else 0)).

(* the clauses about one ACS delivery *)
Definition spec_deliver_core (m : mw) (r : response) (j : jar) (relay : string) (req_https : bool) (o : oreply) : bool :=
  let cfg := mw_cfg m in

      forallb (cookie_flags_ok cfg req_https) (or_cookies o)
      && (if o_sets_session o then
            (or_status o =? 302)
            && (m_allow_idp cfg
                || (r_ok r && response_fresh cfg (mw_clock m) r && own_flow_presented m j (r_irt r)      (* C17_session_needs_own_tracking_cookie *)
                    && (if nonempty relay then                                                           (* C17_redirect_target *)
                          match relay_flow m j relay with
                          | Some f => location_eqb (or_loc o) (LUrl (fl_uri f))
                                      && existsb (fun c => (oc_kind c =? 0) && String.eqb (oc_name c) (m_prefix cfg +++ relay)) (or_cookies o)
                          | None => false
                          end
                        else location_eqb (or_loc o) (LUrl (m_default_redirect cfg)))))
          else (or_status o =? 403) && match or_cookies o with [] => true | _ => false end)              (* C17_refused_without_cookie *)
      && match faithful_delivery m r j relay with                                                         (* C17_interleaving *)
         | Some f => o_sets_session o && location_eqb (or_loc o) (LUrl (fl_uri f))
         | None => true
         end.

(* completeness without RelayState: a fresh valid answer to one of this browser's
   own live flows, delivered with NO (or an empty) RelayState, is accepted and
   goes to the configured default *)
Definition default_delivery_clause (m : mw) (r : response) (j : jar) (relay : string) (o : oreply) : bool :=
  if negb (nonempty relay) && r_ok r && response_fresh (mw_cfg m) (mw_clock m) r && own_flow_presented m j (r_irt r)
  then o_sets_session o && location_eqb (or_loc o) (LUrl (m_default_redirect (mw_cfg m)))
  else true.

Definition spec_step (m : mw) (a : action) (o : oreply) : bool :=
  let cfg := mw_cfg m in
  match a with
  | Deliver r j relay req_https =>
      spec_deliver_core m r j relay req_https o && default_delivery_clause m r j relay o
  | Start u idx rid =>
      forallb (cookie_flags_ok cfg false) (or_cookies o) && negb (o_sets_session o)
      && started_flow_ok cfg u o
  | Page u j idx rid =>
      forallb (cookie_flags_ok cfg false) (or_cookies o) && negb (o_sets_session o)
      && (if or_ran o then                                                                                (* C16 gate inside histories *)
            match get_session (m_session_name cfg) (m_scodec cfg) (mw_clock m) j with Some _ => true | None => false end
          else started_flow_ok cfg u o)
  | Advance _ => true
  end.

(* one history = one case *)
Record hcase := {
  hc_cfg : mwcfg;
  hc_t0 : Z;
  hc_script : list saction;
  hc_obs : list oreply
}.

(* walk the script with the model; returns (all replies agree, property holds at every step) *)
Fixpoint walk (m : mw) (s : list saction) (obs : list oreply) : bool * bool :=
  match s, obs with
  | [], [] => (true, true)
  | a :: s', o :: obs' =>
      let act := resolve_action m a in
      let '(m', rp) := step m act in
      let ag := oreply_eqb (project rp) o in
      let sp := spec_step m act o in
      let '(ag', sp') := walk m' s' obs' in
      (ag && ag', sp && sp')
  | _, _ => (false, true)
  end.
Definition hcase_agree (c : hcase) : bool := fst (walk (init (hc_cfg c) (hc_t0 c)) (hc_script c) (hc_obs c)).
Definition hcase_spec (c : hcase) : bool := snd (walk (init (hc_cfg c) (hc_t0 c)) (hc_script c) (hc_obs c)).
Definition check_hcases := check_cases hcase_agree hcase_spec.

(* configuration case: the live middleware of samlsp.New against default_cfg *)
Record mcfgcase := { mc_model : mwcfg; mc_live : mwcfg }.
Definition mwcfg_eqb (a b : mwcfg) : bool :=
  String.eqb (m_prefix a) (m_prefix b) && codec_eqb (m_tcodec a) (m_tcodec b) && codec_eqb (m_scodec a) (m_scodec b)
  && Bool.eqb (m_arr a) (m_arr b) && (m_track_cookie_age a =? m_track_cookie_age b)
  && (m_session_cookie_age a =? m_session_cookie_age b) && String.eqb (m_session_name a) (m_session_name b)
  && String.eqb (m_acs_path a) (m_acs_path b) && Bool.eqb (m_acs_https a) (m_acs_https b) && Bool.eqb (m_secure a) (m_secure b)
  && Bool.eqb (m_allow_idp a) (m_allow_idp b) && String.eqb (m_default_redirect a) (m_default_redirect b)
  && Bool.eqb (m_post_binding a) (m_post_binding b) && (m_mid a =? m_mid b).
Definition mcfgcase_agree (c : mcfgcase) : bool := mwcfg_eqb (mc_model c) (mc_live c).
(* C17_tracking_lifetime on the live configuration: token and cookie lifetime are MaxIssueDelay *)
Definition mcfgcase_spec (c : mcfgcase) : bool :=
  (c_max_age (m_tcodec (mc_live c)) =? m_mid (mc_live c)) && (m_track_cookie_age (mc_live c) =? m_mid (mc_live c)).
Definition check_mcfgcases := check_cases mcfgcase_agree mcfgcase_spec.
