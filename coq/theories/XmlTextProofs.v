(* XmlTextProofs.v — round-trip theorems for the byte layer (C07) *)
From Saml Require Import Base BaseProofs XmlText.
Local Open Scope Z_scope.

Lemma code_range c : 0 <= code c < 256.
Proof.
  unfold code. pose proof (N_ascii_bounded c) as H. lia.
Qed.

(* ---------- on valid strings escapeString acts byte by byte ---------- *)
Definition esc_b (m : escmode) (c : ascii) : string :=
  if code c <? 128 then match classify m (code c) 1 with Repl e => e | Pass => String c EmptyString end
  else String c EmptyString.
Fixpoint esc_bytes (m : escmode) (s : string) : string :=
  match s with EmptyString => EmptyString | String c r => esc_b m c +++ esc_bytes m r end.

Fixpoint all_hi (k : nat) (s : string) : bool :=
  match k with
  | O => true
  | S k' => match s with String c r => (128 <=? code c) && all_hi k' r | EmptyString => false end
  end.

Lemma decode_rune_cases c r rn w :
  decode_rune (String c r) = (rn, w) ->
  (code c < 128 /\ rn = code c /\ w = 1%nat) \/
  (128 <= code c /\ ((rn = rune_error /\ w = 1%nat) \/
                     (128 <= rn /\ (w = 2 \/ w = 3 \/ w = 4)%nat /\ all_hi (Nat.pred w) r = true))).
Proof.
  pose proof (code_range c) as Hc.
  unfold decode_rune. intro H.
  destruct (code c <? 128) eqn:E0; [injection H as <- <-; left; repeat split; lia|].
  right. split; [lia|].
  destruct ((194 <=? code c) && (code c <=? 223)) eqn:E2.
  { destruct r as [|c1 r1]; [injection H as <- <-; left; auto|].
    unfold is_cont in H. destruct ((128 <=? code c1) && (code c1 <=? 191)) eqn:Ec1; injection H as <- <-; [|left; auto].
    right. repeat split; [lia | auto |]. simpl. replace (128 <=? code c1) with true by lia. reflexivity. }
  destruct ((224 <=? code c) && (code c <=? 239)) eqn:E3.
  { destruct r as [|c1 [|c2 r2]]; try (injection H as <- <-; left; auto; fail).
    match type of H with context [if ?b then _ else _] => destruct b eqn:Eb end; injection H as <- <-; [|left; auto].
    right. unfold is_cont in Eb.
    destruct (code c =? 224) eqn:E224; destruct (code c =? 237) eqn:E237;
      (repeat split; [lia | auto |]); simpl;
      replace (128 <=? code c1) with true by lia; replace (128 <=? code c2) with true by lia; reflexivity. }
  destruct ((240 <=? code c) && (code c <=? 244)) eqn:E4; [|injection H as <- <-; left; auto].
  destruct r as [|c1 [|c2 [|c3 r3]]]; try (injection H as <- <-; left; auto; fail).
  match type of H with context [if ?b then _ else _] => destruct b eqn:Eb end; injection H as <- <-; [|left; auto].
  right. unfold is_cont in Eb.
  destruct (code c =? 240) eqn:E240; destruct (code c =? 244) eqn:E244;
    (repeat split; [lia | auto |]); simpl;
    replace (128 <=? code c1) with true by lia; replace (128 <=? code c2) with true by lia;
    replace (128 <=? code c3) with true by lia; reflexivity.
Qed.

Lemma classify_hi m rn w :
  128 <= rn -> in_char_range rn = true -> w <> 1%nat -> classify m rn w = Pass.
Proof.
  intros H Hr Hw. unfold classify.
  repeat match goal with |- context [?a =? ?b] =>
    match b with 38 => idtac | 60 => idtac | 62 => idtac | 39 => idtac | 34 => idtac | 9 => idtac | 10 => idtac | 13 => idtac end;
    replace (a =? b) with false by lia end.
  rewrite Hr. cbn [negb orb]. destruct w as [|[|w]]; try contradiction; cbn [Nat.eqb]; rewrite ?andb_false_r; reflexivity.
Qed.

Lemma esc_b_hi m c : 128 <= code c -> esc_b m c = String c EmptyString.
Proof. intro H. unfold esc_b. replace (code c <? 128) with false by lia. reflexivity. Qed.

Lemma esc_from_0 m e s : esc_from m 0 e s = esc_from m 0 true s.
Proof. destruct s; reflexivity. Qed.

Lemma esc_from_bytes m : forall s k,
  valid_from k s = true -> all_hi k s = true -> esc_from m k true s = esc_bytes m s.
Proof.
  induction s as [|c r IH]; intros k Hv Hh; [reflexivity|].
  destruct k as [|k'].
  - cbn [esc_from valid_from] in *. destruct (decode_rune (String c r)) as [rn w] eqn:Ed.
    apply decode_rune_cases in Ed.
    destruct Ed as [(Hc & -> & ->) | (Hc & [(-> & ->) | (Hrn & Hw & Hhi)])].
    + cbn [esc_bytes]. unfold esc_b. replace (code c <? 128) with true by lia.
      assert (Hr : valid_from 0 r = true).
      { replace (code c =? rune_error) with false in Hv by (unfold rune_error; lia). cbn [andb] in Hv.
        destruct (negb (in_char_range (code c))); [discriminate | exact Hv]. }
      destruct (classify m (code c) 1); cbn [Nat.pred].
      * cbn [append]. f_equal. apply IH; auto.
      * rewrite (esc_from_0 m false). f_equal. apply IH; auto.
    + rewrite Z.eqb_refl in Hv. cbn in Hv. discriminate.
    + assert (Hw1 : Nat.eqb w 1 = false) by (destruct Hw as [-> | [-> | ->]]; reflexivity).
      rewrite Hw1, andb_false_r in Hv.
      destruct (in_char_range rn) eqn:Er; cbn [negb] in Hv; [|discriminate].
      rewrite classify_hi; auto; [| intros ->; discriminate].
      cbn [esc_bytes]. rewrite esc_b_hi by lia. cbn [append]. f_equal. apply IH; auto.
  - cbn [valid_from all_hi esc_from] in *. apply andb_true_iff in Hh. destruct Hh as [Hc Hh].
    cbn [esc_bytes]. rewrite esc_b_hi by lia. cbn [append]. f_equal. apply IH; auto.
Qed.

Lemma etree_escape_bytes m s : valid_xml_chars s = true -> etree_escape m s = esc_bytes m s.
Proof. intro H. apply esc_from_bytes; [exact H | reflexivity]. Qed.

(* ---------- the reader on byte-wise escaped text ---------- *)
Lemma srev_acc_app s : forall acc, srev_acc s acc = srev_acc s EmptyString +++ acc.
Proof.
  induction s as [|c r IH]; intro acc; [reflexivity|].
  cbn [srev_acc]. rewrite IH, (IH (String c EmptyString)). rewrite app_assoc_s. reflexivity.
Qed.
Lemma srev_snoc c out : srev (String c out) = srev out +++ String c EmptyString.
Proof. unfold srev. cbn [srev_acc]. apply srev_acc_app. Qed.

Lemma code_inj a b : code a = code b -> a = b.
Proof.
  unfold code. intro H. apply N2Z.inj in H.
  rewrite <- (ascii_N_embedding a), <- (ascii_N_embedding b). rewrite H. reflexivity.
Qed.
Lemma ascii_eqb_code a b : code a <> code b -> Ascii.eqb a b = false.
Proof. intro H. apply Ascii.eqb_neq. intro E. apply H. rewrite E. reflexivity. Qed.

Definition quote_ok (q : option ascii) (c : ascii) : Prop :=
  q = None \/ (q = Some """"%char /\ code c <> 34).

Lemma rt_raw q b0 b1 out c r :
  quote_ok q c -> code c <> 60 -> code c <> 38 -> code c <> 13 -> b1 <> 13 ->
  (b0 =? 93) && (b1 =? 93) && (code c =? 62) = false ->
  read_from q RText b0 b1 out (String c r) = read_from q RText b1 (code c) (String c out) r.
Proof.
  intros Hq H60 H38 H13 Hb1 Hcd. cbn [read_from]. rewrite Hcd.
  replace (code c =? 60) with false by lia. replace (code c =? 38) with false by lia.
  replace (code c =? 13) with false by lia. replace (b1 =? 13) with false by lia. cbn [andb].
  destruct Hq as [-> | [-> Hq]]; [reflexivity|].
  rewrite ascii_eqb_code; [reflexivity|]. change (code """"%char) with 34. exact Hq.
Qed.

(* an escaped character: the reader leaves the entity with b0 = b1 = 0 and one more output byte *)
Lemma rt_ent q b0 b1 out e x r :
  (q = None \/ q = Some """"%char) ->
  In (e, x) [("&amp;", "&"%char); ("&lt;", "<"%char); ("&gt;", ">"%char); ("&apos;", "'"%char);
             ("&quot;", """"%char); ("&#x9;", chr 9); ("&#xA;", chr 10); ("&#xD;", chr 13)] ->
  read_from q RText b0 b1 out (e +++ r) = read_from q RText 0 0 (String x out) r.
Proof.
  intros Hq Hin.
  assert (S : forall s, read_from q RText b0 b1 out (String "&" s) = read_from q RAmp b0 b1 out s).
  { intro s. cbn [read_from]. change (code "&") with 38. cbn [Z.eqb Pos.eqb]. rewrite andb_false_r.
    destruct Hq as [-> | ->]; reflexivity. }
  cbn [In] in Hin.
  repeat (destruct Hin as [Hin | Hin]; [injection Hin as <- <-; cbn [append]; rewrite S; reflexivity|]).
  contradiction.
Qed.

(* "]]>" does not occur in p0 p1 s (p0, p1: the two characters before s; 0: none) *)
Fixpoint ncde (p0 p1 : Z) (s : string) : bool :=
  match s with
  | EmptyString => true
  | String c r => negb ((p0 =? 93) && (p1 =? 93) && (code c =? 62)) && ncde p1 (code c) r
  end.

Lemma has_cr_cons c r : has_cr (String c r) = false -> code c <> 13 /\ has_cr r = false.
Proof. cbn [has_cr]. intro H. apply orb_false_iff in H. destruct H as [H1 H2]. split; [lia | exact H2]. Qed.

Lemma esc_b_plain m c :
  code c < 128 -> in_char_range (code c) = true ->
  code c <> 38 -> code c <> 60 -> code c <> 62 -> code c <> 39 -> code c <> 34 ->
  code c <> 9 -> code c <> 10 -> code c <> 13 -> esc_b m c = String c EmptyString.
Proof.
  intros H Hr. intros. unfold esc_b, classify. replace (code c <? 128) with true by lia.
  repeat match goal with |- context [code c =? ?b] => replace (code c =? b) with false by (unfold rune_error; lia) end.
  rewrite Hr. reflexivity.
Qed.

Definition rd_inv (m : escmode) (b0 b1 p0 p1 : Z) (s : string) : Prop :=
  is_cattr m = true -> ncde p0 p1 s = true /\ (b1 = 93 -> p1 = 93) /\ (b0 = 93 -> b1 = 93 -> p0 = 93).

Lemma rd_inv_raw m b0 b1 p0 p1 c r :
  rd_inv m b0 b1 p0 p1 (String c r) -> rd_inv m b1 (code c) p1 (code c) r.
Proof.
  intros H Hm. destruct (H Hm) as (Hn & H1 & H2). cbn [ncde] in Hn. apply andb_true_iff in Hn.
  destruct Hn as [_ Hn]. repeat split; auto.
Qed.
Lemma rd_inv_ent m b0 b1 p0 p1 c r :
  rd_inv m b0 b1 p0 p1 (String c r) -> rd_inv m 0 0 p1 (code c) r.
Proof.
  intros H Hm. destruct (H Hm) as (Hn & H1 & H2). cbn [ncde] in Hn. apply andb_true_iff in Hn.
  destruct Hn as [_ Hn]. repeat split; auto; intros; discriminate.
Qed.
Lemma rd_inv_cd m b0 b1 p0 p1 c r :
  (is_cattr m = false -> code c <> 62) ->
  rd_inv m b0 b1 p0 p1 (String c r) -> (b0 =? 93) && (b1 =? 93) && (code c =? 62) = false.
Proof.
  intros Hgt H. destruct (code c =? 62) eqn:E; [|rewrite andb_false_r; reflexivity].
  destruct (is_cattr m) eqn:Em; [|exfalso; apply Hgt; [reflexivity | lia]].
  destruct (H Em) as (Hn & H1 & H2). cbn [ncde] in Hn. rewrite E in Hn.
  apply andb_true_iff in Hn. destruct Hn as [Hn _]. apply negb_true_iff in Hn.
  rewrite andb_true_r in Hn. rewrite andb_true_r.
  destruct (b0 =? 93) eqn:E0; [|reflexivity]. destruct (b1 =? 93) eqn:E1; [|reflexivity].
  exfalso. assert (p1 = 93) by (apply H1; lia). assert (p0 = 93) by (apply H2; lia).
  subst. discriminate.
Qed.

Ltac raw_side := first [reflexivity | (cbn; lia) | (right; cbn; lia) | (left; reflexivity) | (intro; discriminate) | (intro; cbn; lia)].

Lemma read_esc_bytes m q :
  (q = None \/ (q = Some """"%char /\ is_ctext m = false)) ->
  forall s k b0 b1 p0 p1 out,
    valid_from k s = true -> all_hi k s = true -> b1 <> 13 ->
    (is_normal m = true -> has_cr s = false) ->
    rd_inv m b0 b1 p0 p1 s ->
    read_from q RText b0 b1 out (esc_bytes m s) = Some (srev out +++ s).
Proof.
  intro Hq.
  assert (Hq' : q = None \/ q = Some """"%char) by (destruct Hq as [H | [H _]]; auto).
  induction s as [|c r IH]; intros k b0 b1 p0 p1 out Hv Hh Hb1 Hcr Hinv.
  { cbn. rewrite app_nil_r_s. reflexivity. }
  assert (Hcr' : is_normal m = true -> has_cr r = false) by (intro Hm; apply (has_cr_cons c r); auto).
  assert (Fin : forall x, Some (srev (String x out) +++ r) = Some (srev out +++ String x r)).
  { intro x. rewrite srev_snoc, app_assoc_s. reflexivity. }
  (* a byte of a multi-byte sequence: copied by the writer, copied by the reader *)
  assert (Hi : forall k', 128 <= code c -> valid_from k' r = true -> all_hi k' r = true ->
                          read_from q RText b0 b1 out (esc_bytes m (String c r)) = Some (srev out +++ String c r)).
  { intros k' Hc Hv' Hh'. cbn [esc_bytes]. rewrite esc_b_hi by lia. cbn [append].
    assert (HQ : quote_ok q c) by (destruct Hq' as [-> | ->]; [left; reflexivity | right; split; [reflexivity | lia]]).
    assert (HCD : (b0 =? 93) && (b1 =? 93) && (code c =? 62) = false) by (eapply rd_inv_cd; eauto; intros _; lia).
    rewrite (rt_raw q b0 b1 out c _ HQ) by (auto; lia).
    rewrite (IH k' b1 (code c) p1 (code c)); auto; [lia | eapply rd_inv_raw; eauto]. }
  destruct k as [|k'].
  2:{ cbn [valid_from all_hi] in Hv, Hh. apply andb_true_iff in Hh. destruct Hh as [Hc Hh].
      apply (Hi k'); auto. lia. }
  cbn [valid_from] in Hv. destruct (decode_rune (String c r)) as [rn w] eqn:Ed.
  apply decode_rune_cases in Ed.
  destruct Ed as [(Hc & -> & ->) | (Hc & [(-> & ->) | (Hrn & Hw & Hhi)])].
  3:{ assert (Hw1 : Nat.eqb w 1 = false) by (destruct Hw as [-> | [-> | ->]]; reflexivity).
      rewrite Hw1, andb_false_r in Hv. destruct (negb (in_char_range rn)); [discriminate|].
      apply (Hi (Nat.pred w)); auto. }
  2:{ rewrite Z.eqb_refl in Hv. cbn in Hv. discriminate. }
  (* an ASCII character *)
  replace (code c =? rune_error) with false in Hv by (unfold rune_error; lia). cbn [andb Nat.pred] in Hv.
  destruct (in_char_range (code c)) eqn:Er; cbn [negb] in Hv; [|discriminate].
  assert (ENT : forall e, esc_b m c = e ->
                  In (e, c) [("&amp;", "&"%char); ("&lt;", "<"%char); ("&gt;", ">"%char); ("&apos;", "'"%char);
                             ("&quot;", """"%char); ("&#x9;", chr 9); ("&#xA;", chr 10); ("&#xD;", chr 13)] ->
                  read_from q RText b0 b1 out (esc_bytes m (String c r)) = Some (srev out +++ String c r)).
  { intros e He Hin. cbn [esc_bytes]. rewrite He. rewrite (rt_ent q b0 b1 out e c (esc_bytes m r) Hq' Hin).
    rewrite (IH 0%nat 0 0 p1 (code c)); auto; [lia | eapply rd_inv_ent; eauto]. }
  assert (RAW : esc_b m c = String c EmptyString -> code c <> 60 -> code c <> 38 ->
                (is_normal m = true \/ code c <> 13) -> (is_ctext m = true \/ code c <> 34) ->
                (is_cattr m = false -> code c <> 62) ->
                read_from q RText b0 b1 out (esc_bytes m (String c r)) = Some (srev out +++ String c r)).
  { intros He H60 H38 H13 H34 H62. cbn [esc_bytes]. rewrite He. cbn [append].
    assert (code c <> 13).
    { destruct H13 as [Hm | H]; [|exact H]. apply (has_cr_cons c r). auto. }
    assert (HQ : quote_ok q c).
    { destruct Hq as [-> | [-> Hct]]; [left; reflexivity|]. right. split; [reflexivity|].
      destruct H34 as [H34 | H34]; [congruence | exact H34]. }
    assert (HCD : (b0 =? 93) && (b1 =? 93) && (code c =? 62) = false) by (eapply rd_inv_cd; eauto).
    rewrite (rt_raw q b0 b1 out c _ HQ) by auto.
    rewrite (IH 0%nat b1 (code c) p1 (code c)); auto; eapply rd_inv_raw; eauto. }
  destruct (Z.eq_dec (code c) 38) as [E|N38].
  { assert (c = "&"%char) by (apply code_inj; exact E). subst c. apply (ENT "&amp;"); [destruct m; reflexivity | simpl; tauto]. }
  destruct (Z.eq_dec (code c) 60) as [E|N60].
  { assert (c = "<"%char) by (apply code_inj; exact E). subst c. apply (ENT "&lt;"); [destruct m; reflexivity | simpl; tauto]. }
  destruct (Z.eq_dec (code c) 62) as [E|N62].
  { assert (c = ">"%char) by (apply code_inj; exact E). subst c.
    destruct m; [apply (ENT "&gt;"); [reflexivity | simpl; tauto] | apply (ENT "&gt;"); [reflexivity | simpl; tauto] |].
    apply RAW; raw_side. }
  destruct (Z.eq_dec (code c) 39) as [E|N39].
  { assert (c = "'"%char) by (apply code_inj; exact E). subst c.
    destruct m; [apply (ENT "&apos;"); [reflexivity | simpl; tauto] | |];
      (apply RAW; raw_side). }
  destruct (Z.eq_dec (code c) 34) as [E|N34].
  { assert (c = """"%char) by (apply code_inj; exact E). subst c.
    destruct m; [apply (ENT "&quot;"); [reflexivity | simpl; tauto] | | apply (ENT "&quot;"); [reflexivity | simpl; tauto]].
    apply RAW; raw_side. }
  destruct (Z.eq_dec (code c) 9) as [E|N9].
  { assert (c = chr 9) by (apply code_inj; exact E). subst c.
    destruct m; [| | apply (ENT "&#x9;"); [reflexivity | simpl; tauto]];
      (apply RAW; raw_side). }
  destruct (Z.eq_dec (code c) 10) as [E|N10].
  { assert (c = chr 10) by (apply code_inj; exact E). subst c.
    destruct m; [| | apply (ENT "&#xA;"); [reflexivity | simpl; tauto]];
      (apply RAW; raw_side). }
  destruct (Z.eq_dec (code c) 13) as [E|N13].
  { assert (c = chr 13) by (apply code_inj; exact E). subst c.
    destruct m; [| apply (ENT "&#xD;"); [reflexivity | simpl; tauto] | apply (ENT "&#xD;"); [reflexivity | simpl; tauto]].
    apply RAW; raw_side. }
  apply RAW; auto. apply esc_b_plain; auto.
Qed.

Lemma ncde_of_no_cdata_end : forall s p0 p1,
  has_cdata_end s = false ->
  (p1 = 93 -> prefixb "]>" s = false) ->
  (p0 = 93 -> p1 = 93 -> prefixb ">" s = false) ->
  ncde p0 p1 s = true.
Proof.
  induction s as [|c r IH]; intros p0 p1 Hn H1 H2; [reflexivity|].
  cbn [has_cdata_end] in Hn. apply orb_false_iff in Hn. destruct Hn as [Hp Hn].
  cbn [ncde]. apply andb_true_iff. split.
  - apply negb_true_iff. destruct (p0 =? 93) eqn:E0; [|reflexivity]. destruct (p1 =? 93) eqn:E1; [|reflexivity].
    cbn [andb]. assert (H : prefixb ">" (String c r) = false) by (apply H2; lia).
    cbn [prefixb] in H. rewrite andb_true_r in H.
    destruct (code c =? 62) eqn:E; [|reflexivity].
    assert (c = ">"%char) by (apply code_inj; cbn; lia). subst c. discriminate.
  - apply IH; [exact Hn | |].
    + intro Hc. assert (c = "]"%char) by (apply code_inj; cbn; lia). subst c.
      cbn [prefixb] in Hp. cbn [Ascii.eqb Bool.eqb andb] in Hp. exact Hp.
    + intros Hp1 Hc. assert (c = "]"%char) by (apply code_inj; cbn; lia). subst c.
      specialize (H1 Hp1). cbn [prefixb] in H1. cbn [Ascii.eqb Bool.eqb andb] in H1. exact H1.
Qed.

Lemma read_done s : srev EmptyString +++ s = s.
Proof. reflexivity. Qed.

(* every string of valid XML characters written as character data with
   CanonicalText is read back unchanged *)
Theorem xml_text_canonical_roundtrip s :
  valid_xml_chars s = true -> xml_read_text (etree_escape EscCanonText s) = Some s.
Proof.
  intro H. unfold xml_read_text, xml_read. rewrite etree_escape_bytes by exact H.
  rewrite (read_esc_bytes EscCanonText None (or_introl eq_refl) s 0%nat 0 0 0 0 EmptyString);
    try exact H; try reflexivity; try lia; try (intro; discriminate).
  rewrite read_done, H. reflexivity.
Qed.

(* ... as an attribute value with CanonicalAttrVal, provided it does not contain "]]>" *)
Theorem xml_attr_canonical_roundtrip s :
  valid_xml_chars s = true -> has_cdata_end s = false ->
  xml_read_attr (etree_escape EscCanonAttr s) = Some s.
Proof.
  intros H Hc. unfold xml_read_attr, xml_read. rewrite etree_escape_bytes by exact H.
  rewrite (read_esc_bytes EscCanonAttr (Some """"%char) (or_intror (conj eq_refl eq_refl)) s 0%nat 0 0 0 0 EmptyString);
    try exact H; try reflexivity; try lia; try (intro; discriminate).
  - rewrite read_done, H. reflexivity.
  - intros _. repeat split; try (intros; discriminate). apply ncde_of_no_cdata_end; auto; intros; discriminate.
Qed.

(* default escaping (the three writers before fix F14): only without carriage returns *)
Theorem xml_text_normal_roundtrip s :
  valid_xml_chars s = true -> has_cr s = false -> xml_read_text (etree_escape EscNormal s) = Some s.
Proof.
  intros H Hc. unfold xml_read_text, xml_read. rewrite etree_escape_bytes by exact H.
  rewrite (read_esc_bytes EscNormal None (or_introl eq_refl) s 0%nat 0 0 0 0 EmptyString);
    try exact H; try reflexivity; try lia; try (intro; discriminate); auto.
  rewrite read_done, H. reflexivity.
Qed.
Theorem xml_attr_normal_roundtrip s :
  valid_xml_chars s = true -> has_cr s = false -> xml_read_attr (etree_escape EscNormal s) = Some s.
Proof.
  intros H Hc. unfold xml_read_attr, xml_read. rewrite etree_escape_bytes by exact H.
  rewrite (read_esc_bytes EscNormal (Some """"%char) (or_intror (conj eq_refl eq_refl)) s 0%nat 0 0 0 0 EmptyString);
    try exact H; try reflexivity; try lia; try (intro; discriminate); auto.
  rewrite read_done, H. reflexivity.
Qed.

(* the defect fixed by F14, reproduced in the model: with default escaping a
   carriage return comes back as a line feed *)
Theorem xml_text_cr_refuted :
  exists s, valid_xml_chars s = true /\ xml_read_text (etree_escape EscNormal s) <> Some s.
Proof. exists (String (chr 13) EmptyString). split; [reflexivity|]. vm_compute. discriminate. Qed.

(* a present defect: "]]>" inside an attribute value is written unescaped by
   CanonicalAttrVal and refused by encoding/xml *)
Theorem xml_attr_cdata_end_refuted :
  exists s, valid_xml_chars s = true /\ xml_read_attr (etree_escape EscCanonAttr s) = None.
Proof. exists "]]>". split; reflexivity. Qed.

(* non-vacuity *)
Example xml_text_example :
  xml_read_text (etree_escape EscCanonText ("a<&>""' ]]>" +++ String (chr 13) (String (chr 10) (String (chr 9) "z"))))
  = Some ("a<&>""' ]]>" +++ String (chr 13) (String (chr 10) (String (chr 9) "z"))).
Proof. vm_compute. reflexivity. Qed.

(* the monitor of the correspondence check is the theorems above (with the
   visible exclusion of "]]>" in attribute values) *)
Theorem esccase_spec_of_model m a s :
  (m = 1 /\ a = false) \/ (m = 2 /\ a = true /\ has_cdata_end s = false) \/ m = 0 ->
  esccase_spec {| xe_mode := m; xe_attr := a; xe_in := s; xe_out := etree_escape (mode_of m) s;
                  xe_back := xml_read (if a then Some """"%char else None) (etree_escape (mode_of m) s) |} = true.
Proof.
  intro Hm. unfold esccase_spec. cbn [xe_mode xe_attr xe_in xe_back].
  destruct (valid_xml_chars s) eqn:Hv; [|reflexivity]. cbn [andb].
  destruct Hm as [[-> ->] | [[-> [-> Hc]] | ->]]; cbn [Z.eqb negb andb mode_of]; try reflexivity.
  - change (xml_read None) with xml_read_text. rewrite xml_text_canonical_roundtrip by exact Hv.
    cbn. apply String.eqb_refl.
  - change (xml_read (Some """"%char)) with xml_read_attr. rewrite xml_attr_canonical_roundtrip by assumption.
    cbn. apply String.eqb_refl.
Qed.

(* ---------- why a CR broke signatures before F14 (digest_stable_iff) ---------- *)
(* The signer digests the canonical serialisation of the in-memory text s; the
   verifier digests the canonical serialisation of what it parsed, s'.  The
   canonical serialisation is injective on strings of XML characters, so (for a
   collision-free digest) the two digests agree iff the text survived transport. *)
Theorem canonical_text_injective s s' :
  valid_xml_chars s = true -> valid_xml_chars s' = true ->
  (etree_escape EscCanonText s = etree_escape EscCanonText s' <-> s = s').
Proof.
  intros H H'. split; [|intros ->; reflexivity].
  intro E. pose proof (xml_text_canonical_roundtrip s H) as R. rewrite E in R.
  rewrite (xml_text_canonical_roundtrip s' H') in R. injection R as <-. reflexivity.
Qed.

Section Digest.
Variable digest : string -> string.
Hypothesis digest_injective : forall a b, digest a = digest b -> a = b.

Theorem digest_stable_iff (m : escmode) s s' :
  valid_xml_chars s = true -> valid_xml_chars s' = true ->
  xml_read_text (etree_escape m s) = Some s' ->          (* what the verifier parsed from the writer's bytes *)
  (digest (etree_escape EscCanonText s') = digest (etree_escape EscCanonText s) <-> s' = s).
Proof.
  intros H H' _. split.
  - intro E. apply digest_injective in E. apply (canonical_text_injective s' s H' H). exact E.
  - intros ->. reflexivity.
Qed.
End Digest.

(* with default escaping "a CR b" is parsed as "a LF b": the digests differ *)
Example digest_cr_example :
  xml_read_text (etree_escape EscNormal (String "a" (String (chr 13) "b"))) = Some (String "a" (String (chr 10) "b")).
Proof. vm_compute. reflexivity. Qed.
