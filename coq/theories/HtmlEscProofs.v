(* HtmlEscProofs.v — lemmas about HtmlEsc.v (html/template escapers, UTF-8 decoding, character references) *)
From Saml Require Import Base BaseProofs UrlEnc UrlEncProofs HtmlEsc.
From Coq Require Import ZifyBool.
Ltac Zify.zify_post_hook ::= Z.div_mod_to_equations.
Arguments seqb : simpl never.

Fixpoint conts (k : nat) (s : string) : Prop :=
  match k, s with
  | O, _ => True
  | S _, EmptyString => True
  | S k', String c r => 128 <= code c /\ conts k' r
  end.

Ltac break_if :=
  match goal with
  | H : context [if ?b then _ else _] |- _ => destruct b eqn:?
  | H : context [match ?r with EmptyString => _ | String _ _ => _ end] |- _ => destruct r
  end.

Lemma decode_rune_spec c r rn w :
  decode_rune (String c r) = (rn, w) ->
  (w = 1%nat /\ (code c < 128 -> rn = code c) /\ (128 <= code c -> 63 <= rn)) \/
  ((2 <= w)%nat /\ 128 <= code c /\ 63 <= rn /\ conts (pred w) r).
Proof.
  pose proof (code_range c) as Hc.
  unfold decode_rune, first_info, RuneError, is_cont.
  intros H.
  repeat break_if; cbn in H; try discriminate;
  repeat break_if; cbn in H; try discriminate;
  inversion H; subst; clear H; cbn [pred conts];
  try (left; split; [reflexivity|split; lia]);
  try (right; repeat split; try lia).
Qed.

(* ---- htmlReplacer is a byte-wise map ---- *)
Definition esc_byte (c : ascii) : string :=
  match repl_of (code c) with Some t => t | None => String c EmptyString end.
Fixpoint bytewise (s : string) : string :=
  match s with EmptyString => EmptyString | String c r => esc_byte c +++ bytewise r end.

Lemma repl_none_ge z : 63 <= z -> repl_of z = None.
Proof.
  intros H. unfold repl_of.
  assert ((z =? 0) = false) as -> by lia. assert ((z =? 34) = false) as -> by lia.
  assert ((z =? 38) = false) as -> by lia. assert ((z =? 39) = false) as -> by lia.
  assert ((z =? 43) = false) as -> by lia. assert ((z =? 60) = false) as -> by lia.
  assert ((z =? 62) = false) as -> by lia. reflexivity.
Qed.

Lemma esc_byte_high c : 128 <= code c -> esc_byte c = String c EmptyString.
Proof. intros H. unfold esc_byte. rewrite repl_none_ge by lia. reflexivity. Qed.

Lemma aux_O_flag b s : html_replace_aux O b s = html_replace_aux O true s.
Proof. destruct s; reflexivity. Qed.

Lemma aux_bytewise : forall s k, conts k s -> html_replace_aux k true s = bytewise s.
Proof.
  induction s as [|c r IH]; intros k Hk; [destruct k; reflexivity|].
  destruct k as [|k].
  - cbn [html_replace_aux bytewise].
    destruct (decode_rune (String c r)) as [rn w] eqn:E.
    destruct (decode_rune_spec _ _ _ _ E) as [(-> & Hlo & Hhi)|(Hw & Hc & Hr & Hcont)].
    + cbn [Nat.pred]. destruct (Z_lt_ge_dec (code c) 128) as [L|G].
      * rewrite (Hlo L). unfold esc_byte. destruct (repl_of (code c)).
        -- rewrite aux_O_flag, IH by exact I. reflexivity.
        -- rewrite IH by exact I. reflexivity.
      * rewrite repl_none_ge by lia. rewrite esc_byte_high by lia. rewrite IH by exact I. reflexivity.
    + rewrite repl_none_ge by lia. rewrite esc_byte_high by lia. rewrite IH by exact Hcont. reflexivity.
  - cbn [conts] in Hk. destruct Hk as [Hc Hk]. cbn [html_replace_aux bytewise].
    rewrite esc_byte_high by lia. rewrite IH by exact Hk. reflexivity.
Qed.

Theorem html_replace_bytewise s : html_replace s = bytewise s.
Proof. apply aux_bytewise. exact I. Qed.

(* ---- inertness ---- *)
Definition good_attr_char (c : ascii) : bool :=
  negb ((code c =? 34) || (code c =? 60) || (code c =? 62) || (code c =? 39) || (code c =? 0)).

Lemma esc_byte_good c : all_chars good_attr_char (esc_byte c) = true.
Proof. all_ascii c; vm_compute; reflexivity. Qed.

Lemma bytewise_good s : all_chars good_attr_char (bytewise s) = true.
Proof.
  induction s as [|c s IH]; [reflexivity|]. cbn [bytewise]. now rewrite all_chars_app, esc_byte_good, IH.
Qed.

Lemma good_no_chr d s :
  good_attr_char (chr d) = false -> 0 <= d < 256 -> all_chars good_attr_char s = true -> contains_chr d s = false.
Proof.
  intros Hd Hr. induction s as [|c s IH]; [reflexivity|]. cbn. intros H.
  apply andb_true_iff in H as [Hc Hs]. rewrite (IH Hs), orb_false_r.
  destruct (code c =? d) eqn:E; [|reflexivity].
  apply code_eqb_eq in E. subst c. congruence.
Qed.

Definition nul1 (c : ascii) : string := if code c =? 0 then FFFD else String c EmptyString.

Lemma nul_to_fffd_cons c r : nul_to_fffd (String c r) = nul1 c +++ nul_to_fffd r.
Proof. unfold nul1. cbn [nul_to_fffd]. destruct (code c =? 0); reflexivity. Qed.

Lemma decode_plain c r :
  (code c =? 38) = false -> decode_refs_aux O (String c r) = String c (decode_refs_aux O r).
Proof. intros H. cbn [decode_refs_aux]. now rewrite H. Qed.

(* decoding one escaped byte gives the byte back (NUL becomes U+FFFD) *)
Lemma decode_esc_byte c rest :
  decode_refs_aux O (esc_byte c +++ rest) = nul1 c +++ decode_refs_aux O rest.
Proof.
  unfold esc_byte, nul1, repl_of.
  destruct (code c =? 0) eqn:E0.
  { apply code_eqb_eq in E0. subst c. reflexivity. }
  destruct (code c =? 34) eqn:E1. { apply code_eqb_eq in E1. subst c. reflexivity. }
  destruct (code c =? 38) eqn:E2. { apply code_eqb_eq in E2. subst c. reflexivity. }
  destruct (code c =? 39) eqn:E3. { apply code_eqb_eq in E3. subst c. reflexivity. }
  destruct (code c =? 43) eqn:E4. { apply code_eqb_eq in E4. subst c. reflexivity. }
  destruct (code c =? 60) eqn:E5. { apply code_eqb_eq in E5. subst c. reflexivity. }
  destruct (code c =? 62) eqn:E6. { apply code_eqb_eq in E6. subst c. reflexivity. }
  cbn [String.append]. now rewrite decode_plain.
Qed.

Lemma decode_bytewise s : decode_charrefs (bytewise s) = nul_to_fffd s.
Proof.
  unfold decode_charrefs. induction s as [|c s IH]; [reflexivity|].
  cbn [bytewise]. rewrite decode_esc_byte, IH, nul_to_fffd_cons. reflexivity.
Qed.

(* attr_escape_inert: for EVERY byte string (valid UTF-8 or not), the escaped
   value contains no double quote, '<', '>', single quote or NUL, and an HTML5
   attribute-value decoder gives back the input with NUL -> U+FFFD *)
Theorem attr_escape_inert s :
  contains_chr 34 (attr_escape s) = false /\ contains_chr 60 (attr_escape s) = false /\
  contains_chr 62 (attr_escape s) = false /\ contains_chr 39 (attr_escape s) = false /\
  contains_chr 0 (attr_escape s) = false /\
  decode_charrefs (attr_escape s) = nul_to_fffd s.
Proof.
  unfold attr_escape. rewrite html_replace_bytewise.
  pose proof (bytewise_good s) as G.
  repeat split; try (apply good_no_chr; [reflexivity|lia|exact G]).
  apply decode_bytewise.
Qed.

(* every '&' of the escaped text starts one of the references the escaper writes *)
Fixpoint amp_ok (s : string) : bool :=
  match s with
  | EmptyString => true
  | String c r =>
      (if code c =? 38
       then prefixb "amp;" r || prefixb "lt;" r || prefixb "gt;" r || prefixb "#34;" r || prefixb "#39;" r || prefixb "#43;" r
       else true) && amp_ok r
  end.

Lemma amp_ok_app_plain a b : contains_chr 38 a = false -> amp_ok (a +++ b) = amp_ok b.
Proof.
  induction a as [|c a IH]; [reflexivity|]. cbn. intros H. apply orb_false_iff in H as [H1 H2].
  now rewrite H1, IH.
Qed.

Lemma amp_ok_esc_byte c rest : amp_ok (esc_byte c +++ rest) = amp_ok rest.
Proof.
  unfold esc_byte, repl_of.
  destruct (code c =? 0) eqn:E0; [reflexivity|].
  destruct (code c =? 34) eqn:E1; [reflexivity|].
  destruct (code c =? 38) eqn:E2; [reflexivity|].
  destruct (code c =? 39) eqn:E3; [reflexivity|].
  destruct (code c =? 43) eqn:E4; [reflexivity|].
  destruct (code c =? 60) eqn:E5; [reflexivity|].
  destruct (code c =? 62) eqn:E6; [reflexivity|].
  cbn. now rewrite E2.
Qed.

Theorem attr_escape_amp_ok s : amp_ok (attr_escape s) = true.
Proof.
  unfold attr_escape. rewrite html_replace_bytewise.
  induction s as [|c s IH]; [reflexivity|]. cbn [bytewise]. now rewrite amp_ok_esc_byte.
Qed.

(* ---- urlFilter ---- *)
Theorem url_filter_safe s :
  (url_filter s = s \/ url_filter s = FAILSAFE) /\ is_safe_url (url_filter s) = true /\
  (url_filter s = s <-> is_safe_url s = true \/ s = FAILSAFE).
Proof.
  unfold url_filter. destruct (is_safe_url s) eqn:E.
  - split; [now left|]. split; [exact E|]. split; [intros _; now left|reflexivity].
  - split; [now right|]. split; [reflexivity|]. split.
    + intros H. right. now symmetry.
    + intros [H|H]; [discriminate|now symmetry].
Qed.

(* what "safe" means: no colon, or a '/' before the first colon, or the text
   before the first colon folds to http / https / mailto *)
Theorem is_safe_url_iff s :
  is_safe_url s = true <->
  contains_chr 58 s = false \/
  contains_chr 47 (fst (cut_chr 58 s)) = true \/
  fold_word (fst (cut_chr 58 s)) = "http" \/ fold_word (fst (cut_chr 58 s)) = "https" \/
  fold_word (fst (cut_chr 58 s)) = "mailto".
Proof.
  unfold is_safe_url, equal_fold. destruct (contains_chr 58 s); [|intuition].
  destruct (contains_chr 47 (fst (cut_chr 58 s))); [intuition|].
  rewrite !orb_true_iff, !seqb_eq. intuition discriminate.
Qed.

(* ---- urlNormalizer output needs no further protection ---- *)
Definition norm_out_char (c : ascii) : bool := norm_keep c || (code c =? 37).

Lemma lowerhex_norm d : 0 <= d < 16 -> norm_out_char (lowerhex d) = true.
Proof.
  intros H. assert (d = 0 \/ d = 1 \/ d = 2 \/ d = 3 \/ d = 4 \/ d = 5 \/ d = 6 \/ d = 7 \/ d = 8 \/ d = 9 \/
                    d = 10 \/ d = 11 \/ d = 12 \/ d = 13 \/ d = 14 \/ d = 15) as Hd by lia.
  repeat (destruct Hd as [Hd|Hd]; [subst d; reflexivity|]). subst d; reflexivity.
Qed.

Lemma url_normalize_chars s : all_chars norm_out_char (url_normalize s) = true.
Proof.
  assert (forall c r, all_chars norm_out_char r = true -> all_chars norm_out_char (pct_lower c r) = true) as P.
  { intros c r H. pose proof (code_range c). unfold pct_lower. cbn [all_chars].
    rewrite !lowerhex_norm, H by lia. reflexivity. }
  induction s as [|c s IH]; [reflexivity|]. cbn [url_normalize].
  destruct (norm_keep c) eqn:K.
  - cbn [all_chars]. unfold norm_out_char at 1. now rewrite K, IH.
  - destruct (code c =? 37) eqn:E.
    + destruct s as [|a [|b s']]; try (apply P; exact IH).
      destruct (ishex a && ishex b); [|apply P; exact IH].
      cbn [all_chars]. unfold norm_out_char at 1. now rewrite E, orb_true_r, IH.
    + apply P; exact IH.
Qed.

Lemma norm_out_not c : norm_out_char c = true ->
  (code c =? 34) = false /\ (code c =? 60) = false /\ (code c =? 62) = false /\ (code c =? 39) = false /\ (code c =? 0) = false
  /\ (code c =? 32) = false.
Proof. all_ascii c; vm_compute; intros H; repeat split; congruence. Qed.

Lemma nul_to_fffd_id s : contains_chr 0 s = false -> nul_to_fffd s = s.
Proof.
  induction s as [|c s IH]; [reflexivity|]. cbn. intros H. apply orb_false_iff in H as [H1 H2].
  now rewrite H1, IH.
Qed.

Lemma url_normalize_no d s :
  norm_out_char (chr d) = false -> 0 <= d < 256 -> contains_chr d (url_normalize s) = false.
Proof.
  intros Hd Hr. pose proof (url_normalize_chars s) as H. induction (url_normalize s) as [|c r IH]; [reflexivity|].
  cbn in *. apply andb_true_iff in H as [Hc Hs]. rewrite (IH Hs), orb_false_r.
  destruct (code c =? d) eqn:E; [|reflexivity]. apply code_eqb_eq in E. subst c. congruence.
Qed.

(* the action attribute: inert, and a browser decodes it to the filtered, normalised URL *)
Theorem url_attr_inert s :
  contains_chr 34 (url_attr s) = false /\ contains_chr 60 (url_attr s) = false /\
  contains_chr 62 (url_attr s) = false /\ contains_chr 39 (url_attr s) = false /\
  contains_chr 0 (url_attr s) = false /\
  decode_charrefs (url_attr s) = url_normalize (url_filter s) /\
  contains_chr 32 (url_normalize (url_filter s)) = false /\
  contains_chr 34 (url_normalize (url_filter s)) = false.
Proof.
  unfold url_attr. destruct (attr_escape_inert (url_normalize (url_filter s))) as (A & B & C & D & E & F).
  repeat split; try assumption.
  - rewrite F. apply nul_to_fffd_id. apply url_normalize_no; [reflexivity|lia].
  - apply url_normalize_no; [reflexivity|lia].
  - apply url_normalize_no; [reflexivity|lia].
Qed.

(* ---------- the tokenizer over concatenations ---------- *)
Lemma trun_app : forall a st b,
  trun st (a +++ b) =
  (let '(s1, t1) := trun st a in let '(s2, t2) := trun s1 b in (s2, (t1 ++ t2)%list)).
Proof.
  induction a as [|c a IH]; intros st b.
  - cbn. destruct (trun st b). reflexivity.
  - cbn [String.append trun]. destruct (tstep st c) as [s1 t1]. rewrite IH.
    destruct (trun s1 a) as [s2 t2]. destruct (trun s2 b) as [s3 t3]. now rewrite app_assoc.
Qed.

Lemma srev_acc_app a b acc : srev_acc (a +++ b) acc = srev_acc b (srev_acc a acc).
Proof. revert acc; induction a as [|c a IH]; intros acc; cbn; [reflexivity|apply IH]. Qed.

Lemma srev_acc_spec a acc : srev_acc a acc = srev a +++ acc.
Proof.
  unfold srev. revert acc; induction a as [|c a IH]; intros acc; [reflexivity|].
  cbn [srev_acc]. rewrite IH, (IH (String c EmptyString)). now rewrite app_assoc_s.
Qed.

Lemma srev_app a b : srev (a +++ b) = srev b +++ srev a.
Proof. unfold srev. rewrite srev_acc_app, srev_acc_spec. reflexivity. Qed.

Lemma srev_involutive a : srev (srev a) = a.
Proof.
  induction a as [|c a IH]; [reflexivity|].
  change (String c a) with (String c EmptyString +++ a) at 1. rewrite srev_app, srev_app, IH. reflexivity.
Qed.

(* inside a double-quoted attribute value, bytes other than the quote are collected *)
Lemma trun_value n a an : forall v raw,
  contains_chr 34 v = false -> trun (SValueDQ n a an raw) v = (SValueDQ n a an (srev_acc v raw), []).
Proof.
  induction v as [|c v IH]; intros raw H; [reflexivity|].
  cbn [contains_chr] in H. apply orb_false_iff in H as [H1 H2].
  cbn [trun tstep]. rewrite H1. rewrite (IH _ H2). reflexivity.
Qed.

(* in the data state, bytes other than '<' are collected *)
Lemma trun_text : forall v t,
  contains_chr 60 v = false -> trun (SData t) v = (SData (srev_acc v t), []).
Proof.
  induction v as [|c v IH]; intros t H; [reflexivity|].
  cbn [contains_chr] in H. apply orb_false_iff in H as [H1 H2].
  cbn [trun tstep]. rewrite H1. rewrite (IH _ H2). reflexivity.
Qed.

(* the closing quote ends the value; the value is the decoded text *)
Lemma trun_close_value n a an raw rest :
  trun (SValueDQ n a an raw) (String (chr 34) rest) =
  trun (SAfterValue n ((srev an, decode_charrefs (srev raw)) :: a)) rest.
Proof. cbn [trun tstep]. change (code (chr 34) =? 34) with true. cbn iota. destruct (trun _ rest). reflexivity. Qed.

(* a slot: value text v (no quote) followed by the closing quote *)
Lemma trun_slot n a an v rest :
  contains_chr 34 v = false ->
  trun (SValueDQ n a an EmptyString) (v +++ String (chr 34) rest) =
  trun (SAfterValue n ((srev an, decode_charrefs v) :: a)) rest.
Proof.
  intros H. rewrite trun_app, (trun_value _ _ _ _ _ H), trun_close_value.
  rewrite srev_acc_spec, app_nil_r_s, srev_involutive.
  destruct (trun _ rest). reflexivity.
Qed.

(* ---------- the forms ---------- *)
Definition inert_text (v : string) : Prop := contains_chr 34 v = false /\ contains_chr 60 v = false.

Lemma attr_escape_inert_text s : inert_text (attr_escape s).
Proof. destruct (attr_escape_inert s) as (A & B & _). split; assumption. Qed.
Lemma url_attr_inert_text s : inert_text (url_attr s).
Proof. destruct (url_attr_inert s) as (A & B & _). split; assumption. Qed.

(* execute a literal piece of the template from the current (closed up to the
   abstracted decoded values) state *)
Ltac run_lit :=
  rewrite trun_app;
  match goal with
  | |- context [trun ?st ?lit] =>
      let r := eval vm_compute in (trun st lit) in
      change (trun st lit) with r
  end; cbv beta iota.

Ltac run_slot H :=
  rewrite (trun_slot _ _ _ _ _ (proj1 H)).

(* the SP forms: a generic statement over the three interpolated texts *)
Definition sp_form_text (msg_name form_id v1 v2 v3 : string) : string :=
  "<form method=""post"" action=""" +++ v1 +++ String (chr 34)
  ((" id=""" +++ form_id +++ """><input type=""hidden"" name=""" +++ msg_name +++ """ value=""") +++ v2 +++ String (chr 34)
  (" /><input type=""hidden"" name=""RelayState"" value=""" +++ v3 +++ String (chr 34)
  (" /><input id=""SAMLSubmitButton"" type=""submit"" value=""Submit"" /></form><script>document.getElementById('SAMLSubmitButton').style.visibility=""hidden"";document.getElementById('"
   +++ form_id +++ "').submit();</script>"))).

Lemma sp_form_is_text msg_name form_id d :
  sp_form msg_name form_id d =
  sp_form_text msg_name form_id (url_attr (fd_url d)) (attr_escape (fd_msg d)) (attr_escape (fd_relay d)).
Proof. unfold sp_form, sp_form_text. rewrite !app_assoc_s. reflexivity. Qed.

Lemma sp_form_req_tokens v1 v2 v3 :
  inert_text v1 -> inert_text v2 -> inert_text v3 ->
  trun (SData EmptyString) (sp_form_text "SAMLRequest" "SAMLRequestForm" v1 v2 v3) =
  (SData EmptyString,
   sp_form_tokens "SAMLRequest" "SAMLRequestForm" (decode_charrefs v1) (decode_charrefs v2) (decode_charrefs v3)).
Proof.
  intros H1 H2 H3. unfold sp_form_text.
  run_lit. run_slot H1. generalize (decode_charrefs v1) as w1; intros w1.
  run_lit. run_slot H2. generalize (decode_charrefs v2) as w2; intros w2.
  run_lit. run_slot H3. generalize (decode_charrefs v3) as w3; intros w3.
  vm_compute. reflexivity.
Qed.

Lemma sp_form_resp_tokens v1 v2 v3 :
  inert_text v1 -> inert_text v2 -> inert_text v3 ->
  trun (SData EmptyString) (sp_form_text "SAMLResponse" "SAMLResponseForm" v1 v2 v3) =
  (SData EmptyString,
   sp_form_tokens "SAMLResponse" "SAMLResponseForm" (decode_charrefs v1) (decode_charrefs v2) (decode_charrefs v3)).
Proof.
  intros H1 H2 H3. unfold sp_form_text.
  run_lit. run_slot H1. generalize (decode_charrefs v1) as w1; intros w1.
  run_lit. run_slot H2. generalize (decode_charrefs v2) as w2; intros w2.
  run_lit. run_slot H3. generalize (decode_charrefs v3) as w3; intros w3.
  vm_compute. reflexivity.
Qed.

(* the IdP response form *)
Definition idp_response_text (v1 v2 v3 : string) : string :=
  "<html><form method=""post"" action=""" +++ v1 +++ String (chr 34)
  (" id=""SAMLResponseForm""><input type=""hidden"" name=""SAMLResponse"" value=""" +++ v2 +++ String (chr 34)
  (" /><input type=""hidden"" name=""RelayState"" value=""" +++ v3 +++ String (chr 34)
  " /><input id=""SAMLSubmitButton"" type=""submit"" value=""Continue"" /></form><script>document.getElementById('SAMLSubmitButton').style.visibility='hidden';</script><script>document.getElementById('SAMLResponseForm').submit();</script></html>")).

Lemma idp_response_is_text d :
  idp_response_form d = idp_response_text (url_attr (fd_url d)) (attr_escape (fd_msg d)) (attr_escape (fd_relay d)).
Proof. unfold idp_response_form, idp_response_text. rewrite ?app_assoc_s. reflexivity. Qed.

Lemma idp_response_tokens v1 v2 v3 :
  inert_text v1 -> inert_text v2 -> inert_text v3 ->
  trun (SData EmptyString) (idp_response_text v1 v2 v3) =
  (SData EmptyString, intended_form FIdpResponse (decode_charrefs v1) (decode_charrefs v2) (decode_charrefs v3) EmptyString).
Proof.
  intros H1 H2 H3. unfold idp_response_text.
  run_lit. run_slot H1. generalize (decode_charrefs v1) as w1; intros w1.
  run_lit. run_slot H2. generalize (decode_charrefs v2) as w2; intros w2.
  run_lit. run_slot H3. generalize (decode_charrefs v3) as w3; intros w3.
  vm_compute. reflexivity.
Qed.

(* the IdP login form: the toast is element text *)
Lemma srev_acc_nonempty : forall r c a, exists c' t', srev_acc r (String c a) = String c' t'.
Proof. induction r as [|x r IH]; intros c a; cbn [srev_acc]; [eauto|apply IH]. Qed.

Lemma flush_text_rev v :
  flush_text (srev_acc v EmptyString) = if nonempty v then [TText (decode_charrefs v)] else [].
Proof.
  destruct v as [|c r]; [reflexivity|]. cbn [nonempty].
  pose proof (srev_involutive (String c r)) as Hv. unfold srev at 2 in Hv.
  cbn [srev_acc] in *. destruct (srev_acc_nonempty r c EmptyString) as (c' & t' & E).
  rewrite E in *. cbn [flush_text]. now rewrite Hv.
Qed.

Lemma trun_text_slot v rest :
  inert_text v ->
  trun (SData EmptyString) (v +++ String (chr 60) rest) =
  (let '(s2, t2) := trun STagOpen rest in
   (s2, ((if nonempty v then [TText (decode_charrefs v)] else []) ++ t2)%list)).
Proof.
  intros [_ H]. rewrite trun_app, (trun_text _ _ H). cbn [trun tstep].
  change (code (chr 60) =? 60) with true. cbn iota. rewrite flush_text_rev.
  destruct (trun STagOpen rest). reflexivity.
Qed.

Definition idp_login_text (vt v1 v2 v3 : string) : string :=
  "<html><p>" +++ vt +++ String (chr 60)
  ("/p><form method=""post"" action=""" +++ v1 +++ String (chr 34)
  ("><input type=""text"" name=""user"" placeholder=""user"" value="""" /><input type=""password"" name=""password"" placeholder=""password"" value="""" /><input type=""hidden"" name=""SAMLRequest"" value="""
   +++ v2 +++ String (chr 34)
  (" /><input type=""hidden"" name=""RelayState"" value=""" +++ v3 +++ String (chr 34)
  " /><input type=""submit"" value=""Log In"" /></form></html>"))).

Lemma idp_login_is_text d :
  idp_login_form d =
  idp_login_text (html_escape (fd_toast d)) (url_attr (fd_url d)) (attr_escape (fd_msg d)) (attr_escape (fd_relay d)).
Proof. unfold idp_login_form, idp_login_text. rewrite ?app_assoc_s. reflexivity. Qed.

Lemma idp_login_tokens vt v1 v2 v3 :
  inert_text vt -> inert_text v1 -> inert_text v2 -> inert_text v3 ->
  trun (SData EmptyString) (idp_login_text vt v1 v2 v3) =
  (SData EmptyString,
   ([ TStart "html" [] false; TStart "p" [] false ]
    ++ (if nonempty vt then [TText (decode_charrefs vt)] else [])
    ++ [ TEnd "p";
         TStart "form" [("method", "post"); ("action", decode_charrefs v1)] false;
         TStart "input" [("type", "text"); ("name", "user"); ("placeholder", "user"); ("value", "")] true;
         TStart "input" [("type", "password"); ("name", "password"); ("placeholder", "password"); ("value", "")] true;
         input_hidden "SAMLRequest" (decode_charrefs v2);
         input_hidden "RelayState" (decode_charrefs v3);
         TStart "input" [("type", "submit"); ("value", "Log In")] true;
         TEnd "form"; TEnd "html" ])%list).
Proof.
  intros Ht H1 H2 H3. unfold idp_login_text.
  run_lit. rewrite (trun_text_slot _ _ Ht).
  generalize (if nonempty vt then [TText (decode_charrefs vt)] else []) as wt; intros wt.
  run_lit. run_slot H1. generalize (decode_charrefs v1) as w1; intros w1.
  run_lit. run_slot H2. generalize (decode_charrefs v2) as w2; intros w2.
  run_lit. run_slot H3. generalize (decode_charrefs v3) as w3; intros w3.
  vm_compute. reflexivity.
Qed.

(* ---------- form_structure_fixed ---------- *)
Lemma nonempty_bytewise s : nonempty (bytewise s) = nonempty s.
Proof.
  destruct s as [|c s]; [reflexivity|]. cbn [bytewise nonempty].
  assert (exists x y, esc_byte c = String x y) as (x & y & E).
  { unfold esc_byte, repl_of, FFFD. repeat (destruct (_ =? _); [eauto|]). eauto. }
  now rewrite E.
Qed.

Lemma nonempty_nul_to_fffd s : nonempty (nul_to_fffd s) = nonempty s.
Proof. destruct s as [|c s]; [reflexivity|]. cbn. destruct (code c =? 0); reflexivity. Qed.

Lemma tokenize_of_trun s toks :
  trun (SData EmptyString) s = (SData EmptyString, toks) -> tokenize_form s = Some toks.
Proof. intros H. unfold tokenize_form. rewrite H. cbn. now rewrite app_nil_r. Qed.

Lemma decode_url_attr u : decode_charrefs (url_attr u) = action_value u.
Proof. destruct (url_attr_inert u) as (_ & _ & _ & _ & _ & F & _). exact F. Qed.
Lemma decode_attr_escape m : decode_charrefs (attr_escape m) = nul_to_fffd m.
Proof. destruct (attr_escape_inert m) as (_ & _ & _ & _ & _ & F). exact F. Qed.

(* for EVERY form data (any byte strings in every interpolated position) the
   emitted text tokenizes to exactly the intended elements, attribute names and
   order; the data occur only as attribute values (the toast as text) *)
Theorem form_structure_fixed k d : tokenize_form (render_form k d) = Some (intended_of k d).
Proof.
  unfold intended_of.
  pose proof (url_attr_inert_text (fd_url d)) as I1.
  pose proof (attr_escape_inert_text (fd_msg d)) as I2.
  pose proof (attr_escape_inert_text (fd_relay d)) as I3.
  pose proof (attr_escape_inert_text (fd_toast d)) as It.
  destruct k; cbn [render_form intended_form].
  - apply tokenize_of_trun. rewrite sp_form_is_text, (sp_form_req_tokens _ _ _ I1 I2 I3).
    now rewrite decode_url_attr, !decode_attr_escape.
  - apply tokenize_of_trun. rewrite sp_form_is_text, (sp_form_req_tokens _ _ _ I1 I2 I3).
    now rewrite decode_url_attr, !decode_attr_escape.
  - apply tokenize_of_trun. rewrite sp_form_is_text, (sp_form_resp_tokens _ _ _ I1 I2 I3).
    now rewrite decode_url_attr, !decode_attr_escape.
  - apply tokenize_of_trun. rewrite idp_response_is_text, (idp_response_tokens _ _ _ I1 I2 I3).
    now rewrite decode_url_attr, !decode_attr_escape.
  - apply tokenize_of_trun. rewrite idp_login_is_text.
    change (html_escape (fd_toast d)) with (attr_escape (fd_toast d)).
    rewrite (idp_login_tokens _ _ _ _ It I1 I2 I3).
    rewrite decode_url_attr, !decode_attr_escape.
    unfold attr_escape at 1. rewrite html_replace_bytewise, nonempty_bytewise, nonempty_nul_to_fffd. reflexivity.
  - apply tokenize_of_trun. rewrite sp_form_is_text.
    rewrite (trun_app "<!DOCTYPE html><html><body>").
    match goal with |- context [trun ?st "<!DOCTYPE html><html><body>"] =>
      let r := eval vm_compute in (trun st "<!DOCTYPE html><html><body>") in
      change (trun st "<!DOCTYPE html><html><body>") with r end. cbv beta iota.
    rewrite trun_app, (sp_form_req_tokens _ _ _ I1 I2 I3). cbv beta iota.
    rewrite decode_url_attr, !decode_attr_escape.
    match goal with |- context [trun ?st "</body></html>"] =>
      let r := eval vm_compute in (trun st "</body></html>") in
      change (trun st "</body></html>") with r end. cbv beta iota.
    reflexivity.
Qed.

(* ================= the monitors evaluate the theorems' conclusions ================= *)
(* the escapers' outputs always satisfy the monitor applied to html/template's outputs *)
Theorem escapers_meet_spec s :
  escase_spec {| es_s := s; es_attr := attr_escape s; es_url := url_attr s; es_text := html_escape s |} = true.
Proof.
  unfold escase_spec, has_bad_attr_char. cbn [es_s es_attr es_url es_text].
  destruct (attr_escape_inert s) as (A1 & A2 & A3 & A4 & A5 & A6).
  destruct (url_attr_inert s) as (U1 & U2 & U3 & U4 & U5 & U6 & _).
  rewrite A1, A2, A3, A4, A5, A6, U1, U2, U3, U4, U5, U6, seqb_refl. cbn [orb negb andb].
  change (html_escape s) with (attr_escape s). rewrite A2, A6, seqb_refl. cbn [negb andb].
  unfold url_filter. destruct (is_safe_url s).
  - now rewrite seqb_refl.
  - change (url_normalize FAILSAFE) with FAILSAFE. rewrite seqb_refl. now rewrite orb_true_r.
Qed.

(* soundness: a text accepted by the monitor is inert and decodes to the input *)
Theorem escase_spec_sound c :
  escase_spec c = true ->
  contains_chr 34 (es_attr c) = false /\ contains_chr 60 (es_attr c) = false /\ contains_chr 62 (es_attr c) = false /\
  contains_chr 39 (es_attr c) = false /\ contains_chr 0 (es_attr c) = false /\
  decode_charrefs (es_attr c) = nul_to_fffd (es_s c).
Proof.
  unfold escase_spec, has_bad_attr_char. intros H.
  repeat (apply andb_true_iff in H as [H ?]).
  apply negb_true_iff in H. repeat (apply orb_false_iff in H as [H ?]).
  match goal with X : seqb (decode_charrefs (es_attr c)) _ = true |- _ => apply seqb_eq in X end.
  repeat split; assumption.
Qed.

(* the model's rendering always satisfies the form monitor (tokenizer part) *)
Theorem render_meets_spec k d :
  opt_tokens_eqb (tokenize_form (render_form k d)) (intended_of k d) = true.
Proof.
  rewrite form_structure_fixed. cbn [opt_tokens_eqb].
  assert (forall a, attrs_eqb a a = true) as Ha.
  { induction a as [|[x y] a IH]; [reflexivity|]. cbn. now rewrite !seqb_refl, IH. }
  assert (forall t, token_eqb t t = true) as Ht.
  { intros [n a sc|n|t|t]; cbn; rewrite ?seqb_refl, ?Ha, ?Bool.eqb_reflx; reflexivity. }
  induction (intended_of k d) as [|t l IH]; [reflexivity|]. cbn. now rewrite Ht, IH.
Qed.
