(* HtmlEscProofs.v — lemmas about HtmlEsc.v (html/template escapers, UTF-8 decoding, character references) *)
From Saml Require Import Base BaseProofs UrlEnc UrlEncProofs HtmlEsc.
From Coq Require Import ZifyBool.
Ltac Zify.zify_post_hook ::= Z.div_mod_to_equations.
Arguments seqb : simpl never.

Fixpoint conts (k : nat) (s : string) : Prop :=
  match k, s with
  | O, _ => True
  | S _, EmptyString => True
  | S k', String c r => 128 <= code c /\ conts k' r
  end.

Ltac break_if :=
  match goal with
  | H : context [if ?b then _ else _] |- _ => destruct b eqn:?
  | H : context [match ?r with EmptyString => _ | String _ _ => _ end] |- _ => destruct r
  end.

Lemma decode_rune_spec c r rn w :
  decode_rune (String c r) = (rn, w) ->
  (w = 1%nat /\ (code c < 128 -> rn = code c) /\ (128 <= code c -> 63 <= rn)) \/
  ((2 <= w)%nat /\ 128 <= code c /\ 63 <= rn /\ conts (pred w) r).
Proof.
  pose proof (code_range c) as Hc.
  unfold decode_rune, first_info, RuneError, is_cont.
  intros H.
  repeat break_if; cbn in H; try discriminate;
  repeat break_if; cbn in H; try discriminate;
  inversion H; subst; clear H; cbn [pred conts];
  try (left; split; [reflexivity|split; lia]);
  try (right; repeat split; try lia).
Qed.

(* ---- htmlReplacer is a byte-wise map ---- *)
Definition esc_byte (c : ascii) : string :=
  match repl_of (code c) with Some t => t | None => String c EmptyString end.
Fixpoint bytewise (s : string) : string :=
  match s with EmptyString => EmptyString | String c r => esc_byte c +++ bytewise r end.

Lemma repl_none_ge z : 63 <= z -> repl_of z = None.
Proof.
  intros H. unfold repl_of.
  assert ((z =? 0) = false) as -> by lia. assert ((z =? 34) = false) as -> by lia.
  assert ((z =? 38) = false) as -> by lia. assert ((z =? 39) = false) as -> by lia.
  assert ((z =? 43) = false) as -> by lia. assert ((z =? 60) = false) as -> by lia.
  assert ((z =? 62) = false) as -> by lia. reflexivity.
Qed.

Lemma esc_byte_high c : 128 <= code c -> esc_byte c = String c EmptyString.
Proof. intros H. unfold esc_byte. rewrite repl_none_ge by lia. reflexivity. Qed.

Lemma aux_O_flag b s : html_replace_aux O b s = html_replace_aux O true s.
Proof. destruct s; reflexivity. Qed.

Lemma aux_bytewise : forall s k, conts k s -> html_replace_aux k true s = bytewise s.
Proof.
  induction s as [|c r IH]; intros k Hk; [destruct k; reflexivity|].
  destruct k as [|k].
  - cbn [html_replace_aux bytewise].
    destruct (decode_rune (String c r)) as [rn w] eqn:E.
    destruct (decode_rune_spec _ _ _ _ E) as [(-> & Hlo & Hhi)|(Hw & Hc & Hr & Hcont)].
    + cbn [Nat.pred]. destruct (Z_lt_ge_dec (code c) 128) as [L|G].
      * rewrite (Hlo L). unfold esc_byte. destruct (repl_of (code c)).
        -- rewrite aux_O_flag, IH by exact I. reflexivity.
        -- rewrite IH by exact I. reflexivity.
      * rewrite repl_none_ge by lia. rewrite esc_byte_high by lia. rewrite IH by exact I. reflexivity.
    + rewrite repl_none_ge by lia. rewrite esc_byte_high by lia. rewrite IH by exact Hcont. reflexivity.
  - cbn [conts] in Hk. destruct Hk as [Hc Hk]. cbn [html_replace_aux bytewise].
    rewrite esc_byte_high by lia. rewrite IH by exact Hk. reflexivity.
Qed.

Theorem html_replace_bytewise s : html_replace s = bytewise s.
Proof. apply aux_bytewise. exact I. Qed.

(* ---- inertness ---- *)
Definition good_attr_char (c : ascii) : bool :=
  negb ((code c =? 34) || (code c =? 60) || (code c =? 62) || (code c =? 39) || (code c =? 0)).

Lemma esc_byte_good c : all_chars good_attr_char (esc_byte c) = true.
Proof. all_ascii c; vm_compute; reflexivity. Qed.

Lemma bytewise_good s : all_chars good_attr_char (bytewise s) = true.
Proof.
  induction s as [|c s IH]; [reflexivity|]. cbn [bytewise]. now rewrite all_chars_app, esc_byte_good, IH.
Qed.

Lemma good_no_chr d s :
  good_attr_char (chr d) = false -> 0 <= d < 256 -> all_chars good_attr_char s = true -> contains_chr d s = false.
Proof.
  intros Hd Hr. induction s as [|c s IH]; [reflexivity|]. cbn. intros H.
  apply andb_true_iff in H as [Hc Hs]. rewrite (IH Hs), orb_false_r.
  destruct (code c =? d) eqn:E; [|reflexivity].
  apply code_eqb_eq in E. subst c. congruence.
Qed.

Definition nul1 (c : ascii) : string := if code c =? 0 then FFFD else String c EmptyString.

Lemma nul_to_fffd_cons c r : nul_to_fffd (String c r) = nul1 c +++ nul_to_fffd r.
Proof. unfold nul1. cbn [nul_to_fffd]. destruct (code c =? 0); reflexivity. Qed.

Lemma decode_plain c r :
  (code c =? 38) = false -> decode_refs_aux O (String c r) = String c (decode_refs_aux O r).
Proof. intros H. cbn [decode_refs_aux]. now rewrite H. Qed.

(* decoding one escaped byte gives the byte back (NUL becomes U+FFFD) *)
Lemma decode_esc_byte c rest :
  decode_refs_aux O (esc_byte c +++ rest) = nul1 c +++ decode_refs_aux O rest.
Proof.
  unfold esc_byte, nul1, repl_of.
  destruct (code c =? 0) eqn:E0.
  { apply code_eqb_eq in E0. subst c. reflexivity. }
  destruct (code c =? 34) eqn:E1. { apply code_eqb_eq in E1. subst c. reflexivity. }
  destruct (code c =? 38) eqn:E2. { apply code_eqb_eq in E2. subst c. reflexivity. }
  destruct (code c =? 39) eqn:E3. { apply code_eqb_eq in E3. subst c. reflexivity. }
  destruct (code c =? 43) eqn:E4. { apply code_eqb_eq in E4. subst c. reflexivity. }
  destruct (code c =? 60) eqn:E5. { apply code_eqb_eq in E5. subst c. reflexivity. }
  destruct (code c =? 62) eqn:E6. { apply code_eqb_eq in E6. subst c. reflexivity. }
  cbn [String.append]. now rewrite decode_plain.
Qed.

Lemma decode_bytewise s : decode_charrefs (bytewise s) = nul_to_fffd s.
Proof.
  unfold decode_charrefs. induction s as [|c s IH]; [reflexivity|].
  cbn [bytewise]. rewrite decode_esc_byte, IH, nul_to_fffd_cons. reflexivity.
Qed.

(* attr_escape_inert: for EVERY byte string (valid UTF-8 or not), the escaped
   value contains no double quote, '<', '>', single quote or NUL, and an HTML5
   attribute-value decoder gives back the input with NUL -> U+FFFD *)
Theorem attr_escape_inert s :
  contains_chr 34 (attr_escape s) = false /\ contains_chr 60 (attr_escape s) = false /\
  contains_chr 62 (attr_escape s) = false /\ contains_chr 39 (attr_escape s) = false /\
  contains_chr 0 (attr_escape s) = false /\
  decode_charrefs (attr_escape s) = nul_to_fffd s.
Proof.
  unfold attr_escape. rewrite html_replace_bytewise.
  pose proof (bytewise_good s) as G.
  repeat split; try (apply good_no_chr; [reflexivity|lia|exact G]).
  apply decode_bytewise.
Qed.

(* every '&' of the escaped text starts one of the references the escaper writes *)
Fixpoint amp_ok (s : string) : bool :=
  match s with
  | EmptyString => true
  | String c r =>
      (if code c =? 38
       then prefixb "amp;" r || prefixb "lt;" r || prefixb "gt;" r || prefixb "#34;" r || prefixb "#39;" r || prefixb "#43;" r
       else true) && amp_ok r
  end.

Lemma amp_ok_app_plain a b : contains_chr 38 a = false -> amp_ok (a +++ b) = amp_ok b.
Proof.
  induction a as [|c a IH]; [reflexivity|]. cbn. intros H. apply orb_false_iff in H as [H1 H2].
  now rewrite H1, IH.
Qed.

Lemma amp_ok_esc_byte c rest : amp_ok (esc_byte c +++ rest) = amp_ok rest.
Proof.
  unfold esc_byte, repl_of.
  destruct (code c =? 0) eqn:E0; [reflexivity|].
  destruct (code c =? 34) eqn:E1; [reflexivity|].
  destruct (code c =? 38) eqn:E2; [reflexivity|].
  destruct (code c =? 39) eqn:E3; [reflexivity|].
  destruct (code c =? 43) eqn:E4; [reflexivity|].
  destruct (code c =? 60) eqn:E5; [reflexivity|].
  destruct (code c =? 62) eqn:E6; [reflexivity|].
  cbn. now rewrite E2.
Qed.

Theorem attr_escape_amp_ok s : amp_ok (attr_escape s) = true.
Proof.
  unfold attr_escape. rewrite html_replace_bytewise.
  induction s as [|c s IH]; [reflexivity|]. cbn [bytewise]. now rewrite amp_ok_esc_byte.
Qed.

(* ---- urlFilter ---- *)
Theorem url_filter_safe s :
  (url_filter s = s \/ url_filter s = FAILSAFE) /\ is_safe_url (url_filter s) = true /\
  (url_filter s = s <-> is_safe_url s = true \/ s = FAILSAFE).
Proof.
  unfold url_filter. destruct (is_safe_url s) eqn:E.
  - split; [now left|]. split; [exact E|]. split; [intros _; now left|reflexivity].
  - split; [now right|]. split; [reflexivity|]. split.
    + intros H. right. now symmetry.
    + intros [H|H]; [discriminate|now symmetry].
Qed.

(* what "safe" means: no colon, or a '/' before the first colon, or the text
   before the first colon folds to http / https / mailto *)
Theorem is_safe_url_iff s :
  is_safe_url s = true <->
  contains_chr 58 s = false \/
  contains_chr 47 (fst (cut_chr 58 s)) = true \/
  fold_word (fst (cut_chr 58 s)) = "http" \/ fold_word (fst (cut_chr 58 s)) = "https" \/
  fold_word (fst (cut_chr 58 s)) = "mailto".
Proof.
  unfold is_safe_url, equal_fold. destruct (contains_chr 58 s); [|intuition].
  destruct (contains_chr 47 (fst (cut_chr 58 s))); [intuition|].
  rewrite !orb_true_iff, !seqb_eq. intuition discriminate.
Qed.

(* ---- urlNormalizer output needs no further protection ---- *)
Definition norm_out_char (c : ascii) : bool := norm_keep c || (code c =? 37).

Lemma lowerhex_norm d : 0 <= d < 16 -> norm_out_char (lowerhex d) = true.
Proof.
  intros H. assert (d = 0 \/ d = 1 \/ d = 2 \/ d = 3 \/ d = 4 \/ d = 5 \/ d = 6 \/ d = 7 \/ d = 8 \/ d = 9 \/
                    d = 10 \/ d = 11 \/ d = 12 \/ d = 13 \/ d = 14 \/ d = 15) as Hd by lia.
  repeat (destruct Hd as [Hd|Hd]; [subst d; reflexivity|]). subst d; reflexivity.
Qed.

Lemma url_normalize_chars s : all_chars norm_out_char (url_normalize s) = true.
Proof.
  assert (forall c r, all_chars norm_out_char r = true -> all_chars norm_out_char (pct_lower c r) = true) as P.
  { intros c r H. pose proof (code_range c). unfold pct_lower. cbn [all_chars].
    rewrite !lowerhex_norm, H by lia. reflexivity. }
  induction s as [|c s IH]; [reflexivity|]. cbn [url_normalize].
  destruct (norm_keep c) eqn:K.
  - cbn [all_chars]. unfold norm_out_char at 1. now rewrite K, IH.
  - destruct (code c =? 37) eqn:E.
    + destruct s as [|a [|b s']]; try (apply P; exact IH).
      destruct (ishex a && ishex b); [|apply P; exact IH].
      cbn [all_chars]. unfold norm_out_char at 1. now rewrite E, orb_true_r, IH.
    + apply P; exact IH.
Qed.

Lemma norm_out_not c : norm_out_char c = true ->
  (code c =? 34) = false /\ (code c =? 60) = false /\ (code c =? 62) = false /\ (code c =? 39) = false /\ (code c =? 0) = false
  /\ (code c =? 32) = false.
Proof. all_ascii c; vm_compute; intros H; repeat split; congruence. Qed.

Lemma nul_to_fffd_id s : contains_chr 0 s = false -> nul_to_fffd s = s.
Proof.
  induction s as [|c s IH]; [reflexivity|]. cbn. intros H. apply orb_false_iff in H as [H1 H2].
  now rewrite H1, IH.
Qed.

Lemma url_normalize_no d s :
  norm_out_char (chr d) = false -> 0 <= d < 256 -> contains_chr d (url_normalize s) = false.
Proof.
  intros Hd Hr. pose proof (url_normalize_chars s) as H. induction (url_normalize s) as [|c r IH]; [reflexivity|].
  cbn in *. apply andb_true_iff in H as [Hc Hs]. rewrite (IH Hs), orb_false_r.
  destruct (code c =? d) eqn:E; [|reflexivity]. apply code_eqb_eq in E. subst c. congruence.
Qed.

(* the action attribute: inert, and a browser decodes it to the filtered, normalised URL *)
Theorem url_attr_inert s :
  contains_chr 34 (url_attr s) = false /\ contains_chr 60 (url_attr s) = false /\
  contains_chr 62 (url_attr s) = false /\ contains_chr 39 (url_attr s) = false /\
  contains_chr 0 (url_attr s) = false /\
  decode_charrefs (url_attr s) = url_normalize (url_filter s) /\
  contains_chr 32 (url_normalize (url_filter s)) = false /\
  contains_chr 34 (url_normalize (url_filter s)) = false.
Proof.
  unfold url_attr. destruct (attr_escape_inert (url_normalize (url_filter s))) as (A & B & C & D & E & F).
  repeat split; try assumption.
  - rewrite F. apply nul_to_fffd_id. apply url_normalize_no; [reflexivity|lia].
  - apply url_normalize_no; [reflexivity|lia].
  - apply url_normalize_no; [reflexivity|lia].
Qed.
