(* Concurrency.v — lock/access abstraction of the bundled IdP server (samlidp)
   and the operational semantics of threads over Go's sync.RWMutex (C20).

   The *program* (one list of actions per Go function) is not written by hand:
   /verif/translator regenerates it from /repo/samlidp/*.go and
   /repo/identity_provider.go on every run (coq/gen/SamlidpLocks.v) together
   with the obligation [discipline_ok samlidp_program entry_points = true].
   This file holds what is proved once: the checker [discipline_ok], the
   semantics, and (in ConcurrencyProofs.v) the theorem that the checker is
   sound for every number of threads and every schedule.
   Definitions only; lemmas are in ConcurrencyProofs.v. *)
From Saml Require Import Base.
Local Open Scope list_scope.

(* ---------- the abstraction ---------- *)
(* the two mutexes of samlidp: Server.idpConfigMu and MemoryStore.mu *)
Inductive mutex := IdpConfigMu | Mu.
(* guarded locations: Server.serviceProviders and MemoryStore.data, and any
   other field of Server (or of its IDP) resp. MemoryStore that some function
   reachable from an entry point assigns — fields are immutable after New
   unless a handler writes them, and then they need the owner's mutex *)
Inductive loc := ServiceProviders | Data | ServerField (f : string) | StoreField (f : string).
Definition fname := string.

Inductive act :=
| Acq (m : mutex) (w : bool)     (* w = true: Lock, false: RLock *)
| Rel (m : mutex) (w : bool)     (* Unlock / RUnlock *)
| Rd (l : loc)
| Wr (l : loc)
| Call (f : fname)
| Unsupported (why : string).    (* a construct outside the translator's rules *)

Definition program := list (fname * list act).

Definition guard (l : loc) : mutex :=
  match l with ServiceProviders | ServerField _ => IdpConfigMu | Data | StoreField _ => Mu end.
(* the fixed acquisition order: IdpConfigMu before Mu *)
Definition rank (m : mutex) : Z := match m with IdpConfigMu => 0 | Mu => 1 end.
Definition all_mutexes : list mutex := [IdpConfigMu; Mu].

Definition mutex_eqb (a b : mutex) : bool :=
  match a, b with IdpConfigMu, IdpConfigMu => true | Mu, Mu => true | _, _ => false end.
Definition loc_eqb (a b : loc) : bool :=
  match a, b with
  | ServiceProviders, ServiceProviders => true
  | Data, Data => true
  | ServerField x, ServerField y => String.eqb x y
  | StoreField x, StoreField y => String.eqb x y
  | _, _ => false
  end.

(* what one thread holds: per mutex, nothing / shared (Some false) / exclusive (Some true) *)
Record held := { h_cfg : option bool; h_mu : option bool }.
Definition hempty : held := {| h_cfg := None; h_mu := None |}.
Definition hget (h : held) (m : mutex) : option bool :=
  match m with IdpConfigMu => h_cfg h | Mu => h_mu h end.
Definition hset (h : held) (m : mutex) (v : option bool) : held :=
  match m with
  | IdpConfigMu => {| h_cfg := v; h_mu := h_mu h |}
  | Mu => {| h_cfg := h_cfg h; h_mu := v |}
  end.
Definition held_eqb (a b : held) : bool :=
  let oeq (x y : option bool) :=
    match x, y with None, None => true | Some p, Some q => Bool.eqb p q | _, _ => false end in
  oeq (h_cfg a) (h_cfg b) && oeq (h_mu a) (h_mu b).

(* ---------- the discipline ---------- *)
(* One action of straight-line (call-free) code against the set of locks the
   thread holds.  None = the discipline is broken:
   (a) Rd l needs guard l held in some mode, Wr l needs it held exclusively;
   (b) Acq of a mutex already held in ANY mode (re-entrant read lock included);
   (c) Acq of m while holding a mutex that does not come strictly before m;
   (d) Rel of a mutex not held in that mode. *)
Definition order_ok (h : held) (m : mutex) : bool :=
  forallb (fun m' => match hget h m' with Some _ => rank m' <? rank m | None => true end) all_mutexes.

Definition step_flat (a : act) (h : held) : option held :=
  match a with
  | Acq m w =>
      match hget h m with
      | Some _ => None
      | None => if order_ok h m then Some (hset h m (Some w)) else None
      end
  | Rel m w =>
      match hget h m with
      | Some w' => if Bool.eqb w w' then Some (hset h m None) else None
      | None => None
      end
  | Rd l => match hget h (guard l) with Some _ => Some h | None => None end
  | Wr l => match hget h (guard l) with Some true => Some h | _ => None end
  | Call _ => None
  | Unsupported _ => None
  end.

Fixpoint run_flat (l : list act) (h : held) : option held :=
  match l with
  | [] => Some h
  | a :: r => match step_flat a h with Some h' => run_flat r h' | None => None end
  end.

(* (d) every path ends holding nothing *)
Definition check_flat (l : list act) : bool :=
  match run_flat l hempty with Some h => held_eqb h hempty | None => false end.

Fixpoint lookup_fn (f : fname) (p : program) : option (list act) :=
  match p with
  | [] => None
  | (g, b) :: r => if String.eqb f g then Some b else lookup_fn f r
  end.

(* calls are inlined from the program; the fuel bounds the call depth, so a
   recursive program (or a call to a function the translator did not emit)
   is not supported and fails the check *)
Fixpoint inline (fuel : nat) (p : program) (l : list act) {struct fuel} : option (list act) :=
  match fuel with
  | O => None
  | S k =>
      (fix go (l : list act) : option (list act) :=
         match l with
         | [] => Some []
         | Call f :: r =>
             match lookup_fn f p with
             | None => None
             | Some body =>
                 match inline k p body, go r with
                 | Some b, Some r' => Some (b ++ r')
                 | _, _ => None
                 end
             end
         | Unsupported _ :: _ => None
         | a :: r => match go r with Some r' => Some (a :: r') | None => None end
         end) l
  end.

Definition expand (p : program) (ep : fname) : option (list act) :=
  inline (S (List.length p)) p [Call ep].

Definition entry_ok (p : program) (ep : fname) : bool :=
  match expand p ep with Some l => check_flat l | None => false end.

(* diagnostics for a failing obligation: per rejected entry point, the first
   action of its inlined code that breaks the discipline (None: a call could
   not be inlined, or a lock is still held at the end) *)
Fixpoint first_bad (l : list act) (h : held) : option act :=
  match l with
  | [] => None
  | a :: r => match step_flat a h with Some h' => first_bad r h' | None => Some a end
  end.
(* why a call tree could not be inlined: the first Unsupported construct, a call
   to a function that was not translated, or recursion *)
Fixpoint inline_bad (fuel : nat) (p : program) (l : list act) {struct fuel} : option act :=
  match fuel with
  | O => Some (Unsupported "call depth exceeded (recursion)")
  | S k =>
      (fix go (l : list act) : option act :=
         match l with
         | [] => None
         | Call f :: r =>
             match lookup_fn f p with
             | None => Some (Call f)
             | Some body => match inline_bad k p body with Some a => Some a | None => go r end
             end
         | Unsupported w :: _ => Some (Unsupported w)
         | _ :: r => go r
         end) l
  end.
Definition discipline_report (p : program) (eps : list fname) : list (fname * option act) :=
  flat_map (fun ep => if entry_ok p ep then []
                      else [(ep, match expand p ep with
                                 | Some l => first_bad l hempty
                                 | None => inline_bad (S (List.length p)) p [Call ep]
                                 end)]) eps.

(* the obligation regenerated from the source on every run *)
Definition discipline_ok (p : program) (eps : list fname) : bool :=
  negb (match eps with [] => true | _ => false end) && forallb (entry_ok p) eps.

(* start-up code (samlidp.New and what it calls) runs before the server is
   shared: its accesses need no guard, but its lock operations must still be
   balanced, ordered and non-re-entrant — a Lock taken in a loop body has to be
   released in the same iteration, or the second iteration blocks on itself.
   The check is the discipline on the program with the accesses removed. *)
Definition is_access (a : act) : bool := match a with Rd _ | Wr _ => true | _ => false end.
Definition strip_program (p : program) : program :=
  map (fun fb : fname * list act => (fst fb, filter (fun a => negb (is_access a)) (snd fb))) p.
Definition startup_ok (p : program) (starts : list fname) : bool := discipline_ok (strip_program p) starts.

(* ---------- operational semantics ---------- *)
(* sync.RWMutex with writer preference: a writer that called Lock and found
   the mutex busy is *waiting*; from then on RLock blocks, although readers
   may still hold the mutex.  Lock itself blocks while any holder exists. *)
Record lockst := { writer : option nat; readers : list nat; waiting : list nat }.
Definition lock0 : lockst := {| writer := None; readers := []; waiting := [] |}.

Record cstate := { l_cfg : lockst; l_mu : lockst; code : list (list act) }.

Definition lk (st : cstate) (m : mutex) : lockst :=
  match m with IdpConfigMu => l_cfg st | Mu => l_mu st end.
Definition set_lk (st : cstate) (m : mutex) (v : lockst) : cstate :=
  match m with
  | IdpConfigMu => {| l_cfg := v; l_mu := l_mu st; code := code st |}
  | Mu => {| l_cfg := l_cfg st; l_mu := v; code := code st |}
  end.

Fixpoint memn (t : nat) (l : list nat) : bool :=
  match l with [] => false | x :: r => Nat.eqb t x || memn t r end.
Fixpoint remove1 (t : nat) (l : list nat) : list nat :=
  match l with [] => [] | x :: r => if Nat.eqb t x then r else x :: remove1 t r end.
Fixpoint removeall (t : nat) (l : list nat) : list nat :=
  match l with [] => [] | x :: r => if Nat.eqb t x then removeall t r else x :: removeall t r end.

Fixpoint set_nth {A} (n : nat) (x : A) (l : list A) : list A :=
  match n, l with
  | _, [] => []
  | O, _ :: r => x :: r
  | S k, y :: r => y :: set_nth k x r
  end.

Definition set_code (st : cstate) (t : nat) (c : list act) : cstate :=
  {| l_cfg := l_cfg st; l_mu := l_mu st; code := set_nth t c (code st) |}.

Definition next_act (st : cstate) (t : nat) : option act :=
  match nth_error (code st) t with Some (a :: _) => Some a | _ => None end.

Definition is_free (L : lockst) : bool :=
  match writer L, readers L with None, [] => true | _, _ => false end.

(* one step of thread t; None = t is finished, blocked, or faulted *)
Definition tstep (st : cstate) (t : nat) : option cstate :=
  match nth_error (code st) t with
  | None | Some [] => None
  | Some (a :: rest) =>
      match a with
      | Acq m true =>
          let L := lk st m in
          if is_free L then
            Some (set_code (set_lk st m {| writer := Some t; readers := []; waiting := removeall t (waiting L) |}) t rest)
          else if memn t (waiting L) then None                 (* announced, blocked *)
          else Some (set_lk st m {| writer := writer L; readers := readers L; waiting := t :: waiting L |})
      | Acq m false =>
          let L := lk st m in
          match writer L, waiting L with
          | None, [] => Some (set_code (set_lk st m {| writer := None; readers := t :: readers L; waiting := [] |}) t rest)
          | _, _ => None                                       (* a writer holds or is waiting *)
          end
      | Rel m true =>
          let L := lk st m in
          match writer L with
          | Some t' => if Nat.eqb t t'
                       then Some (set_code (set_lk st m {| writer := None; readers := readers L; waiting := waiting L |}) t rest)
                       else None
          | None => None                                       (* unlock of unlocked mutex: fatal in Go *)
          end
      | Rel m false =>
          let L := lk st m in
          if memn t (readers L)
          then Some (set_code (set_lk st m {| writer := writer L; readers := remove1 t (readers L); waiting := waiting L |}) t rest)
          else None
      | Rd _ | Wr _ => Some (set_code st t rest)
      | Call _ | Unsupported _ => None                         (* threads run inlined code only *)
      end
  end.

Definition init (codes : list (list act)) : cstate :=
  {| l_cfg := lock0; l_mu := lock0; code := codes |}.

(* a schedule is any list of thread numbers; scheduling a thread that cannot
   step leaves the state unchanged, so every interleaving is some schedule *)
Fixpoint run (st : cstate) (sched : list nat) : cstate :=
  match sched with
  | [] => st
  | t :: r => run (match tstep st t with Some st' => st' | None => st end) r
  end.

(* two different threads stand at conflicting accesses to one location *)
Definition race_at (st : cstate) (t1 t2 : nat) (l : loc) : Prop :=
  t1 <> t2 /\ next_act st t1 = Some (Wr l) /\
  (next_act st t2 = Some (Rd l) \/ next_act st t2 = Some (Wr l)).
Definition race_free (st : cstate) : Prop := forall t1 t2 l, ~ race_at st t1 t2 l.

Definition unfinished (st : cstate) (t : nat) : Prop :=
  exists a r, nth_error (code st) t = Some (a :: r).
(* whenever some thread still has code to run, some thread can take a step *)
Definition deadlock_free (st : cstate) : Prop :=
  (exists t, unfinished st t) -> exists t, tstep st t <> None.

(* boolean forms, for the concrete witnesses *)
Definition unfinishedb (st : cstate) : bool :=
  existsb (fun c => match c with [] => false | _ => true end) (code st).
Definition can_stepb (st : cstate) : bool :=
  existsb (fun t => match tstep st t with Some _ => true | None => false end)
          (seq 0 (List.length (code st))).
Definition stuckb (st : cstate) : bool := unfinishedb st && negb (can_stepb st).

(* threads: each runs a sequence of entry-point invocations *)
Fixpoint expand_seq (p : program) (invs : list fname) : option (list act) :=
  match invs with
  | [] => Some []
  | f :: r => match expand p f, expand_seq p r with
              | Some a, Some b => Some (a ++ b)
              | _, _ => None
              end
  end.
Fixpoint expand_threads (p : program) (ts : list (list fname)) : option (list (list act)) :=
  match ts with
  | [] => Some []
  | t :: r => match expand_seq p t, expand_threads p r with
              | Some a, Some b => Some (a :: b)
              | _, _ => None
              end
  end.

(* ---------- the store as a linearizable map (ghost state) ---------- *)
(* A critical section of the store is *atomic* when nobody else can access
   Data while it runs: that is what holding Mu in the right mode gives.  The
   statement proved is mutual exclusion of conflicting critical sections
   (ConcurrencyProofs.store_sections_exclusive); the sequential map
   specification below is what the harness checks the recorded concurrent
   histories against (Wing-Gong search). *)
Inductive sop := SGet (k : string) | SPut (k v : string) | SDel (k : string) | SList (prefix : string).
Inductive sres := RVal (v : option string) | RUnit | RKeys (ks : list string).
Definition smap := list (string * string).
Fixpoint sm_get (k : string) (m : smap) : option string :=
  match m with [] => None | (k', v) :: r => if String.eqb k k' then Some v else sm_get k r end.
Fixpoint sm_del (k : string) (m : smap) : smap :=
  match m with [] => [] | (k', v) :: r => if String.eqb k k' then sm_del k r else (k', v) :: sm_del k r end.
Definition sm_put (k v : string) (m : smap) : smap := (k, v) :: sm_del k m.
Definition sm_apply (o : sop) (m : smap) : smap * sres :=
  match o with
  | SGet k => (m, RVal (sm_get k m))
  | SPut k v => (sm_put k v m, RUnit)
  | SDel k => (sm_del k m, RUnit)
  | SList pre => (m, RKeys (map (fun kv => drop (String.length pre) (fst kv))
                                (filter (fun kv => prefixb pre (fst kv)) m)))
  end.

(* ---------- the pinned tree's deadlock, as a program ---------- *)
(* HandleIDPInitiated held idpConfigMu shared around ServeIDPInitiated, whose
   callee GetServiceProvider takes it shared again; HandlePutService takes it
   exclusively.  (This is what seeded/revert-F12 re-introduces.) *)
Definition reentrant_program : program :=
  [ ("Server.GetServiceProvider", [Acq IdpConfigMu false; Rd ServiceProviders; Rel IdpConfigMu false]);
    ("Server.HandleIDPInitiated", [Acq IdpConfigMu false; Call "Server.GetServiceProvider"; Rel IdpConfigMu false]);
    ("Server.HandlePutService", [Acq IdpConfigMu true; Wr ServiceProviders; Rel IdpConfigMu true]) ].
(* the same with the outer lock removed (the fix) *)
Definition fixed_program : program :=
  [ ("Server.GetServiceProvider", [Acq IdpConfigMu false; Rd ServiceProviders; Rel IdpConfigMu false]);
    ("Server.HandleIDPInitiated", [Call "Server.GetServiceProvider"]);
    ("Server.HandlePutService", [Acq IdpConfigMu true; Wr ServiceProviders; Rel IdpConfigMu true]) ].

(* ---------- correspondence-check entry points ---------- *)
(* The stress / linearizability / race-detector runs are decided on the Go
   side; each case carries the verdict.  For recorded sequential store
   histories the map specification above is evaluated here. *)
Record seqcase := { sq_ops : list sop; sq_obs : list sres }.
Fixpoint sm_run (ops : list sop) (m : smap) : list sres :=
  match ops with [] => [] | o :: r => let '(m', x) := sm_apply o m in x :: sm_run r m' end.
Fixpoint list_eqb {A} (e : A -> A -> bool) (a b : list A) : bool :=
  match a, b with
  | [], [] => true
  | x :: a', y :: b' => e x y && list_eqb e a' b'
  | _, _ => false
  end.
Fixpoint insert_str (s : string) (l : list string) : list string :=
  match l with
  | [] => [s]
  | x :: r => match String.compare s x with Gt => x :: insert_str s r | _ => s :: l end
  end.
Definition sort_str (l : list string) : list string := fold_right insert_str [] l.
Definition sres_eqb (a b : sres) : bool :=
  match a, b with
  | RVal None, RVal None => true
  | RVal (Some x), RVal (Some y) => String.eqb x y
  | RUnit, RUnit => true
  | RKeys x, RKeys y => list_eqb String.eqb (sort_str x) (sort_str y)   (* List order is map order *)
  | _, _ => false
  end.
Definition seqcase_agree (c : seqcase) : bool := list_eqb sres_eqb (sm_run (sq_ops c) []) (sq_obs c).
Definition check_seqcases := check_cases seqcase_agree (fun _ => true).
