(* UrlEnc.v — executable model of the parts of Go's net/url used by the SP's
   outbound redirect bindings (go1.23 src/net/url/url.go):

   query_escape    ~ url.QueryEscape      (escape(s, encodeQueryComponent))
   query_unescape  ~ url.QueryUnescape    (unescape(s, encodeQueryComponent); None = EscapeError)
   parse_query     ~ url.ParseQuery       (pairs in order of appearance, error flag)
   values_set      ~ url.Values.Set
   values_encode   ~ url.Values.Encode    (keys sorted bytewise, values in order)

   url.Values is a map[string][]string; it is modelled by the list of
   (key, value) pairs in order of insertion: the value list of a key is
   [values_of k], the key set is [sorted_keys].  Definitions only; the lemmas
   are in UrlEncProofs.v. *)
From Saml Require Import Base.

(* ---------- character classes ---------- *)
Definition is_lower (c : ascii) : bool := (97 <=? code c) && (code c <=? 122).
Definition is_upper (c : ascii) : bool := (65 <=? code c) && (code c <=? 90).
Definition is_alpha (c : ascii) : bool := is_lower c || is_upper c.
Definition is_alnum (c : ascii) : bool := is_alpha c || is_digit c.

(* ishex / unhex of net/url *)
Definition ishex (c : ascii) : bool :=
  is_digit c || ((97 <=? code c) && (code c <=? 102)) || ((65 <=? code c) && (code c <=? 70)).
Definition unhex (c : ascii) : Z :=
  let n := code c in
  if (48 <=? n) && (n <=? 57) then n - 48
  else if (97 <=? n) && (n <=? 102) then n - 87
  else if (65 <=? n) && (n <=? 70) then n - 55 else 0.
(* "0123456789ABCDEF"[d] *)
Definition upperhex (d : Z) : ascii := if d <? 10 then chr (48 + d) else chr (55 + d).

Definition is_mark (c : ascii) : bool :=          (* '-', '_', '.', '~' *)
  (code c =? 45) || (code c =? 95) || (code c =? 46) || (code c =? 126).

(* shouldEscape(c, encodeQueryComponent): alphanumerics and the four marks
   are kept; the reserved characters "$&+,/:;=?@" are escaped in this mode and
   "everything else must be escaped". *)
Definition should_escape_q (c : ascii) : bool := negb (is_alnum c || is_mark c).

Definition pct (c : ascii) (r : string) : string :=
  String "%" (String (upperhex (code c / 16)) (String (upperhex (code c mod 16)) r)).

(* escape(s, encodeQueryComponent).  The Go function has two fast paths
   (nothing to escape: return s; only spaces: copy and replace) whose result
   equals that of the general loop, which is what is written here. *)
Fixpoint query_escape (s : string) : string :=
  match s with
  | EmptyString => EmptyString
  | String c r =>
      if code c =? 32 then String "+" (query_escape r)
      else if should_escape_q c then pct c (query_escape r)
      else String c (query_escape r)
  end.

(* unescape(s, encodeQueryComponent).  Go validates in a first pass (any '%'
   not followed by two hex digits is an EscapeError) and converts in a second;
   one pass with an option result is the same function. *)
Fixpoint query_unescape (s : string) : option string :=
  match s with
  | EmptyString => Some EmptyString
  | String c r =>
      if code c =? 37 then
        match r with
        | String a (String b r') =>
            if ishex a && ishex b
            then match query_unescape r' with
                 | Some t => Some (String (chr (16 * unhex a + unhex b)) t)
                 | None => None
                 end
            else None
        | _ => None
        end
      else if code c =? 43 then
        match query_unescape r with Some t => Some (String " " t) | None => None end
      else
        match query_unescape r with Some t => Some (String c t) | None => None end
  end.

(* ---------- ParseQuery ---------- *)
Fixpoint contains_chr (d : Z) (s : string) : bool :=
  match s with EmptyString => false | String c r => (code c =? d) || contains_chr d r end.

(* strings.Split(s, d): always at least one element *)
Fixpoint split_on (d : Z) (s : string) : list string :=
  match s with
  | EmptyString => [EmptyString]
  | String c r =>
      if code c =? d then EmptyString :: split_on d r
      else match split_on d r with
           | h :: t => String c h :: t
           | [] => [String c EmptyString]
           end
  end.

(* strings.Cut(s, d): before, after (after = "" when d does not occur) *)
Fixpoint cut_chr (d : Z) (s : string) : string * string :=
  match s with
  | EmptyString => (EmptyString, EmptyString)
  | String c r =>
      if code c =? d then (EmptyString, r)
      else let '(a, b) := cut_chr d r in (String c a, b)
  end.

Inductive pair_res := PSkip | PErr | POk (k v : string).

(* one iteration of parseQuery's loop on the text between two '&' *)
Definition parse_pair (seg : string) : pair_res :=
  if contains_chr 59 seg then PErr                       (* ';' : invalid semicolon separator *)
  else if negb (nonempty seg) then PSkip
  else let '(k, v) := cut_chr 61 seg in                   (* first '=' *)
       match query_unescape k with
       | None => PErr
       | Some k' =>
           match query_unescape v with
           | None => PErr
           | Some v' => POk k' v'
           end
       end.

Fixpoint parse_segs (l : list string) : list (string * string) * bool :=
  match l with
  | [] => ([], false)
  | seg :: t =>
      let '(ps, e) := parse_segs t in
      match parse_pair seg with
      | PSkip => (ps, e)
      | PErr => (ps, true)
      | POk k v => ((k, v) :: ps, e)
      end
  end.

(* url.ParseQuery: `for query != "" { key, query, _ = strings.Cut(query, "&") … }`.
   The loop visits the '&'-separated segments in order; an empty segment has
   no effect, so visiting the trailing empty segment that strings.Split adds
   (and the single empty segment of "") is the same computation.
   Result: the accepted pairs in order, and whether err != nil. *)
Definition parse_query (q : string) : list (string * string) * bool :=
  parse_segs (split_on 38 q).

(* ---------- url.Values ---------- *)
Definition values := list (string * string).

Definition values_of (k : string) (ps : values) : list string :=
  map snd (filter (fun p => seqb (fst p) k) ps).

(* Values.Set(k, v): m[k] = []string{v} *)
Definition values_set (k v : string) (ps : values) : values :=
  (filter (fun p => negb (seqb (fst p) k)) ps ++ [(k, v)])%list.

(* Go's string ordering: bytewise lexicographic *)
Fixpoint str_leb (a b : string) : bool :=
  match a, b with
  | EmptyString, _ => true
  | String _ _, EmptyString => false
  | String x a', String y b' =>
      if code x <? code y then true
      else if code y <? code x then false
      else str_leb a' b'
  end.

Fixpoint insert_sorted (k : string) (l : list string) : list string :=
  match l with
  | [] => [k]
  | h :: t => if str_leb k h then k :: l else h :: insert_sorted k t
  end.

(* add a key to the sorted list of distinct keys *)
Definition insert_key (k : string) (l : list string) : list string :=
  if mem_str k l then l else insert_sorted k l.

(* the distinct keys, sorted (slices.Sort of the map's keys) *)
Definition sorted_keys (ps : values) : list string :=
  fold_right (fun p acc => insert_key (fst p) acc) [] ps.

(* the pairs in the order Values.Encode writes them *)
Definition encode_order (ps : values) : values :=
  flat_map (fun k => map (fun v => (k, v)) (values_of k ps)) (sorted_keys ps).

Definition enc_pair (p : string * string) : string :=
  query_escape (fst p) +++ "=" +++ query_escape (snd p).

Fixpoint join_amp (l : list string) : string :=
  match l with
  | [] => EmptyString
  | [x] => x
  | x :: t => x +++ "&" +++ join_amp t
  end.

Definition values_encode (ps : values) : string := join_amp (map enc_pair (encode_order ps)).

(* how many pairs carry key k *)
Definition count_key (k : string) (ps : values) : Z := Z.of_nat (List.length (values_of k ps)).

(* ---------- the part of url.Parse / URL.String used by the redirects ---------- *)
(* url.Parse cuts "#frag" first, then the query at the first '?'.  For the
   endpoint URLs of the correspondence check (scheme://host/path, unreserved
   path characters) URL.String() reproduces the text before '?' unchanged;
   RawQuery is kept verbatim by Parse and written verbatim by String. *)
Definition split_url (u : string) : string * string * string :=
  let '(nf, frag) := cut_chr 35 u in
  let '(base, rawq) := cut_chr 63 nf in
  (base, rawq, frag).

Definition join_url (base query frag : string) : string :=
  base +++ (if nonempty query then "?" +++ query else "")
       +++ (if nonempty frag then "#" +++ frag else "").

(* ---------- correspondence-check entry points ---------- *)
Definition opt_s_eqb (a b : option string) : bool :=
  match a, b with
  | None, None => true
  | Some x, Some y => seqb x y
  | _, _ => false
  end.

Fixpoint pairs_eqb (a b : values) : bool :=
  match a, b with
  | [], [] => true
  | (k, v) :: a', (k', v') :: b' => seqb k k' && seqb v v' && pairs_eqb a' b'
  | _, _ => false
  end.

(* escape case: s, QueryEscape(s), QueryUnescape of that (None = error) *)
Record qecase := { qe_s : string; qe_esc : string; qe_rt : option string }.
Definition qecase_agree (c : qecase) : bool := seqb (query_escape (qe_s c)) (qe_esc c).
Definition qecase_spec (c : qecase) : bool := opt_s_eqb (qe_rt c) (Some (qe_s c)).
Definition check_qecases := check_cases qecase_agree qecase_spec.

(* unescape case: arbitrary text, QueryUnescape(text) *)
Record qucase := { qu_s : string; qu_res : option string }.
Definition qucase_agree (c : qucase) : bool := opt_s_eqb (query_unescape (qu_s c)) (qu_res c).
Definition check_qucases := check_cases qucase_agree (fun _ => true).

(* ParseQuery case: text, the pairs net/url returned grouped the way
   Values.Encode orders them (sorted keys, values in order), err != nil,
   and Values.Encode() of the result *)
Record pqcase := { pq_s : string; pq_pairs : values; pq_err : bool; pq_enc : string }.
Definition pqcase_agree (c : pqcase) : bool :=
  let '(ps, e) := parse_query (pq_s c) in
  pairs_eqb (encode_order ps) (pq_pairs c) && Bool.eqb e (pq_err c)
  && seqb (values_encode ps) (pq_enc c).
Definition check_pqcases := check_cases pqcase_agree (fun _ => true).
