(* Outbound.v — executable model of the Service Provider's outbound messages
   (service_provider.go: MakeAuthenticationRequest, AuthnRequest.Redirect/Post,
   MakeLogoutRequest/Response, LogoutRequest/LogoutResponse.Redirect/Post,
   MakeArtifactResolveRequest, GetSigningContext, Sign*; util.go randomBytes).

   DEFLATE/base64 are opaque: the encoded message text [enc] is an input.
   The signing primitive is a function parameter [sign : octets -> base64
   signature text] (symbolic; the harness verifies the real signatures
   independently).  Definitions only; lemmas are in OutboundProofs.v. *)
From Saml Require Import Base UrlEnc.

(* ---------- GetSigningContext: method URI x key type ---------- *)
Definition RSASHA1   := "http://www.w3.org/2000/09/xmldsig#rsa-sha1".
Definition RSASHA256 := "http://www.w3.org/2001/04/xmldsig-more#rsa-sha256".
Definition RSASHA384 := "http://www.w3.org/2001/04/xmldsig-more#rsa-sha384".
Definition RSASHA512 := "http://www.w3.org/2001/04/xmldsig-more#rsa-sha512".
Definition ECDSASHA1   := "http://www.w3.org/2001/04/xmldsig-more#ecdsa-sha1".
Definition ECDSASHA256 := "http://www.w3.org/2001/04/xmldsig-more#ecdsa-sha256".
Definition ECDSASHA384 := "http://www.w3.org/2001/04/xmldsig-more#ecdsa-sha384".
Definition ECDSASHA512 := "http://www.w3.org/2001/04/xmldsig-more#ecdsa-sha512".

Definition rsa_methods := [RSASHA1; RSASHA256; RSASHA384; RSASHA512].
Definition ecdsa_methods := [ECDSASHA1; ECDSASHA256; ECDSASHA384; ECDSASHA512].

(* dynamic type of sp.Key *)
Inductive keytype := KRSA | KECDSA | KOther.
Definition keytype_eqb (a b : keytype) : bool :=
  match a, b with KRSA, KRSA | KECDSA, KECDSA | KOther, KOther => true | _, _ => false end.

(* the hash the context signs with (1 = SHA-1, else the digest size) *)
Definition method_hash (m : string) : Z :=
  if seqb m RSASHA1 || seqb m ECDSASHA1 then 1
  else if seqb m RSASHA256 || seqb m ECDSASHA256 then 256
  else if seqb m RSASHA384 || seqb m ECDSASHA384 then 384
  else 512.

(* GetSigningContext: the switch on sp.SignatureMethod.  Err 1 = the key is
   not of the type the method requires, Err 2 = "invalid signing method".
   (dsig.NewSigningContext and SetSignatureMethod re-check the same table and
   cannot fail after the switch accepted.) *)
Definition signing_context (method : string) (kt : keytype) : outcome Z :=
  if mem_str method rsa_methods then
    (match kt with KRSA => Ok (method_hash method) | _ => Err 1 end)
  else if mem_str method ecdsa_methods then
    (match kt with KECDSA => Ok (method_hash method) | _ => Err 1 end)
  else Err 2.

(* ---------- which messages are signed, and how ---------- *)
Inductive kind := AuthnReq | LogoutReq | LogoutResp | ArtifactRes.
Inductive binding := BRedirect | BPost.

(* does the constructor (Make…) attach an enveloped XML signature?
   MakeAuthenticationRequest: len(SignatureMethod) > 0 && binding == HTTPPostBinding;
   the other three: SignatureMethod != "" *)
Definition xml_signed (k : kind) (b : binding) (method : string) : bool :=
  nonempty method &&
  match k, b with
  | AuthnReq, BRedirect => false
  | _, _ => true
  end.

(* the constructor: Ok signed? | Err (no message is returned) *)
Definition make_message (k : kind) (b : binding) (method : string) (kt : keytype) : outcome bool :=
  if xml_signed k b method
  then do _ <- signing_context method kt; Ok true
  else Ok false.

(* ---------- message IDs: fmt.Sprintf("id-%x", randomBytes(20)) ---------- *)
Definition msg_id (rand20 : string) : string := "id-" +++ to_hex rand20.

(* randomBytes(n): io.ReadFull(RandReader, rv) — exactly n bytes of the
   stream, panic(err) when the source is exhausted *)
Definition draw (n : nat) (stream : string) : outcome (string * string) :=
  if (String.length stream <? n)%nat then Panic
  else Ok (take n stream, drop n stream).

Definition new_id (stream : string) : outcome (string * string) :=
  do (b, rest) <- draw 20 stream; Ok (msg_id b, rest).

(* any sequence of k message creations, threading the stream *)
Fixpoint make_ids (k : nat) (stream : string) : outcome (list string * string) :=
  match k with
  | O => Ok ([], stream)
  | S k' =>
      do (i, rest) <- new_id stream;
      do (is, rest') <- make_ids k' rest;
      Ok (i :: is, rest')
  end.

(* ---------- AuthnRequest.Redirect ---------- *)
Section Redirect.
  Variable sign : string -> string.    (* base64(SignString(octets)) *)

  (* the query assembled by hand, "as order matters for signing":
     result = (RawQuery of the returned URL, octets handed to SignString — "" when unsigned) *)
  Definition authn_query (rawq enc relay method : string) (kt : keytype)
    : outcome (string * string) :=
    let q0 := "SAMLRequest=" +++ query_escape enc in
    let q1 := if nonempty relay then q0 +++ "&RelayState=" +++ query_escape relay else q0 in
    do (q3, octets) <-
       (if nonempty method then
          let q2 := q1 +++ "&SigAlg=" +++ query_escape method in
          do _ <- signing_context method kt;
          Ok (q2 +++ "&Signature=" +++ query_escape (sign q2), q2)
        else Ok (q1, ""));
    (* parameters already part of the IdP endpoint are kept in front *)
    Ok (if nonempty rawq then rawq +++ "&" +++ q3 else q3, octets).

  (* result: emitted URL text, and the signed octets *)
  Definition authn_redirect (dest enc relay method : string) (kt : keytype)
    : outcome (string * string) :=
    let '(base, rawq, frag) := split_url dest in
    do (q, octets) <- authn_query rawq enc relay method kt;
    Ok (join_url base q frag, octets).
End Redirect.

(* ---------- LogoutRequest.Redirect / LogoutResponse.Redirect ---------- *)
(* rv.Query() (ParseQuery, error ignored), Set(param, enc),
   Set("RelayState", relay) when relay != "", rv.RawQuery = query.Encode() *)
Definition logout_query (param rawq enc relay : string) : string :=
  let ps := fst (parse_query rawq) in
  let ps1 := values_set param enc ps in
  let ps2 := if nonempty relay then values_set "RelayState" relay ps1 else ps1 in
  values_encode ps2.

Definition logout_redirect (param dest enc relay : string) : string :=
  let '(base, rawq, frag) := split_url dest in
  join_url base (logout_query param rawq enc relay) frag.

Definition param_of (k : kind) : string :=
  match k with LogoutResp => "SAMLResponse" | _ => "SAMLRequest" end.

(* ---------- POST forms: the three data fields handed to the template ---------- *)
(* (action URL, name of the message field, message field value, relay state) *)
Definition post_form_fields (k : kind) (dest b64 relay : string) : string * string * string * string :=
  (dest, param_of k, b64, relay).

(* ---------- message contents ---------- *)
Definition first_set (a b : string) : string := if nonempty a then a else b.

Definition TRANSIENT := "urn:oasis:names:tc:SAML:2.0:nameid-format:transient".
Definition UNSPECIFIED := "urn:oasis:names:tc:SAML:1.1:nameid-format:unspecified".
Definition HTTP_POST := "urn:oasis:names:tc:SAML:2.0:bindings:HTTP-POST".
Definition HTTP_REDIRECT := "urn:oasis:names:tc:SAML:2.0:bindings:HTTP-Redirect".
Definition STATUS_SUCCESS := "urn:oasis:names:tc:SAML:2.0:status:Success".

Record spcfg := {
  sp_entity_id : string;
  sp_metadata_url : string;
  sp_acs_url : string;
  sp_nameid_format : string;                  (* AuthnNameIDFormat *)
  sp_force_authn : option bool;
  sp_authn_ctx : option (string * string);    (* Comparison, single AuthnContextClassRef *)
  sp_idp_entity : string                      (* IDPMetadata.EntityID *)
}.

(* sp.nameIDFormat() *)
Definition name_id_format (c : spcfg) : string :=
  if negb (nonempty (sp_nameid_format c)) then TRANSIENT
  else if seqb (sp_nameid_format c) UNSPECIFIED then ""
  else sp_nameid_format c.

Definition issuer_of (c : spcfg) : string := first_set (sp_entity_id c) (sp_metadata_url c).

Definition opt_nonempty (s : string) : option string := if nonempty s then Some s else None.
Definition bool_text (b : bool) : string := if b then "true" else "false".

(* the attribute/child values of the emitted element, as (name, value-if-present).
   Attributes written only when non-empty by Element() are [opt_nonempty]. *)
Definition fields := list (string * option string).

Definition authn_fields (c : spcfg) (id dest result_binding : string) : fields :=
  [ ("ID", Some id); ("Version", Some "2.0");
    ("Destination", opt_nonempty dest);
    ("Issuer", Some (issuer_of c));
    ("AssertionConsumerServiceURL", opt_nonempty (sp_acs_url c));
    ("ProtocolBinding", opt_nonempty result_binding);
    ("NameIDPolicy/Format", opt_nonempty (name_id_format c));
    ("NameIDPolicy/AllowCreate", Some "true");
    ("ForceAuthn", option_map bool_text (sp_force_authn c));
    ("RequestedAuthnContext/Comparison", option_map fst (sp_authn_ctx c));
    ("RequestedAuthnContext/ClassRef", option_map snd (sp_authn_ctx c)) ].

Definition logout_request_fields (c : spcfg) (id dest name_id : string) : fields :=
  [ ("ID", Some id); ("Version", Some "2.0");
    ("Destination", opt_nonempty dest);
    ("Issuer", Some (issuer_of c));
    ("NameID", Some name_id);
    ("NameID/Format", opt_nonempty (name_id_format c));
    ("NameID/NameQualifier", opt_nonempty (sp_idp_entity c));
    ("NameID/SPNameQualifier", opt_nonempty (issuer_of c)) ].

Definition logout_response_fields (c : spcfg) (id dest in_response_to : string) : fields :=
  [ ("ID", Some id); ("Version", Some "2.0");
    ("Destination", opt_nonempty dest);
    ("Issuer", Some (issuer_of c));
    ("InResponseTo", opt_nonempty in_response_to);
    ("StatusCode", Some STATUS_SUCCESS) ].

Definition artifact_resolve_fields (c : spcfg) (id artifact : string) : fields :=
  [ ("ID", Some id); ("Version", Some "2.0");
    ("Issuer", Some (issuer_of c));
    ("Artifact", Some artifact) ].

Fixpoint fields_eqb (a b : fields) : bool :=
  match a, b with
  | [], [] => true
  | (n, v) :: a', (n', v') :: b' => seqb n n' && opt_s_eqb v v' && fields_eqb a' b'
  | _, _ => false
  end.

(* ---------- substring search (for the signed-octets statement) ---------- *)
(* first position at which [p] occurs in [s] *)
Fixpoint find_sub (p s : string) : option nat :=
  if prefixb p s then Some O
  else match s with
       | EmptyString => None
       | String _ r => option_map S (find_sub p r)
       end.

(* the query part of a URL text: after the first '?', before the first '#' *)
Definition query_of (u : string) : string := snd (fst (split_url u)).

(* ---------- correspondence-check entry points ---------- *)
Definition kt_of (z : Z) : keytype := if z =? 0 then KRSA else if z =? 1 then KECDSA else KOther.
Definition kind_of (z : Z) : kind :=
  if z =? 0 then AuthnReq else if z =? 1 then LogoutReq else if z =? 2 then LogoutResp else ArtifactRes.
Definition binding_of (z : Z) : binding := if z =? 0 then BRedirect else BPost.

(* property C12 on an observed redirect URL: the endpoint's own parameters
   [own] (parsed from the configured endpoint) are followed / accompanied by
   exactly one message parameter carrying enc and, iff relay <> "", exactly one
   RelayState carrying relay; nothing else except SigAlg/Signature *)
Definition saml_key (k : string) : bool :=
  seqb k "SAMLRequest" || seqb k "SAMLResponse" || seqb k "RelayState"
  || seqb k "SigAlg" || seqb k "Signature".

Definition own_params (ps : values) : values := filter (fun p => negb (saml_key (fst p))) ps.

Fixpoint strs_eqb (a b : list string) : bool :=
  match a, b with
  | [], [] => true
  | x :: a', y :: b' => seqb x y && strs_eqb a' b'
  | _, _ => false
  end.

(* sorted-by-key view, so that authn (order kept) and logout (re-encoded) compare alike *)
Definition same_params (a b : values) : bool := pairs_eqb (encode_order a) (encode_order b).

Definition has_saml_key (ps : values) : bool := existsb (fun p => saml_key (fst p)) ps.

(* (an endpoint that itself carries SAMLRequest/RelayState/... parameters is
   outside the property's hypothesis; the error flag of ParseQuery is that of
   the endpoint's own query) *)
Definition redirect_spec (reenc : bool) (param dest enc relay url : string) : bool :=
  let '(_, rawq, _) := split_url dest in
  let own := parse_query rawq in
  let got := parse_query (query_of url) in
  if has_saml_key (fst own) then true else
  Bool.eqb (snd got) (if reenc then false else snd own)   (* Values.Encode never writes ';' or a bad escape *)
  && strs_eqb (values_of param (fst got)) [enc]
  && strs_eqb (values_of "RelayState" (fst got)) (if nonempty relay then [relay] else [])
  && same_params (own_params (fst got)) (own_params (fst own)).

(* two URL texts are the same request: same text before '?', same fragment, and
   the queries decode (split on '&', first '=', percent-decoding, '+' = space) to
   the same parameters with the same values — compared key by key, values of a
   key in order, so that neither the spelling of an escape ("+" / "%20",
   hex-digit case) nor the relative order of different parameters matters *)
Definition url_equiv (a b : string) : bool :=
  let '(ba, qa, fa) := split_url a in
  let '(bb, qb, fb) := split_url b in
  seqb ba bb && seqb fa fb
  && pairs_eqb (encode_order (fst (parse_query qa))) (encode_order (fst (parse_query qb)))
  && Bool.eqb (snd (parse_query qa)) (snd (parse_query qb)).

(* the signed octet string of the redirect binding, taken RAW from the emitted
   query: literally SAMLRequest=v1[&RelayState=v2]&SigAlg=v3 in this order,
   where the values percent-decode to the message, the relay state and the
   method (how each byte is escaped is the emitter's choice) *)
Definition raw_kv (seg : string) : string * option string :=
  let '(k, v) := cut_chr 61 seg in (k, query_unescape v).
Definition kv_is (k v : string) (p : string * option string) : bool :=
  seqb (fst p) k && opt_s_eqb (snd p) (Some v).
Definition octets_ok (octets enc relay method : string) : bool :=
  match map raw_kv (split_on 38 octets) with
  | [a; b; c] => nonempty relay && kv_is "SAMLRequest" enc a && kv_is "RelayState" relay b && kv_is "SigAlg" method c
  | [a; c] => negb (nonempty relay) && kv_is "SAMLRequest" enc a && kv_is "SigAlg" method c
  | _ => false
  end.

(* AuthnRequest redirect case.  Inputs: endpoint, encoded message, relay state,
   method, key type; observed: class (0 ok / 1 error / 2 panic), URL text,
   the Signature parameter's decoded value (base64 text). *)
Record arcase := {
  ar_dest : string; ar_enc : string; ar_relay : string; ar_method : string; ar_kt : Z;
  ar_cls : Z; ar_url : string; ar_sig : string }.

Definition arcase_model (c : arcase) :=
  authn_redirect (fun _ => ar_sig c) (ar_dest c) (ar_enc c) (ar_relay c) (ar_method c) (kt_of (ar_kt c)).

Definition arcase_agree (c : arcase) : bool :=
  match arcase_model c with
  | Ok (u, _) => (ar_cls c =? 0) && url_equiv u (ar_url c)
  | Err _ => ar_cls c =? 1
  | Panic => ar_cls c =? 2
  end.

(* signed octets, cut from the observed URL: the text from "SAMLRequest=" up to "&Signature=" *)
Definition octets_of_url (url : string) : option string :=
  let q := query_of url in
  match find_sub "SAMLRequest=" q with
  | None => None
  | Some i =>
      let t := drop i q in
      match find_sub "&Signature=" t with
      | None => None
      | Some j => Some (take j t)
      end
  end.

Definition arcase_spec (c : arcase) : bool :=
  if ar_cls c =? 0 then
    redirect_spec false "SAMLRequest" (ar_dest c) (ar_enc c) (ar_relay c) (ar_url c)
    && (if nonempty (ar_method c) && negb (has_saml_key (fst (parse_query (snd (fst (split_url (ar_dest c)))))))
        then match octets_of_url (ar_url c) with
             | Some o => octets_ok o (ar_enc c) (ar_relay c) (ar_method c)
             | None => false
             end
        else true)
  else
    (* an error is the required outcome exactly when the method does not fit the key *)
    (ar_cls c =? 1) && nonempty (ar_method c)
    && negb (is_ok (signing_context (ar_method c) (kt_of (ar_kt c)))).
Definition check_arcases := check_cases arcase_agree arcase_spec.

(* Logout redirect case *)
Record lrcase := { lr_kind : Z; lr_dest : string; lr_enc : string; lr_relay : string; lr_url : string }.
Definition lrcase_agree (c : lrcase) : bool :=
  url_equiv (logout_redirect (param_of (kind_of (lr_kind c))) (lr_dest c) (lr_enc c) (lr_relay c)) (lr_url c).
Definition lrcase_spec (c : lrcase) : bool :=
  redirect_spec true (param_of (kind_of (lr_kind c))) (lr_dest c) (lr_enc c) (lr_relay c) (lr_url c).
Definition check_lrcases := check_cases lrcase_agree lrcase_spec.

(* message-ID case: the bytes the random source handed out during n creations, and the IDs *)
Record idcase := { ic_stream : string; ic_n : Z; ic_ids : list string }.
Definition idcase_agree (c : idcase) : bool :=
  match make_ids (Z.to_nat (ic_n c)) (ic_stream c) with
  | Ok (ids, rest) => strs_eqb ids (ic_ids c) && negb (nonempty rest)
  | _ => false
  end.
Fixpoint chunks20 (k : nat) (s : string) : list string :=
  match k with O => [] | S k' => take 20 s :: chunks20 k' (drop 20 s) end.
Fixpoint distinct_strs (l : list string) : bool :=
  match l with [] => true | x :: r => negb (mem_str x r) && distinct_strs r end.
(* every ID is "id-" ++ hex of its own 20 bytes of the stream, exactly 20 n
   bytes were drawn, and distinct draws gave distinct IDs *)
Definition idcase_spec (c : idcase) : bool :=
  let k := Z.to_nat (ic_n c) in
  (slen (ic_stream c) =? 20 * ic_n c)
  && strs_eqb (ic_ids c) (map msg_id (chunks20 k (ic_stream c)))
  && (if distinct_strs (chunks20 k (ic_stream c)) then distinct_strs (ic_ids c) else true).
Definition check_idcases := check_cases idcase_agree idcase_spec.

(* message-content case: configuration, kind, inputs, the fields parsed from the emitted XML *)
Record mfcase := {
  mf_cfg : spcfg; mf_kind : Z; mf_id : string; mf_dest : string; mf_arg : string;
  mf_fields : fields }.
Definition mfcase_model (c : mfcase) : fields :=
  match kind_of (mf_kind c) with
  | AuthnReq => authn_fields (mf_cfg c) (mf_id c) (mf_dest c) (mf_arg c)
  | LogoutReq => logout_request_fields (mf_cfg c) (mf_id c) (mf_dest c) (mf_arg c)
  | LogoutResp => logout_response_fields (mf_cfg c) (mf_id c) (mf_dest c) (mf_arg c)
  | ArtifactRes => artifact_resolve_fields (mf_cfg c) (mf_id c) (mf_arg c)
  end.
Definition mfcase_agree (c : mfcase) : bool := fields_eqb (mfcase_model c) (mf_fields c).
(* the property's conclusion for message contents is exactly that the fields
   recovered from the wire are the configured issuer, destination, ACS URL,
   name-ID policy / name ID and the given IDs: the monitor is the comparison *)
Definition mfcase_spec (c : mfcase) : bool := fields_eqb (mf_fields c) (mfcase_model c).
Definition check_mfcases := check_cases mfcase_agree mfcase_spec.

(* signing case (C13): kind, binding, method, key type; observed: constructor
   class (0 ok / 1 error / 2 panic), whether the emitted element carries an
   enveloped signature as a direct child, whether a redirect Signature
   parameter is present *)
Record sgcase := {
  sg_kind : Z; sg_binding : Z; sg_method : string; sg_kt : Z;
  sg_cls : Z; sg_xmlsig : bool; sg_redirsig : bool }.
Definition redirect_sig_expected (k : kind) (b : binding) (method : string) : bool :=
  nonempty method && match k, b with AuthnReq, BRedirect => true | _, _ => false end.
Definition sgcase_model (c : sgcase) : outcome (bool * bool) :=
  let k := kind_of (sg_kind c) in let b := binding_of (sg_binding c) in
  do x <- make_message k b (sg_method c) (kt_of (sg_kt c));
  if redirect_sig_expected k b (sg_method c)
  then do _ <- signing_context (sg_method c) (kt_of (sg_kt c)); Ok (x, true)
  else Ok (x, false).
Definition sgcase_agree (c : sgcase) : bool :=
  match sgcase_model c with
  | Ok (x, r) => (sg_cls c =? 0) && Bool.eqb x (sg_xmlsig c) && Bool.eqb r (sg_redirsig c)
  | Err _ => sg_cls c =? 1
  | Panic => sg_cls c =? 2
  end.
(* the property on the observed outcome: with a method configured, either an
   error (exactly when method and key do not fit) or a message that carries
   the signature its kind/binding calls for; never an unsigned message *)
Definition sgcase_spec (c : sgcase) : bool :=
  let k := kind_of (sg_kind c) in let b := binding_of (sg_binding c) in
  if nonempty (sg_method c) then
    if is_ok (signing_context (sg_method c) (kt_of (sg_kt c)))
    then (sg_cls c =? 0)
         && Bool.eqb (sg_xmlsig c) (xml_signed k b (sg_method c))
         && Bool.eqb (sg_redirsig c) (redirect_sig_expected k b (sg_method c))
    else sg_cls c =? 1
  else (sg_cls c =? 0) && negb (sg_xmlsig c) && negb (sg_redirsig c).
Definition check_sgcases := check_cases sgcase_agree sgcase_spec.

(* ---------- ServiceProvider.Metadata: the key descriptors ---------- *)
(* cert: base64 DER of sp.Certificate (None = no certificate configured);
   inters: base64 DER of each of sp.Intermediates, in order; rsa_cert: the
   certificate's public key is RSA.  One X509Certificate element per
   certificate, the SP's own first.  Result: (use, certificates) per KeyDescriptor. *)
Definition sp_key_descriptors (cert : option string) (inters : list string) (rsa_cert : bool) (method : string)
  : list (string * list string) :=
  match cert with
  | None => []
  | Some c =>
      let certs := c :: inters in
      ((if rsa_cert then [("encryption", certs)] else [])
       ++ (if nonempty method then [("signing", certs)] else []))%list
  end.

(* AuthnRequestsSigned *)
Definition sp_authn_requests_signed (method : string) : bool := nonempty method.

(* the certificates of the first descriptor with the given use *)
Fixpoint kd_certs_of (use : string) (kds : list (string * list string)) : option (list string) :=
  match kds with
  | [] => None
  | (u, cs) :: r => if seqb u use then Some cs else kd_certs_of use r
  end.

(* metadata case (C13): configuration, and what the published metadata XML
   contains: the key descriptors, AuthnRequestsSigned, and whether the FIRST
   X509Certificate of the signing descriptor parses (x509) to the SP certificate *)
Record mdcase := {
  md_cert : option string; md_inters : list string; md_rsa : bool; md_method : string;
  md_kds : list (string * list string); md_authn_signed : bool; md_first_is_sp_cert : bool }.
Fixpoint kds_eqb (a b : list (string * list string)) : bool :=
  match a, b with
  | [], [] => true
  | (u, cs) :: a', (u', cs') :: b' => seqb u u' && strs_eqb cs cs' && kds_eqb a' b'
  | _, _ => false
  end.
Definition mdcase_agree (c : mdcase) : bool :=
  kds_eqb (sp_key_descriptors (md_cert c) (md_inters c) (md_rsa c) (md_method c)) (md_kds c)
  && Bool.eqb (sp_authn_requests_signed (md_method c)) (md_authn_signed c).
(* with signing configured and a certificate present, the published metadata
   has a signing descriptor whose first certificate is the SP's certificate
   (and parses as such), and announces signed requests *)
Definition mdcase_spec (c : mdcase) : bool :=
  match md_cert c with
  | Some cert =>
      if nonempty (md_method c)
      then md_authn_signed c && md_first_is_sp_cert c
           && match kd_certs_of "signing" (md_kds c) with
              | Some (first :: _) => seqb first cert
              | _ => false
              end
      else true
  | None => true
  end.
Definition check_mdcases := check_cases mdcase_agree mdcase_spec.

(* ---------- samlsp.Middleware.HandleStartAuthFlow (the entry point that emits the AuthnRequest) ---------- *)
(* binding resolution: m.Binding when set; otherwise HTTP-Redirect when the IdP
   metadata has a (non-empty) redirect SSO location, else HTTP-POST *)
Definition mw_resolve (mbinding : string) (has_redirect : bool) : string :=
  if nonempty mbinding then mbinding else if has_redirect then HTTP_REDIRECT else HTTP_POST.

(* what is sent: a 302 to the redirect URL (with the detached signature or not)
   or the POST page (with the enveloped signature or not) *)
Inductive mw_out := MwRedirect (redirect_sig : bool) | MwPost (xml_sig : bool).

(* MakeAuthenticationRequest(location, RESOLVED binding, m.ResponseBinding), then
   Redirect / Post; an error is answered with 500; any other binding: panic("not reached") *)
Definition mw_start (mbinding : string) (has_redirect : bool) (method : string) (kt : keytype) : outcome mw_out :=
  let b := mw_resolve mbinding has_redirect in
  if seqb b HTTP_REDIRECT then
    do _ <- make_message AuthnReq BRedirect method kt;
    if nonempty method then do _ <- signing_context method kt; Ok (MwRedirect true) else Ok (MwRedirect false)
  else if seqb b HTTP_POST then
    do x <- make_message AuthnReq BPost method kt; Ok (MwPost x)
  else
    do _ <- make_message AuthnReq BRedirect method kt; Panic.

(* samlsp.DefaultServiceProvider (used by samlsp.New): with Options.SignRequest
   the signature method is chosen by the key type (defaultSigningMethodForKey),
   otherwise none *)
Definition samlsp_default_method (kt : keytype) (sign_request : bool) : string :=
  if sign_request then match kt with KRSA => RSASHA1 | KECDSA => ECDSASHA256 | KOther => EmptyString end
  else EmptyString.

(* middleware case: m.Binding, whether the IdP has redirect / POST SSO endpoints,
   Options.SignRequest, whether the method is the one samlsp.New chose (else it
   was overridden afterwards), method, key type; observed: 0 = 302, 1 = 200 POST
   page, 2 = 500, 3 = panic, and which signature the emitted AuthnRequest carries *)
Record mwcase := {
  mw_mbinding : string; mw_has_redirect : bool; mw_has_post : bool;
  mw_sign_request : bool; mw_default : bool; mw_method : string; mw_kt : Z;
  mw_cls : Z; mw_xmlsig : bool; mw_redirsig : bool }.
Definition mwcase_agree (c : mwcase) : bool :=
  (if mw_default c then seqb (mw_method c) (samlsp_default_method (kt_of (mw_kt c)) (mw_sign_request c)) else true)
  && match mw_start (mw_mbinding c) (mw_has_redirect c) (mw_method c) (kt_of (mw_kt c)) with
     | Ok (MwRedirect s) => (mw_cls c =? 0) && Bool.eqb s (mw_redirsig c) && negb (mw_xmlsig c)
     | Ok (MwPost x) => (mw_cls c =? 1) && Bool.eqb x (mw_xmlsig c) && negb (mw_redirsig c)
     | Err _ => mw_cls c =? 2
     | Panic => mw_cls c =? 3
     end.
(* with signing configured the request that leaves through the middleware is
   signed (detached for the redirect, enveloped for the POST page), or the flow
   is refused because method and key do not fit; never an unsigned request.
   An SP built by samlsp.New with SignRequest and an RSA or ECDSA key is given
   a method that fits its key, so its requests ARE signed. *)
Definition mwcase_spec (c : mwcase) : bool :=
  let signed_out := ((mw_cls c =? 0) && mw_redirsig c) || ((mw_cls c =? 1) && mw_xmlsig c) in
  (if nonempty (mw_method c) then
     if is_ok (signing_context (mw_method c) (kt_of (mw_kt c)))
     then signed_out || (mw_cls c =? 3)
     else negb ((mw_cls c =? 0) || (mw_cls c =? 1))
   else true)
  && (if mw_default c && mw_sign_request c && negb (keytype_eqb (kt_of (mw_kt c)) KOther)
      then nonempty (mw_method c) && is_ok (signing_context (mw_method c) (kt_of (mw_kt c))) && signed_out
      else true).
Definition check_mwcases := check_cases mwcase_agree mwcase_spec.

(* ---------- where the messages are sent: the IdP endpoint for a binding ---------- *)
(* GetSSOBindingLocation / GetSLOBindingLocation / GetArtifactBindingLocation:
   for each IDPSSODescriptor, for each endpoint of the list: the first whose
   Binding equals the wanted one wins and its LOCATION is returned (also when
   empty; ResponseLocation is never used); "" when there is none.  The endpoints
   of all descriptors in document order: (binding, Location, ResponseLocation). *)
Definition idp_endpoint := (string * string * string)%type.
Fixpoint first_endpoint (b : string) (eps : list idp_endpoint) : option idp_endpoint :=
  match eps with
  | [] => None
  | (b', loc, rl) :: r => if seqb b' b then Some (b', loc, rl) else first_endpoint b r
  end.
Definition binding_location (b : string) (eps : list idp_endpoint) : string :=
  match first_endpoint b eps with Some (_, loc, _) => loc | None => EmptyString end.

Definition binding_urn (b : binding) : string := match b with BRedirect => HTTP_REDIRECT | BPost => HTTP_POST end.

(* what the receiver sees as the target: for a redirect the URL text before '?',
   for a POST form the action (locations in the check are plain URLs that the
   template's URL normaliser leaves unchanged) *)
Definition target_of (b : binding) (dest : string) : string :=
  match b with BRedirect => fst (fst (split_url dest)) | BPost => dest end.

(* destination case: the endpoints of the relevant list (SSO for AuthnRequest,
   SLO for the logout messages), message kind, binding; observed: the target
   of the emitted URL / form and the Destination attribute of the message
   recovered from the wire *)
Record blcase := {
  bl_eps : list idp_endpoint; bl_kind : Z; bl_binding : Z;
  bl_target : string; bl_destination : option string }.
Definition blcase_agree (c : blcase) : bool :=
  let b := binding_of (bl_binding c) in
  let dest := binding_location (binding_urn b) (bl_eps c) in
  seqb (target_of b dest) (bl_target c) && opt_s_eqb (opt_nonempty dest) (bl_destination c).
(* requests go to the Location of the first endpoint of that binding; a
   LogoutResponse to its Location or its ResponseLocation; URL / form action
   and the Destination attribute name the same place *)
Definition blcase_spec (c : blcase) : bool :=
  let b := binding_of (bl_binding c) in
  let ok (d : string) := seqb (target_of b d) (bl_target c) && opt_s_eqb (opt_nonempty d) (bl_destination c) in
  match first_endpoint (binding_urn b) (bl_eps c) with
  | None => ok EmptyString
  | Some (_, loc, rl) =>
      ok loc || (match kind_of (bl_kind c) with LogoutResp => nonempty rl && ok rl | _ => false end)
  end.
Definition check_blcases := check_cases blcase_agree blcase_spec.

(* lookup case: GetArtifactBindingLocation / Get*BindingLocation called directly *)
Record glcase := { gl_eps : list idp_endpoint; gl_binding : string; gl_out : string }.
Definition glcase_agree (c : glcase) : bool := seqb (binding_location (gl_binding c) (gl_eps c)) (gl_out c).
Definition check_glcases := check_cases glcase_agree glcase_agree.

(* ---------- results stay what they were: sequences of productions ---------- *)
(* retained case: a sequence of message productions (any kinds, any SPs, any
   serialisation entry point) whose results are all kept and decoded only after
   the LAST production.  rt_stream: the random bytes drawn during a sequential
   sequence ("" for productions from concurrent goroutines, whose order is not
   fixed); rt_expected: per message (ID, relay state, Destination attribute,
   target of URL / form) as recorded when it was produced; rt_decoded: the same
   four read from the retained result afterwards. *)
Definition rt_item := (string * string * string * string)%type.
Fixpoint rt_items_eqb (a b : list rt_item) : bool :=
  match a, b with
  | [], [] => true
  | (i, r, d, t) :: a', (i', r', d', t') :: b' =>
      seqb i i' && seqb r r' && seqb d d' && seqb t t' && rt_items_eqb a' b'
  | _, _ => false
  end.
Record rtcase := { rt_stream : string; rt_expected : list rt_item; rt_decoded : list rt_item }.
Definition rt_ids (l : list rt_item) : list string := map (fun x : rt_item => fst (fst (fst x))) l.
Definition rtcase_agree (c : rtcase) : bool :=
  rt_items_eqb (rt_expected c) (rt_decoded c)
  && (if nonempty (rt_stream c)
      then match make_ids (List.length (rt_expected c)) (rt_stream c) with
           | Ok (ids, rest) => strs_eqb ids (rt_ids (rt_decoded c)) && negb (nonempty rest)
           | _ => false
           end
      else true).
(* every retained result still decodes to its own ID, relay state and destination *)
Definition rtcase_spec (c : rtcase) : bool := rt_items_eqb (rt_expected c) (rt_decoded c).
Definition check_rtcases := check_cases rtcase_agree rtcase_spec.
