From Saml Require Import Base Flate.
Local Open Scope Z_scope.

Definition sane_reads (l : list (Z * Z)) : Prop := Forall (fun pn => 0 <= snd pn <= fst pn) l.

(* after any sequence of reads the number of bytes delivered is within the limit *)
Theorem flate_bound l : forall count c',
  0 <= count <= flate_limit -> sane_reads l -> flate_reads count l = Ok c' -> count <= c' <= flate_limit.
Proof.
  induction l as [|[p n] r IH]; intros count c' Hc Hs H; simpl in H.
  - inversion H; subst. lia.
  - inversion Hs as [|x y Hx Hr]; subst. simpl in Hx. unfold flate_read in H.
    destruct (flate_limit <? count + p) eqn:E; simpl in H; [discriminate|].
    apply Z.ltb_ge in E. apply IH in H; auto; lia.
Qed.

(* a read that would take the count past the limit is refused, and so is everything after it *)
Theorem flate_refuses count p n r : flate_limit < count + p -> flate_reads count ((p, n) :: r) = Err 1.
Proof. intros H. simpl. unfold flate_read. apply Z.ltb_lt in H. rewrite H. reflexivity. Qed.

Theorem flate_reads_not_panic l : forall count, flate_reads count l <> Panic.
Proof.
  induction l as [|[p n] r IH]; intros count; simpl; [congruence|].
  unfold flate_read. destruct (flate_limit <? count + p); simpl; [congruence|apply IH].
Qed.
