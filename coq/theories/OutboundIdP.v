(* OutboundIdP.v — the SP's AuthnRequest as a record (MakeAuthenticationRequest,
   service_provider.go) and its view in the IdP model (IdPModel.authnreq, what
   IdpAuthnRequest.Validate reads after xml.Unmarshal).  Bridges Outbound.v and
   IdPModel.v; definitions only, lemmas are in OutboundIdPProofs.v. *)
(* IdPModel is imported first: where the two models use the same name (spcfg,
   endpoint, sp_idp_entity, ...) the unqualified name is Outbound's; IdPModel's
   are always written qualified *)
From Saml Require Import IdPModel.
From Saml Require Import Base UrlEnc TimeModel Outbound.

(* IssueInstant is written by Element() as Format("2006-01-02T15:04:05.999Z07:00"):
   the digits below the millisecond are cut off (no rounding); the IdP parses
   that text (RelaxedTime), which is then already on a millisecond *)
Definition wire_instant (t : Z) : Z := t / ns_per_ms * ns_per_ms.
(* the attribute text (TimeNow() is UTC) *)
Definition issue_instant_text (now : Z) : string := format_relaxed (wire_instant now).

(* the AuthnRequest MakeAuthenticationRequest builds *)
Record authn_request := {
  aq_id : string; aq_version : string; aq_issue_instant : Z;      (* TimeNow() *)
  aq_destination : string; aq_issuer : string;
  aq_acs_url : string; aq_protocol_binding : string;
  aq_nameid_format : string; aq_allow_create : bool;
  aq_force_authn : option bool; aq_authn_ctx : option (string * string) }.

(* MakeAuthenticationRequest(idpURL, binding, resultBinding): draws the ID from
   the random source, reads the clock; Ok (request, rest of the stream).
   (Signing for the POST binding is Outbound.make_message; the relay state is
   not part of the request: it travels beside it.) *)
Definition make_authn_request (c : spcfg) (stream : string) (now : Z) (dest result_binding : string)
  : outcome (authn_request * string) :=
  do (id, rest) <- new_id stream;
  Ok ({| aq_id := id; aq_version := "2.0"; aq_issue_instant := now;
         aq_destination := dest; aq_issuer := issuer_of c;
         aq_acs_url := sp_acs_url c; aq_protocol_binding := result_binding;
         aq_nameid_format := name_id_format c; aq_allow_create := true;
         aq_force_authn := sp_force_authn c; aq_authn_ctx := sp_authn_ctx c |}, rest).

(* the attribute / child values Element() writes for it: the list the
   correspondence check reads back from the wire (Outbound.authn_fields) *)
Definition fields_of_request (r : authn_request) : fields :=
  [ ("ID", Some (aq_id r)); ("Version", Some (aq_version r));
    ("Destination", opt_nonempty (aq_destination r));
    ("Issuer", Some (aq_issuer r));
    ("AssertionConsumerServiceURL", opt_nonempty (aq_acs_url r));
    ("ProtocolBinding", opt_nonempty (aq_protocol_binding r));
    ("NameIDPolicy/Format", opt_nonempty (aq_nameid_format r));
    ("NameIDPolicy/AllowCreate", Some (bool_text (aq_allow_create r)));
    ("ForceAuthn", option_map bool_text (aq_force_authn r));
    ("RequestedAuthnContext/Comparison", option_map fst (aq_authn_ctx r));
    ("RequestedAuthnContext/ClassRef", option_map snd (aq_authn_ctx r)) ].

(* what the IdP holds after decoding the wire form: IssueInstant as written
   (millisecond), Issuer element present, ACS URL, no ACS index *)
Definition to_authnreq (r : authn_request) : IdPModel.authnreq :=
  {| IdPModel.rq_id := aq_id r; IdPModel.rq_version := aq_version r;
     IdPModel.rq_issue := wire_instant (aq_issue_instant r);
     IdPModel.rq_destination := aq_destination r;
     IdPModel.rq_issuer := Some (aq_issuer r);
     IdPModel.rq_acs_url := aq_acs_url r; IdPModel.rq_acs_index := EmptyString |}.

(* the SP as the IdP model describes it (IdPModel.spcfg), for the same configuration;
   key / signing / IdP-side fields do not influence request validation *)
Definition idp_view (c : spcfg) (key : option Z) (rsa signs : bool) (idp_key : Z) (allow : bool) : IdPModel.spcfg :=
  {| IdPModel.sp_entity := issuer_of c; IdPModel.sp_acs := sp_acs_url c;
     IdPModel.sp_key := key; IdPModel.sp_key_rsa := rsa; IdPModel.sp_signs := signs;
     IdPModel.sp_idp_entity := sp_idp_entity c; IdPModel.sp_idp_key := idp_key;
     IdPModel.sp_allow_initiated := allow |}.

(* ---------- correspondence-check entry point ---------- *)
(* Element() formats the instant in the time's own location: layout
   "2006-01-02T15:04:05.999Z07:00" writes the wall clock of that zone followed
   by "Z" for UTC or the offset "+hh:mm" / "-hh:mm" (zones of whole minutes). *)
Definition zone_text (off : Z) : string :=
  if off =? 0 then "Z"
  else (if off <? 0 then "-" else "+")
       +++ fixw 2 (Z.abs off / 3600) +++ ":" +++ fixw 2 (Z.abs off mod 3600 / 60).
Fixpoint drop_last_char (s : string) : string :=
  match s with
  | EmptyString => EmptyString
  | String _ EmptyString => EmptyString
  | String c r => String c (drop_last_char r)
  end.
(* the attribute text for a clock reading [now] in a zone [off] seconds east of UTC *)
Definition issue_instant_text_zoned (now off : Z) : string :=
  drop_last_char (format_relaxed (wire_instant now + off * ns_per_s)) +++ zone_text off.

(* instant case: the SP's clock (ns) and its zone offset (s), the IssueInstant
   attribute read back from the wire of the emitted message, and (for
   AuthnRequests; true/false otherwise) this library's IdP's verdicts on that
   request with its own clock exactly at wire instant + MaxIssueDelay and one
   nanosecond later *)
Record iicase := { ii_now : Z; ii_off : Z; ii_text : string; ii_at_bound : bool; ii_after_bound : bool }.
(* agreement is on the INSTANT the text denotes (the model's own rendering
   issue_instant_text_zoned is one spelling of it; writing the same instant in
   UTC or with another equivalent offset spelling is the same message) *)
Definition iicase_agree (c : iicase) : bool :=
  match parse_relaxed (ii_text c), parse_relaxed (issue_instant_text_zoned (ii_now c) (ii_off c)) with
  | Ok t, Ok t' => t =? t'
  | _, _ => false
  end && ii_at_bound c && negb (ii_after_bound c).
(* whatever zone the clock is in, the written text denotes (as an INSTANT) the
   SP's clock cut to the millisecond, and the IdP accepts within MaxIssueDelay of it *)
Definition iicase_spec (c : iicase) : bool :=
  match parse_relaxed (ii_text c) with
  | Ok t => (t =? wire_instant (ii_now c)) && (t <=? ii_now c) && (ii_now c <? t + ns_per_ms)
  | _ => false
  end && ii_at_bound c && negb (ii_after_bound c).
Definition check_iicases := check_cases iicase_agree iicase_spec.
