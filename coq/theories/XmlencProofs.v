(* XmlencProofs.v — padding round trip, totality of Decrypt, CBC and
   encrypt/decrypt round trips over abstract primitives. *)
From Saml Require Import Base Xmlenc.
From Coq Require Import ZifyBool.
Ltac Zify.zify_post_hook ::= Z.div_mod_to_equations.

Local Open Scope list_scope.

(* ---------- lists of bytes ---------- *)
Lemma blen_app a b : blen (a ++ b) = blen a + blen b.
Proof. unfold blen. rewrite app_length. lia. Qed.
Lemma blen_nonneg b : 0 <= blen b.
Proof. unfold blen. lia. Qed.
Lemma zeros_length n : List.length (zeros n) = n.
Proof. induction n; cbn; [reflexivity|]. now rewrite IHn. Qed.
Lemma blen_zeros n : blen (zeros n) = Z.of_nat n.
Proof. unfold blen. now rewrite zeros_length. Qed.
Lemma btake_app_exact a b : btake (blen a) (a ++ b) = a.
Proof.
  unfold btake, blen. rewrite Nat2Z.id.
  rewrite firstn_app, Nat.sub_diag, firstn_all. cbn. apply app_nil_r.
Qed.
Lemma bdrop_app_exact a b : bdrop (blen a) (a ++ b) = b.
Proof.
  unfold bdrop, blen. rewrite Nat2Z.id.
  rewrite skipn_app, Nat.sub_diag, skipn_all. reflexivity.
Qed.
Lemma btake_app_n n a b : blen a = n -> btake n (a ++ b) = a.
Proof. intros <-. apply btake_app_exact. Qed.
Lemma bdrop_app_n n a b : blen a = n -> bdrop n (a ++ b) = b.
Proof. intros <-. apply bdrop_app_exact. Qed.
Lemma blen_bdrop n b : 0 <= n <= blen b -> blen (bdrop n b) = blen b - n.
Proof. unfold blen, bdrop. intros H. rewrite skipn_length. lia. Qed.
Lemma blen_btake n b : 0 <= n <= blen b -> blen (btake n b) = n.
Proof. unfold blen, btake. intros H. rewrite firstn_length. lia. Qed.

(* ---------- padding ---------- *)
Theorem pad_roundtrip bs p :
  0 < bs <= 255 -> strip_padding (append_padding bs p) = Ok p.
Proof.
  intros Hbs. unfold append_padding.
  set (n := bs - blen p mod bs).
  assert (Hn : 1 <= n <= bs) by (unfold n; pose proof (blen_nonneg p); lia).
  unfold strip_padding.
  assert (L : blen (p ++ zeros (Z.to_nat (n - 1)) ++ [n]) = blen p + n).
  { rewrite !blen_app, blen_zeros. change (blen [n]) with 1. lia. }
  assert (LA : last (p ++ zeros (Z.to_nat (n - 1)) ++ [n]) 0 = n).
  { rewrite app_assoc. apply last_last. }
  rewrite L, LA. pose proof (blen_nonneg p).
  destruct (blen p + n <? 1) eqn:E1; [lia|].
  destruct (blen p + n <? n) eqn:E2; [lia|].
  destruct (n <? 1) eqn:E3; [lia|].
  replace (blen p + n - n) with (blen p) by lia. rewrite btake_app_exact. reflexivity.
Qed.

Theorem pad_length bs p :
  0 < bs -> blen (append_padding bs p) mod bs = 0 /\ blen p < blen (append_padding bs p) <= blen p + bs.
Proof.
  intros Hbs. unfold append_padding. set (n := bs - blen p mod bs).
  pose proof (blen_nonneg p) as Hp.
  pose proof (Z.mod_pos_bound (blen p) bs Hbs) as Hm.
  assert (Hn : 1 <= n <= bs) by (unfold n; lia).
  rewrite !blen_app, blen_zeros. change (blen [n]) with 1.
  replace (blen p + (Z.of_nat (Z.to_nat (n - 1)) + 1)) with (blen p + n) by lia.
  split; [|lia].
  unfold n. pose proof (Z.div_mod (blen p) bs ltac:(lia)) as DM.
  replace (blen p + (bs - blen p mod bs)) with ((blen p / bs + 1) * bs) by lia.
  apply Z_mod_mult.
Qed.

(* the three guards of stripPadding, exactly *)
Theorem strip_padding_spec buf p :
  strip_padding buf = Ok p <->
  1 <= blen buf /\ 1 <= last buf 0 <= blen buf /\ p = btake (blen buf - last buf 0) buf.
Proof.
  unfold strip_padding.
  destruct (blen buf <? 1) eqn:E1; [split; [discriminate|lia]|].
  destruct (blen buf <? last buf 0) eqn:E2; [split; [discriminate|lia]|].
  destruct (last buf 0 <? 1) eqn:E3; [split; [discriminate|lia]|].
  split.
  - intros H. injection H as <-. repeat split; lia.
  - intros (_ & _ & ->). reflexivity.
Qed.

Lemma strip_padding_total buf : strip_padding buf <> Panic.
Proof.
  unfold strip_padding.
  destruct (blen buf <? 1); [discriminate|].
  destruct (blen buf <? last buf 0); [discriminate|].
  destruct (last buf 0 <? 1); discriminate.
Qed.

(* an empty plaintext is one full block of padding and comes back empty *)
Example pad_empty : strip_padding (append_padding 16 []) = Ok [].
Proof. vm_compute. reflexivity. Qed.

(* ---------- totality of Decrypt (C11) ---------- *)
Lemma mod_sub_self x b : 0 < b -> x mod b = 0 -> (x - b) mod b = 0.
Proof.
  intros Hb H. rewrite <- (Z.mod_add (x - b) 1 b) by lia.
  replace (x - b + 1 * b) with x by lia. exact H.
Qed.

Lemma block_size_pos a : 0 < block_size a <= 255.
Proof. destruct a; cbn; lia. Qed.

Lemma get_ciphertext_total cv : get_ciphertext cv <> Panic.
Proof. destruct cv; discriminate. Qed.

Lemma cbc_decrypt_body_total P a kb cv : cbc_decrypt_body P a kb cv <> Panic.
Proof.
  unfold cbc_decrypt_body. destruct cv as [| |ct]; cbn [get_ciphertext bind]; try discriminate.
  pose proof (block_size_pos a) as Hb. pose proof (blen_nonneg ct) as Hc.
  destruct (blen ct <? block_size a) eqn:E1; [discriminate|].
  destruct (blen ct mod block_size a =? 0) eqn:E2; cbn [negb]; [|discriminate].
  unfold slice_to, slice_from.
  replace ((0 <=? block_size a) && (block_size a <=? blen ct)) with true by lia.
  cbn [bind]. unfold crypt_blocks.
  rewrite blen_bdrop by lia.
  rewrite (mod_sub_self (blen ct) (block_size a)) by lia. cbn [Z.eqb].
  cbn [bind]. apply strip_padding_total.
Qed.

Lemma gcm_decrypt_body_total P kb cv : gcm_decrypt_body P kb cv <> Panic.
Proof.
  unfold gcm_decrypt_body. destruct cv as [| |ct]; cbn [get_ciphertext bind]; try discriminate.
  pose proof (blen_nonneg ct) as Hc. unfold nonce_size.
  destruct (blen ct <? 12) eqn:E1; [discriminate|].
  unfold slice_to, slice_from.
  replace ((0 <=? 12) && (12 <=? blen ct)) with true by lia. cbn [bind].
  destruct (p_open P kb (btake 12 ct) (bdrop 12 ct)); discriminate.
Qed.

Lemma rsa_decrypt_total P t key dg cert cv : rsa_decrypt P t key dg cert cv <> Panic.
Proof.
  unfold rsa_decrypt. destruct key as [b|id|]; try discriminate.
  destruct cert as [| | | |id']; cbn [bind]; try discriminate.
  - destruct cv; cbn [get_ciphertext bind]; try discriminate.
    destruct dg as [|u]; cbn [bind].
    + destruct (p_unwrap P t sha1_uri id b); discriminate.
    + destruct (mem_str u digest_uris); cbn [bind]; [|discriminate].
      destruct (p_unwrap P t u id b); discriminate.
  - destruct (id =? id'); cbn [bind]; [|discriminate].
    destruct cv; cbn [get_ciphertext bind]; try discriminate.
    destruct dg as [|u]; cbn [bind].
    + destruct (p_unwrap P t sha1_uri id b); discriminate.
    + destruct (mem_str u digest_uris); cbn [bind]; [|discriminate].
      destruct (p_unwrap P t u id b); discriminate.
Qed.

Lemma key_bytes_total a k : key_bytes a k <> Panic.
Proof. destruct k as [b| |]; cbn; try discriminate. destruct (blen b =? key_size a); discriminate. Qed.

(* Decrypt never panics: for every primitive behaviour, every key value and
   every element tree, including encrypted keys nested to any depth *)
Fixpoint decrypt_total (P : prims) (el : eel) : forall key, decrypt P key el <> Panic.
Proof.
  destruct el as [method dg cert cv inner]. intros key.
  cbn [decrypt]. destruct method as [uri|]; [|discriminate].
  destruct (find_decrypter uri) as [[a|t]|]; [| apply rsa_decrypt_total | discriminate].
  destruct inner as [i|].
  - pose proof (decrypt_total P i key) as IH.
    destruct (decrypt P key i) as [kb| |]; cbn [bind]; [| discriminate | congruence].
    pose proof (key_bytes_total a (KBytes kb)) as KT.
    destruct (key_bytes a (KBytes kb)) as [kb'| |]; cbn [bind]; [| discriminate | congruence].
    destruct (is_gcm a); [apply gcm_decrypt_body_total | apply cbc_decrypt_body_total].
  - cbn [bind]. pose proof (key_bytes_total a key) as KT.
    destruct (key_bytes a key) as [kb'| |]; cbn [bind]; [| discriminate | congruence].
    destruct (is_gcm a); [apply gcm_decrypt_body_total | apply cbc_decrypt_body_total].
Qed.

(* ---------- exact acceptance conditions (C11) ---------- *)
Theorem cbc_decrypt_body_spec P a kb ct p :
  cbc_decrypt_body P a kb (CVBytes ct) = Ok p <->
  block_size a <= blen ct /\ blen ct mod block_size a = 0 /\
  strip_padding (p_cbc_dec P a kb (btake (block_size a) ct) (bdrop (block_size a) ct)) = Ok p.
Proof.
  unfold cbc_decrypt_body. cbn [get_ciphertext bind].
  pose proof (block_size_pos a) as Hb. pose proof (blen_nonneg ct) as Hc.
  destruct (blen ct <? block_size a) eqn:E1; [split; [discriminate|lia]|].
  destruct (blen ct mod block_size a =? 0) eqn:E2; cbn [negb]; [|split; [discriminate|lia]].
  unfold slice_to, slice_from.
  replace ((0 <=? block_size a) && (block_size a <=? blen ct)) with true by lia.
  cbn [bind]. unfold crypt_blocks. rewrite blen_bdrop by lia.
  rewrite (mod_sub_self (blen ct) (block_size a)) by lia. cbn [Z.eqb].
  cbn [bind]. split; [intros H; repeat split; [lia|lia|exact H] | intros (_ & _ & H); exact H].
Qed.

Theorem gcm_decrypt_body_spec P kb ct p :
  gcm_decrypt_body P kb (CVBytes ct) = Ok p <->
  nonce_size <= blen ct /\ p_open P kb (btake nonce_size ct) (bdrop nonce_size ct) = Some p.
Proof.
  unfold gcm_decrypt_body. cbn [get_ciphertext bind]. pose proof (blen_nonneg ct) as Hc. unfold nonce_size.
  destruct (blen ct <? 12) eqn:E1; [split; [discriminate|lia]|].
  unfold slice_to, slice_from. replace ((0 <=? 12) && (12 <=? blen ct)) with true by lia. cbn [bind].
  destruct (p_open P kb (btake 12 ct) (bdrop 12 ct)) as [q|]; split.
  - intros H. injection H as <-. split; [lia|reflexivity].
  - intros (_ & H). injection H as <-. reflexivity.
  - discriminate.
  - intros (_ & H). discriminate.
Qed.

Lemma firstn_skipn_id {A} n (l : list A) : firstn n l ++ skipn n l = l.
Proof. apply firstn_skipn. Qed.

(* for an authenticated mode, any accepted cipher value is exactly nonce ++ Seal(plaintext):
   every modification of the cipher value is rejected *)
Theorem gcm_modification_rejected P kb ct p :
  (forall k n c q, p_open P k n c = Some q -> c = p_seal P k n q) ->
  gcm_decrypt_body P kb (CVBytes ct) = Ok p ->
  ct = btake nonce_size ct ++ p_seal P kb (btake nonce_size ct) p.
Proof.
  intros AUTH H. apply gcm_decrypt_body_spec in H as (L & O).
  apply AUTH in O. rewrite <- O. unfold btake, bdrop. symmetry. apply firstn_skipn.
Qed.

Theorem rsa_cert_mismatch_rejected P t key dg cert cv k :
  rsa_decrypt P t key dg cert cv = Ok k ->
  exists id, key = KRsa id /\ (cert = CertAbsent \/ cert = CertRsa id).
Proof.
  unfold rsa_decrypt. destruct key as [b|id|]; try discriminate.
  intros H. exists id. split; [reflexivity|].
  destruct cert as [| | | |id']; cbn [bind] in H; try discriminate; [left; reflexivity|].
  destruct (id =? id') eqn:E; cbn [bind] in H; [|discriminate].
  right. f_equal. lia.
Qed.

Theorem rsa_digest_must_be_registered P t id cert ct u k :
  rsa_decrypt P t (KRsa id) (DgUri u) cert (CVBytes ct) = Ok k -> In u digest_uris.
Proof.
  unfold rsa_decrypt. intros H.
  assert (M : mem_str u digest_uris = true).
  { destruct cert as [| | | |id']; cbn [bind] in H; try discriminate.
    - cbn [get_ciphertext bind] in H. destruct (mem_str u digest_uris); [reflexivity|discriminate].
    - destruct (id =? id'); cbn [bind] in H; [|discriminate].
      cbn [get_ciphertext bind] in H. destruct (mem_str u digest_uris); [reflexivity|discriminate]. }
  clear H. unfold digest_uris in *. cbn [mem_str] in M.
  repeat (apply orb_true_iff in M as [M|M]; [apply String.eqb_eq in M; subst u; cbn; tauto|]).
  discriminate.
Qed.

(* ---------- block-level CBC over an abstract block cipher ---------- *)
Lemma xor_bytes_cancel p prev :
  (List.length p <= List.length prev)%nat -> xor_bytes (xor_bytes p prev) prev = p.
Proof.
  revert prev; induction p as [|x p IH]; intros prev H; [reflexivity|].
  destruct prev as [|y prev]; [cbn in H; lia|]. cbn in *. rewrite IH by lia.
  f_equal. rewrite Z.lxor_assoc, Z.lxor_nilpotent, Z.lxor_0_r. reflexivity.
Qed.
Lemma xor_bytes_length p prev :
  List.length p = List.length prev -> List.length (xor_bytes p prev) = List.length p.
Proof.
  revert prev; induction p as [|x p IH]; intros prev H; [reflexivity|].
  destruct prev as [|y prev]; [discriminate|]. cbn in *. rewrite IH by lia. reflexivity.
Qed.

Section BlockCbcProofs.
Variables (E D : bytes -> bytes) (bs : nat).
Hypothesis DE : forall b, List.length b = bs -> D (E b) = b.
Hypothesis lenE : forall b, List.length b = bs -> List.length (E b) = bs.

Theorem cbc_blocks_roundtrip : forall blocks prev,
  List.length prev = bs -> Forall (fun b => List.length b = bs) blocks ->
  cbc_dec_blocks D prev (cbc_enc_blocks E prev blocks) = blocks.
Proof.
  induction blocks as [|p r IH]; intros prev Hp Hall; [reflexivity|].
  inversion Hall as [|x l Hb Hr EQ]. cbn.
  assert (LX : List.length (xor_bytes p prev) = bs) by (rewrite xor_bytes_length; congruence).
  rewrite DE by exact LX. rewrite xor_bytes_cancel by lia. f_equal.
  apply IH; [apply lenE; exact LX | exact Hr].
Qed.
End BlockCbcProofs.

(* ---------- encrypt / decrypt round trip (C10) ---------- *)
Lemma find_decrypter_block a : find_decrypter (block_uri a) = Some (DBlock a).
Proof. destruct a; reflexivity. Qed.
Lemma find_decrypter_transport t : find_decrypter (transport_uri t) = Some (DRsa t).
Proof. destruct t; reflexivity. Qed.

Section RoundTrip.
Variable P : prims.
(* what the mode-level primitives must satisfy (cbc_blocks_roundtrip shows that CBC
   over any invertible block cipher does) *)
Hypothesis cbc_ok : forall a k iv x,
  blen x mod block_size a = 0 ->
  p_cbc_dec P a k iv (p_cbc_enc P a k iv x) = x /\ blen (p_cbc_enc P a k iv x) = blen x.
Hypothesis wrap_ok : forall t d id k, In d digest_uris -> p_unwrap P t d id (p_wrap P t d id k) = Some k.
Hypothesis wrap_pkcs_ok : forall d id k, p_unwrap P Pkcs1v15 d id (p_wrap P Pkcs1v15 "" id k) = Some k.

Lemma cbc_body_roundtrip a kb iv plain :
  is_gcm a = false -> blen iv = block_size a ->
  cbc_decrypt_body P a kb (CVBytes (iv ++ p_cbc_enc P a kb iv (append_padding (block_size a) plain))) = Ok plain.
Proof using cbc_ok.
  clear wrap_ok wrap_pkcs_ok.
  intros NG Hiv. pose proof (block_size_pos a) as Hb.
  destruct (pad_length (block_size a) plain ltac:(lia)) as (PM & PL).
  destruct (cbc_ok a kb iv _ PM) as (DEQ & LEN).
  apply cbc_decrypt_body_spec. rewrite blen_app, LEN, Hiv.
  pose proof (blen_nonneg plain).
  split; [lia|]. split.
  { rewrite Z.add_comm. rewrite <- (Z.mul_1_l (block_size a)) at 2. rewrite Z.mod_add by lia. exact PM. }
  rewrite (btake_app_n _ _ _ Hiv), (bdrop_app_n _ _ _ Hiv). rewrite DEQ.
  apply pad_roundtrip. exact Hb.
Qed.

(* direct key: every offered CBC cipher, every key of the right size, every IV of
   block size, every plaintext *)
Theorem block_roundtrip a k iv plain el :
  is_gcm a = false -> blen k = key_size a -> blen iv = block_size a ->
  block_encrypt P a (KBytes k) iv None plain = Ok el ->
  decrypt P (KBytes k) el = Ok plain.
Proof using cbc_ok.
  clear wrap_ok wrap_pkcs_ok.
  intros NG Hk Hiv. unfold block_encrypt. rewrite NG. unfold cbc_encrypt.
  unfold key_bytes. rewrite Hk, Z.eqb_refl. cbn [bind].
  pose proof (block_size_pos a) as Hb.
  destruct (pad_length (block_size a) plain ltac:(lia)) as (PM & PL).
  unfold crypt_blocks. rewrite PM. cbn [Z.eqb bind]. intros H. injection H as <-.
  cbn [decrypt]. rewrite find_decrypter_block. cbn [bind].
  unfold key_bytes. rewrite Hk, Z.eqb_refl. cbn [bind]. rewrite NG.
  apply cbc_body_roundtrip; assumption.
Qed.

Theorem block_encrypt_succeeds a k iv plain :
  is_gcm a = false -> blen k = key_size a ->
  exists el, block_encrypt P a (KBytes k) iv None plain = Ok el.
Proof using Type.
  clear cbc_ok wrap_ok wrap_pkcs_ok.
  intros NG Hk. unfold block_encrypt. rewrite NG. unfold cbc_encrypt, key_bytes. rewrite Hk, Z.eqb_refl.
  cbn [bind]. pose proof (block_size_pos a) as Hb.
  destruct (pad_length (block_size a) plain ltac:(lia)) as (PM & PL).
  unfold crypt_blocks. rewrite PM. cbn [Z.eqb bind]. eexists. reflexivity.
Qed.

(* shape of what block_encrypt returns for a CBC cipher *)
Lemma block_encrypt_shape a k iv plain :
  is_gcm a = false -> blen k = key_size a ->
  block_encrypt P a (KBytes k) iv None plain =
  Ok (EEl (Some (block_uri a)) DgAbsent CertAbsent
          (CVBytes (iv ++ p_cbc_enc P a k iv (append_padding (block_size a) plain))) None).
Proof using Type.
  clear cbc_ok wrap_ok wrap_pkcs_ok.
  intros NG Hk. unfold block_encrypt. rewrite NG. unfold cbc_encrypt, key_bytes. rewrite Hk, Z.eqb_refl.
  cbn [bind]. pose proof (block_size_pos a) as Hb.
  destruct (pad_length (block_size a) plain ltac:(lia)) as (PM & PL).
  unfold crypt_blocks. rewrite PM. reflexivity.
Qed.

Lemma mem_digest u : In u digest_uris -> mem_str u digest_uris = true.
Proof using Type.
  unfold digest_uris. cbn [In mem_str]. unfold seqb. intros IN.
  repeat (destruct IN as [<-|IN]; [rewrite String.eqb_refl; rewrite ?orb_true_r; reflexivity|]).
  contradiction.
Qed.

(* key transport: the content key drawn for this call is wrapped to the certificate's
   key, and the holder of the matching private key gets the plaintext back *)
Theorem oaep_roundtrip t u a id ck iv plain el :
  t <> Pkcs1v15 -> In u digest_uris ->
  is_gcm a = false -> blen ck = key_size a -> blen iv = block_size a ->
  rsa_encrypt P t (Some u) a (Some id) ck iv None plain = Ok el ->
  decrypt P (KRsa id) el = Ok plain.
Proof using cbc_ok wrap_ok.
  clear wrap_pkcs_ok.
  intros NP IN NG Hk Hiv. unfold rsa_encrypt.
  rewrite block_encrypt_shape by assumption. cbn [bind]. intros H. injection H as <-.
  cbn [decrypt]. rewrite find_decrypter_block, find_decrypter_transport.
  assert (UW : rsa_decrypt P t (KRsa id) (match t with Pkcs1v15 => DgAbsent | _ => DgUri u end) (CertRsa id)
                 (CVBytes (p_wrap P t (match t with Pkcs1v15 => "" | _ => u end) id ck)) = Ok ck).
  { unfold rsa_decrypt. rewrite Z.eqb_refl. cbn [bind get_ciphertext].
    destruct t; try congruence; cbn [bind]; rewrite (mem_digest u IN); cbn [bind];
      rewrite wrap_ok by exact IN; reflexivity. }
  destruct t; try congruence; rewrite UW; cbn [bind]; unfold key_bytes; rewrite Hk, Z.eqb_refl; cbn [bind];
    rewrite NG; apply cbc_body_roundtrip; assumption.
Qed.

Theorem pkcs_roundtrip digest a id ck iv plain el :
  is_gcm a = false -> blen ck = key_size a -> blen iv = block_size a ->
  rsa_encrypt P Pkcs1v15 digest a (Some id) ck iv None plain = Ok el ->
  decrypt P (KRsa id) el = Ok plain.
Proof using cbc_ok wrap_pkcs_ok.
  clear wrap_ok.
  intros NG Hk Hiv. unfold rsa_encrypt.
  rewrite block_encrypt_shape by assumption. cbn [bind]. intros H. injection H as <-.
  change (Some "http://www.w3.org/2001/04/xmlenc#rsa-1_5") with (Some (transport_uri Pkcs1v15)).
  cbn [decrypt]. rewrite find_decrypter_block, find_decrypter_transport.
  assert (UW : rsa_decrypt P Pkcs1v15 (KRsa id) DgAbsent (CertRsa id) (CVBytes (p_wrap P Pkcs1v15 "" id ck)) = Ok ck).
  { unfold rsa_decrypt. rewrite Z.eqb_refl. cbn [bind get_ciphertext]. rewrite wrap_pkcs_ok. reflexivity. }
  rewrite UW. cbn [bind]. unfold key_bytes. rewrite Hk, Z.eqb_refl. cbn [bind].
  rewrite NG. apply cbc_body_roundtrip; assumption.
Qed.
End RoundTrip.

(* every algorithm identifier the package can emit has a registered decrypter, every
   digest identifier a registered digest (finite; by computation) *)
Theorem offered_all_registered :
  forallb (fun a => match find_decrypter (block_uri a) with Some (DBlock b) => true | _ => false end) all_blockalgs = true /\
  forallb (fun t => match find_decrypter (transport_uri t) with Some (DRsa _) => true | _ => false end) all_transports = true /\
  forallb (fun u => mem_str u digest_uris) digest_uris = true.
Proof. vm_compute. repeat split; reflexivity. Qed.

(* AES-GCM Encrypt as coded (known finding K1): with a nil nonce it panics, so the
   round trip fails for that algorithm *)
Theorem gcm_encrypt_refuted :
  exists (P : prims) k plain, blen k = key_size Aes128Gcm /\
    block_encrypt P Aes128Gcm (KBytes k) [] None plain = Panic.
Proof.
  exists {| p_cbc_enc := fun _ _ _ x => x; p_cbc_dec := fun _ _ _ x => x; p_seal := fun _ _ x => x;
            p_open := fun _ _ x => Some x; p_wrap := fun _ _ _ x => x; p_unwrap := fun _ _ _ x => Some x |}.
  exists (zeros 16), []. split; reflexivity.
Qed.

(* ... and with a supplied nonce the cipher value is the sealed zero buffer without
   the nonce, not  nonce ++ Seal(plaintext)  as the W3C layout requires *)
Theorem gcm_encrypt_layout_refuted :
  exists (P : prims) k n plain v,
    block_encrypt P Aes128Gcm (KBytes k) [] (Some n) plain = Ok (EEl (Some (block_uri Aes128Gcm)) DgAbsent CertAbsent (CVBytes v) None)
    /\ v <> (n ++ p_seal P k n plain).
Proof.
  exists {| p_cbc_enc := fun _ _ _ x => x; p_cbc_dec := fun _ _ _ x => x; p_seal := fun _ _ x => x;
            p_open := fun _ _ x => Some x; p_wrap := fun _ _ _ x => x; p_unwrap := fun _ _ _ x => Some x |}.
  exists (zeros 16), (zeros 12), [7], (zeros 16). split; [reflexivity|]. cbn. discriminate.
Qed.

(* the spec monitor's certificate clause holds of the model: a mismatched or non-RSA
   certificate anywhere on the decryption path makes Decrypt fail *)
Fixpoint cert_mismatch_rejects (P : prims) (el : eel) :
  forall key, cert_mismatch key el = true -> is_ok (decrypt P key el) = false.
Proof.
  destruct el as [method dg cert cv inner]. intros key H.
  cbn [cert_mismatch] in H. destruct method as [uri|]; [|discriminate].
  cbn [decrypt]. destruct (find_decrypter uri) as [[a|t]|]; [| |discriminate].
  - destruct inner as [i|]; [|discriminate].
    pose proof (cert_mismatch_rejects P i key H) as IH.
    destruct (decrypt P key i); cbn in IH |- *; [discriminate|reflexivity|reflexivity].
  - unfold rsa_decrypt. destruct key as [b|id|]; try discriminate.
    destruct cert as [| | | |id']; try discriminate; cbn [bind]; [reflexivity|].
    destruct (id =? id'); [discriminate|reflexivity].
Qed.
